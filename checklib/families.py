"""
Correspondence families: each runs part of the Go harness (implementation,
built from /repo with -tags verif), feeds the same operations to the Lean
model driver, compares, and evaluates the property's specification on the
implementation's results.
"""
import os, subprocess, collections, re, json


class Ctx:
    def __init__(self, **kw):
        self.__dict__.update(kw)

    @property
    def thorough(self):
        return self.tier == "thorough"


class FamResult:
    def __init__(self, name):
        self.name = name
        self.evaluations = 0
        self.distinct_nontrivial = 0
        self.rule = ""
        self.samples = []
        self.failures = []   # {kind: monitor|corr, key, what, replay_lines}
        self.summary = {}


def alt_match(impl, model):
    """The model may print `a/b` where two goroutines legitimately race (documented in the model); either is accepted."""
    if "/" not in model and "RACE:" not in model and "failed_to_read_settings" not in model:
        return False
    rx = re.escape(model)
    # the carrier ending while newTunnelChannel waits for the settings frame: gRPC cancels the stream's context before
    # Recv reports the end, so the constructor's ctx.Done arm (close(ctx.Err())) races with the receive loop's
    # close("failed to read settings"); either error is recorded
    rx = rx.replace(re.escape("chan-finished failed_to_read_settings"), r"chan-finished (?:failed_to_read_settings|err:context_canceled)")
    # a blocked Header() races with the watcher that publishes "no headers" when the context ends
    rx = rx.replace(re.escape("other:RACE:ctx-or-nil-headers"), r"(?:ctx:canceled|ctx:deadline|md\{-\})")
    # a WaitForReady started from the close callback of the last tunnel: the callback may run before the receive loop unregistered it
    rx = rx.replace(re.escape("RACE:ok-or-parked"), r"(?:ok|parked)")
    rx = re.sub(r"(\d+)((?:/\d+)+)", lambda m: "(?:" + "|".join([m.group(1)] + m.group(2).strip("/").split("/")) + ")", rx)
    return re.fullmatch(rx, impl) is not None


def run_harness(ctx, test_regex, out_dir, env_extra=None, timeout=None):
    if timeout is None:
        timeout = 2400 if ctx.tier == "thorough" else 420
    env = dict(os.environ, VERIF_OUT=out_dir, VERIF_SEED=str(ctx.seed), VERIF_TIER=ctx.tier)
    if ctx.replay:
        env["VERIF_REPLAY"] = ctx.replay
    env.update(env_extra or {})
    os.makedirs(out_dir, exist_ok=True)
    p = subprocess.run([ctx.harness, "-test.run", test_regex, "-test.count=1", "-test.timeout", f"{timeout}s"],
                       env=env, stdout=subprocess.PIPE, stderr=subprocess.STDOUT, text=True, errors="replace",
                       cwd=out_dir, timeout=timeout + 60)
    return p.returncode, p.stdout


def run_driver(ctx, ops_path, timeout=1500):
    with open(ops_path) as f:
        p = subprocess.run([ctx.driver], stdin=f, stdout=subprocess.PIPE, stderr=subprocess.STDOUT, text=True,
                           errors="replace", timeout=timeout)
    return p.returncode, p.stdout.split("\n")


def harness_failure(fr, test_regex, rc, out):
    """The harness itself failed (panic, timeout, t.Error*): that is a broken
    correspondence unless the family reports something more specific."""
    tail = out[-3000:]
    fr.failures.append({"kind": "corr", "key": "harness-" + fr.name,
                        "what": f"harness {test_regex} exited {rc}",
                        "replay_lines": [f"harness test {test_regex} failed (exit {rc})", tail]})


def ops_family(name, test_regex, files, mode="exact", nontrivial=None, classify=None, rule="", env=None,
               n_quick=None, n_thorough=None, monitor=None, dkey=None, scenario_start=None):
    """
    Generic family: the harness writes <file>.ops / <file>.impl; the driver
    produces the model's answers.  mode:
      exact     -- impl line must equal model line (correspondence)
      modelspec -- model prints "<model> | spec <spec>"; impl must equal the
                   model column (correspondence) and the spec column (monitor)
    `monitor(op, impl)` may return a failure key for an implementation answer
    that violates the property regardless of the model.
    """
    def fam(ctx):
        fr = FamResult(name)
        fr.rule = rule
        out_dir = os.path.join(ctx.workdir, name)
        e = dict(env or {})
        n = n_thorough if ctx.thorough else n_quick
        if n is not None:
            e["VERIF_N"] = str(n)
        rc, out = run_harness(ctx, test_regex, out_dir, e)
        if rc != 0 and "watchdog: no progress" not in out:
            harness_failure(fr, test_regex, rc, out)
        counts = collections.Counter()
        distinct = set()
        for fn in files:
            ops_p = os.path.join(out_dir, fn + ".ops")
            impl_p = os.path.join(out_dir, fn + ".impl")
            if not os.path.exists(ops_p):
                fr.failures.append({"kind": "corr", "key": "missing-" + fn, "what": f"harness wrote no {fn}.ops",
                                    "replay_lines": [out[-2000:]]})
                continue
            ops = open(ops_p).read().split("\n")
            impl = open(impl_p).read().split("\n")
            drc, model = run_driver(ctx, ops_p)
            if drc != 0:
                fr.failures.append({"kind": "corr", "key": "driver-" + fn, "what": f"model driver exited {drc}",
                                    "replay_lines": model[-20:]})
                continue
            last_start = 0
            def scenario(i):
                if scenario_start is None:
                    return []
                lo = max(last_start, i - 400)
                return ["--- scenario (op => implementation answer) ---"] + \
                       [f"{ops[j]}  =>  {impl[j] if j < len(impl) else ''}" for j in range(lo, i + 1)]
            for i, op in enumerate(ops):
                if not op:
                    continue
                if scenario_start is not None and scenario_start(op):
                    last_start = i
                im = impl[i] if i < len(impl) else "<missing>"
                mo = model[i] if i < len(model) else "<missing>"
                fr.evaluations += 1
                if im.startswith("HANG"):
                    fr.failures.append({"kind": "monitor", "key": "endpoint-hung",
                                        "what": f"{name}: the implementation hangs on `{op[:100]}` ({im})",
                                        "replay_lines": [f"family {name} ({test_regex}), line {i+1} of {fn}.ops",
                                                         f"the implementation made no progress: {im}"] + scenario(i)})
                    break
                if im == "~":      # intermediate model action inside one implementation step: not observable
                    counts["(intermediate)"] += 1
                    continue
                if mo == "UNSUPPORTED":   # the scenario left the domain of the step-exact model (revision-zero loop blocked)
                    counts["(outside-model)"] += 1
                    continue
                spec = None
                if mode == "modelspec" and " | spec " in mo:
                    mo, spec = mo.split(" | spec ", 1)
                cls = classify(op, im, mo) if classify else "-"
                counts[cls] += 1
                if nontrivial is None or nontrivial(op, im, mo):
                    distinct.add(dkey(op, im, mo) if dkey else op)
                if len(fr.samples) < 3 and (nontrivial is None or nontrivial(op, im, mo)):
                    fr.samples.append({"family": name, "op": op[:200], "impl": im[:200], "model": mo[:200]})
                mkey = None
                if spec is not None and im != spec:
                    mkey = (classify(op, im, spec) if classify else None) or "spec-mismatch"
                    mkey = "spec:" + mkey
                if monitor is not None and mkey is None:
                    mkey = monitor(op, im)
                if mkey is not None:
                    fr.failures.append({"kind": "monitor", "key": re.sub(r"[^A-Za-z0-9_.:-]", "_", mkey),
                                        "what": f"{name}: implementation violates the specification on `{op[:120]}`: got `{im[:120]}`" +
                                                (f", specification says `{spec[:120]}`" if spec is not None else ""),
                                        "replay_lines": [f"family {name} ({test_regex}), line {i+1} of {fn}.ops",
                                                         "op:    " + op, "impl:  " + im, "model: " + mo,
                                                         "spec:  " + str(spec)] + scenario(i)})
                elif im != mo and not alt_match(im, mo):
                    fr.failures.append({"kind": "corr", "key": "corr-" + fn,
                                        "what": f"{name}: model and implementation disagree on `{op[:120]}`",
                                        "replay_lines": [f"correspondence {name} ({test_regex}), line {i+1} of {fn}.ops",
                                                         "op:    " + op, "impl:  " + im, "model: " + mo] + scenario(i)})
        # keep the failure list short but deterministic: first of each key
        seen, short = set(), []
        for f in fr.failures:
            if f["key"] not in seen:
                seen.add(f["key"]); short.append(f)
        fr.summary = {"evaluations": fr.evaluations, "classes": dict(counts), "failures": len(fr.failures)}
        fr.failures = short
        fr.distinct_nontrivial = len(distinct)
        return fr
    return fam


# ---------------------------------------------------------------- C18

def _timeout_class(op, im, mo):
    vals = op.split()[1:]
    if not vals:
        return "no-header"
    last = vals[-1]
    if last == "-":
        return "empty"
    try:
        s = bytes.fromhex(last)
    except ValueError:
        return "?"
    digits, unit = s[:-1], s[-1:]
    if unit not in (b"H", b"M", b"S", b"m", b"u", b"n"):
        return "bad-unit"
    if not digits:
        return "no-digits"
    if digits[:1] in (b"-", b"+"):
        return "signed"
    if not digits.isdigit():
        return "non-digit"
    if len(digits) > 8:
        return "more-than-8-digits"
    if mo == "some 9223372036854775807" or im == "some 9223372036854775807":
        return "saturating"
    return "well-formed"


TIMEOUT = ops_family(
    "timeout", "^TestPureTimeout$", ["timeout"], mode="modelspec",
    nontrivial=lambda op, im, mo: mo.startswith("some") or len(op) > 12,
    classify=_timeout_class,
    rule="grpc-timeout header value lists: every unit x 0..20 digits (all-9s, zeros, 10^k, leading zeros), "
         "maxInt64/unit +-2, signs, spaces, unicode digits, repeated headers, then random values from four generators; "
         "non-trivial = distinct inputs that yield a deadline or are longer than one character",
    n_quick=20000, n_thorough=400000)

# ---------------------------------------------------------------- pure framing / negotiation helpers

SENDALL = ops_family("sendall", "^TestPureSendAll$", ["sendall"],
                     nontrivial=lambda op, im, mo: " m" in mo,
                     rule="revision-zero sender on boundary and random sizes; non-trivial = multi-frame messages",
                     n_quick=300, n_thorough=3000)
PUMP = ops_family("pump", "^TestPurePump$", ["pump"],
                  nontrivial=lambda op, im, mo: "rem=" in mo,
                  rule="real defaultSender under scripted window updates, every burst between two waits compared with Framing.pump; "
                       "non-trivial = bursts that end with the sender blocked",
                  n_quick=300, n_thorough=4000)
SUPPORTED = ops_family("supported", "^TestPureSupported$", ["supported"], rule="supportedRevisions for both option values")
FINDMETHOD = ops_family("findmethod", "^TestPureFindMethod$", ["findmethod"],
                        nontrivial=lambda op, im, mo: mo.startswith("found"),
                        rule="findMethod on a descriptor with duplicate unary/stream names; non-trivial = resolved names")


def _closeerr_monitor(op, im):
    """C04: Done() closed, Err() nil after a clean close and the cause otherwise, later RPCs fail at once."""
    k = dict(a.split("=", 1) for a in op.split()[1:] if "=" in a)
    r = dict(a.split("=", 1) for a in im.split() if "=" in a)
    if im.startswith("start-failed"):
        return None
    if r.get("done") != "closed":
        return "done-not-closed"
    want = {"close": "nil", "cancel": "status:Canceled", "deadline": "status:DeadlineExceeded", "server-stop": "status:Unavailable"}[k["cause"]]
    if k["cause"] == "close" and r.get("err") != "nil":
        return "err-not-nil-after-clean-close"
    if k["cause"] != "close" and r.get("err") == "nil":
        return "err-nil-after-failure"
    if r.get("err") != want:
        return "err-wrong-cause"
    if k["cause"] != "close" and r.get("atdone") == "nil":
        return "err-nil-when-done-closes"
    if k["cause"] == "close" and r.get("atdone") == "err":
        return "err-not-nil-at-done-during-clean-close"
    if r.get("late") != "fails":
        return "rpc-after-termination-does-not-fail"
    if "rpc" in r:
        return "rpc-fails-on-open-tunnel"
    return None


def _early_monitor(op, im):
    """C02: a handler that rejects without reading the request - the caller gets exactly that status, whatever the request size."""
    if op.startswith("x.earlyreject"):
        if "shape=U" in op and im != "status:PermissionDenied":
            return "status-lost-behind-blocked-send" if im == "ctx-canceled" else "wrong-status"
        if "shape=CS" in op and not im.endswith("recv=status:PermissionDenied"):
            return "wrong-status"
    return None


EARLYREJECT = ops_family("earlyreject", "^TestW2EarlyReject$", ["earlyreject"], mode="exact", monitor=_early_monitor,
                         nontrivial=lambda op, im, mo: "size=70000" in op or "size=200000" in op,
                         rule="real grpc-go forward tunnel; unary and client-streaming handlers that return PermissionDenied without reading the request; "
                              "request sizes below and above the 64 KiB window; the caller's result must be exactly that status")


def _neg_monitor(op, im):
    """C11 on the public API: towards a legacy peer (no negotiate header) no settings frame and only revision zero;
    flow control (revision one) exactly when both ends advertise negotiation and neither disabled it."""
    k = dict(a.split("=", 1) for a in op.split()[1:] if "=" in a)
    r = dict(a.split("=", 1) for a in im.split() if "=" in a)
    if r.get("header") != "1":
        return "negotiate-header-not-sent"
    both = k["peer"] == "enabled"
    if "settings" in r:
        if (r["settings"] == "1") != both:
            return "settings-frame-sent-to-legacy-peer" if not both else "settings-frame-missing"
        if "revs" in r and r["settings"] == "1":
            want = "0" if k["lib"] == "disabled" else "0,1"
            if r["revs"] != want:
                return "flow-control-offered-although-disabled" if k["lib"] == "disabled" else "wrong-revisions-in-settings"
        if r.get("close") != "0":
            return "rpc-fails-after-negotiation"
    if "rev" in r:
        want = "1" if both and k["lib"] == "enabled" else "0"
        if r["rev"] != want:
            return "wrong-revision-on-new-stream"
        if r.get("rpc") != "nil":
            return "rpc-fails-after-negotiation"
    return None


NEGOTIATE = ops_family("negotiate", "^TestW2Negotiate$", ["negotiate"], monitor=_neg_monitor,
                       nontrivial=lambda op, im, mo: True,
                       rule="real grpc-go (bufconn): the library as forward caller, reverse server, forward handler and reverse handler (flow control enabled / "
                            "disabled) against a hand-written peer that does or does not advertise negotiation: negotiate header, settings frame, revision of "
                            "new_stream and one unary RPC, compared with Negotiate.settingsSent / revisionUsed")


class _FwdMonitor:
    """C10, forward tunnels: after InitiateShutdown every new RPC on any forward tunnel is refused with Unavailable; RPCs in
    flight finish normally and their tunnels stay up."""

    def __init__(self):
        self.shut = False

    def __call__(self, op, im):
        name = op.split()[0]
        if name == "f.init":
            self.shut = False
        if name == "f.shutdown":
            self.shut = True
        if name == "f.rpc":
            if self.shut and im != "status:Unavailable":
                return "rpc-accepted-during-shutdown"
            if not self.shut and im != "nil":
                return "rpc-fails-before-shutdown"
        if name == "f.hold":
            if self.shut and im == "ok":
                return "rpc-accepted-during-shutdown"
            if not self.shut and im != "ok":
                return "rpc-fails-before-shutdown"
        if name == "f.finish" and im != "eof":
            return "in-flight-rpc-disturbed"
        if name == "f.open" and im != "ok":
            return "forward-tunnel-refused"
        return None


FWDSHUTDOWN = ops_family("fwdshutdown", "^TestW2ForwardShutdown$", ["fwdshutdown"], monitor=_FwdMonitor(),
                         nontrivial=lambda op, im, mo: "Unavailable" in im or im == "eof",
                         rule="real grpc-go (bufconn): up to three forward tunnels of one TunnelServiceHandler, in-flight bidi RPCs, InitiateShutdown at an arbitrary "
                              "point (possibly twice), new unary and bidi RPCs on old and new tunnels before and after, in-flight RPCs continued and finished, virtual "
                              "minutes in between", n_quick=30, n_thorough=600)


def _regrace_monitor(op, im):
    """C12 under real concurrency: once all n open callbacks of a round have fired, the registry is exactly those n tunnels."""
    if not op.startswith("rr.round"):
        return None
    k = dict(a.split("=", 1) for a in op.split()[1:] if "=" in a)
    o = dict(a.split("=", 1) for a in im.split() if "=" in a)
    n = k.get("n")
    if o.get("open") != n:
        return "open-callback-missing"
    if o.get("all") != n:
        return "registry-not-exact"
    if o.get("ready") != "1":
        return "ready-wrong-for-key"
    if o.get("distinct") != n:
        return "keyed-channel-does-not-reach-every-open-tunnel"
    if k.get("waiter") == "1" and o.get("waiter") != "ok":
        return "waiter-not-released"
    if o.get("closed") != n:
        return "close-callback-missing"
    if o.get("left") != "0" or o.get("readyafter") != "0":
        return "registry-entry-left-behind"
    return None


REGRACE = ops_family("regrace", "^TestW2RegistryRace$", ["regrace"], monitor=_regrace_monitor,
                     nontrivial=lambda op, im, mo: True,
                     rule="real grpc-go (bufconn), real clock and parallelism, no bubble: per round a FRESH affinity key, 2-4 reverse tunnels whose registrations are "
                          "released together by a barrier inside the AffinityKey callback, optionally a concurrent KeyAsChannel(key).WaitForReady; once all open "
                          "callbacks fired: AllReverseTunnels, Ready, n consecutive routed RPCs (distinct serving tunnels), the waiter; then every tunnel ends: "
                          "close callbacks, empty registry; compared with the registry model's schedule-independent answer",
                     n_quick=120, n_thorough=1500)


def _idorder_monitor(op, im):
    """C08 under real concurrency: every started RPC's id is on the wire, in strictly increasing order, new_stream first."""
    if not op.startswith("io.round"):
        return None
    o = dict(a.split("=", 1) for a in im.split() if "=" in a)
    if o.get("increasing") != "1":
        return "ids-out-of-order-on-the-wire"
    if o.get("distinct") != "1":
        return "duplicate-id-on-the-wire"
    if o.get("newfirst") != "1":
        return "frame-before-new-stream"
    if o.get("allsent") != "1":
        return "started-rpc-without-new-stream"
    return None


IDORDER = ops_family("idorder", "^TestIdOrder$", ["idorder"], monitor=_idorder_monitor,
                     nontrivial=lambda op, im, mo: True,
                     rule="real newTunnelChannel over a recording carrier, real clock and parallelism, no bubble: per round 2-8 goroutines start 1-3 RPCs each after a "
                          "common barrier (plain, sending at once, half-closing at once, on a cancelled context), random delays at the yield point between id "
                          "allocation and the new_stream Send; observed: every id on the wire, strictly increasing, distinct, each stream's first frame its "
                          "new_stream; compared with the IdAlloc model's (schedule-independent) answer",
                     n_quick=60, n_thorough=1500)


def _bounded_monitor(op, im):
    """C05 / C03 on a tunnel with bounded carriers and stalled applications: a reading application receives everything
    whatever the other streams do; a sender is blocked only behind one full unread window; nothing exceeds a window."""
    if not op.startswith("bd.round"):
        return None
    k = dict(a.split("=", 1) for a in op.split()[1:] if "=" in a)
    halves = k["cfg"].split(";")
    rows = {}
    for part in im.split():
        if ":" in part and part.split(":")[0].isdigit():
            i, v = part.split(":")
            rows[int(i)] = [int(x) for x in v.split(",")]
    if "started=" in im:
        return "rpc-could-not-be-started"
    for i, h in enumerate(halves):
        _, willing, ms = h.split(":")
        total = sum(int(x) for x in ms.split(",")) if ms != "-" else 0
        if i not in rows:
            return "no-observation"
        sent, deliv, queued, rem = rows[i]
        if willing == "1" and deliv != total:
            return "reading-stream-did-not-complete"
        if willing == "0" and sent > 65536:      # a stalled application has taken nothing: everything sent is unread
            return "window-exceeded"
        if willing == "0" and rem > 0 and queued != 65536:
            return "sender-blocked-without-full-window"
    if "serve-did-not-return" in im or "goroutines-left" in im:
        return "tunnel-end-did-not-release-everything"
    return None


BOUNDED = ops_family("bounded", "^TestBounded$", ["bounded"], monitor=_bounded_monitor,
                     nontrivial=lambda op, im, mo: ":0:" in op,
                     rule="real tunnel client and real tunnel server joined by two Go channels of capacity K in {1,2,4,64} frames (Send blocks while full), "
                          "real clock and parallelism, no bubble: per round 1-5 bidi RPCs; each direction of each RPC has 0-4 messages (0 B .. 150 kB, window and chunk "
                          "boundaries) and an application that reads everything or never reads (30 %); when nothing moves any more, bytes on the wire and bytes "
                          "received per half-stream are compared with the closed model's schedule-independent outcome (Closed.runToEnd); non-trivial = rounds with a "
                          "stalled application",
                     n_quick=40, n_thorough=600)


CLOSEERR = ops_family("closeerr", "^TestW2CloseErr$", ["closeerr"], monitor=_closeerr_monitor,
                      nontrivial=lambda op, im, mo: "cause=close" not in op,
                      rule="forward tunnels over real grpc-go (bufconn): Close / cancel / deadline of the opening context / server stop, with and "
                           "without a delay at the yield point inside tunnelChannel.close and with or without a prior RPC; Done(), Err() and a late RPC "
                           "compared with the client endpoint model (Cli.close / carrierEnds / newStream)",
                      n_quick=40, n_thorough=400)


# ---------------------------------------------------------------- C05 / C06: hook-stepped flow control

def _flow_class(op, im, mo):
    if op.startswith("flow.check"):
        return "check"
    if op.startswith("flow.init"):
        return "init"
    a = op.split()[-1]
    extra = ""
    if "spc=parked" in im:
        extra += "+parked"
    if "tok=1" in im:
        extra += "+token"
    return a + extra


def _flow_monitor(op, im):
    if op.startswith("flow.check"):
        for part in im.split():
            k, _, v = part.partition("=")
            if k in ("blockedFull", "restored", "complete", "bounded") and v == "0":
                return "flow-" + k
    if "ovr=1" in im:
        return "flow-overrun"
    if im.startswith("RECEIVER-LOCK-HELD"):
        return "receiver-lock-held-across-callback"
    return None


FLOWSTRESS = ops_family("flowstress", "^TestFlowStress$", ["flowstress"],
                        monitor=lambda op, im: ("sender-stranded" if im.startswith("STRANDED") else
                                                "conforming-sender-overran-window" if im.startswith("OVERRUN") else None),
                        rule="free-running stress of the real defaultSender/defaultReceiver (no hooks, zero-cost sendFunc, real parallelism), six window/message "
                             "configurations; a watchdog reports a sender that stays parked although everything it sent was read and credited back",
                        n_quick=1, n_thorough=4, env={"VERIF_MS": "2000"})


_FLOW_RULE = ("real defaultSender/defaultReceiver stepped by the harness at the verif yield points inside a synctest bubble; "
              "one line per atomic model action, full hook-visible state compared after each; configurations: windows 1..4 (dense "
              "interleavings), small windows with empty messages, real 64 KiB/16 KiB constants, reader budgets, cancellation; "
              "non-trivial = distinct (action, state) lines in which the sender is parked or a wake-up token is present")
FLOW = ops_family("flow", "^TestFlowRandom$", ["flow"], classify=_flow_class, monitor=_flow_monitor,
                  nontrivial=lambda op, im, mo: "spc=parked" in im or "tok=1" in im,
                  dkey=lambda op, im, mo: op + "|" + im, scenario_start=lambda op: op.startswith("flow.init"),
                  rule=_FLOW_RULE, n_quick=400, n_thorough=12000)
FLOWEX = ops_family("flowex", "^TestFlowExhaustive$", ["flowex"], classify=_flow_class, monitor=_flow_monitor,
                    nontrivial=lambda op, im, mo: "spc=parked" in im or "tok=1" in im,
                    dkey=lambda op, im, mo: op + "|" + im, scenario_start=lambda op: op.startswith("flow.init"),
                    rule="all scheduling-choice sequences of four tiny configurations up to a depth bound (stateless replay)",
                    env={"VERIF_DEPTH": "9", "VERIF_MAXSCHED": "3000"})
FLOWEX_DEEP = ops_family("flowex", "^TestFlowExhaustive$", ["flowex"], classify=_flow_class, monitor=_flow_monitor,
                         nontrivial=lambda op, im, mo: "spc=parked" in im or "tok=1" in im,
                         dkey=lambda op, im, mo: op + "|" + im, scenario_start=lambda op: op.startswith("flow.init"),
                         rule="all scheduling-choice sequences of four tiny configurations up to depth 13 (stateless replay)",
                         env={"VERIF_DEPTH": "13", "VERIF_MAXSCHED": "60000"})


# ---------------------------------------------------------------- L-frame worlds (S-world, C-world, W1)

import monitors as MON


def _proj(prop, line):
    """The property's view of an observation line (DESIGN 4.3): a change that
    breaks one property should not light up the others."""
    if line.startswith("left="):                         # end-of-scenario census: C14's (and C04's) business
        return line if prop in ("C14", "C04") else ""
    if prop != "C14":
        line = re.sub(r" G=\d+,\d+,\d+", "", line)      # the goroutine census is C14's business
    o = MON.parse_obs(line)
    if o is None:
        return line
    F = [f"{s}:{f}" for s, f in o["F"]]
    D = [f"{s}.{op}:{r}" for s, op, r in o["D"]]
    E = o["E"]
    T = "-" if o["T"] is None else ",".join(map(str, o["T"]))
    L = o["L"]
    kind = lambda f: f.split(":")[1].split("{")[0]
    if prop == "C01":
        return f"D={[d for d in D if '.recv:' in d or '.decode:' in d or '.invoke:' in d]} F={[f for f in F if kind(f) in ('msg', 'more', 'wu')]}"
    if prop == "C02":
        # headers / close frames, metadata calls, and how every receive ended (payloads abstracted)
        ends = [re.sub(r"(recv|decode|invoke):msg:.*", r"\1:msg", d) for d in D if '.recv:' in d or '.decode:' in d or '.invoke:' in d]
        return f"F={[f for f in F if kind(f) in ('hdr', 'close')]} D={[d for d in D if '.sethdr:' in d or '.sendhdr:' in d or '.settlr:' in d or '.header:' in d or '.trailer:' in d] + ends}"
    if prop == "C05":
        # when data and credit flow, and when every blocked send returns
        return f"F={[f for f in F if kind(f) in ('msg', 'more', 'wu')]} D={[d for d in D if '.send:' in d]}"
    if prop == "C06":
        return f"F={[f for f in F if kind(f) in ('msg', 'more', 'wu', 'close')]}"
    if prop == "C07":
        return f"E={[e for e in E if e.startswith('ctxdone')]} T={T} D={D}"
    if prop == "C08":
        return f"E={[e for e in E if e.startswith('entered') or e.startswith('serve-returned') or e.startswith('chan-')]} T={T} L={L} D={[d for d in D if '.decode:' in d or '.new:' in d]}"
    if prop == "C10":
        return f"F={[f for f in F if kind(f) == 'close']} E={E} T={T}"
    if prop == "C11":
        # what negotiation decides: settings, the revision carried by new_stream, and whether window updates flow
        return f"F={[f for f in F if kind(f) in ('settings', 'new', 'wu')]} E={[e for e in E if e.startswith('settings') or e.startswith('chan-')]}"
    if prop == "C13":
        return f"F={F}"
    if prop == "C14":
        return f"T={T} L={L} E={[e for e in E if not e.startswith('ctxdone')]}" + o["rest"]
    if prop == "C15":
        return ""       # the deterministic worlds serve C15 only as a search for deadlocks (HANG lines) and panics
    if prop == "C16":
        return f"D={[d for d in D if any(x in d for x in ('.recv:', '.decode:', '.send:', '.invoke:'))]} F={[f for f in F if kind(f) == 'close']}"
    if prop == "C18":
        return f"E={[e for e in E if e.startswith('ctxdone')]}"
    return line


def world_family(name, test_regex, fn, monitor_cls, prop, scenario_marker, rule, n_quick, n_thorough, env=None, compare="view"):
    """An L-frame world: lines are compared in the property's view; the
    implementation lines are fed to the specification monitor and only this
    property's violations count here."""
    def fam(ctx):
        fr = FamResult(name)
        fr.rule = rule
        out_dir = os.path.join(ctx.workdir, name)
        e = dict(env or {})
        e["VERIF_N"] = str(n_thorough if ctx.thorough else n_quick)
        if not os.path.exists(os.path.join(out_dir, fn + ".ops")):   # several properties share one run of the world
            rc, out = run_harness(ctx, test_regex, out_dir, e)
            if rc != 0 and "watchdog: no progress" not in out:
                harness_failure(fr, test_regex, rc, out)
                open(os.path.join(out_dir, "FAILED"), "w").write(out[-3000:])
        elif os.path.exists(os.path.join(out_dir, "FAILED")):
            harness_failure(fr, test_regex, 1, open(os.path.join(out_dir, "FAILED")).read())
        ops_p = os.path.join(out_dir, fn + ".ops")
        if not os.path.exists(ops_p):
            fr.failures.append({"kind": "corr", "key": "missing-" + fn, "what": f"harness wrote no {fn}.ops", "replay_lines": []})
            return fr
        ops = open(ops_p).read().split("\n")
        impl = open(os.path.join(out_dir, fn + ".impl")).read().split("\n")
        model_p = os.path.join(out_dir, fn + ".model")
        if not os.path.exists(model_p):
            drc, model = run_driver(ctx, ops_p)
            open(model_p, "w").write("\n".join(model))
        else:
            drc, model = 0, open(model_p).read().split("\n")
        if drc != 0:
            fr.failures.append({"kind": "corr", "key": "driver-" + fn, "what": f"model driver exited {drc}", "replay_lines": model[-20:]})
            return fr
        mon = monitor_cls()
        counts = collections.Counter()
        distinct = set()
        last_start = 0
        scen_ok = True

        def scenario(i):
            lo = max(last_start, i - 300)
            return ["--- scenario (stimulus => implementation observation) ---"] + \
                   [f"{ops[j]}  =>  {impl[j] if j < len(impl) else ''}" for j in range(lo, i + 1)]
        scenarios = 0
        for i, op in enumerate(ops):
            if not op:
                continue
            if op.startswith(scenario_marker):
                last_start = i
                scenarios += 1
                scen_ok = True
            im = impl[i] if i < len(impl) else "<missing>"
            mo = model[i] if i < len(model) else "<missing>"
            fr.evaluations += 1
            counts[" ".join(a for a in op.split()[:3] if "=" not in a)] += 1
            if im.startswith("HANG"):
                # the harness watchdog: the endpoint made no progress on this stimulus (deadlock on a mutex)
                fr.failures.append({"kind": "monitor", "key": "endpoint-hung",
                                    "what": f"{name}: the implementation hangs on `{op[:100]}` ({im})",
                                    "replay_lines": [f"family {name} ({test_regex}), line {i+1} of {fn}.ops",
                                                     f"the implementation made no progress on this stimulus: {im}"] + scenario(i)})
                break
            # specification on the implementation's own observations
            for vprop, key, msg in mon.feed(op, im):
                if vprop == prop:
                    fr.failures.append({"kind": "monitor", "key": key,
                                        "what": f"{name}: {msg}",
                                        "replay_lines": [f"family {name} ({test_regex}), line {i+1} of {fn}.ops", msg] + scenario(i)})
            if mo == "UNSUPPORTED":
                counts["(outside-model)"] += 1
                continue
            if not scen_ok:
                continue      # after the first divergence the rest of a scenario is not comparable
            if compare == "contains":     # the model predicts part of the line (a sub-string)
                pi, pm = (mo if mo in im else im), mo
            elif compare == "full":
                pi, pm = im, mo
            else:
                pi, pm = _proj(prop, im), _proj(prop, mo)
            if pi != pm and not alt_match(pi, pm):
                scen_ok = False
                fr.failures.append({"kind": "corr", "key": "corr-" + fn,
                                    "what": f"{name}: model and implementation disagree (view of {prop}) on `{op[:120]}`",
                                    "replay_lines": [f"correspondence {name} ({test_regex}), line {i+1} of {fn}.ops",
                                                     "op:    " + op, "impl:  " + im, "model: " + mo,
                                                     "view(impl):  " + pi, "view(model): " + pm] + scenario(i)})
            elif pi not in ("", "[]") and ("[" in pi and re.search(r"\[[^\]]", pi)):
                distinct.add(op.split()[0] + "|" + pi)
                if len(fr.samples) < 2:
                    fr.samples.append({"family": name, "op": op[:160], "impl": im[:240]})
        seen, short = set(), []
        for f in fr.failures:
            if f["key"] not in seen:
                seen.add(f["key"]); short.append(f)
        fr.summary = {"evaluations": fr.evaluations, "scenarios": scenarios, "stimuli": dict(counts), "failures": len(fr.failures)}
        fr.failures = short
        fr.distinct_nontrivial = len(distinct)
        return fr
    return fam


_SWORLD_RULE = ("S-world: real serveTunnel with scripted handlers (4 call shapes) against a raw client inside a synctest bubble, one "
                "stimulus per quiescence: mostly-valid conversations (boundary message sizes, chunkings, half-close, cancel, window updates, "
                "deadlines via grpc-timeout, shutdown flag, carrier EOF/failure) and hostile ones (id reuse/skip/negative, unknown/malformed/"
                "empty methods, bad revisions, mis-declared sizes, stray continuations, window overruns, absurd window updates, unset frames); "
                "non-trivial = distinct non-empty observations in the property's view")


_CWORLD_RULE = ("C-world: real newTunnelChannel/recvLoop/client streams with scripted callers (4 call shapes, deadlines, pre-cancelled contexts) "
                "against a raw server inside a synctest bubble, one stimulus per quiescence: settings exchange (valid, empty/unknown/duplicate revisions, "
                "wrong id, wrong first frame, EOF), headers, response data in all chunkings, close with every status class and trailers, window "
                "updates, and hostile frames (mis-declared sizes, overruns, stray continuations, unexpected settings, unset frames, unknown ids), "
                "cancel, Close, carrier EOF/failure; non-trivial = distinct non-empty observations in the property's view")


def CWORLD(prop):
    return world_family("cworld", "^TestCWorldRandom$", "cworld", MON.CWorldMonitor, prop, "c.init", _CWORLD_RULE, 300, 3000)


_W1_RULE = ("W1: real tunnel client and real tunnel server joined by harness-owned FIFO carrier queues inside a synctest bubble; one stimulus per "
            "quiescence: caller calls (new with metadata/deadline/pre-cancelled context, send at boundary sizes, close-send, recv, header, trailer, "
            "cancel), handler calls (recv, send, set/send header, set trailer, return/reply), delivery of the single frame at the head of either "
            "direction, ticks, shutdown flag, Close / carrier failure seen first by either end, then drain; both endpoint models check every step, "
            "end-to-end monitors read both sides; non-trivial = distinct non-empty observations in the property's view")


def W1(prop):
    return world_family("w1", "^TestW1Random$", "w1", MON.W1Monitor, prop, "svc ", _W1_RULE, 150, 2000)


def REGISTRY(prop):
    return world_family("registry", "^TestW2Registry$", "registry", MON.RegistryMonitor, prop, "r.init",
                        "W2 registry: real TunnelServiceHandler and ReverseTunnelServers over grpc-go on bufconn in a synctest bubble; histories of "
                        "open (colliding / absent affinity keys), close from either end, routed RPCs through AsChannel / KeyAsChannel (the serving "
                        "instance reports itself and what its context carries), Ready / WaitForReady / AllReverseTunnels; every line compared with the "
                        "two-level round-robin registry model", 60, 1500, compare="full")


def META(prop):
    return world_family("meta", "^TestW2Meta$", "meta", MON.MetaMonitor, prop, "meta.init",
                        "W2 metadata: forward tunnel over grpc-go on bufconn; per case a scripted handler sets headers/trailers in one of three call orders and "
                        "returns one of the 17 codes with message (ASCII, UTF-8, empty) and optional detail list; the caller uses Invoke or a bidi stream with the "
                        "call options Header, Trailer, Peer, PerRPCCredentials with and without outgoing metadata; metadata classes absent/empty/multi-valued/-bin/"
                        "UTF-8/empty value and (rarely) non-UTF-8 bytes; after each case a bystander RPC checks that the tunnel is alive",
                        150, 1500, compare="contains")


UTF8 = ops_family("utf8", "^TestPureUTF8$", ["utf8"], rule="Metadata.validUTF8 vs utf8.Valid and vs proto.Marshal of the converted metadata, on boundary and random byte strings",
                  nontrivial=lambda op, im, mo: "valid=0" in im, n_quick=3000, n_thorough=100000)


def IDENTITY(prop):
    return world_family("identity", "^TestW2Identity$", "identity", MON.IdentityMonitor, prop, "id.init",
                        "W2 identity: grpc server with a stream interceptor planting a context value, two forward tunnels with distinct opening metadata and a "
                        "tunnel nested inside one of them; handlers report interceptor value, peer, tunnel metadata (and mutate the copy they got), request "
                        "metadata; callers check WithTunnelChannel, TunnelChannelFromContext, TunnelMetadataFromOutgoingContext (and mutate the copy)",
                        20, 400, compare="full")


def LIFECYCLE(prop):
    return world_family("lifecycle", "^TestW2Lifecycle$", "lifecycle", MON.LifecycleMonitor, prop, "l.init",
                        "W2 lifecycle: one ReverseTunnelServer with several Serve calls over grpc-go on bufconn, echo and non-reading in-flight RPCs, "
                        "GracefulStop / Stop / peer hang-up / new RPCs / new Serve calls at arbitrary points, virtual-time ticks of one hour; the "
                        "state machine (state, instances) is compared with the model, everything else is judged by the lifecycle monitor",
                        60, 600, compare="contains")


def SWORLD(prop):
    return world_family("sworld", "^TestSWorldRandom$", "sworld", MON.SWorldMonitor, prop, "svc ", _SWORLD_RULE, 300, 3000)


def race_family(prop, secs_quick=8, secs_thorough=90):
    """Free-running -race stress (C15 support, C02 trailer publication): any race report, panic or timeout is a violation
    with the report as replay; `ok_without_trailers` counts successful calls whose trailers were not available right after
    the terminal result."""
    def fam(ctx):
        fr = FamResult("race")
        fr.rule = ("free-running stress outside any bubble, built with -race: 6 workers issuing unary and bidi RPCs (one sender + one receiver goroutine per RPC, "
                   "call-option targets read right after completion) on a forward channel that a janitor closes and replaces, Start() racing with cancellation "
                   "of its context, reverse tunnel servers that Serve/Stop/GracefulStop/cancel while RPCs are routed through AsChannel/KeyAsChannel, registry "
                   "queries, random delays at the verif yield points")
        if not getattr(ctx, "race_bin", None):
            fr.failures.append({"kind": "corr", "key": "race-binary", "what": "race-instrumented harness not built", "replay_lines": []})
            return fr
        out_dir = os.path.join(ctx.workdir, "race")
        os.makedirs(out_dir, exist_ok=True)
        secs = secs_thorough if ctx.thorough else secs_quick
        env = dict(os.environ, VERIF_OUT=out_dir, VERIF_SEED=str(ctx.seed), VERIF_SECS=str(secs), GORACE="halt_on_error=0 history_size=2")
        p = subprocess.run([ctx.race_bin, "-test.run", "^TestRaceStress$", "-test.count=1", "-test.timeout", f"{secs + 120}s"],
                           env=env, stdout=subprocess.PIPE, stderr=subprocess.STDOUT, text=True, errors="replace", cwd=out_dir,
                           timeout=secs + 300)
        out = p.stdout
        stats = {}
        sp = os.path.join(out_dir, "race.stats")
        if os.path.exists(sp):
            stats = dict(kv.split("=") for kv in open(sp).read().split())
        fr.evaluations = int(stats.get("calls", 0)) or 1
        fr.distinct_nontrivial = int(stats.get("ok", 0))
        fr.samples = [{"family": "race", "stats": stats, "seconds": secs}]
        races = out.split("WARNING: DATA RACE")[1:]
        seen = set()
        for r in races:
            frames = re.findall(r"^\s+((?:github.com/jhump/grpctunnel|verif/harness)\S*)\(", r, re.M)
            tops = []
            for part in re.split(r"Previous (?:write|read) at", r)[:2]:
                m = re.search(r"^\s+(\S+)\(\)", part, re.M)
                tops.append(m.group(1).split("/")[-1] if m else "?")
            key = "race:" + "|".join(tops)
            key = re.sub(r"[^A-Za-z0-9_.:|*()-]", "_", key)
            if key in seen:
                continue
            seen.add(key)
            if prop == "C15":
                fr.failures.append({"kind": "monitor", "key": key, "what": f"data race reported by the Go race detector: {' vs '.join(tops)}",
                                    "replay_lines": ["WARNING: DATA RACE" + r[:4000], f"(free-running stress, seed {ctx.seed}, {secs} s; re-run the C15 check to reproduce)"]})
        if "panic:" in out or "fatal error:" in out:
            fr.failures.append({"kind": "monitor", "key": "panic-or-deadlock", "what": "panic / fatal error in the free-running stress",
                                "replay_lines": [out[-4000:]]})
        elif p.returncode != 0 and not races:
            fr.failures.append({"kind": "corr", "key": "race-harness", "what": f"stress harness exited {p.returncode}", "replay_lines": [out[-3000:]]})
        if prop == "C02" and int(stats.get("ok_without_trailers", 0)) > 0:
            fr.failures.append({"kind": "monitor", "key": "trailers-not-published-at-terminal-result",
                                "what": f"{stats['ok_without_trailers']} of {stats.get('ok')} successful calls had no trailers right after the terminal result (Recv=EOF / Invoke returned)",
                                "replay_lines": [json.dumps(stats), "free-running stress: Trailer() / grpc.Trailer target read immediately after RecvMsg returned io.EOF or Invoke returned nil"]})
        if prop in ("C15", "C10") and int(stats.get("serve_running_after_stop", 0)) > 0:
            fr.failures.append({"kind": "monitor", "key": "serve-running-after-stop",
                                "what": f"{stats['serve_running_after_stop']} time(s) a Serve call that raced with Stop was still running 3 s after Stop had returned "
                                        f"(admitted after Stop closed the instances it knew)",
                                "replay_lines": [json.dumps(stats), "free-running stress: 1-3 Serve calls and one Stop (sometimes after GracefulStop) started within 400 us of each other on a fresh "
                                                                    "ReverseTunnelServer; once Stop has returned every Serve call must have returned (refused, or served and ended)"]})
        fr.summary = {"stats": stats, "races": len(races), "seconds": secs}
        return fr
    return fam


def tiered(quick, thorough):
    def fam(ctx):
        return (thorough if ctx.thorough else quick)(ctx)
    return fam


PROPS = {
    "C07": {
        "lean_targets": ["Proofs.Props.C07"],
        "prop_files": ["Proofs/Props/C07.lean"],
        "families": [W1("C07"), CWORLD("C07"), SWORLD("C07")],
        "trusted_base": ["L-frame client and server endpoint models; WF invariant of all reachable client states (run_AllWF)"],
        "assumptions": ["as C08", "schedules below quiescence granularity (the Header()/watcher race is modelled as a two-outcome result; the D4 publication order is the subject of the C02/C15 micro-model)"],
    },
    "C08": {
        "lean_targets": ["Proofs.Props.C08"],
        "prop_files": ["Proofs/Props/C08.lean"],
        "families": [SWORLD("C08"), CWORLD("C08"), FINDMETHOD, IDORDER],
        "side_conditions": ["Proofs.Facts.server_initial_lastSeen"],
        "trusted_base": ["L-frame server endpoint model TunnelModel/LFrame/Server.lean (one step = one stimulus run to quiescence)",
                         "Method.lean model of method-name splitting and findMethod"],
        "assumptions": ["behaviour at quiescence is a function of the stimulus list (checked: every scenario is deterministic under synctest)",
                        "the carrier delivers frames in order and the codec round-trips frames (frames pass through proto.Marshal/Unmarshal in the harness)"],
    },
    "C09": {
        "lean_targets": ["Proofs.Props.C09"],
        "prop_files": ["Proofs/Props/C09.lean"],
        "families": [SWORLD("C09"), CWORLD("C09")],
        "side_conditions": ["Proofs.Facts.window_eq"],
        "trusted_base": ["L-frame server endpoint model TunnelModel/LFrame/Server.lean",
                         "panic capture in the harness (recover in the goroutine running serveTunnel)"],
        "assumptions": ["as C08", "Go panics are not expressible in the model: their absence on peer-controlled paths is checked by the hostile families only"],
    },
    "C10": {
        "lean_targets": ["Proofs.Props.C10"],
        "prop_files": ["Proofs/Props/C10.lean"],
        "families": [SWORLD("C10"), W1("C10"), LIFECYCLE("C10"), FWDSHUTDOWN],
        "trusted_base": ["L-frame server endpoint model TunnelModel/LFrame/Server.lean (closing flag in createStream)"],
        "assumptions": ["as C08"],
    },
    "C15": {
        "lean_targets": ["Proofs.Props.C15"],
        "prop_files": ["Proofs/Props/C15.lean"],
        "families": [race_family("C15"), META("C15"), SWORLD("C15"), CWORLD("C15"), W1("C15")],
        "needs_race": True,
        "trusted_base": ["syntactic lock/access extractor /verif/harness/extract/locks.go (go/ast; intra- and inter-procedural held-lock sets)",
                         "hand-written protections table in Proofs/Props/C15.lean (DESIGN.md appendix G)",
                         "Go race detector (supporting evidence and failing-input search only)"],
        "assumptions": ["PARTIAL: the Go memory model, the soundness of the syntactic analysis (aliasing, closures stored and called later are treated as holding no lock), and library code (grpc-go, context) are outside the obligation",
                        "publication-ordered fields (headers, trailers, settings) rely on the order of statements inside the publishing function, which is checked by the hook-level publish family / the L-atomic model, not by the table"],
    },
    "C17": {
        "lean_targets": ["Proofs.Props.C17"],
        "prop_files": ["Proofs/Props/C17.lean"],
        "families": [IDENTITY("C17"), REGISTRY("C17")],
        "side_conditions": ["Proofs.Facts.context_wiring"],
        "trusted_base": ["Context.lean (contexts as binding stacks, metadata objects in a heap)",
                         "extractor facts ctxFacts: the context constructions the model describes are found in the source (regenerated every run)"],
        "assumptions": ["Go's context.WithValue / metadata.MD.Copy semantics; values are compared by identity tags the harness plants"],
    },
    "C16": {
        "lean_targets": ["Proofs.Props.C16"],
        "prop_files": ["Proofs/Props/C16.lean"],
        "families": [SWORLD("C16"), CWORLD("C16"), W1("C16")],
        "trusted_base": ["L-frame server endpoint model TunnelModel/LFrame/Server.lean (readMsg look-ahead, numSent guard)"],
        "assumptions": ["as C08"],
    },
    "C01": {
        "lean_targets": ["Proofs.Props.C01", "Proofs.Props.C01b"],
        "prop_files": ["Proofs/Props/C01.lean", "Proofs/Props/C01b.lean"],
        "families": [W1("C01"), SWORLD("C01"), CWORLD("C01"), PUMP, SENDALL],
        "side_conditions": ["Proofs.Facts.chunkMax_pos"],
        "trusted_base": ["Framing.lean (chunking and reassembly), L-frame endpoint models, FIFO carrier assumption",
                         "harness-side byte-for-byte check of every data frame and every delivered message against keyed payloads"],
        "assumptions": ["the implementation does not inspect payload bytes (checked on real bytes by the harness; assumed by the size-only driver)",
                        "the carrier is FIFO and reliable until it ends; protobuf encoding of application messages is outside the model"],
    },
    "C11": {
        "lean_targets": ["Proofs.Props.C11"],
        "prop_files": ["Proofs/Props/C11.lean"],
        "families": [CWORLD("C11"), SWORLD("C11"), W1("C11"), SUPPORTED, NEGOTIATE],
        "side_conditions": ["Proofs.Facts.supported_enabled", "Proofs.Facts.supported_disabled", "Proofs.Facts.settings_stream_id", "Proofs.Facts.negotiate_header", "Proofs.Facts.context_wiring"],
        "trusted_base": ["Negotiate.lean model of the revision loop in recvLoop and of supportedRevisions",
                         "L-frame client endpoint model TunnelModel/LFrame/Client.lean (settings phase)"],
        "assumptions": ["the negotiate header is exchanged by grpc-go metadata as the handlers expect (exercised in the W2 interop family)"],
    },
    "C02": {
        "lean_targets": ["Proofs.Props.C02"],
        "prop_files": ["Proofs/Props/C02.lean"],
        "families": [META("C02"), UTF8, W1("C02"), CWORLD("C02"), SWORLD("C02"), EARLYREJECT, race_family("C02")],
        "needs_race": True,
        "trusted_base": ["L-frame endpoint models (status / header / trailer handling), Metadata.lean (UTF-8 validity, toProto/fromProto as identity on encodable metadata)",
                         "real grpc-go on bufconn for the metadata world (TestW2Meta), Go race detector for the publication order of trailers (D4)"],
        "assumptions": ["protobuf string fields reject exactly invalid UTF-8 (checked against proto.Marshal by TestPureUTF8 on every run)",
                        "the order 'trailers written, then terminal result published' inside finishStream is below the model's granularity: checked by the race stress (ok_without_trailers counter, race reports) and the C15 publication row"],
    },
    "C12": {
        "lean_targets": ["Proofs.Props.C12"],
        "prop_files": ["Proofs/Props/C12.lean"],
        "families": [REGISTRY("C12"), REGRACE],
        "trusted_base": ["API-granular registry model TunnelModel/Lifecycle.lean + RoundRobin.lean (one step = one API event at quiescence)"],
        "assumptions": ["tunnel ids are never reused (legal ops); steps below quiescence granularity (the two registration steps of openReverseTunnel, unregister) are covered by the hook-level family when present, not by this theorem",
                        "grpc-go delivers stream open/close to the handler (real grpc-go on bufconn in the harness)"],
    },
    "C03": {
        "lean_targets": ["Proofs.Props.C03", "Proofs.Props.C03b"],
        "prop_files": ["Proofs/Props/C03.lean", "Proofs/Props/C03b.lean"],
        "families": [W1("C03"), SWORLD("C03"), CWORLD("C03"), META("C03"), BOUNDED],
        "trusted_base": ["L-frame server endpoint model TunnelModel/LFrame/Server.lean; client endpoint model TunnelModel/LFrame/Client.lean"],
        "assumptions": ["as C08", "bounded transport buffering (finite K) is represented by the loop-idle observation B=1 of the harness, not by a theorem yet"],
    },
    "C04": {
        "lean_targets": ["Proofs.Props.C04"],
        "prop_files": ["Proofs/Props/C04.lean"],
        "families": [W1("C04"), LIFECYCLE("C04"), CWORLD("C04"), SWORLD("C04"), CLOSEERR],
        "trusted_base": ["L-frame endpoint models: Cli.close / carrierEnds and Srv.serveReturns are the models of tunnelChannel.close and of serve's return",
                         "lifecycle world (real grpc-go on bufconn) for Stop / GracefulStop / carrier loss"],
        "assumptions": ["released goroutines are scheduled and exit (Go runtime); witnessed per run by the goroutine census of the harness",
                        "revision zero: a receive loop blocked on a full per-stream channel is outside the step-exact model (UNSUPPORTED lines; open finding D10)"],
    },
    "C13": {
        "lean_targets": ["Proofs.Props.C13"],
        "prop_files": ["Proofs/Props/C13.lean"],
        "families": [W1("C13"), SWORLD("C13"), CWORLD("C13"), PUMP, SENDALL],
        "side_conditions": ["Proofs.Facts.chunkMax_eq", "Proofs.Facts.settings_stream_id", "Proofs.Facts.context_wiring"],
        "trusted_base": ["L-frame endpoint models and Framing.lean; the wire grammar monitors ServerWire / ClientWire (checklib/monitors.py) on the real frames"],
        "assumptions": ["handlers and callers follow the gRPC contract where the theorems say so (one SendMsg at a time, no SendMsg after CloseSend, unary reply is the handler's last call)",
                        "frames are observed after proto.Marshal/Unmarshal in the harness carrier; protobuf field encoding itself is grpc-go's / protobuf-go's"],
    },
    "C14": {
        "lean_targets": ["Proofs.Props.C14"],
        "prop_files": ["Proofs/Props/C14.lean"],
        "families": [W1("C14"), SWORLD("C14"), CWORLD("C14"), REGISTRY("C14"), LIFECYCLE("C14")],
        "trusted_base": ["L-frame endpoint models (inTable / closed / done bookkeeping), registry model Lifecycle.lean",
                         "harness census: runtime.Stack filtered on goroutines created by the library; Verif*State table snapshots"],
        "assumptions": ["goroutines that only perform one carrier Send (close / cancel / settings frames) end when the carrier accepts or fails the Send; the harness carriers never block",
                        "Go runtime scheduling; memory retained by the garbage collector is outside the model"],
    },
    "C05": {
        "lean_targets": ["Proofs.Props.C05", "Proofs.Props.C05b"],
        "prop_files": ["Proofs/Props/C05.lean", "Proofs/Props/C05b.lean"],
        "families": [FLOW, tiered(FLOWEX, FLOWEX_DEEP), FLOWSTRESS, BOUNDED, SWORLD("C05"), CWORLD("C05"), W1("C05")],
        "side_conditions": ["Proofs.Facts.chunkMax_pos", "Proofs.Facts.window_eq"],
        "trusted_base": ["L-atomic model TunnelModel/FlowStep.lean (one action = one atomic operation / critical section of flow_control.go)",
                         "verif yield points in defaultSender.send / updateWindow (repo hooks, tag verif)"],
        "assumptions": ["Go atomics, channels and sync.Cond behave sequentially consistently at the granularity of the model's actions (Go memory model)",
                        "the carrier delivers frames of one stream in order (FIFO lists in the model)",
                        "uint32 wrap-around of the window cannot occur for conforming peers (C05_conservation bounds the window by W < 2^32)"],
    },
    "C06": {
        "lean_targets": ["Proofs.Props.C06"],
        "prop_files": ["Proofs/Props/C06.lean"],
        "families": [FLOW, PUMP, SENDALL, SWORLD("C06"), CWORLD("C06")],
        "side_conditions": ["Proofs.Facts.chunkMax_eq", "Proofs.Facts.window_eq", "Proofs.Facts.chunkMax_le_window", "Proofs.Facts.advertised_windows"],
        "trusted_base": ["L-atomic model TunnelModel/FlowStep.lean and the sequential receiver model Rcv in the same file",
                         "Framing.pump / Framing.sendAll as models of the two senders' chunking"],
        "assumptions": ["as C05", "heap usage is represented by queued bytes; Go allocator behaviour is outside the model"],
    },
    "C18": {
        "lean_targets": ["Proofs.Props.C18"],
        "prop_files": ["Proofs/Props/C18.lean"],
        "families": [TIMEOUT],
        "trusted_base": ["model of timeoutFromHeaders in TunnelModel/Timeout.lean (bytes as Nat, durations as Nat ns)"],
        "assumptions": ["context.WithTimeout turns the parsed duration into the handler deadline (checked in the W1 deadline family, not proved)",
                        "the gRPC wire specification of grpc-timeout is transcribed correctly in Timeout.spec"],
    },
}
