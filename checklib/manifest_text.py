HOOK_COMMITS = ["d4c9662", "221713e"]

_SRV = ("Tied to the code by the S-world: the real serveTunnel with scripted handlers against a raw client in a synctest bubble, one stimulus per "
        "quiescence, every observation line (frames emitted, call results, events, table, lastSeen) compared with the model in this property's view; "
        "the property's monitor is evaluated on every implementation line.")

NOTES = ("Technique family: machine-checked proof in Lean 4. Every check = (1) facts regenerated from /repo + lake build of the "
         "property's theorem module + axiom audit, (2) correspondence: implementation (built from /repo, -tags verif) vs the "
         "model's executable definitions on the same inputs, (3) the specification evaluated on the implementation's results "
         "(search for a failing input). See DESIGN.md.")

CLAIMS = {
    "C18": {
        "text": "Theorem C18_parse_eq_spec: for every list of grpc-timeout header values (arbitrary bytes, arbitrary length) the model of "
                "timeoutFromHeaders returns exactly what the gRPC wire specification prescribes (1-8 digits + unit, saturating at 2^63-1 ns; "
                "malformed => no deadline), with corollaries C18_wellformed, C18_malformed, C18_saturates. The model is tied to the code by "
                "running VerifTimeoutFromHeaders and the Lean definition on >20k boundary and random inputs per run.",
        "design_ref": "DESIGN.md 6 (C18)",
        "note": "Trusted: Lean kernel; transcription of the gRPC timeout grammar into Timeout.spec; the differential harness. "
                "Modelled, not proved: that context.WithTimeout(parsed) is the handler's deadline.",
        "technique": "Lean 4 theorem (parse = spec, all inputs) + differential correspondence on the real parser",
    },
}

CLAIMS["C05"] = {
    "text": "Theorems over the L-atomic model of flow control (sender load/CAS/park/wake, updateWindow add/signal, carrier, accept, dequeue, "
            "credit callback; arbitrary window W>0, chunkMax>0, workload and schedule of any length): conservation of credit, no lost wake-up "
            "(sender and reader), 'blocked only behind a full unread window', 'whole window restored when everything is read', no stuck state "
            "(C05_no_stuck), every execution finite (explicit linear measure, C05_terminates) and complete delivery (C05_completes). The model "
            "is tied to the real defaultSender/defaultReceiver by stepping them at verif yield points under a harness-controlled scheduler "
            "and comparing the hook-visible state after every atomic action (random schedules each run; all schedules of tiny configurations "
            "to a depth bound).",
    "design_ref": "DESIGN.md 6 (C05), Appendix B.1",
    "note": "Trusted: Lean kernel; sequential consistency of Go atomics/channels/cond at action granularity; FIFO carrier; the hook scheduler. "
            "Multi-stream and bounded-carrier lifting (C03_progress) is stated in DESIGN.md and not yet mechanised: this check covers one stream and direction.",
    "technique": "Lean 4 invariant + termination-measure proofs over all interleavings of an atomic-step model; hook-stepped correspondence with the real sender/receiver",
}
CLAIMS["C06"] = {
    "text": "Theorems: in every reachable state of the L-atomic model sent <= W + credit delivered (C06_sender), every data frame <= chunkMax "
            "= 16384 (C06_chunk_code, constant regenerated from the source), credit granted <= bytes dequeued (C06_credit), a conforming sender "
            "never trips the receiver (C06_no_overrun); for the receiver alone against ANY operation sequence queued bytes <= W "
            "(C06_receiver_bounded) and an oversize frame is refused without being queued (C06_overrun_refused). Tied to the code by the "
            "hook-stepped flow world and by direct comparison of both senders' chunking with Framing.pump / Framing.sendAll.",
    "design_ref": "DESIGN.md 6 (C06)",
    "note": "Trusted: as C05. The stream-level consequence of an overrun (that RPC fails with ResourceExhausted, others continue) belongs to the "
            "L-frame endpoint model (C09/C03 checks).",
    "technique": "Lean 4 invariant proofs (all schedules; all hostile operation sequences) + differential correspondence",
}

CLAIMS["C08"] = {
    "text": "Server side: theorems over the L-frame server endpoint model for EVERY stimulus list (arbitrary frames from any peer, handler calls, ticks): "
            "ids of created streams are pairwise strictly increasing and bounded by lastSeen (C08_ids_increasing: each id accepted at most once), reused/active ids "
            "end the tunnel (C08_refuse_reused), frames for never-created ids end the tunnel (C08_never_created), frames for finished ids change nothing "
            "(C08_ignore_finished), and dispatch picks exactly the descriptor named after the first slash, unary before stream (C08_dispatch). " + _SRV +
            " Client-side id allocation under the streamCreation lock is covered by the W1/IdAlloc work listed in DESIGN.md (not yet part of this check).",
    "design_ref": "DESIGN.md 6 (C08)",
    "note": "Trusted: Lean kernel, S-world harness and differ, quiescence granularity (L-frame). Not yet covered here: concurrent newStream interleavings on the client.",
    "technique": "Lean 4 invariant over all stimulus lists of an endpoint model + step-exact correspondence with the real server",
}
CLAIMS["C09"] = {
    "text": "Server endpoint: the model is a total function of every frame in every state; theorems: tunnel-level errors are exactly the three id violations "
            "(C09_tunnel_errors_are_id_violations), a stream-level frame never touches other streams or tunnel state (C09_stream_frame_local), window overrun / unset "
            "frame finish only that stream with the documented status (C09_overrun_fails_stream, C09_unset_fails_stream, C09_finish_emits_close, C09_finish_once), "
            "absurd window updates wrap inside uint32, zero updates are ignored, and when serve returns every stream context is cancelled (C09_released); bounded "
            "buffering is C06_receiver_bounded. " + _SRV + " Hostile families recover panics in the receive loop and report them.",
    "design_ref": "DESIGN.md 6 (C09)",
    "note": "Trusted: as C08. Go panics are outside the model (checked by the hostile families only). Client endpoint against a raw server: pending (C-world).",
    "technique": "Lean 4 theorems over all states x all frames of a total endpoint model + hostile-peer correspondence",
}
CLAIMS["C10"] = {
    "text": "Tunnel level: while closing, a fresh new_stream yields exactly one close(Unavailable), no handler, unchanged table, tunnel up, id recorded (C10_refused, "
            "C10_refused_state); later frames of the refused RPC are ignored (C10_later_frames_ignored); every stimulus other than new_stream behaves identically "
            "whatever the flag (C10_flag_only_read_by_new_stream) so in-flight RPCs keep their outcome. " + _SRV +
            " Lifecycle part (GracefulStop/Stop/Serve) is pending (W2).",
    "design_ref": "DESIGN.md 6 (C10)",
    "note": "Trusted: as C08. GracefulStop/Stop ordering is not yet modelled in this check.",
    "technique": "Lean 4 theorems over the endpoint model + step-exact correspondence incl. shutdown-flag stimuli",
}
CLAIMS["C16"] = {
    "text": "Server side: a second SendMsg on a non-streaming response side is refused with Internal and emits no data (C16_second_send_refused); read errors "
            "incl. the end-of-requests marker are sticky (C16_recv_after_eof, C16_recv_sticky). The look-ahead that turns a second request into InvalidArgument is part "
            "of the model (resumeRead) and is exercised by raw-client scenarios with 0/1/2/many request messages in all chunkings. " + _SRV +
            " Caller side (Invoke's extra RecvMsg, client look-ahead) pending (C-world).",
    "design_ref": "DESIGN.md 6 (C16)",
    "note": "Trusted: as C08. The unbounded statement 'at most one request is ever delivered' is checked by the monitor on implementation traces; its Lean proof over resumeRead is in progress.",
    "technique": "Lean 4 theorems over the endpoint model + raw-client correspondence",
}

NOT_CLAIMED = {}
