HOOK_COMMITS = ["d4c9662", "221713e"]

NOTES = ("Technique family: machine-checked proof in Lean 4. Every check = (1) facts regenerated from /repo + lake build of the "
         "property's theorem module + axiom audit, (2) correspondence: implementation (built from /repo, -tags verif) vs the "
         "model's executable definitions on the same inputs, (3) the specification evaluated on the implementation's results "
         "(search for a failing input). See DESIGN.md.")

CLAIMS = {
    "C18": {
        "text": "Theorem C18_parse_eq_spec: for every list of grpc-timeout header values (arbitrary bytes, arbitrary length) the model of "
                "timeoutFromHeaders returns exactly what the gRPC wire specification prescribes (1-8 digits + unit, saturating at 2^63-1 ns; "
                "malformed => no deadline), with corollaries C18_wellformed, C18_malformed, C18_saturates. The model is tied to the code by "
                "running VerifTimeoutFromHeaders and the Lean definition on >20k boundary and random inputs per run.",
        "design_ref": "DESIGN.md 6 (C18)",
        "note": "Trusted: Lean kernel; transcription of the gRPC timeout grammar into Timeout.spec; the differential harness. "
                "Modelled, not proved: that context.WithTimeout(parsed) is the handler's deadline.",
        "technique": "Lean 4 theorem (parse = spec, all inputs) + differential correspondence on the real parser",
    },
}

NOT_CLAIMED = {}
