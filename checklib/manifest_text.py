HOOK_COMMITS = ["d4c9662", "221713e", "e216784", "f05d5b0", "5a0fe85"]

_SRV = ("S-world: the real serveTunnel with scripted handlers against a raw client in a synctest bubble, one stimulus per quiescence; every observation "
        "line (frames emitted, call results, events, stream table, lastSeen, goroutine census) is compared with the Lean model's line in this property's view, "
        "and the property's monitor is evaluated on every implementation line.")
_CLI = ("C-world: the real newTunnelChannel / tunnelChannel against a raw server (incl. a peer that answers new_stream from inside Send), same protocol.")
_W1 = ("W1: real client endpoint and real server endpoint joined by a FIFO carrier in one bubble, each end compared with its own model, end-to-end monitor on top.")

NOTES = ("Technique family: machine-checked proof in Lean 4. Every check = (1) facts and the lock/access table regenerated from /repo by the go/ast extractor, "
         "lake build of the property's theorem module, axiom audit (#print axioms on every theorem of the property file: subset of propext, Classical.choice, "
         "Quot.sound; no sorry/admit/native_decide/axiom); (2) correspondence: the implementation built from /repo's working tree with -tags verif and the "
         "model's executable definitions (compiled Lean driver) run on the same operation sequences and their outputs are diffed; (3) the property's "
         "specification (monitor) is evaluated on the implementation's own results, which is the search for a concrete failing input. A broken theorem, "
         "obligation or correspondence without a concrete failing input is reported as VIOLATION ... no-failing-input-found. See DESIGN.md Part A.")

CLAIMS = {}

CLAIMS["C01"] = {
    "text": "Theorems: chunking then reassembly is the identity for both senders, any window / chunk size / message (C01_pump_reassembles, C01_sendAll_reassembles[_code]), for any sequence of messages with count, order and boundaries preserved (C01_sendAll_many); the reader never hands out more bytes than the frames it was fed carried, for any frame list (C01_reader_no_fabricated_bytes), every delivered message has exactly its envelope's declared length (C01_reader_msg_has_envelope) and a framing error is final (C01_reader_error_final); "
            "reassembly is compositional (C01_parse_append); end to end over the two endpoint models composed through ANY FIFO carrier prefix, for every interleaving of "
            "calls, frames from the peer, credit, cancellations and context ends: the messages a handler has received are a prefix of those the caller submitted "
            "(C01_request_prefix), likewise responses (C01_response_prefix), nothing is fabricated, duplicated or reordered (C01_request_no_fabrication), and COMPLETENESS: when a RecvMsg of the caller returned end-of-stream "
            "the caller has received exactly the messages the handler submitted (C01_response_complete), likewise for the handler's end-of-requests "
            "(C01_request_complete); the 'told OK' fact is the receiver's own observation, that the peer ended normally is derived. "
            "Hypotheses are the gRPC caller/handler contract (one SendMsg and one RecvMsg at a time) and FIFO delivery. Tied to the code by " + _W1 + " " + _SRV + " " + _CLI +
            " Payloads are keyed real bytes checked byte for byte by the harness; pump/sendAll are compared with the real senders on boundary and random sizes.",
    "design_ref": "DESIGN.md A2 (C01)",
    "note": "Trusted: Lean kernel; FIFO, reliable carrier until it ends; harness/differ. Hypotheses of the completeness theorems: the carrier delivered everything emitted, the gRPC caller/handler contract, no send failed "
            "(each shown necessary by a decide-checked counter-example); C01_response_ok_partial needs two more that tie the independently modelled ends together. Protobuf encoding of application messages is outside the model.",
    "technique": "Lean 4 round-trip and prefix-refinement theorems over composed endpoint models + step-exact correspondence in three worlds",
}
CLAIMS["C02"] = {
    "text": "Theorems: the status a handler returns is the status the caller's terminal result carries (C02_status_roundtrip; OK = end of stream, plain errors = Unknown); "
            "the handler's return emits the headers if not yet sent, then exactly one close frame with that status and the accumulated trailers (C02_return_frames, "
            "C02_trailers_accumulate); fed to the caller's stream that frame sets exactly that result, exactly those trailers, published together, and Trailer() returns "
            "them (C02_status_trailers_exact); SendHeader's frame is what Header() returns (C02_headers_exact); metadata crosses the wire unchanged iff encodable, and is "
            "unencodable iff some string is not valid UTF-8 (C02_metadata_exact, C02_metadata_unencodable_iff). Tied to the code by the metadata world (real grpc-go on "
            "bufconn: all 17 codes, details, multi-valued / binary / absent metadata, call options, per-RPC credentials), by " + _W1 + " " + _CLI + " and by the race "
            "stress for the publication order of trailers (D4). Open findings D8 (non-UTF-8 '-bin' values or status messages kill the tunnel) and D12 (a request larger than the window "
            "to a handler that rejects without reading it: Invoke reports a bare 'context canceled') are reported as KNOWN-FINDING. Result publication below quiescence (L-atomic model TunnelModel/Publish.lean: any number of racing finishStream calls, a reader in RecvMsg, an observer calling Trailer(); EVERY schedule): whoever has obtained the terminal result reads exactly the winner's trailers, from Trailer() and from every grpc.Trailer target, now and in every continuation (C02_reader_sees_trailers); result, trailers and targets belong to one unique completion (C02_terminal_result_and_trailers_of_one_completion); Trailer() is nil until doneSignal is closed and the winner's ever after (C02_trailer_nil_before_end); counter-model of the old order, defect D4 (C02_old_order_reader_misses_trailers).",
    "design_ref": "DESIGN.md A2 (C02), A4 (D4, D5, D8, D12)",
    "note": "Trusted: Lean kernel; Metadata.lean's UTF-8 predicate equals protobuf-go's (compared on every run by TestPureUTF8); grpc-go. Status details are opaque to "
            "the model (carried by the correspondence only). PARTIAL where the property demands delivery of non-UTF-8 values: the code does not do it (D8, recorded, not repaired: wire-format change).",
    "technique": "Lean 4 theorems over endpoint + metadata models; differential worlds incl. real grpc-go; race stress",
}
CLAIMS["C03"] = {
    "text": "Theorems (server and client endpoint models, every stimulus list): PROJECTION - in every reachable endpoint state, with any number of other RPCs interleaved, "
            "an RPC's stream object is exactly the result of running the events addressed to that RPC on the fresh object its creation installed, and the frames and completions "
            "emitted for it are exactly those of that stream-level run (C03_projection_server/_client, _events, _outputs); this lifts every stream-level theorem of C01, C07, C13, C16 "
            "to tunnels (two worked instances: C03_lifted_server_conformance, C03_lifted_client_conformance); locality of each single stimulus (C03_frame_emits_only_own, "
            "C03_frame_touches_only_own, C03_call_local, client counterparts); rejections and stream-level errors never end the tunnel; "
            "with flow control negotiated the receive loop never blocks behind a stream (C03_no_hol, C03_no_hol_client: fc streams are never 'unsupported/blocking'); "
            "plus two code-level premises regenerated from the sources and decided by the kernel: no blocking call is made under a receive-loop lock (C03_no_blocking_call_under_loop_lock) and no function that can run on a receive-loop goroutine performs a carrier Send (C03_receive_loops_never_send), so bounded transport buffering cannot stall a loop; and over the CLOSED model of a whole tunnel with carriers of capacity K>=1 (TunnelModel/Closed.lean): every reading half-stream completes whatever the others do and however many are stalled (C03_stalled_streams_do_not_block_others), no deadlock while one has anything left (C03_no_deadlock_bounded). Tied to the code by the bounded-carrier world (real client + real server over Go channels of capacity 1..64, stalled applications, compared with the closed model's outcome) and by " +
            _W1 + " " + _SRV + " " + _CLI + " with bystander/disturber workloads; monitor: loop-blocked-with-flow-control, tunnel-ended-by-rpc. D8 is an open finding here too.",
    "design_ref": "DESIGN.md A2 (C03)",
    "note": "Trusted: as C08. The closed finite-K model is at frame granularity and abstracts frames other than data and window updates; that the real receive loops behave like its "
            "loop actions (never send, never wait for an application) is the pair of regenerated code premises plus the bounded-carrier world.",
    "technique": "Lean 4 locality/non-interference theorems over endpoint models + regenerated lock-discipline obligation + correspondence",
}
CLAIMS["C04"] = {
    "text": "Theorems: from every reachable client state, closing the channel (Close, carrier error/EOF, channel context) gives every RPC a terminal result, ends its context, "
            "releases every blocked RecvMsg/SendMsg/Header, empties the table, and no released call reports success or delivers a message (C04_client_close); it stays so "
            "forever (C04_client_finished_never_blocks, C04_client_end_is_permanent) and new RPCs fail at once (C04_client_new_rpc_fails); when serve returns every stream "
            "context has ended and no handler call stays blocked, then and ever after (C04_server_nothing_blocked, C04_server_returned_never_blocks); ended endpoints ignore "
            "late frames (C04_ended_ignores_frames). Tied to the code by " + _W1 + " " + _CLI + " " + _SRV + " and the lifecycle world (real grpc-go on bufconn: Close on either "
            "end, context cancel/expiry, Stop, carrier loss at every frame boundary, forward and reverse). Open finding D10 (revision zero: Stop hangs behind a non-reading handler) is KNOWN-FINDING. The closeerr world also reads Err() at the instant Done() is closed; D13 (transient non-nil Err() while a clean Close() is delayed between tear-down and bookkeeping) is an open finding.",
    "design_ref": "DESIGN.md A2 (C04), A4 (D10, D11)",
    "note": "Trusted: as C08; Go scheduling (released goroutines run). Done()/Err() values are checked by the worlds' monitors, not by a theorem.",
    "technique": "Lean 4 invariants over all reachable endpoint states + termination-at-every-frame-boundary correspondence",
}
CLAIMS["C05"] = {
    "text": "Theorems over the L-atomic model of flow control (sender load/CAS/park/wake, updateWindow add/signal, carrier, accept, dequeue, credit callback; arbitrary "
            "window W>0, chunkMax>0, workload and schedule of any length): conservation of credit, no lost wake-up (sender and reader), 'blocked only behind a full unread "
            "window', 'whole window restored when everything is read', no stuck state (C05_no_stuck), every execution finite (explicit linear measure, C05_terminates) and "
            "complete delivery (C05_completes); plus the regenerated code-level premises C05_no_blocking_call_under_loop_lock (the window update is sent with the receiver's "
            "mutex released, so accept is always enabled) and C05_receive_loops_never_send (the loops never wait for the carrier, so bounded buffering cannot close a cycle through them). The model is tied to the real defaultSender/defaultReceiver by stepping them at verif yield points under a "
            "harness-controlled scheduler and comparing the hook-visible state after every atomic action (random schedules each run; all schedules of tiny configurations to a depth bound), "
            "probing at every quiescent point that the receiver's mutex is free. "
            "Second model (Props/C05b.lean, TunnelModel/Closed.lean): a CLOSED frame-granularity model of a whole tunnel - any number of half-streams in both directions over two carriers "
            "of capacity K>=1 frames, any subset of the applications stalled, any workload, every schedule: carriers and receivers bounded, credit conserved per half-stream, a receive loop "
            "is never blocked (C05_loop_never_blocked), the states without an enabled action characterised (C05_stuck_iff), no deadlock while a reading half-stream has anything left "
            "(C05_no_deadlock), every execution finite, and C05_closed_completes / C05_outcome: every maximal execution ends with every reading half-stream complete and its window "
            "restored and every stalled one parked behind exactly min(total, W) unread bytes - independent of the schedule and equal to the executable scheduler's answer; counter-model: "
            "a receive loop that sends deadlocks with K=1 (C05_loop_that_sends_deadlocks). The two models are LINKED by a stuttering simulation (Lemmas/Refine.lean): every execution of the atomic-action "
            "model maps action by action onto an execution of the closed model - each atomic action is invisible at frame level or is exactly one frame-level action (C05_atomic_refines_closed, "
            "C05_atomic_step_refines), and a completed atomic execution is a maximal frame-level one with the same outcome (C05_final_agrees). Tied to the code by the bounded-carrier world (real client + real server over Go channels of "
            "capacity 1..64, free-running, stalled applications) whose per-half-stream byte counts are compared with the model's outcome, and by the sender-stranded monitor rule on every "
            "line of the S-, C- and W1 worlds.",
    "design_ref": "DESIGN.md A2 (C05)",
    "note": "Trusted: Lean kernel; sequential consistency of Go atomics/channels/cond at action granularity; FIFO carrier; the hook scheduler. The atomic-action model has one stream and "
            "direction per instance; the closed model is at frame granularity and abstracts frames other than data and window updates (headers, new_stream, close: finitely many, sent by "
            "application goroutines, consumed by the loops without blocking).",
    "technique": "Lean 4 invariant + termination-measure proofs over all interleavings of an atomic-step model; hook-stepped correspondence with the real sender/receiver",
}
CLAIMS["C06"] = {
    "text": "Theorems: in every reachable state of the L-atomic model sent <= W + credit delivered (C06_sender), every data frame <= chunkMax = 16384 (C06_chunk_code, constant "
            "regenerated from the source), credit granted <= bytes dequeued (C06_credit), a conforming sender never trips the receiver (C06_no_overrun); for the receiver alone "
            "against ANY operation sequence queued bytes <= W (C06_receiver_bounded) and an oversize frame is refused without being queued (C06_overrun_refused). Tied to the code "
            "by the hook-stepped flow world and by direct comparison of both senders' chunking with Framing.pump / Framing.sendAll; the window invariant is also monitored on every "
            "frame of the S-, C- and W1 worlds.",
    "design_ref": "DESIGN.md A2 (C06)",
    "note": "Trusted: as C05. The stream-level consequence of an overrun (that RPC fails with ResourceExhausted, others continue) is C09_overrun_fails_stream / C03.",
    "technique": "Lean 4 invariant proofs (all schedules; all hostile operation sequences) + differential correspondence",
}
CLAIMS["C07"] = {
    "text": "Theorems: every way an RPC ends at the caller (close frame, caller's cancel, deadline, protocol error, channel end) sets the terminal result once and it never "
            "changes (C07_outcome_never_changes, C07_close_wins), releases the caller's blocked calls in the same step without waiting for the peer (C07_local_release, "
            "C07_local_result) and leaves a finished stream quiet (C07_finished_stream_quiet); on the server a cancel frame or context end releases the handler "
            "(C07_cancel_frame_releases_handler). WF invariant of all reachable client states. Tied to the code by " + _W1 + " " + _CLI + " " + _SRV +
            " with cancellation / deadline at every phase (before headers, blocked on the window, mid-message, half-closed).",
    "design_ref": "DESIGN.md A2 (C07)",
    "note": "Trusted: as C08. The Header()-vs-watcher race is modelled as a two-outcome result (documented alternative); timers are the synctest fake clock.",
    "technique": "Lean 4 invariants over endpoint models + correspondence with cancellation at every phase",
}
CLAIMS["C08"] = {
    "text": "Theorems over the server endpoint model for EVERY stimulus list: ids of created streams are pairwise strictly increasing and bounded by lastSeen "
            "(C08_ids_increasing), reused/active ids end the tunnel (C08_refuse_reused), frames for never-created ids end the tunnel (C08_never_created), frames for finished "
            "ids change nothing (C08_ignore_finished), dispatch picks exactly the descriptor named after the first slash, unary before stream (C08_dispatch), every declared method is found under /service/method (C08_registered_found), undeclared ones are Unimplemented (C08_unknown_unimplemented), malformed iff no slash after the optional leading one (C08_malformed_iff); client: allocated "
            "ids strictly increase and new_stream is the first frame of its id (C08_client_ids_increasing, C08_client_new_stream_first). Concurrent callers (L-atomic model TunnelModel/IdAlloc.lean: "
            "n goroutines, actions lock / allocate (possibly failing after the increment) / send / unlock, EVERY schedule): ids reach the wire strictly increasing and distinct "
            "(C08_concurrent_ids_increasing), counter-example without the lock (C08_unguarded_out_of_order); the model's premise is regenerated from the sources and decided by the kernel: the "
            "new_stream Send in newStream and the only write of lastStreamID hold streamCreation (C08_allocation_and_send_under_streamCreation). " + _SRV + " " + _CLI + " Plus the id-order world: "
            "2-8 goroutines start RPCs concurrently on the real channel with random delays between allocation and send; the wire order is compared with the model's answer.",
    "design_ref": "DESIGN.md A2 (C08)",
    "note": "Trusted: Lean kernel, harness and differ, quiescence granularity (L-frame) for the endpoint models; the extractor for the lock premise of the id-allocation model.",
    "technique": "Lean 4 invariant over all stimulus lists of an endpoint model + step-exact correspondence with the real endpoints",
}
CLAIMS["C09"] = {
    "text": "Both endpoint models are total functions of every frame in every state; theorems: tunnel-level errors are exactly the id violations "
            "(C09_tunnel_errors_are_id_violations), a stream-level frame never touches other streams or tunnel state (C09_stream_frame_local), window overrun / unset frame / "
            "malformed envelope finish only that stream with the documented status (C09_overrun_fails_stream, C09_finish_emits_close), buffering is bounded (C09_bounded, "
            "C06_receiver_bounded), the loop never blocks under flow control (C09_loop_never_blocks_fc), and when serve returns everything is released (C09_released); client "
            "counterparts C09_client_*. " + _SRV + " " + _CLI + " Hostile generators: grammar-based deviations at every position, absurd window updates, bad settings; panics are "
            "recovered by the harness and reported.",
    "design_ref": "DESIGN.md A2 (C09), A4 (D2, D3)",
    "note": "Trusted: as C08. Go panics are outside the model (their absence is checked by the hostile families only).",
    "technique": "Lean 4 theorems over all states x all frames of total endpoint models + hostile-peer correspondence",
}
CLAIMS["C10"] = {
    "text": "Tunnel level: while closing, a fresh new_stream yields exactly one close(Unavailable), no handler, unchanged table, tunnel up, id recorded (C10_refused); later "
            "frames of the refused RPC are ignored (C10_later_frames_ignored); every stimulus other than new_stream behaves identically whatever the flag "
            "(C10_flag_only_read_by_new_stream), so in-flight RPCs keep their outcome. " + _SRV + " " + _W1 + " Lifecycle world (real grpc-go on bufconn) for InitiateShutdown / "
            "GracefulStop / Stop with zero, one and several tunnels, and the forward-shutdown world for several forward tunnels. Open findings D9 (GracefulStop waits for idle tunnels' peers) and D10 are KNOWN-FINDING. Below the API (L-atomic model TunnelModel/LifeAtomic.lean: any number of concurrent Serve, Stop and GracefulStop calls, one action per critical section or blocking point, EVERY schedule): Stop returns only after every admitted Serve call has returned and none is admitted afterwards (C10_stop_returns_only_after_serves, C10_no_admission_after_shutdown), Stop cannot hang by itself and every schedule is finite (C10_stop_ends_every_tunnel), GracefulStop stays blocked until the peer hangs up or Stop runs (C10_gracefulStop_blocked_until_peer_or_stop_partial: finding D9 as a theorem about the model that follows the code), counter-models for the unlocked state check and for Stop's guard (C10_unlocked_check_admits_after_stop, C10_stop_guard_not_active_hangs).",
    "design_ref": "DESIGN.md A2 (C10), A4 (D9, D10)",
    "note": "Trusted: as C08. GracefulStop/Stop ordering is covered by the API-granular Lifecycle model and its world, not by an interleaving-level theorem.",
    "technique": "Lean 4 theorems over the endpoint model + step-exact correspondence incl. shutdown-flag stimuli and lifecycle world",
}
CLAIMS["C11"] = {
    "text": "Theorem C11_select_eq_spec / C11_iff: for every pair of revision lists the client's selection loop picks exactly the highest revision both support (C11_select_sound), and fails iff "
            "there is none (C11_select_none_iff); settings/no-settings and legacy peers as the endpoint code does it (Negotiate.lean); regenerated facts tie supportedRevisions, the settings stream id "
            "and the negotiate header to the source. " + _CLI + " incl. malformed / empty / duplicate revision lists, and both option values on both ends. The header wiring on the public API is "
            "covered by the negotiate world: the library as forward caller, reverse server, forward handler and reverse handler against hand-written current and legacy peers over real grpc-go. The serving roles of the negotiate world report the revision list inside their settings frame; regenerated wiring fact: the revision-zero constructor builds the window-less sender (Proofs.Facts.context_wiring).",
    "design_ref": "DESIGN.md A2 (C11), A4 (D6)",
    "note": "Trusted: Lean kernel; extractor facts; harness. grpc-go metadata transport of the negotiate header is exercised in the W2 worlds, not modelled.",
    "technique": "Lean 4 theorem (selection = spec, all lists) + differential correspondence",
}
CLAIMS["C12"] = {
    "text": "Theorems over the registry model: after every legal sequence of open/close/pick events the registry's pools hold exactly the open tunnels, per key (C12_exact, "
            "C12_all), a routed RPC goes to an open tunnel of the right key (C12_routed_open, C12_routed_right_key), unavailable iff no tunnel for the key (C12_unavailable_iff, "
            "C12_ready), and picks rotate fairly: n consecutive picks over n tunnels are a permutation (C12_round_robin, _key, _all), hence no tunnel starves or repeats within a round (C12_no_starvation, C12_no_repeat_in_round). Tied to the code by the registry world: real "
            "TunnelServiceHandler + ReverseTunnelServer over grpc-go on bufconn, random open/close/pick sequences, AllReverseTunnels/KeyAsChannel/Ready compared with the model; WaitForReady over the channel-identity model (C12_no_lost_wakeup, C12_wait_iff_ready, C12_latch, C12_waiters_refine_pool); "
            "and the free-running registry world: per round a fresh affinity key, 2-4 registrations released together by a barrier inside the AffinityKey callback, optionally a concurrent "
            "WaitForReady; once all open callbacks fired the registry must be exactly those tunnels (enumeration, Ready, n routed RPCs reach n distinct tunnels, waiter released, nothing left "
            "after they end) - the model's answer is independent of the registration order. Below quiescence (L-atomic model TunnelModel/RegAtomic.lean: n tunnels with colliding keys, one action per critical section of "
            "openReverseTunnel and of the unregister callback, closes at any moment, EVERY schedule): at every resting state the registry (both levels) is exactly the open, fully registered tunnels "
            "(C12_registry_exact_at_rest, C12_registry_exact_tunnel), one pool per key ever (C12_one_pool_per_key), progress and a bound of ten actions per tunnel (C12_registration_progress), and the "
            "counter-example for look-up and creation in separate critical sections (C12_double_checked_creation_orphans_a_pool); the driver answers the free-running world from this model and from the "
            "API-level one and requires them to agree.",
    "design_ref": "DESIGN.md A2 (C12)",
    "note": "Trusted: Lean kernel; API-granular model (one step = one API event at quiescence); grpc-go. The two registration steps of openReverseTunnel are below the model's granularity: covered by the scenario at the registration yield point, the free-running world, and the "
            "regenerated obligation C15_one_critical_section_per_function (pool look-up and creation in one critical section).",
    "technique": "Lean 4 refinement of the registry to the set of open tunnels + correspondence against real grpc-go",
}
CLAIMS["C13"] = {
    "text": "Every clause is a theorem about the frames the endpoint models emit, for every event sequence: settings first on id -1 and never again (C13_settings_first, "
            "C13_no_other_settings); each message = one envelope with the exact size + contiguous continuations <= 16 KiB summing to it (C13_message_framing_client, "
            "_server_partial, C13_chunk_is_16KiB); headers at most once and before data (C13_headers_once, C13_headers_before_data); half-close and cancel at most once, no data "
            "after half-close (C13_halfClose_once, C13_cancel_once, C13_no_data_after_halfClose); exactly one close per accepted or rejected stream, last frame of a stream the "
            "handler ended (C13_one_close, C13_rejected_one_close, C13_accepted_no_close_yet, C13_close_is_last, C13_reply_close_is_last); no window updates in revision zero. "
            "The real frames are compared with the models' frames in full (view = all frames) in " + _W1 + " " + _SRV + " " + _CLI + " and checked against the same grammar by wire monitors. Regenerated fact: only the cancelStream call whose finishStream ended the stream sends the cancel frame (Proofs.Facts.context_wiring).",
    "design_ref": "DESIGN.md A2 (C13)",
    "note": "Trusted: as C08; hypotheses where stated are the gRPC handler/caller contract (one send at a time, no SendMsg after CloseSend, unary reply last). Protobuf field encoding is protobuf-go's.",
    "technique": "Lean 4 trace theorems over endpoint models (all event sequences) + full-frame correspondence and wire-grammar monitors",
}
CLAIMS["C14"] = {
    "text": "Theorems for every reachable state: the server table is exactly the unfinished streams and a finished stream never re-enters (C14_server_table_exact, "
            "C14_server_finished_stays_out); the client table is exactly the RPCs without terminal result and is empty after the channel ends (C14_client_table_exact, "
            "C14_client_close_empties_table); the registry lists exactly the open tunnels (C14_registry_exact); goroutines: a finished RPC holds neither handler nor watcher "
            "goroutine, the census is exactly handlers not returned + contexts not ended, zero after the tunnel ended and handlers returned, zero on the client after close "
            "(C14_server_no_goroutine_left, C14_server_census, C14_server_after_tunnel_end, C14_client_no_goroutine_left, C14_client_after_tunnel_end). Tied to the code at every "
            "quiescent moment of every scenario of " + _W1 + " " + _SRV + " " + _CLI + ": tables via Verif*State, goroutines via runtime.Stack filtered on goroutines created by library "
            "functions, both compared with the model's table and census; registry and lifecycle worlds for the registry part; under every interleaving of the registration and unregistration steps nothing is left "
            "in the registry once all tunnels ended (C14_registry_nothing_left_behind; counter-example C14_single_unregister_leaves_entry).",
    "design_ref": "DESIGN.md A2 (C14)",
    "note": "Trusted: as C08; one-Send goroutines end when the carrier accepts or fails the Send (harness carriers never block; the census counts any that linger). GC-level retention is outside the model.",
    "technique": "Lean 4 invariants (tables, goroutine census) over all reachable endpoint states + per-step census/table correspondence",
}
CLAIMS["C15"] = {
    "text": "PARTIAL by nature (a proof about Go's memory model is outside Lean models of this code). What is proved: (a) the lockset argument itself, once, over an event model of "
            "executions with mutexes, close/receive and go: common lock, publication and construction each imply happens-before, and a consistently protected variable has no "
            "data race in any well-formed execution (C15_hb_of_common_lock, C15_hb_of_publication, C15_hb_of_go, C15_race_free_of_discipline); (b) on every run, that the CURRENT "
            "sources obey the discipline: the go/ast extractor regenerates every access to every field of every shared struct with the locks held there (inter-procedurally, defers "
            "unwound LIFO), and C15_discipline / C15_blocking_calls_hold_no_loop_lock / C15_receive_loops_never_send / C15_waits_hold_no_lock / C15_one_critical_section_per_function (no function splits its accesses to lock-protected data over two critical sections of that lock, nothing written under a read lock: atomicity of check-then-act) / C15_wakeups_need_no_sleeper_lock (no channel is closed or sent on under a mutex that a waiter on that channel holds) / C15_lock_order_acyclic are decided by the kernel over that table (decide +kernel). "
            "A removed or narrowed lock, an unlocked access, a new unprotected field, a callback under a loop lock or a lock-order cycle breaks the obligation and the offending rows are printed. "
            "Search for failing inputs: race-instrumented stress of real grpc-go tunnels with random delays at the yield points (Trailer()/call-option reads right after completion, "
            "Close/Stop during RPCs, registry queries during open/close), and the deterministic S-, C- and W1 worlds run as a search for deadlocks (the hang watchdog) and panics.",
    "design_ref": "DESIGN.md A2 (C15), A3",
    "note": "Trusted: Lean kernel; the syntactic extractor (aliasing, closures stored and called later are treated as holding no lock); the hand-written protections table; the Go memory "
            "model's definition of happens-before as transcribed in Lockset.lean; grpc-go/context internals are out of scope. The race detector is supporting evidence only.",
    "technique": "Lean 4 lockset theorem + kernel-decided discipline obligations over a table regenerated from the source + race-detector stress",
}
CLAIMS["C16"] = {
    "text": "Theorems: a second SendMsg on a non-streaming response side is refused with Internal and emits no data (C16_second_send_refused); at most one request is ever "
            "delivered to a handler of a non-client-streaming method over every operation sequence and later reads fail (C16_server_at_most_one, "
            "C16_server_reads_fail_after_delivery); a second request fails the RPC with InvalidArgument (C16_second_request_fails); read errors are sticky; caller side: at most one "
            "response for non-server-streaming methods, a second one fails the RPC with Internal (client theorems in the same file). " + _SRV + " " + _CLI + " " + _W1 +
            " with 0/1/2/many messages in all chunkings.",
    "design_ref": "DESIGN.md A2 (C16)",
    "note": "Trusted: as C08.",
    "technique": "Lean 4 theorems over the endpoint models (all operation sequences) + raw-peer correspondence",
}
CLAIMS["C17"] = {
    "text": "Theorems over a model of Go contexts as binding stacks: a handler's context inherits the tunnel's values, carries exactly the RPC's request metadata and the tunnel "
            "metadata accessor, and shares no mutable metadata object with another RPC or with the tunnel (C17_inherited, C17_handler_values, C17_channel, C17_private). The wiring "
            "the model describes is tied to the source by regenerated extractor facts (ctxFacts: which context each constructor derives from, where MD.Copy is applied) and to "
            "behaviour by the identity world: real grpc-go tunnels with identity-tagged values, peer, and metadata mutated by handlers and callers.",
    "design_ref": "DESIGN.md A2 (C17)",
    "note": "Trusted: Lean kernel; Go's context.WithValue / metadata.MD.Copy semantics; extractor facts; the identity harness.",
    "technique": "Lean 4 theorems over a context/heap model + regenerated wiring facts + identity-tag correspondence",
}
CLAIMS["C18"] = {
    "text": "Theorem C18_parse_eq_spec: for every list of grpc-timeout header values (arbitrary bytes, arbitrary length) the model of timeoutFromHeaders returns exactly what the "
            "gRPC wire specification prescribes (1-8 digits + unit, saturating at 2^63-1 ns; malformed => no deadline), with corollaries C18_wellformed, C18_malformed, "
            "C18_saturates, C18_last_wins, C18_exact, C18_clamped, C18_monotone. The model is tied to the code by running VerifTimeoutFromHeaders and the Lean definition on >20k boundary and random inputs per run; the deadline's "
            "effect on the handler context is checked in the S- and W1 worlds.",
    "design_ref": "DESIGN.md A2 (C18), A4 (D7)",
    "note": "Trusted: Lean kernel; transcription of the gRPC timeout grammar into Timeout.spec; the differential harness. Modelled, not proved: that context.WithTimeout(parsed) is the handler's deadline.",
    "technique": "Lean 4 theorem (parse = spec, all inputs) + differential correspondence on the real parser",
}

NOT_CLAIMED = {}
