HOOK_COMMITS = ["d4c9662", "221713e"]

NOTES = ("Technique family: machine-checked proof in Lean 4. Every check = (1) facts regenerated from /repo + lake build of the "
         "property's theorem module + axiom audit, (2) correspondence: implementation (built from /repo, -tags verif) vs the "
         "model's executable definitions on the same inputs, (3) the specification evaluated on the implementation's results "
         "(search for a failing input). See DESIGN.md.")

CLAIMS = {
    "C18": {
        "text": "Theorem C18_parse_eq_spec: for every list of grpc-timeout header values (arbitrary bytes, arbitrary length) the model of "
                "timeoutFromHeaders returns exactly what the gRPC wire specification prescribes (1-8 digits + unit, saturating at 2^63-1 ns; "
                "malformed => no deadline), with corollaries C18_wellformed, C18_malformed, C18_saturates. The model is tied to the code by "
                "running VerifTimeoutFromHeaders and the Lean definition on >20k boundary and random inputs per run.",
        "design_ref": "DESIGN.md 6 (C18)",
        "note": "Trusted: Lean kernel; transcription of the gRPC timeout grammar into Timeout.spec; the differential harness. "
                "Modelled, not proved: that context.WithTimeout(parsed) is the handler's deadline.",
        "technique": "Lean 4 theorem (parse = spec, all inputs) + differential correspondence on the real parser",
    },
}

CLAIMS["C05"] = {
    "text": "Theorems over the L-atomic model of flow control (sender load/CAS/park/wake, updateWindow add/signal, carrier, accept, dequeue, "
            "credit callback; arbitrary window W>0, chunkMax>0, workload and schedule of any length): conservation of credit, no lost wake-up "
            "(sender and reader), 'blocked only behind a full unread window', 'whole window restored when everything is read', no stuck state "
            "(C05_no_stuck), every execution finite (explicit linear measure, C05_terminates) and complete delivery (C05_completes). The model "
            "is tied to the real defaultSender/defaultReceiver by stepping them at verif yield points under a harness-controlled scheduler "
            "and comparing the hook-visible state after every atomic action (random schedules each run; all schedules of tiny configurations "
            "to a depth bound).",
    "design_ref": "DESIGN.md 6 (C05), Appendix B.1",
    "note": "Trusted: Lean kernel; sequential consistency of Go atomics/channels/cond at action granularity; FIFO carrier; the hook scheduler. "
            "Multi-stream and bounded-carrier lifting (C03_progress) is stated in DESIGN.md and not yet mechanised: this check covers one stream and direction.",
    "technique": "Lean 4 invariant + termination-measure proofs over all interleavings of an atomic-step model; hook-stepped correspondence with the real sender/receiver",
}
CLAIMS["C06"] = {
    "text": "Theorems: in every reachable state of the L-atomic model sent <= W + credit delivered (C06_sender), every data frame <= chunkMax "
            "= 16384 (C06_chunk_code, constant regenerated from the source), credit granted <= bytes dequeued (C06_credit), a conforming sender "
            "never trips the receiver (C06_no_overrun); for the receiver alone against ANY operation sequence queued bytes <= W "
            "(C06_receiver_bounded) and an oversize frame is refused without being queued (C06_overrun_refused). Tied to the code by the "
            "hook-stepped flow world and by direct comparison of both senders' chunking with Framing.pump / Framing.sendAll.",
    "design_ref": "DESIGN.md 6 (C06)",
    "note": "Trusted: as C05. The stream-level consequence of an overrun (that RPC fails with ResourceExhausted, others continue) belongs to the "
            "L-frame endpoint model (C09/C03 checks).",
    "technique": "Lean 4 invariant proofs (all schedules; all hostile operation sequences) + differential correspondence",
}

NOT_CLAIMED = {}
