#!/usr/bin/env python3
"""Regenerates /verif/MANIFEST.json from checklib/manifest_text.py and families.PROPS."""
import json, os, sys
here = os.path.dirname(os.path.abspath(__file__))
sys.path.insert(0, here)
import families, manifest_text as T

verif = os.path.dirname(here)
hooks_commits = T.HOOK_COMMITS
checks, na = [], []
for pid in [f"C{n:02d}" for n in range(1, 19)]:
    if pid in families.PROPS and pid in T.CLAIMS:
        c = T.CLAIMS[pid]
        checks.append({
            "property_id": pid,
            "quick_cmd": f"./check {pid} --tier quick",
            "thorough_cmd": f"./check {pid} --tier thorough",
            "evidence_file": f"/verif/evidence/{pid}.json",
            "replay_cmd_template": f"./check {pid} --replay {{path}}",
            "engine": "lean-proof+correspondence",
            "level_claimed": {"category": "proof", "text": c["text"], "design_ref": c["design_ref"]},
            "level_note": c["note"],
            "technique": c["technique"],
        })
    else:
        na.append({"property_id": pid, "reason": T.NOT_CLAIMED.get(pid, "no check registered yet (work in progress); see DESIGN.md section 6")})
m = {
    "version": 1,
    "setup_cmd": "./setup.sh",
    "hooks": {
        "guard": "verif",
        "enable": "go build tag: GOTOOLCHAIN=local go1.26.8 test -c -tags verif (harness module /verif/harness, replace => /repo)",
        "baseline_off_cmd": "cd /repo && go test -mod=mod -json -vet=off -count=1 -timeout 25m ./...",
        "source_commits": hooks_commits,
        "add_only": True,
    },
    "engines": [
        {"name": "lean-proof+correspondence", "path": "/verif/check",
         "serves_properties": [c["property_id"] for c in checks],
         "kind_free_text": "Lean 4 theorems about executable models (/verif/lean) + regenerated facts (extractor) + "
                           "differential correspondence between model driver and the implementation built with -tags verif (/verif/harness)"},
    ],
    "checks": checks,
    "not_applicable": na,
    "notes": T.NOTES,
}
json.dump(m, open(os.path.join(verif, "MANIFEST.json"), "w"), indent=1)
print("claimed:", [c["property_id"] for c in checks])
