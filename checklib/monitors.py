"""
Specification monitors evaluated on IMPLEMENTATION observation lines (the
search for a concrete failing input).  They mention only what the properties
talk about: frames on the carrier, results of application calls, events,
tables.  Each monitor is a class fed one (op, observation) pair at a time and
returns a list of (key, message) violations.
"""
import re


def parse_obs(line):
    """F=[..] D=[..] E=[..] T=[..] L=.. -> dict (None if the line has another shape)."""
    m = re.match(r"F=\[(.*?)\] D=\[(.*?)\] E=\[(.*?)\] T=\[(.*?)\] L=(\S+)(.*)$", line)
    if not m:
        return None
    frames = []
    for f in m.group(1).split():
        sid, _, rest = f.partition(":")
        try:
            frames.append((int(sid), rest))
        except ValueError:
            frames.append((None, f))
    dones = []
    for d in m.group(2).split():
        mm = re.match(r"(-?\d+)\.(\w+):(.*)$", d)
        if mm:
            dones.append((int(mm.group(1)), mm.group(2), mm.group(3)))
    events = [e for e in m.group(3).split(";") if e]
    tbl = None if m.group(4) == "-" else [int(x) for x in m.group(4).split(",") if x]
    last = None if m.group(5) == "-" else int(m.group(5))
    return {"F": frames, "D": dones, "E": events, "T": tbl, "L": last, "rest": m.group(6)}


def parse_census(o):
    m = re.search(r" G=(\d+),(\d+),(\d+)", o.get("rest") or "")
    return tuple(int(x) for x in m.groups()) if m else None


def kvs(op):
    return dict(a.split("=", 1) for a in op.split() if "=" in a)


def kind_of(op):
    for a in op.split()[1:]:
        if "=" not in a:
            return a
    return ""


METHODS = {"/v.S/U": "U", "/v.S/CS": "CS", "/v.S/SS": "SS", "/v.S/BD": "BD",
           "v.S/U": "U", "v.S/CS": "CS", "v.S/SS": "SS", "v.S/BD": "BD"}


class ServerWire:
    """C13 (server -> client direction) + C06 chunk bound + C02 'headers before data'."""

    def __init__(self):
        self.st = {}

    def feed(self, frames, returned_sids=(), cancelled_sids=()):
        out = []
        for sid, f in frames:
            if sid is None:
                out.append(("wire-unparsable", f)); continue
            s = self.st.setdefault(sid, {"hdr": False, "data": False, "rem": 0, "closed": False, "byhandler": False})
            kind = f.split(":")[0].split("{")[0]
            if kind == "settings":
                continue
            if "!CORRUPT" in f:
                out.append(("data-corrupt", f"stream {sid}: response bytes differ from what the handler sent: {f}"))
            lenient = sid in cancelled_sids   # the peer gave the id up: only 'one close' is checked (DESIGN 6.13)
            if s["closed"] and kind == "close":
                out.append(("second-close", f"stream {sid}: second close_stream frame"))
            if s["closed"] and s["byhandler"] and kind != "close" and not lenient:
                out.append(("frame-after-close", f"stream {sid}: {f} after the close frame of a stream its handler ended"))
            if kind == "hdr":
                if s["hdr"]:
                    out.append(("second-headers", f"stream {sid}: second response_headers"))
                if s["data"] and not lenient:
                    out.append(("headers-after-data", f"stream {sid}: response_headers after response data"))
                s["hdr"] = True
            elif kind == "msg":
                _, size, ln = f.replace("!CORRUPT", "").split(":")
                size, ln = int(size), int(ln)
                if not s["hdr"] and not lenient:
                    out.append(("data-before-headers", f"stream {sid}: response message before response_headers"))
                if s["rem"] > 0 and not lenient:
                    out.append(("envelope-before-done", f"stream {sid}: new message frame with {s['rem']} bytes of the previous one missing"))
                if ln > 16384:
                    out.append(("chunk-too-big", f"stream {sid}: {ln} bytes in one frame"))
                if ln > size:
                    out.append(("more-than-size", f"stream {sid}: frame carries {ln} > declared {size}"))
                s["data"] = True
                s["rem"] = size - ln
            elif kind == "more":
                ln = int(f.replace("!CORRUPT", "").split(":")[1])
                if (s["rem"] <= 0 or ln == 0 or ln > s["rem"]) and not lenient:
                    out.append(("bad-continuation", f"stream {sid}: continuation of {ln} bytes with {s['rem']} outstanding"))
                if ln > 16384:
                    out.append(("chunk-too-big", f"stream {sid}: {ln} bytes in one frame"))
                s["rem"] -= ln
            elif kind == "close":
                s["closed"] = True
                s["byhandler"] = sid in returned_sids
        return out


def teardown_violations(op, line):
    """C14 at the end of a scenario: the tunnel has ended, every handler / caller was released and told to return."""
    m = re.match(r"left=(\d+),(\d+),(\d+) table=\[(.*?)\]$", line)
    if not m:
        return []
    a, b, c, tbl = int(m.group(1)), int(m.group(2)), int(m.group(3)), m.group(4)
    side = "server" if op.startswith("s.") else "client"
    names = ("handler", "stream-context watcher", "one-Send") if side == "server" else ("receive-loop", "stream-context watcher", "one-Send")
    v = []
    for n, what in zip((a, b, c), names):
        if n:
            v.append(("C14", "goroutine-left-after-tunnel-end", f"{side}: {n} {what} goroutine(s) started by the library are still alive after the "
                                                                f"tunnel ended and everything was released"))
    if a:
        # C04: a handler goroutine that is still alive now is inside a library call (RecvMsg / SendMsg / ...) that did not return
        # although the tunnel ended and its context was cancelled; a receive loop still alive means the channel never ended
        what = "a handler is still blocked inside a read or write of its stream" if side == "server" else "the channel's receive loop is still running"
        v.append(("C04", "blocked-call-not-released-by-termination", f"{side}: the tunnel ended and everything was released, but {what} ({a} goroutine(s))"))
    if tbl:
        v.append(("C14", "table-entry-left-after-tunnel-end", f"{side}: stream table still holds [{tbl}] after the tunnel ended"))
    return v


class SWorldMonitor:
    """Properties observable in the S-world (real server, raw client)."""

    def __init__(self):
        self.reset()

    def reset(self):
        self.wire = ServerWire()
        self.last = -1
        self.table = set()
        self.closing = False
        self.returned = False
        self.meta = {}         # sid -> dict(shape, accepted, msgs_seen, closed, rejected, deadline_ns, created_at)
        self.handler_returned = set()
        self.cancelled = set()
        self.now = 0
        self.expect_close = {}
        self.blocked = False
        self.all_fc = True
        self.refused = {}      # sid -> why it was refused (closing / revision / method)
        self.rwin = {}         # sid -> bytes left of the window the server advertised for this stream (revision one)
        self.send_failed = set()   # streams on which a handler's SendMsg returned an error
        self.sent = {}         # sid -> [complete messages sent by the raw client, bytes of current, size of current]
        self.swin = {}         # sid -> what is left of the window the PEER advertised for responses (revision one)
        self.spend = set()     # streams whose handler is inside SendMsg (no result yet)
        self.rpend = set()     # streams whose handler is inside RecvMsg (no result yet)
        self.resp_msgs = {}    # sid -> response messages started on the wire
        self.ctx_ended = set() # streams whose handler context has ended

    def feed(self, op, obs_line):
        v = []
        if op.startswith("s.teardown"):
            return teardown_violations(op, obs_line)
        if op.startswith("s.init"):
            self.reset()
        o = parse_obs(obs_line)
        if o is None:
            return v
        k = kvs(op)
        kind = kind_of(op)
        sid = int(k["sid"]) if "sid" in k else None
        ev = o["E"]
        if any("PANIC" in e for e in ev):
            v.append(("C09", "panic", f"panic in the receive loop on `{op}`"))
            v.append(("C15", "panic", f"panic in the receive loop on `{op}`"))
        tunnel_err = [e for e in ev if e.startswith("serve-returned")]
        for e in ev:
            if e.startswith("returned "):
                self.handler_returned.add(int(e.split()[1]))
        if op.startswith("s.closing"):
            self.closing = op.split()[1] == "1"
        if op.startswith("s.tick"):
            self.now += int(k["ns"])
        # ---- wire grammar (C13), chunk bound (C06) ----
        # a handler whose SendMsg failed has been told the stream is broken; what it sends afterwards is outside the
        # handler contract the framing clause presupposes (C13_message_framing_server_partial: legalSends)
        for key, msg in self.wire.feed(o["F"], self.handler_returned, self.cancelled | self.send_failed):
            prop = "C06" if key == "chunk-too-big" else ("C01" if key == "data-corrupt" else "C13")
            v.append((prop, key, msg))
            if key == "chunk-too-big":
                v.append(("C13", key, msg))      # "continuation frames of at most 16 KiB" is also the wire grammar's clause
        for dsid, dop, res in o["D"]:
            if dop in ("send", "reply") and res != "ok":
                self.send_failed.add(dsid)
        # ---- C14 / C04: once serve has returned every stream context has ended, so no watcher may remain,
        # and an RPC whose handler has returned has left the table
        g0 = parse_census(o)
        if (self.returned or tunnel_err) and g0 is not None:
            if g0[1] != 0:
                v.append(("C14", "watcher-after-tunnel-end", f"{g0[1]} stream-context watcher goroutine(s) still alive after serve returned "
                                                             f"({(tunnel_err or ['earlier'])[0]}): stream contexts were not cancelled"))
            if g0[2] != 0:
                v.append(("C14", "send-goroutine-stuck", f"{g0[2]} one-Send goroutine(s) alive after serve returned"))
            if o["T"] is not None:
                for t in o["T"]:
                    if t in self.handler_returned:
                        v.append(("C14", "stale-table-entry", f"stream {t} still in the server table after its handler returned (tunnel ended)"))
        if self.returned:
            return v
        if "B=1" in o["rest"]:
            if not self.blocked and self.all_fc:
                v.append(("C03", "loop-blocked-with-flow-control", f"the receive loop is blocked after `{op}` although every stream uses flow control"))
            self.blocked = True
        if self.blocked:
            return v       # revision zero hand-off: the loop is blocked, frames are not being processed (D10)
        # ---- C11: flow control is used on a stream exactly when its new_stream frame carried revision one ----
        for fsid, f in o["F"]:
            if f.startswith("wu:") and self.meta.get(fsid, {}).get("rev") == 0:
                v.append(("C11", "window-update-on-revision-zero-stream", f"stream {fsid} was opened with protocol revision zero "
                                                                          f"(no flow control) but the server emitted {f}"))
        # ---- C06: the receiver enforces the window IT advertised (64 KiB), per stream ----
        for fsid, f in o["F"]:
            if f.startswith("wu:") and fsid in self.rwin:
                self.rwin[fsid] += int(f.split(":")[1])
        if op.startswith("s.frame") and kind in ("half", "cancel") and sid in self.rwin:
            # after its half-close (or cancel) the peer has nothing more to say: the receiver is closed, later data frames
            # (a hostile peer's) are dropped without being buffered and do not count against the window
            self.rwin.pop(sid, None)
        if op.startswith("s.frame") and kind in ("msg", "more") and sid in self.table and sid in self.rwin:
            n = int(k["len"])
            closed8 = any(s_ == sid and f.startswith("close:8") for s_, f in o["F"])
            if n > self.rwin[sid]:
                if not closed8 and not tunnel_err:
                    v.append(("C06", "overrun-accepted", f"stream {sid}: a frame of {n} bytes was accepted with only {self.rwin[sid]} bytes of the "
                                                         f"advertised window left (no ResourceExhausted)"))
                self.rwin.pop(sid, None)
            else:
                if closed8:
                    v.append(("C06", "spurious-overrun", f"stream {sid}: failed with ResourceExhausted on a frame of {n} bytes although "
                                                         f"{self.rwin[sid]} bytes of the advertised window were left"))
                    self.rwin.pop(sid, None)
                else:
                    self.rwin[sid] -= n
        if op.startswith("s.frame") and kind in ("msg", "more") and sid in self.table:
            st_ = self.sent.setdefault(sid, [0, 0, None])
            if kind == "msg":
                st_[1], st_[2] = int(k["len"]), int(k["size"])
            elif st_[2] is not None:
                st_[1] += int(k["len"])
            if st_[2] is not None and st_[1] == st_[2]:
                st_[0] += 1
                st_[2] = None
        if op.startswith("s.frame"):
            in_table = sid in self.table
            if kind == "new":
                if in_table or sid <= self.last:
                    # C08: refused by ending the tunnel
                    if not tunnel_err:
                        v.append(("C08", "reused-id-accepted", f"new_stream with id {sid} (last seen {self.last}) did not end the tunnel"))
                else:
                    self.last = sid
                    method = bytes.fromhex(k["m"]).decode("latin1") if k["m"] != "-" else ""
                    shape = METHODS.get(method)
                    rev = int(k["rev"])
                    if rev != 1:
                        self.all_fc = False
                    closes = [f for s_, f in o["F"] if s_ == sid and f.startswith("close:")]
                    if tunnel_err:
                        v.append(("C03", "rejection-kills-tunnel", f"valid new_stream {sid} ended the tunnel: {tunnel_err}"))
                    elif self.closing:
                        # C10: refused with Unavailable, exactly one close, no handler, tunnel stays
                        if closes != ["close:14{-}"] or any(e.startswith(f"entered {sid} ") for e in ev) or sid in (o["T"] or []):
                            v.append(("C10", "not-refused-while-closing", f"new_stream {sid} during shutdown: frames {o['F']} events {ev}"))
                        self.meta[sid] = {"accepted": False}
                        self.refused[sid] = "closing"
                    elif rev not in (0, 1):
                        if closes != ["close:14{-}"]:
                            v.append(("C09", "bad-revision-outcome", f"new_stream {sid} with revision {rev}: {o['F']}"))
                        self.meta[sid] = {"accepted": False}
                        self.refused[sid] = "revision"
                    elif shape is None:
                        code = "3" if (method.lstrip("/").count("/") == 0 and True) else "12"
                        # malformed (no slash after stripping one leading slash) => InvalidArgument, unknown => Unimplemented
                        name = method[1:] if method.startswith("/") else method
                        code = "3" if "/" not in name else "12"
                        if closes != [f"close:{code}{{-}}"]:
                            v.append(("C09", "bad-method-outcome", f"new_stream {sid} method {method!r}: expected close:{code}, got {o['F']}"))
                        self.meta[sid] = {"accepted": False}
                        self.refused[sid] = "method"
                    else:
                        self.table.add(sid)
                        self.meta[sid] = {"accepted": True, "shape": shape, "msgs": 0, "rev": rev}
                        if rev == 1:
                            self.rwin[sid] = 65536
                        if shape != "U" and f"entered {sid} stream" not in ev:
                            v.append(("C08", "handler-not-invoked", f"accepted stream {sid} ({shape}): handler not entered"))
                    if self.last is not None and o["L"] is not None and o["L"] != self.last:
                        v.append(("C08", "lastseen", f"lastSeen {o['L']} after new_stream {sid}, expected {self.last}"))
            else:
                if not in_table:
                    if sid <= self.last:
                        # C07/C08: frames for ids already disposed of are ignored
                        if tunnel_err and sid in self.refused:
                            why = self.refused[sid]
                            v.append(("C10" if why == "closing" else "C03", "refused-rpc-kills-tunnel",
                                      f"stream {sid} was refused ({why}); its next frame `{op}` ended the whole tunnel: {tunnel_err}"))
                            v.append(("C03", "refused-rpc-kills-tunnel",
                                      f"stream {sid} was refused ({why}); its next frame `{op}` ended the whole tunnel: {tunnel_err}"))
                            if why != "closing":
                                # a peer input the endpoint documents as a stream-level violation (unsupported revision, bad method)
                                v.append(("C09", "stream-violation-kills-tunnel",
                                          f"stream {sid} was rejected ({why}): only that RPC may fail, but its next frame `{op}` ended the whole tunnel: {tunnel_err}"))
                        if o["F"] or o["D"] or ev:
                            v.append(("C07", "late-frame-not-ignored", f"`{op}` for finished stream {sid} had effects: {obs_line[:160]}"))
                    elif not tunnel_err:
                        v.append(("C08", "unknown-id-accepted", f"`{op}` for never-created stream {sid} did not end the tunnel"))
                elif kind == "cancel":
                    self.cancelled.add(sid)
                    if f"ctxdone {sid} canceled" not in ev and not any(e.startswith(f"ctxdone {sid}") for e in ev):
                        # context may already be done (deadline); then the table entry must still go
                        pass
                    if o["T"] is not None and sid in o["T"]:
                        v.append(("C07", "cancel-not-released", f"stream {sid} still in the server table after its cancel frame"))
        if tunnel_err:
            self.returned = True
        # ---- C05: a sender is blocked only while the window the peer advertised is used up ----
        if op.startswith("s.frame") and kind == "new" and sid in self.table and self.meta.get(sid, {}).get("rev") == 1 and sid not in self.swin:
            self.swin[sid] = int(k.get("win", "0"))
        if op.startswith("s.frame") and kind == "wu" and sid in self.swin:
            self.swin[sid] = (self.swin[sid] + int(k["n"])) % (1 << 32)     # the code's window is a uint32
        for fsid, f in o["F"]:
            if fsid in self.swin and (f.startswith("msg:") or f.startswith("more:")):
                self.swin[fsid] -= int(f.split(":")[-1])
        if op.startswith("s.call") and kind == "send":
            self.spend.add(sid)
        if op.startswith("s.call") and kind == "recv":
            self.rpend.add(sid)
        for dsid, dop, res in o["D"]:
            if dop == "send":
                self.spend.discard(dsid)
            if dop == "recv":
                self.rpend.discard(dsid)
        # ---- C07 / C16: a unary RPC never ends OK without its response ("success with missing data") ----
        for fsid, f in o["F"]:
            if f.startswith("msg:"):
                self.resp_msgs[fsid] = self.resp_msgs.get(fsid, 0) + 1
            if f.startswith("close:0") and self.meta.get(fsid, {}).get("shape") == "U" and self.meta[fsid].get("accepted") \
                    and self.resp_msgs.get(fsid, 0) == 0:
                why = " after its deadline / cancellation" if fsid in self.ctx_ended or fsid in self.cancelled else ""
                for tag in ("C07", "C16"):
                    v.append((tag, "ok-close-without-response", f"stream {fsid} (unary): the server closed the RPC with status OK without ever sending "
                                                                f"the response message{why}"))
        # ---- C05 / C10: whenever the application reads, the credit is returned (also for RPCs in flight during shutdown) ----
        if op.startswith("s.frame") and kind == "half" and sid in self.meta:
            self.meta[sid]["half"] = True
        for dsid, dop, res in o["D"]:
            m_ = self.meta.get(dsid)
            if dop in ("recv", "decode") and res.startswith("msg:") and m_ and m_.get("accepted") and m_.get("rev") == 1 \
                    and not m_.get("half") and dsid not in self.cancelled and dsid not in self.ctx_ended and dsid in self.table:
                try:
                    ln = int(res.split(":")[2])
                except (ValueError, IndexError):
                    ln = 0
                if ln > 0 and not any(fs == dsid and f.startswith("wu:") for fs, f in o["F"]) \
                        and not any(fs == dsid and f.startswith("close:") for fs, f in o["F"]):
                    tags = ["C05"] + (["C10"] if self.closing else [])
                    for tag in tags:
                        v.append((tag, "credit-not-returned", f"stream {dsid}: the handler read a message of {ln} bytes but no window update was sent"
                                                              + (" (the RPC was in flight when shutdown began: it must go on as before)" if self.closing else "")))
        # ---- C07: when a handler's context ends (cancel frame, deadline, tunnel end) its blocked reads and writes return ----
        for e in ev:
            if e.startswith("ctxdone "):
                self.ctx_ended.add(int(e.split()[1]))
        for esid in sorted(self.ctx_ended):
            for what, pend in (("RecvMsg", self.rpend), ("SendMsg", self.spend)):
                if esid in pend and esid not in self.handler_returned:
                    v.append(("C07", "handler-call-not-released-by-context-end", f"stream {esid}: the handler's context has ended but its blocked {what} "
                                                                                 f"has not returned at quiescence (after `{op[:60]}`)"))
                    pend.discard(esid)
        if not tunnel_err:
            for psid in sorted(self.spend):
                if psid in self.swin and psid in self.table and psid not in self.cancelled and psid not in self.handler_returned \
                        and not any(s_ == psid and f.startswith("close:") for s_, f in o["F"]) and self.swin[psid] > 0:
                    v.append(("C05", "sender-stranded", f"stream {psid}: the handler's SendMsg is still blocked at quiescence although {self.swin[psid]} bytes "
                                                        f"of the window the peer granted are unused (after `{op[:60]}`)"))
                    self.spend.discard(psid)
        # ---- per-stream call-shape enforcement (C16, server side) ----
        for dsid, dop, res in o["D"]:
            m = self.meta.get(dsid)
            if m and m.get("accepted") and dop in ("recv", "decode") and res.startswith("msg:"):
                m["msgs"] += 1
                if m["shape"] in ("U", "SS") and m["msgs"] > 1:
                    v.append(("C16", "second-request-delivered", f"stream {dsid} ({m['shape']}): handler obtained request #{m['msgs']}"))
            if m and m.get("accepted") and dop in ("recv", "decode") and res.startswith("msg:"):
                have = self.sent.get(dsid, [0])[0]
                if m["msgs"] > have:
                    v.append(("C01", "fabricated-request", f"stream {dsid}: handler obtained {m['msgs']} request message(s) "
                                                           f"({res}) but the client completed only {have}"))
            if res.startswith("msg:CORRUPT") or res.startswith("msg:mixed"):
                v.append(("C01", "request-corrupt", f"stream {dsid}: handler received bytes no client sent: {res}"))
            elif m and m.get("accepted") and dop in ("recv", "decode") and res.startswith("msg:"):
                # C01: messages arrive in the order submitted, none skipped or repeated
                idx = res.split(":")[1]
                exp = m.get("next_idx", 0)
                if idx != "-" and int(idx) != exp:
                    v.append(("C01", "request-order", f"stream {dsid}: handler received message {idx}, expected {exp}"))
                m["next_idx"] = exp + 1
        # ---- table bookkeeping (C14): finished streams leave the table ----
        if o["T"] is not None:
            for fsid, f in o["F"]:
                if f.startswith("close:") and fsid in self.table:
                    self.table.discard(fsid)
            for t in o["T"]:
                if t not in self.table:
                    v.append(("C14", "stale-table-entry", f"stream {t} in the server table although it was closed or never accepted"))
            for t in self.table:
                if t not in o["T"]:
                    v.append(("C14", "missing-table-entry", f"live stream {t} missing from the server table"))
        # ---- goroutine census (C14): G=handlers,watchers,one-send goroutines ----
        g = parse_census(o)
        if g is not None:
            h, w, x = g
            if x != 0:
                v.append(("C14", "send-goroutine-stuck", f"{x} goroutine(s) started for a single carrier Send still alive at quiescence"))
            if o["T"] is not None and w > len(o["T"]):
                v.append(("C14", "watcher-without-rpc", f"{w} stream-context watcher goroutine(s) alive but only {len(o['T'])} RPC(s) in the server table"))
        return v


class ClientWire:
    """C13 (client -> server direction), C08 wire order, C06 chunk bound and sender window."""

    def __init__(self):
        self.st = {}
        self.last_new = None

    def feed(self, frames):
        out = []
        for sid, f in frames:
            if sid is None:
                out.append(("C13", "wire-unparsable", f)); continue
            kind = f.split(":")[0].split("{")[0]
            s = self.st.get(sid)
            if kind == "new":
                if s is not None:
                    out.append(("C13", "second-new-stream", f"stream {sid}: second new_stream frame"))
                if self.last_new is not None and sid <= self.last_new:
                    out.append(("C08", "ids-not-increasing", f"new_stream id {sid} after {self.last_new}"))
                self.last_new = sid
                self.st[sid] = {"half": False, "cancel": False, "rem": 0, "sent": 0}
                continue
            if s is None:
                out.append(("C08", "frame-before-new-stream", f"stream {sid}: {f} before its new_stream frame"))
                s = self.st.setdefault(sid, {"half": False, "cancel": False, "rem": 0, "sent": 0})
            if "!CORRUPT" in f:
                out.append(("C01", "data-corrupt", f"stream {sid}: request bytes differ from what the caller submitted: {f}"))
            if kind == "msg":
                _, size, ln = f.replace("!CORRUPT", "").split(":")
                size, ln = int(size), int(ln)
                if s["half"]:
                    out.append(("C13", "data-after-half-close", f"stream {sid}: request data after half_close"))
                if s["rem"] > 0:
                    out.append(("C13", "envelope-before-done", f"stream {sid}: new message frame with {s['rem']} bytes outstanding"))
                if ln > 16384:
                    out.append(("C06", "chunk-too-big", f"stream {sid}: {ln} bytes in one frame"))
                    out.append(("C13", "chunk-too-big", f"stream {sid}: {ln} bytes in one frame"))
                if ln > size:
                    out.append(("C13", "more-than-size", f"stream {sid}: frame carries {ln} > declared {size}"))
                s["rem"] = size - ln
                s["sent"] += ln
            elif kind == "more":
                ln = int(f.replace("!CORRUPT", "").split(":")[1])
                if s["half"]:
                    out.append(("C13", "data-after-half-close", f"stream {sid}: request data after half_close"))
                if s["rem"] <= 0 or ln == 0 or ln > s["rem"]:
                    out.append(("C13", "bad-continuation", f"stream {sid}: continuation of {ln} bytes with {s['rem']} outstanding"))
                if ln > 16384:
                    out.append(("C06", "chunk-too-big", f"stream {sid}: {ln} bytes in one frame"))
                    out.append(("C13", "chunk-too-big", f"stream {sid}: {ln} bytes in one frame"))
                s["rem"] -= ln
                s["sent"] += ln
            elif kind == "half":
                if s["half"]:
                    out.append(("C13", "second-half-close", f"stream {sid}: second half_close"))
                s["half"] = True
            elif kind == "cancel":
                if s["cancel"]:
                    out.append(("C13", "second-cancel", f"stream {sid}: second cancel"))
                s["cancel"] = True
        return out


def spec_revision(client_revs, server_revs):
    """tunnel.proto Settings: empty list = revision zero only; use the highest common one."""
    srv = server_revs if server_revs else [0]
    common = [r for r in srv if r in client_revs]
    return max(common) if common else None


class CWorldMonitor:
    """Properties observable in the C-world (real client, raw server)."""

    def __init__(self):
        self.reset()

    def reset(self):
        self.wire = ClientWire()
        self.awaiting = False
        self.client_revs = [0, 1]
        self.rev = 0
        self.peer_win = 0
        self.finished = False
        self.blocked = False
        self.rpcs = {}     # sid -> dict
        self.table = set()
        self.prev_table = None
        self.crwin = {}    # sid -> bytes left of the window the client advertised for responses

    def feed(self, op, obs_line):
        if op.startswith("c.teardown"):
            return teardown_violations(op, obs_line)
        v = []
        if op.startswith("c.init"):
            self.reset()
            k = kvs(op)
            self.awaiting = k.get("settings") == "1"
            self.client_revs = [0] if k.get("disable") == "1" else [0, 1]
        o = parse_obs(obs_line)
        if o is None:
            return v
        k = kvs(op)
        kind = kind_of(op)
        sid = int(k["sid"]) if "sid" in k else None
        ev = o["E"]
        fin = [e for e in ev if e.startswith("chan-finished")]
        v += self.wire.feed(o["F"])
        # ---- C11: the settings exchange ----
        if op.startswith("c.frame") and self.awaiting and not self.finished:
            self.awaiting = False
            if sid != -1 or kind != "settings":
                if not fin:
                    v.append(("C11", "malformed-settings-accepted", f"first frame `{op}` did not fail the tunnel"))
            else:
                revs = [] if k["revs"] == "-" else [int(x) for x in k["revs"].split(",")]
                want = spec_revision(self.client_revs, revs)
                if want is None:
                    if not fin:
                        v.append(("C11", "no-common-revision-accepted", f"settings {revs} vs client {self.client_revs}: tunnel did not fail"))
                else:
                    got = [e for e in ev if e.startswith("settings-ok")]
                    if got != [f"settings-ok rev={want}"]:
                        v.append(("C11", "wrong-revision", f"settings {revs} vs client {self.client_revs}: expected revision {want}, got {ev}"))
                    self.rev = want
                    self.peer_win = int(k["win"])
            if fin:
                self.finished = True
            return v
        if op.startswith("c.eof") or op.startswith("c.fail"):
            if self.awaiting and not fin and not self.finished:
                v.append(("C11", "missing-settings-hang", "carrier ended before settings but the channel did not fail"))
            self.awaiting = False
        # revision-zero interop: no window updates, revision 0 in new_stream
        for fsid, f in o["F"]:
            if f.startswith("new:"):
                parts = f.split("{")[0].split(":")
                if int(parts[2]) != self.rev:
                    v.append(("C11", "new-stream-revision", f"new_stream {fsid} carries revision {parts[2]}, negotiated {self.rev}"))
            if f.startswith("wu:") and self.rev == 0:
                v.append(("C11", "window-update-in-revision-zero", f"window_update emitted on a revision-zero tunnel: {fsid}:{f}"))
        if "B=1" in o["rest"]:
            if not self.blocked and self.rev != 0:
                v.append(("C03", "loop-blocked-with-flow-control", f"the client receive loop is blocked after `{op}` under flow control"))
            self.blocked = True
        if self.blocked:
            return v
        # ---- bookkeeping of RPCs ----
        for dsid, dop, res in o["D"]:
            if dop == "new" and res == "ok":
                shape = k.get("shape", "?")
                self.rpcs[dsid] = {"shape": shape, "msgs": 0, "terminal": None, "close": None, "hdr": None, "hdr_seen": False,
                                   "complete": 0, "cur": None, "cancelled": "cancelled" in k, "finished": "cancelled" in k,
                                   "deadline": "timeout" in k, "sent_bytes": 0, "credit": 0, "flushed": False}
                if "cancelled" not in k:
                    self.table.add(dsid)
                if "early" in k:
                    # the peer answered the new_stream frame at once: headers a=1 and one complete message
                    self.rpcs[dsid].update(hdr_seen=True, hdr="a=1", complete=1)
            if dop == "invoke" and dsid == 0 and not self.finished:
                v.append(("C04", "new-fails-on-open-channel", f"Invoke failed to create its stream on an open channel: {res}"))
            if dop == "new" and res != "ok" and not self.finished:
                v.append(("C04", "new-fails-on-open-channel", f"NewStream failed on an open channel: {res}"))
            if dop == "new" and res == "ok" and self.finished:
                v.append(("C04", "new-succeeds-on-closed-channel", "NewStream succeeded after the channel finished"))
        if op.startswith("c.invoke"):
            # the unary call path: the library itself plays the caller (send, close-send, receive, receive again)
            for fsid, f in o["F"]:
                if f.startswith("new:"):
                    self.rpcs[fsid] = {"shape": "U", "msgs": 0, "terminal": None, "close": None, "hdr": None, "hdr_seen": False,
                                       "complete": 0, "cur": None, "cancelled": False, "finished": False, "invoke": True,
                                       "deadline": "timeout" in k, "sent_bytes": 0, "credit": 0, "flushed": False}
                    self.table.add(fsid)
        if fin:
            self.finished = True
            for r in self.rpcs.values():
                r["finished"] = True
            self.table.clear()
        # ---- raw server frames: what the peer has said so far ----
        live_before = getattr(self, "prev_table", None)
        if o["T"] is not None:
            self.prev_table = set(o["T"])
        if op.startswith("c.frame") and sid in self.rpcs and not self.rpcs[sid]["finished"] and \
                (live_before is None or sid in live_before):
            r = self.rpcs[sid]
            if kind == "hdr" and not r["hdr_seen"]:
                r["hdr_seen"] = True
                r["hdr"] = k.get("md", "-")
            elif kind == "close":
                r["close"] = (int(k["code"]), k.get("md", "-"))
                r["finished"] = True
                r["by_close"] = True
                r["complete_at_close"] = r["complete"]
                self.table.discard(sid)
            if kind == "more" and r["complete"] >= 1 and not r["cur"]:
                # a stray continuation frame after a complete message (a protocol error the reader must report).  A further
                # `msg` frame is not counted here: if that message completes it shows in `complete`, and if the peer closes
                # the RPC before completing it the client drops the fragment (model and code agree on that)
                r["extra"] = r.get("extra", 0) + 1
            if kind == "msg":
                r["cur"] = [int(k["len"]), int(k["size"])]
            elif kind == "more" and r["cur"]:
                r["cur"][0] += int(k["len"])
            if kind in ("msg", "more") and r["cur"] and r["cur"][0] > r["cur"][1]:
                r["overshoot"] = True        # the peer sent more data than the message's envelope declared
            if kind in ("msg", "more") and r["cur"] and r["cur"][0] == r["cur"][1]:
                r["complete"] += 1
                r["cur"] = None
            if kind == "wu":
                r["credit"] += int(k["n"])
        if op.startswith("c.call") and kind == "cancel" and sid in self.rpcs:
            r = self.rpcs[sid]
            if not r["finished"]:
                r["finished"] = True
                r["flushed"] = True
                self.table.discard(sid)
                # C07: the caller's blocked calls return in the same step, without the peer
                if not any(d[0] == sid for d in o["D"]) and False:
                    pass
        # ---- per-RPC results ----
        for dsid, dop, res in o["D"]:
            r = self.rpcs.get(dsid)
            if r is None:
                continue
            if dop == "recv":
                if res.startswith("msg:"):
                    r["msgs"] += 1
                    if r["shape"] in ("U", "CS") and r["msgs"] > 1:
                        v.append(("C16", "second-response-delivered", f"stream {dsid} ({r['shape']}): caller obtained response #{r['msgs']}"))
                    # a call with a single response returns that response only once the RPC is known to have ended OK:
                    # a message handed out with a nil error IS the OK outcome for such a call (CloseAndRecv / Invoke)
                    if r["shape"] in ("U", "CS") and r.get("by_close") and r["close"][0] != 0:
                        v.append(("C02", "ok-result-for-failed-rpc", f"stream {dsid} ({r['shape']}): RecvMsg returned the response with a nil error "
                                                                     f"although the peer closed the RPC with code {r['close'][0]}: the status is lost"))
                    if r["shape"] in ("U", "CS") and r.get("by_close") and r["close"][0] == 0 and (r.get("complete_at_close", 1) > 1 or r.get("extra", 0) > 0):
                        v.append(("C16", "success-despite-several-responses", f"stream {dsid} ({r['shape']}): RecvMsg returned a response with a nil error although the peer "
                                                                              f"had sent {r['complete_at_close']} complete response message(s) and {r.get('extra', 0)} further data "
                                                                              f"frame(s) before its OK close"))
                    if r["shape"] in ("U", "CS") and not r.get("by_close"):
                        # ... and without any close frame it is "success with missing trailers": the RPC really ended by the
                        # caller's cancel / deadline (or the tunnel's end) while the single response was already there
                        why = "the tunnel ended" if self.finished else ("it was cancelled / timed out locally" if r["finished"] else "it is still open")
                        v.append(("C07", "success-without-close", f"stream {dsid} ({r['shape']}): RecvMsg returned the response with a nil error although no close "
                                                                  f"frame was ever received for the RPC ({why}): success without status or trailers"))
                    if r["msgs"] > r["complete"]:
                        v.append(("C01", "fabricated-response", f"stream {dsid}: caller obtained {r['msgs']} responses, peer completed {r['complete']}"))
                    if "CORRUPT" in res or "mixed" in res:
                        v.append(("C01", "response-corrupt", f"stream {dsid}: caller received bytes no server sent: {res}"))
                    idx = res.split(":")[1]
                    if idx not in ("-", "CORRUPT", "mixed") and int(idx) != r["msgs"] - 1:
                        v.append(("C01", "response-order", f"stream {dsid}: caller received message {idx} as #{r['msgs']}"))
                else:
                    if res == "eof" and not (r.get("by_close") and r["close"][0] == 0):
                        # end-of-stream IS the OK outcome: only the peer's OK close frame may produce it
                        why = "the channel ended" if self.finished else "no close frame arrived"
                        v.append(("C01", "ok-end-without-ok-close", f"stream {dsid}: RecvMsg reported a normal end of the stream although the peer "
                                                                    f"never closed the RPC OK ({why}): a truncated stream looks complete"))
                        if self.finished:
                            v.append(("C04", "ok-result-after-termination", f"stream {dsid}: RecvMsg reported a normal end of the stream after the tunnel ended"))
                    # a terminal result: it never changes afterwards (C02 'completes exactly once')
                    if r["terminal"] is None:
                        r["terminal"] = res
                        if r.get("by_close") and not r["flushed"]:
                            code, _ = r["close"]
                            want = "eof" if code == 0 else f"status:{code}"
                            # shape violations legitimately replace the server's status by Internal
                            if res != want and not (res == "status:13"):
                                v.append(("C02", "wrong-status", f"stream {dsid}: peer closed with code {code}, caller got {res}"))
                            if res == "eof" and ((r["msgs"] != r["complete_at_close"] and r["shape"] in ("SS", "BD")) or
                                                 (r["msgs"] < r["complete_at_close"] and r["complete_at_close"] == 1 and not r.get("extra"))):
                                v.append(("C01", "incomplete-on-ok", f"stream {dsid}: OK end after {r['msgs']} of {r['complete_at_close']} responses"))
                    elif res != r["terminal"]:
                        v.append(("C02", "terminal-changed", f"stream {dsid}: terminal result {r['terminal']} then {res}"))
            if dop == "invoke" and res.startswith("msg:"):
                # Invoke returned success: the peer must have closed the RPC OK after exactly one response message
                if not r.get("by_close"):
                    v.append(("C16", "invoke-ok-before-close", f"stream {dsid}: Invoke returned success before the peer closed the RPC"))
                elif r["close"][0] != 0:
                    v.append(("C02", "ok-result-for-failed-rpc", f"stream {dsid}: Invoke returned success although the peer closed the RPC with code {r['close'][0]}"))
                elif r["complete_at_close"] != 1:
                    v.append(("C16", "unary-success-without-exactly-one-response", f"stream {dsid}: Invoke returned success although the peer sent "
                                                                                  f"{r['complete_at_close']} response message(s) before its OK close"))
            if dop == "invoke" and res == "ctx:canceled" and r.get("by_close") and not r["flushed"] and not r["deadline"] and not r["cancelled"]:
                # the peer closed the RPC while Invoke's SendMsg was still blocked on the flow-control window: the blocked send is
                # released with the raw context error, and Invoke returns it instead of the status the peer sent (finding D12)
                v.append(("C02", "status-lost-behind-blocked-send", f"stream {dsid}: the peer closed the RPC with code {r['close'][0]} while the request was "
                                                                    f"still blocked on the window; Invoke returned a bare 'context canceled' instead of that status"))
            elif dop == "invoke" and not res.startswith("msg:") and r.get("by_close") and r["close"][0] == 0 and r.get("complete_at_close") == 1 \
                    and not r["flushed"] and not r["deadline"] and not r["cancelled"]:
                v.append(("C02", "error-result-for-successful-rpc", f"stream {dsid}: one response and an OK close, but Invoke returned {res}"))
            if dop == "invoke" and res == "" :
                pass
            if dop == "trailer" and r.get("by_close") and r["terminal"] is not None and not r["flushed"]:
                want = r["close"][1]
                if res != "md{" + want + "}":
                    v.append(("C02", "wrong-trailers", f"stream {dsid}: trailers {res}, close frame carried {want}"))
            if dop == "header" and res.startswith("md{") and r["hdr_seen"]:
                if res != "md{" + r["hdr"] + "}":
                    v.append(("C02", "wrong-headers", f"stream {dsid}: headers {res}, headers frame carried {r['hdr']}"))
        # ---- C06 sender window: bytes on the wire never exceed window + credit delivered ----
        if self.rev != 0:
            for sid_, st in self.wire.st.items():
                r = self.rpcs.get(sid_)
                if r and st["sent"] > self.peer_win + r["credit"]:
                    v.append(("C06", "sender-exceeds-window", f"stream {sid_}: {st['sent']} request bytes sent with window {self.peer_win} + credit {r['credit']}"))
        # ---- C02: headers are available as soon as the headers frame has arrived: Header() does not block any longer ----
        if op.startswith("c.call") and kind == "header" and sid in self.rpcs:
            r_ = self.rpcs[sid]
            answered = any(d[0] == sid and d[1] == "header" for d in o["D"])
            if r_.get("hdr_seen") and not answered and not self.finished:
                v.append(("C02", "header-blocks-although-headers-arrived", f"stream {sid}: the headers frame (md {r_.get('hdr')}) has been received but Header() "
                                                                           f"is still blocked"))
            r_["hdr_pending"] = not answered
        for dsid, dop, res in o["D"]:
            if dop == "header" and dsid in self.rpcs:
                self.rpcs[dsid]["hdr_pending"] = False
        if op.startswith("c.frame") and kind == "hdr" and sid in self.rpcs and self.rpcs[sid].get("hdr_pending") \
                and self.rpcs[sid].get("hdr_seen") and not self.finished and o["T"] is not None and sid in o["T"]:
            v.append(("C02", "header-blocks-although-headers-arrived", f"stream {sid}: a caller is blocked in Header(); the headers frame arrived "
                                                                       f"but did not release it"))
            self.rpcs[sid]["hdr_pending"] = False
        # ---- C09: a response that carries more data than its envelope declared fails that RPC (Internal) as soon as the caller reads it ----
        if op.startswith("c.call") and kind == "recv" and sid in self.rpcs:
            self.rpcs[sid]["recv_pending"] = not any(d[0] == sid and d[1] == "recv" for d in o["D"])
        for dsid, dop, res in o["D"]:
            if dop == "recv" and dsid in self.rpcs and not (op.startswith("c.call") and kind == "recv" and sid == dsid):
                self.rpcs[dsid]["recv_pending"] = False
        reading = sid in self.rpcs and ((op.startswith("c.call") and kind == "recv") or
                                        (op.startswith("c.frame") and kind in ("msg", "more") and
                                         (self.rpcs[sid].get("recv_pending") or
                                          # Invoke reads only once its request and half-close are out (it may still be parked on the window)
                                          (self.rpcs[sid].get("invoke") and self.wire.st.get(sid, {}).get("half")))))
        if reading and self.rpcs[sid].get("overshoot") \
                and not self.rpcs[sid]["finished"] and not self.finished and sid in self.table \
                and o["T"] is not None and sid in o["T"] and (live_before is None or sid in live_before):
            got = [d for d in o["D"] if d[0] == sid and d[1] in ("recv", "invoke")]
            if not got:
                v.append(("C09", "oversized-response-not-refused", f"stream {sid}: the peer sent more continuation data than the message envelope declared; "
                                                                   f"the caller's RecvMsg neither failed nor returned: it keeps buffering whatever the peer sends"))
            elif any(d[2] == "eof" for d in got):
                v.append(("C09", "oversized-response-not-refused", f"stream {sid}: an over-long response message was swallowed and the RPC ended normally"))
        # ---- C06: the client enforces the window IT advertised in new_stream (64 KiB), per stream, on the response direction ----
        for fsid, f in o["F"]:
            if f.startswith("new:") and self.rev != 0:
                try:
                    self.crwin[fsid] = int(f.split("{")[0].split(":")[3])
                    if op.startswith("c.new") and "early" in k:
                        self.crwin[fsid] -= int(k["early"])      # the peer's immediate answer already used this much
                except (ValueError, IndexError):
                    pass
            if f.startswith("wu:") and fsid in self.crwin:
                self.crwin[fsid] += int(f.split(":")[1])
        if op.startswith("c.frame") and kind in ("msg", "more") and sid in self.crwin and (live_before is None or sid in live_before) \
                and sid in self.rpcs and not self.rpcs[sid].get("flushed"):
            n = int(k["len"])
            refused = any(s_ == sid and f == "cancel" for s_, f in o["F"]) or any(d[0] == sid and d[2] == "status:8" for d in o["D"])
            exhausted8 = any(d[0] == sid and d[2] == "status:8" for d in o["D"])
            if n > self.crwin[sid]:
                if not refused and o["T"] is not None and sid in o["T"] and not fin:
                    v.append(("C06", "overrun-accepted", f"stream {sid}: a response frame of {n} bytes was accepted with only {self.crwin[sid]} bytes of the "
                                                         f"window the client advertised left"))
                self.crwin.pop(sid, None)
            elif exhausted8:
                v.append(("C06", "spurious-overrun", f"stream {sid}: failed with ResourceExhausted on a response frame of {n} bytes although {self.crwin[sid]} bytes "
                                                     f"of the window the client advertised were left"))
                self.crwin.pop(sid, None)
            else:
                self.crwin[sid] -= n
        if op.startswith("c.frame") and kind == "close" and sid in self.crwin:
            self.crwin.pop(sid, None)
        # ---- C05: a caller's SendMsg is blocked only while the window the peer advertised is used up ----
        if op.startswith("c.call") and kind == "send" and sid in self.rpcs:
            self.rpcs[sid]["send_pending"] = True
        for dsid, dop, res in o["D"]:
            if dop == "send" and dsid in self.rpcs:
                self.rpcs[dsid]["send_pending"] = False
        if self.rev != 0 and not self.finished:
            for sid_, r in self.rpcs.items():
                st = self.wire.st.get(sid_)
                if r.get("send_pending") and not r["finished"] and not r.get("invoke") and st is not None and sid_ in self.table:
                    left = (self.peer_win + r["credit"] - st["sent"]) % (1 << 32)
                    if left > 0 and self.peer_win + r["credit"] >= st["sent"]:
                        v.append(("C05", "sender-stranded", f"stream {sid_}: the caller's SendMsg is still blocked at quiescence although {left} bytes of the "
                                                            f"window the peer granted are unused (after `{op[:60]}`)"))
                        r["send_pending"] = False
        # ---- C14: the client table holds exactly the RPCs in flight ----
        if o["T"] is not None and not self.blocked:
            # streams the client itself finished (deadline, protocol error) leave the table when it sends cancel
            for fsid, f in o["F"]:
                if f == "cancel":
                    self.table.discard(fsid)
                    if fsid in self.rpcs:
                        self.rpcs[fsid]["finished"] = True
                        self.rpcs[fsid]["flushed"] = True
            # an RPC that leaves the client's table without the peer having closed it (cancel, deadline, protocol error) must be
            # announced to the peer with a cancel frame: otherwise the serving end keeps its table entry and its goroutines
            if live_before is not None and not self.finished and not fin:
                for t in sorted(live_before - set(o["T"])):
                    r = self.rpcs.get(t)
                    if op.startswith("c.frame") and sid == t:
                        continue      # ended in reaction to a frame of the peer's (its close, or a protocol violation of its own)
                    if r is not None and not r.get("by_close") and not any(fs == t and f == "cancel" for fs, f in o["F"]) \
                            and not r.get("cancel_seen"):
                        for tag in ("C14", "C07"):
                            v.append((tag, "no-cancel-frame-for-locally-ended-rpc", f"stream {t} left the client's table (ended locally: cancel / deadline / error) "
                                                                                    f"but no cancel frame was sent: the serving end is never told and keeps the RPC"))
            for fs, f in o["F"]:
                if f == "cancel" and fs in self.rpcs:
                    self.rpcs[fs]["cancel_seen"] = True
            for t in o["T"]:
                if t not in self.table and t in self.rpcs and self.rpcs[t].get("by_close"):
                    v.append(("C14", "stale-table-entry", f"stream {t} still in the client table after its close frame"))
                if t not in self.rpcs:
                    v.append(("C14", "table-entry-without-rpc", f"the client table holds stream {t}, but no NewStream / Invoke that succeeded created it "
                                                                f"(an RPC that failed at creation left its entry behind)"))
        # ---- goroutine census (C14): G=receive loops,watchers,one-send goroutines ----
        g = parse_census(o)
        if g is not None and not self.blocked:
            l, w, x = g
            if x != 0:
                v.append(("C14", "send-goroutine-stuck", f"{x} goroutine(s) started for a single carrier Send still alive at quiescence"))
            if o["T"] is not None and w > len(o["T"]):
                v.append(("C14", "watcher-without-rpc", f"{w} stream-context watcher goroutine(s) alive but only {len(o['T'])} RPC(s) in the client table"))
        return v


def md_join(a, b):
    """metadata.Join on the canonical text form k=v1,v2;k2=v (sorted keys)."""
    d = {}
    for part in (a, b):
        if part in ("-", "", None):
            continue
        for kv in part.split(";"):
            k, _, vs = kv.partition("=")
            d.setdefault(k, []).extend(vs.split(","))
    if not d:
        return "-"
    return ";".join(f"{k}={','.join(d[k])}" for k in sorted(d))


class W1Monitor:
    """End-to-end properties in W1 (real client + real server, harness-owned FIFO carrier).
    Endpoint-local checks are delegated to the S-world and C-world monitors."""

    def __init__(self):
        self.smon = SWorldMonitor()
        self.cmon = CWorldMonitor()
        self.reset()

    def reset(self):
        self.rpc = {}
        self.terminated = False       # a tunnel-level termination stimulus happened
        self.chan_finished = False
        self.serve_returned = False
        self.pending = {}             # (side, sid, op) -> True
        self.ended = False

    def r(self, sid):
        return self.rpc.setdefault(sid, {
            "shape": None, "sub": [], "acc": [], "hgot": [], "hsub": [], "hacc": [], "cgot": [],
            "hdr_set": "-", "hdr_sent": False, "tlr_set": "-", "ret": None, "returned": False,
            "local_end": False, "terminal": None, "cancel_delivered": False, "h_eof": False,
            "pending_send": None, "hpending_send": None, "srv_finished": False, "reqmd": None})

    def feed(self, op, obs_line):
        v = []
        if op.startswith("svc "):
            v += self.finish_scenario()
            self.reset()
            return v
        if op.startswith("s."):
            v += self.smon.feed(op, obs_line)
        elif op.startswith("c."):
            v += self.cmon.feed(op, obs_line)
        o = parse_obs(obs_line)
        if o is None:
            return v
        k = kvs(op)
        kind = kind_of(op)
        sid = int(k["sid"]) if "sid" in k else None
        ev = o["E"]
        side = op[0]
        # ---- tunnel-level events ----
        term_now = op.split()[0] in ("c.close", "c.fail", "c.eof", "s.fail", "s.eof")
        first = term_now and not self.terminated
        if term_now:
            self.terminated = True
        for e in ev:
            if e.startswith("chan-finished"):
                self.chan_finished = True
                if not self.terminated:
                    v.append(("C03", "tunnel-error-among-conforming-peers", f"the channel finished ({e}) although no tunnel-level stimulus occurred: `{op}`"))
            if e.startswith("serve-returned"):
                self.serve_returned = True
                if not self.terminated:
                    v.append(("C03", "tunnel-error-among-conforming-peers", f"serve returned ({e}) although no tunnel-level stimulus occurred: `{op}`"))
        if term_now:
            if op.startswith("c.") and first:
                # C04: every in-flight call on the calling side returns a non-OK result
                for dsid, dop, res in o["D"]:
                    if res == "ok" or res.startswith("msg:"):
                        v.append(("C04", "ok-result-at-termination", f"call {dsid}.{dop} completed with {res} when the tunnel ended"))
            for rr in self.rpc.values():
                rr["local_end"] = True
        if side == "c":
            for fsid, f in o["F"]:
                if f == "cancel":
                    self.r(fsid)["local_end"] = True    # the caller's side ended the RPC itself (cancel, deadline, shape error)
        # ---- issue of calls (pending set) ----
        if op.startswith("c.call") and kind in ("send", "recv", "header", "closesend"):
            self.pending[("c", sid, "recv" if kind == "header" else kind, kind)] = op
        if op.startswith("s.call") and kind in ("send", "recv"):
            self.pending[("s", sid, kind, kind)] = op
        for dsid, dop, res in o["D"]:
            for key in list(self.pending):
                if key[0] == side and key[1] == dsid and key[3] == dop:
                    del self.pending[key]
        # ---- per-RPC history ----
        if op.startswith("c.new"):
            for dsid, dop, res in o["D"]:
                if dop == "new" and res == "ok":
                    rr = self.r(dsid)
                    rr["shape"] = k.get("shape")
                    rr["reqmd"] = k.get("md", "-")
                    if "cancelled" in k:
                        rr["local_end"] = True
        if op.startswith("c.call") and sid is not None:
            rr = self.r(sid)
            if kind == "send":
                rr["sub"].append((int(k["idx"]), int(k["n"])))
                rr["pending_send"] = (int(k["idx"]), int(k["n"]))
            if kind == "cancel":
                rr["local_end"] = True
                # C07: blocked caller calls return in this very step
                for key in list(self.pending):
                    if key[0] == "c" and key[1] == sid:
                        v.append(("C07", "cancel-did-not-release-caller", f"after `{op}` the caller's {key[3]} on stream {sid} is still blocked"))
        if op.startswith("s.call") and sid is not None:
            rr = self.r(sid)
            if kind in ("send", "reply"):
                rr["hsub"].append((int(k["idx"]), int(k["n"])))
                rr["hpending_send"] = (int(k["idx"]), int(k["n"]))
                if kind == "reply":
                    rr["hacc"].append((int(k["idx"]), int(k["n"])))
                    rr["ret"] = 0
                    rr["returned"] = True
                if not rr["hdr_sent"]:
                    rr["hdr_sent"] = True
            if kind in ("sethdr", "sendhdr"):
                ok = any(d == (sid, kind, "ok") for d in o["D"])
                if ok and not rr["hdr_sent"]:
                    rr["hdr_set"] = md_join(rr["hdr_set"], k.get("md", "-"))
                    if kind == "sendhdr":
                        rr["hdr_sent"] = True
            if kind == "settlr" and not rr["returned"] and not rr["srv_finished"]:
                rr["tlr_set"] = md_join(rr["tlr_set"], k.get("md", "-"))
            if kind == "ret":
                rr["ret"] = int(k["code"])
                rr["returned"] = True
                # the close frame carries exactly the handler's status and trailers
                for fsid, f in o["F"]:
                    if fsid == sid and f.startswith("close:"):
                        want = f"close:{rr['ret']}{{{rr['tlr_set']}}}"
                        if f != want and not rr["srv_finished"]:
                            v.append(("C02", "close-frame-differs-from-handler-result", f"stream {sid}: handler returned code {rr['ret']} trailers {rr['tlr_set']}, wire has {f}"))
        if op.startswith("s.frame") and sid is not None and kind == "cancel":
            rr = self.r(sid)
            rr["cancel_delivered"] = True
            # C07: the handler is released in this step
            for key in list(self.pending):
                if key[0] == "s" and key[1] == sid:
                    v.append(("C07", "cancel-did-not-release-handler", f"after the cancel frame the handler's {key[3]} on stream {sid} is still blocked"))
        for fsid, f in o["F"]:
            if side == "s" and f.startswith("close:"):
                self.r(fsid)["srv_finished"] = True
            if side == "s" and f.startswith("hdr{"):
                self.r(fsid)["hdr_sent"] = True
        for e in ev:
            if e.startswith("ctxdone"):
                self.r(int(e.split()[1]))["srv_ctx_done"] = True
        # ---- results ----
        for dsid, dop, res in o["D"]:
            rr = self.r(dsid)
            if side == "c":
                if dop == "send":
                    if res == "ok" and rr["pending_send"]:
                        rr["acc"].append(rr["pending_send"])
                    rr["pending_send"] = None
                if dop == "recv":
                    if res.startswith("msg:"):
                        _, idx, n = res.split(":")
                        rr["cgot"].append((idx, int(n)))
                        i = len(rr["cgot"]) - 1
                        # C01: prefix of what the handler submitted, byte sizes included
                        if i >= len(rr["hsub"]) or rr["hsub"][i][1] != int(n) or (idx not in ("-",) and str(rr["hsub"][i][0]) != idx):
                            v.append(("C01", "response-not-prefix", f"stream {dsid}: caller's response #{i} is {res}, handler submitted {rr['hsub'][:i+1]}"))
                    elif rr["terminal"] is None:
                        rr["terminal"] = res
                        if res == "eof" and not rr["local_end"]:
                            # caller told OK: everything the handler successfully sent has arrived
                            if [n for _, n in rr["cgot"]] != [n for _, n in rr["hacc"]]:
                                v.append(("C01", "incomplete-on-ok", f"stream {dsid}: caller got OK after {rr['cgot']} but the handler sent {rr['hacc']}"))
                            if rr["ret"] not in (0, None):
                                v.append(("C02", "ok-for-failed-rpc", f"stream {dsid}: caller got OK, handler returned code {rr['ret']}"))
                        if res.startswith("status:") and rr["returned"] and not rr["local_end"] and rr["ret"] is not None:
                            code = int(res.split(":")[1])
                            if code != rr["ret"] and not (code == 13 and rr["shape"] in ("U", "CS")):
                                v.append(("C02", "wrong-status", f"stream {dsid}: handler returned {rr['ret']}, caller got {res}"))
                if dop == "header" and res.startswith("md{") and rr["hdr_sent"] and not rr["local_end"]:
                    if res != "md{" + rr["hdr_set"] + "}" and rr["terminal"] is None:
                        v.append(("C02", "wrong-headers", f"stream {dsid}: caller's headers {res}, handler set {rr['hdr_set']}"))
                if dop == "trailer" and rr["terminal"] in ("eof",) and not rr["local_end"] and rr["returned"]:
                    if res != "md{" + rr["tlr_set"] + "}":
                        v.append(("C02", "wrong-trailers", f"stream {dsid}: caller's trailers {res}, handler set {rr['tlr_set']}"))
            else:
                if dop == "send":
                    if res == "ok" and rr["hpending_send"]:
                        rr["hacc"].append(rr["hpending_send"])
                    rr["hpending_send"] = None
                if dop in ("recv", "decode"):
                    if res.startswith("msg:"):
                        _, idx, n = res.split(":")
                        rr["hgot"].append((idx, int(n)))
                        i = len(rr["hgot"]) - 1
                        if i >= len(rr["sub"]) or rr["sub"][i][1] != int(n) or (idx != "-" and str(rr["sub"][i][0]) != idx):
                            v.append(("C01", "request-not-prefix", f"stream {dsid}: handler's request #{i} is {res}, caller submitted {rr['sub'][:i+1]}"))
                    elif res == "eof" and not rr["h_eof"]:
                        rr["h_eof"] = True
                        # handler sees end-of-stream: every request whose send succeeded has arrived
                        if [n for _, n in rr["hgot"]] != [n for _, n in rr["acc"]] and rr["shape"] in ("CS", "BD"):
                            v.append(("C01", "incomplete-on-eof", f"stream {dsid}: handler saw end-of-stream after {rr['hgot']} but the caller sent {rr['acc']}"))
        return v

    def finish_scenario(self):
        """C04 at the end of a scenario in which the tunnel was terminated and drained."""
        v = []
        if self.terminated and self.chan_finished and self.serve_returned:
            for key, op in self.pending.items():
                v.append(("C04", "call-hangs-after-termination", f"{key[0]}-side {key[3]} on stream {key[1]} never returned after the tunnel ended (`{op}`)"))
        return v


def parse_life(line):
    refuses = None
    mr = re.search(r" refuses=(\d)", line)
    if mr:
        refuses = mr.group(1) == "1"
        line = line.replace(mr.group(0), "", 1)
    m = re.match(r"last=(\S+) state=(\d) inst=(\d+) gstop=(\S+) stop=(\S+) serves=\[(.*?)\] holds=\[(.*?)\] all=\[(.*?)\]$", line)
    if not m:
        return None
    serves = {}
    for s in m.group(6).split():
        p = s.split(":", 2)
        serves[int(p[0])] = p[1:] if len(p) > 1 else []
    holds = {}
    for h in m.group(7).split():
        hid, rest = h.split("@", 1)
        tid, kind, rest2 = rest.split(":", 2)
        res, _, hctx = rest2.rpartition(":")
        holds[int(hid)] = {"tid": int(tid), "kind": kind, "res": res, "hctx": hctx}
    allr = [int(x) for x in m.group(8).split(",") if x]
    return {"refuses": refuses, "last": m.group(1), "state": int(m.group(2)), "inst": int(m.group(3)), "gstop": m.group(4),
            "stop": m.group(5), "serves": serves, "holds": holds, "all": allr}


class LifecycleMonitor:
    """C10 (GracefulStop / Stop / Serve) and C04 (termination reaches both ends) on the public API."""

    def __init__(self):
        self.reset()

    def reset(self):
        self.fc = True
        self.gstop_at = None
        self.stop_issued = False
        self.step = 0
        self.before_shutdown = set()    # holds started before shutdown began
        self.hung = set()               # tunnels hung up by the peer
        self.hol = set()                # revision zero: tunnels whose receive loop is blocked behind a non-reading handler
        self.finished_normally = set()

    def feed(self, op, line):
        v = []
        if op.startswith("l.init"):
            self.reset()
            self.fc = kvs(op).get("fc") == "1"
        o = parse_life(line)
        if o is None:
            return v
        self.step += 1
        k = kvs(op)
        name = op.split()[0]
        # C10: from the moment shutdown was initiated (GracefulStop or Stop) new RPCs on existing tunnels are refused - for good
        if o["refuses"] is not None and o["state"] != 0 and not o["refuses"]:
            v.append(("C10", "shutdown-does-not-refuse-new-rpcs", f"the server is {['active', 'closing', 'closed'][o['state']]} but tells its tunnels "
                                                                  f"NOT to refuse new RPCs (isClosing() = false) after `{op}`"))
        shutting = self.gstop_at is not None or self.stop_issued
        if name == "l.hold" and not self.fc and k.get("stuck") == "1":
            # revision zero: behind a handler that stopped reading the tunnel's receive loop is blocked in the hand-off, for good
            # (even the caller's cancel frame queues behind it): nothing else on that tunnel is processed any more. That is
            # what revision zero is (C03 promises independence only with flow control); its consequence for Stop is finding D10.
            self.hol.add(int(k["t"]))
        if name == "l.hold":
            hid = int(k["h"])
            if shutting and int(k["t"]) not in self.hol:
                # C10: refused with Unavailable
                h = o["holds"].get(hid)
                if o["last"] == "new:ok" and (h is None or h["res"] != "status:14"):
                    v.append(("C10", "rpc-accepted-during-shutdown", f"RPC started after shutdown began was not refused with Unavailable: {h}"))
            else:
                self.before_shutdown.add(hid)
        if name == "l.rpc":
            if shutting and int(k["t"]) not in self.hol and int(k["t"]) in o["serves"] and o["serves"][int(k["t"])][:1] == ["run"] \
                    and o["last"] != "rpc:status:14":
                v.append(("C10", "rpc-accepted-during-shutdown", f"unary RPC after shutdown began: {o['last']}"))
            # revision zero has head-of-line blocking by design (C03 promises independence only with flow control): behind a
            # consumer that stopped reading the receive loop is blocked, and another RPC on that tunnel may time out
            hol = int(k["t"]) in self.hol
            if not shutting and int(k["t"]) not in self.hung and o["last"] != "rpc:ok" and not hol:
                v.append(("C10", "rpc-fails-before-shutdown", f"unary RPC on an open tunnel failed: {o['last']}"))
        if name == "l.gstop":
            self.gstop_at = self.step
        if name == "l.stop":
            self.stop_issued = True
        if name == "l.hangup":
            self.hung.add(int(k["t"]))
        if name == "l.finish":
            self.finished_normally.add(int(k["h"]))
            h = o["holds"].get(int(k["h"]))
            # C10: an RPC in flight when shutdown began runs to completion with the outcome it would have had
            if h and h["res"] not in ("eof",) and h["tid"] not in self.hung and h["tid"] not in self.hol and not self.stop_issued \
                    and h["res"] != "status:14":
                v.append(("C10", "in-flight-rpc-disturbed", f"hold {k['h']} finished with {h['res']} instead of OK"))
        if name == "l.serve" and shutting:
            t = int(k["t"])
            if o["serves"].get(t) != ["ret", "0:status:14"]:
                v.append(("C10", "serve-not-refused", f"Serve after shutdown began: {o['serves'].get(t)}"))
        running = [t for t, s in o["serves"].items() if s[:1] == ["run"]]
        # ---- safety: GracefulStop / Stop return only after every Serve call has returned ----
        if o["gstop"] == "returned" and running:
            v.append(("C10", "graceful-stop-returned-early", f"GracefulStop returned while Serve calls {running} are running"))
        if o["stop"] == "returned":
            if running:
                v.append(("C10", "stop-returned-early", f"Stop returned while Serve calls {running} are running"))
            for hid, h in o["holds"].items():
                if h["res"] == "open" or (h["hctx"] != "ctxdone" and h["res"] not in ("eof", "status:14") and hid not in self.finished_normally):
                    v.append(("C10", "stop-left-handler-running", f"Stop returned but hold {hid} is {h}"))
        # ---- liveness at quiescence ----
        open_holds = [hid for hid, h in o["holds"].items() if h["res"] == "open"]
        if o["gstop"] == "blocked" and not open_holds and not self.stop_issued:
            # every in-flight RPC has finished, yet GracefulStop has not returned
            v.append(("C10", "graceful-stop-waits-for-idle-tunnels", f"GracefulStop still blocked with no RPC in flight (tunnels {running} idle)"))
        if o["stop"] == "blocked":
            key = "stop-hangs-revision-zero" if not self.fc else "stop-hangs"
            v.append(("C04", key, f"Stop has not returned at quiescence: serves {o['serves']} holds {o['holds']}"))
            v.append(("C10", key, f"Stop has not returned at quiescence: serves {o['serves']} holds {o['holds']}"))
        # ---- C04: a tunnel that ended is gone everywhere ----
        for t in self.hung:
            if t in o["all"]:
                v.append(("C04", "closed-tunnel-still-registered", f"tunnel {t} was hung up but is still reachable through the registry"))
            if o["serves"].get(t, ["ret"])[:1] == ["run"] and (self.fc or not any(h["kind"] == "stuck" and h["tid"] == t for h in o["holds"].values())):
                v.append(("C04", "serve-did-not-return", f"tunnel {t} was hung up by the peer but Serve is still running"))
            for hid, h in o["holds"].items():
                if h["tid"] == t and h["res"] == "open":
                    v.append(("C04", "call-hangs-after-termination", f"hold {hid} on the closed tunnel {t} is still open"))
        return v


class NullMonitor:
    """worlds whose specification is the model line itself (full-line comparison)"""

    def feed(self, op, line):
        v = []
        if "!WRONG-CHANNEL" in line:
            v.append(("C17", "wrong-channel-reported", f"WithTunnelChannel reported another tunnel than the one that served: {line[:160]}"))
            v.append(("C12", "wrong-channel-reported", f"WithTunnelChannel reported another tunnel than the one that served: {line[:160]}"))
        if "!BAD-CONTEXT" in line:
            v.append(("C17", "handler-context-wrong", f"handler context does not carry the tunnel's opening metadata / request metadata, or a returned copy was shared: {line[:200]}"))
        return v


class MetaMonitor:
    """C02 on the public API: status (code, message, details), headers, trailers and request metadata are delivered exactly."""

    def __init__(self):
        self.dead = False

    def feed(self, op, line):
        v = []
        if op.startswith("meta.init"):
            self.dead = False
        if not op.startswith("meta.rpc") or self.dead:
            return v
        k = kvs(op)
        strs = [] if k["strs"] == "-" else k["strs"].split(",")
        valid = True
        for h in strs:
            if h == "-":
                continue
            try:
                bytes.fromhex(h).decode("utf-8")
            except UnicodeDecodeError:
                valid = False
        if line.startswith("PANIC"):
            key = "panic-credentials-without-outgoing-metadata" if k.get("creds") == "1" and k.get("outgoing") == "0" else "panic"
            v.append(("C02", key, f"caller panicked: {line} on `{op[:120]}`"))
            v.append(("C15", key, f"caller panicked: {line}"))
            return v
        f = dict(p.split("=") for p in line.split() if "=" in p)
        if f.get("alive") == "0":
            self.dead = True
            key = "non-utf8-string-kills-tunnel" if not valid else "tunnel-died"
            v.append(("C02", key, f"the tunnel is unusable after `{op[:140]}`: {line}"))
            v.append(("C03", key, f"one RPC's metadata/status ended the whole tunnel: `{op[:140]}`: {line}"))
            return v
        for name, what in (("st", "status"), ("hdr", "headers"), ("tlr", "trailers"), ("req", "request metadata")):
            if f.get(name) != "1":
                key = f"{what.replace(' ', '-')}-not-exact" + ("" if valid else "-non-utf8")
                v.append(("C02", key, f"{what} not delivered exactly on `{op[:140]}`: {line}"))
        return v


class RegistryMonitor:
    """C12 on the public API: WaitForReady reflects whether the set of open tunnels (of the key) is non-empty."""

    def __init__(self):
        self.key_of = {}
        self.waiters = {}
        self.open = set()

    def feed(self, op, line):
        v = []
        k = kvs(op)
        name = op.split()[0]
        if name == "r.init":
            self.key_of, self.waiters, self.open = {}, {}, set()
        if name in ("r.open", "r.doa"):
            self.key_of[int(k["t"])] = k["key"]
        if name == "r.open":
            self.open.add(int(k["t"]))
        if name in ("r.close", "r.closewait"):
            self.open.discard(int(k["t"]))
        if name in ("r.init", "r.open", "r.doa", "r.close", "r.closewait"):
            self.seq = {}      # the set of tunnels changed: rotation starts afresh
        if name == "r.wait":
            self.waiters[int(k["w"])] = k["key"]
        if name == "r.closewait":
            self.waiters[int(k["w"])] = "*"
        m = re.search(r"all=\[(.*?)\] ready=(\d) cb=\[.*?\] waiters=\[(.*?)\]", line)
        if not m:
            return v
        live = [int(x) for x in m.group(1).split(",") if x]
        # C12 / C14: at every quiescent moment the registry holds exactly the open tunnels
        if set(live) != self.open or len(live) != len(set(live)):
            v.append(("C12", "registry-not-exact", f"AllReverseTunnels() = {live} but the open tunnels are {sorted(self.open)} after `{op}`"))
            v.append(("C14", "registry-not-exact", f"the reverse-tunnel registry lists {live} but the open tunnels are {sorted(self.open)} after `{op}`"))
        ms = re.match(r"served=(\S+) ", line)
        if ms and ms.group(1).isdigit() and int(ms.group(1)) not in self.open:
            v.append(("C12", "routed-to-closed-tunnel", f"an RPC was served by tunnel {ms.group(1)}, which is not open ({sorted(self.open)})"))
        if ms and ms.group(1).isdigit() and name == "r.pick":
            # with a stable set of n tunnels any n consecutive RPCs through one pooled channel use each tunnel exactly once
            via = k.get("via", "")
            cand = [t for t in self.open if via == "all" or self.key_of.get(t) == via[4:]]
            seq = getattr(self, "seq", {}).setdefault(via, [])
            self.seq = getattr(self, "seq", {})
            self.seq[via] = seq
            seq.append(int(ms.group(1)))
            n = len(cand)
            if n >= 2 and len(seq) >= n and len(set(seq[-n:])) != n:
                v.append(("C12", "round-robin-repeats-a-tunnel", f"the last {n} consecutive RPCs through `{via}` were served by {seq[-n:]} although "
                                                                 f"{n} tunnels {sorted(cand)} have been open all along: one was skipped"))
        if ms and ms.group(1) == "unavailable" and name == "r.pick":
            via = k.get("via", "")
            cand = [t for t in self.open if via == "all" or self.key_of.get(t) == via[4:]]
            if cand:
                v.append(("C12", "unavailable-although-open", f"`{op}` was refused as unavailable although tunnel(s) {sorted(cand)} are open for it"))
        if ms and not ms.group(1).isdigit() and ms.group(1) != "unavailable" and name == "r.pick":
            v.append(("C12", "routed-to-dead-tunnel", f"`{op}` was routed to a tunnel that cannot serve it: {ms.group(1)[:120]}"))
            v.append(("C14", "registry-entry-left-behind", f"`{op}` was routed to a tunnel that has ended: {ms.group(1)[:120]}"))
        mk = re.match(r"ready=(\d) waitblocks=(\d) ", line)
        if mk and name == "r.ready":
            key = k.get("key")
            cand = [t for t in self.open if key == "*" or self.key_of.get(t) == key]
            if (mk.group(1) == "1") != bool(cand):
                v.append(("C12", "ready-wrong-for-key", f"Ready() for key {key} = {mk.group(1)} but the open tunnels for it are {sorted(cand)}"))
                if mk.group(1) == "1":
                    v.append(("C14", "registry-entry-left-behind", f"the registry for key {key} still reports a tunnel although none is open "
                                                                   f"(open tunnels: {sorted(self.open)})"))
            if (mk.group(2) == "1") != (not cand):
                v.append(("C12", "waitforready-wrong-for-key", f"WaitForReady for key {key} {'blocks' if mk.group(2) == '1' else 'passes'} "
                                                               f"but the open tunnels for it are {sorted(cand)}"))
        if (m.group(2) == "1") != bool(live):
            v.append(("C12", "ready-wrong", f"Ready() = {m.group(2)} with open tunnels {live}"))
        for w in m.group(3).split():
            wid, _, state = w.partition(":")
            key = self.waiters.get(int(wid))
            if key is None:
                continue
            avail = [t for t in live if key == "*" or self.key_of.get(t) == key]
            if state == "parked" and avail:
                v.append(("C12", "waiter-not-released", f"WaitForReady caller {wid} (key {key}) is still blocked although tunnel(s) {avail} "
                                                        f"are open for it after `{op}`"))
            if state == "err":
                v.append(("C12", "waiter-failed", f"WaitForReady caller {wid} failed although its deadline is far away"))
        return v


class IdentityMonitor:
    def feed(self, op, line):
        if op.startswith("id.case") and line != "ok":
            return [("C17", "identity-" + re.sub(r"[^A-Za-z]+", "-", line.split("(")[0])[:60], f"`{op}`: {line}")]
        return []
