//go:build verif

package harness

// Bounded-carrier world (C05: "no combination of stalled streams and bounded
// transport buffering can deadlock a tunnel"; C03: a stalled RPC does not hold
// up the others).  The real tunnel client and the real tunnel server, joined
// by two Go channels of capacity K frames (a carrier Send blocks while its
// direction is full), free-running on the real clock with real parallelism.
// Per round: several bidi RPCs; each direction of each RPC ("half-stream") has
// a list of message sizes and an application that either reads everything or
// never reads.  When nothing moves any more the bytes every sender got onto
// the wire and the bytes every application received are compared with the
// closed model `TunnelModel/Closed.lean`, whose outcome is the same for every
// schedule (theorem C05_outcome): reading applications got everything, stalled
// ones left their sender parked behind exactly one full window.

import (
	"context"
	"fmt"
	"io"
	"runtime"
	"strconv"
	"strings"
	"sync"
	"sync/atomic"
	"testing"
	"time"

	"github.com/fullstorydev/grpchan"
	"github.com/jhump/grpctunnel"
	"github.com/jhump/grpctunnel/tunnelpb"
	"google.golang.org/grpc"
	"google.golang.org/grpc/metadata"
	"google.golang.org/protobuf/proto"
	"google.golang.org/protobuf/types/known/wrapperspb"
)

type bHalf struct {
	willing bool
	msgs    []int // wire sizes
}

type bRPC struct{ up, down bHalf }

type bWorld struct {
	ctx       context.Context
	ab        chan *tunnelpb.ClientToServer
	ba        chan *tunnelpb.ServerToClient
	sent      []atomic.Int64 // per half-stream: message bytes handed to the carrier
	delivered []atomic.Int64 // per half-stream: message bytes the application received
	rpcs      []bRPC
}

type bCliEnd struct{ w *bWorld }

func (c bCliEnd) Context() context.Context { return c.w.ctx }
func (c bCliEnd) Send(m *tunnelpb.ClientToServer) error {
	if i := 2 * int(m.StreamId-1); i >= 0 && i < len(c.w.sent) {
		switch f := m.Frame.(type) {
		case *tunnelpb.ClientToServer_RequestMessage:
			c.w.sent[i].Add(int64(len(f.RequestMessage.Data)))
		case *tunnelpb.ClientToServer_MoreRequestData:
			c.w.sent[i].Add(int64(len(f.MoreRequestData)))
		}
	}
	select {
	case c.w.ab <- proto.Clone(m).(*tunnelpb.ClientToServer):
		return nil
	case <-c.w.ctx.Done():
		return io.EOF
	}
}
func (c bCliEnd) Recv() (*tunnelpb.ServerToClient, error) {
	select {
	case m := <-c.w.ba:
		return m, nil
	case <-c.w.ctx.Done():
		return nil, io.EOF
	}
}

type bSrvEnd struct{ w *bWorld }

func (c bSrvEnd) Context() context.Context { return c.w.ctx }
func (c bSrvEnd) Send(m *tunnelpb.ServerToClient) error {
	if i := 2*int(m.StreamId-1) + 1; i >= 1 && i < len(c.w.sent) {
		switch f := m.Frame.(type) {
		case *tunnelpb.ServerToClient_ResponseMessage:
			c.w.sent[i].Add(int64(len(f.ResponseMessage.Data)))
		case *tunnelpb.ServerToClient_MoreResponseData:
			c.w.sent[i].Add(int64(len(f.MoreResponseData)))
		}
	}
	select {
	case c.w.ba <- proto.Clone(m).(*tunnelpb.ServerToClient):
		return nil
	case <-c.w.ctx.Done():
		return io.EOF
	}
}
func (c bSrvEnd) Recv() (*tunnelpb.ClientToServer, error) {
	select {
	case m := <-c.w.ab:
		return m, nil
	case <-c.w.ctx.Done():
		return nil, io.EOF
	}
}

func (w *bWorld) snapshot() []int64 {
	out := make([]int64, 0, 2*len(w.sent))
	for i := range w.sent {
		out = append(out, w.sent[i].Load(), w.delivered[i].Load())
	}
	return out
}

func sum(a []int) (s int) {
	for _, x := range a {
		s += x
	}
	return
}

// bSettled: the closed form of the model's outcome, used ONLY to decide when to stop waiting
// (what is recorded and judged is the implementation's own counters).
func (w *bWorld) settled(snap []int64) bool {
	for j, r := range w.rpcs {
		for d, h := range []bHalf{r.up, r.down} {
			i := 2*j + d
			tot := int64(sum(h.msgs))
			wantSent, wantDel := tot, tot
			if !h.willing {
				wantDel = 0
				if wantSent > grpctunnel.VerifInitialWindowSize {
					wantSent = grpctunnel.VerifInitialWindowSize
				}
			}
			if snap[2*i] != wantSent || snap[2*i+1] != wantDel {
				return false
			}
		}
	}
	return true
}

func bDesc(w *bWorld, wg *sync.WaitGroup) *grpc.ServiceDesc {
	h := func(_ any, st grpc.ServerStream) error {
		md, _ := metadata.FromIncomingContext(st.Context())
		j, _ := strconv.Atoi(strings.Join(md.Get("x-rpc"), ""))
		if j < 0 || j >= len(w.rpcs) {
			return nil
		}
		r := w.rpcs[j]
		wg.Add(1)
		go func() { // the handler's sender
			defer wg.Done()
			for idx, n := range r.down.msgs {
				if st.SendMsg(&wrapperspb.BytesValue{Value: msgValue("s", int64(j+1), idx, n)}) != nil {
					return
				}
			}
		}()
		if r.up.willing {
			for range r.up.msgs {
				var m wrapperspb.BytesValue
				if st.RecvMsg(&m) != nil {
					break
				}
				w.delivered[2*j].Add(int64(proto.Size(&m)))
			}
		}
		<-st.Context().Done() // the RPC stays open until the round is over
		return nil
	}
	return &grpc.ServiceDesc{ServiceName: "v.B", HandlerType: (*any)(nil),
		Streams: []grpc.StreamDesc{{StreamName: "BD", Handler: h, ClientStreams: true, ServerStreams: true}}}
}

var bSizes = []int{0, 0, 1, 5, 100, 16383, 16384, 16385, 20000, 40000, 65535, 65536, 65537, 70000, 100000, 150000}

func TestBounded(t *testing.T) {
	ops := newOps(t, "bounded")
	defer ops.close()
	if runtime.GOMAXPROCS(0) < 4 {
		defer runtime.GOMAXPROCS(runtime.GOMAXPROCS(4))
	}
	grpctunnel.VerifSetHook(nil)
	rounds := envInt("VERIF_N", 40)
	rng := newRng(99)
	for round := 0; round < rounds; round++ {
		K := []int{1, 1, 2, 4, 64}[rng.Intn(5)]
		n := 1 + rng.Intn(5)
		half := func() bHalf {
			h := bHalf{willing: rng.Intn(10) >= 3}
			for k := rng.Intn(5); k > 0; k-- {
				sz := bSizes[rng.Intn(len(bSizes))]
				if sz > 0 {
					sz = feasible(sz)
				}
				h.msgs = append(h.msgs, sz)
			}
			return h
		}
		ctx, cancel := context.WithCancel(context.Background())
		w := &bWorld{ctx: ctx, ab: make(chan *tunnelpb.ClientToServer, K), ba: make(chan *tunnelpb.ServerToClient, K),
			sent: make([]atomic.Int64, 2*n), delivered: make([]atomic.Int64, 2*n)}
		var cfg []string
		for j := 0; j < n; j++ {
			r := bRPC{up: half(), down: half()}
			w.rpcs = append(w.rpcs, r)
			for d, h := range []bHalf{r.up, r.down} {
				var ms []string
				for _, m := range h.msgs {
					ms = append(ms, strconv.Itoa(m))
				}
				l := strings.Join(ms, ",")
				if l == "" {
					l = "-"
				}
				cfg = append(cfg, fmt.Sprintf("%s:%s:%s", []string{"u", "d"}[d], b01(h.willing), l))
			}
		}
		op := fmt.Sprintf("bd.round K=%d cfg=%s", K, strings.Join(cfg, ";"))
		beginOp(op)
		var wg sync.WaitGroup
		hm := grpchan.HandlerMap{}
		hm.RegisterService(bDesc(w, &wg), struct{}{})
		served := make(chan error, 1)
		go func() {
			served <- grpctunnel.VerifServeTunnel(bSrvEnd{w}, metadata.MD{}, true, false, hm, func() bool { return false })
		}()
		ch := grpctunnel.VerifNewTunnelChannel(bCliEnd{w}, metadata.MD{}, true, false, func() {})
		started := 0
		for j := 0; j < n; j++ {
			r := w.rpcs[j]
			rctx := metadata.AppendToOutgoingContext(ctx, "x-rpc", strconv.Itoa(j))
			str, err := ch.Channel().NewStream(rctx, &grpc.StreamDesc{ClientStreams: true, ServerStreams: true}, "/v.B/BD")
			if err != nil {
				break
			}
			started++
			wg.Add(1)
			go func() { // the caller's sender
				defer wg.Done()
				for idx, sz := range r.up.msgs {
					if str.SendMsg(&wrapperspb.BytesValue{Value: msgValue("c", int64(j+1), idx, sz)}) != nil {
						return
					}
				}
			}()
			if r.down.willing {
				wg.Add(1)
				go func() {
					defer wg.Done()
					for range r.down.msgs {
						var m wrapperspb.BytesValue
						if str.RecvMsg(&m) != nil {
							return
						}
						w.delivered[2*j+1].Add(int64(proto.Size(&m)))
					}
				}()
			}
		}
		// wait until nothing moves any more
		deadline := time.Now().Add(time.Duration(envInt("VERIF_MS", 4000)) * time.Millisecond)
		snap := w.snapshot()
		for !w.settled(snap) && time.Now().Before(deadline) {
			time.Sleep(500 * time.Microsecond)
			snap = w.snapshot()
		}
		time.Sleep(10 * time.Millisecond) // anything that still moves now is an overshoot
		snap = w.snapshot()
		var parts []string
		for i := 0; i < 2*n; i++ {
			h := w.rpcs[i/2].up
			if i%2 == 1 {
				h = w.rpcs[i/2].down
			}
			parts = append(parts, fmt.Sprintf("%d:%d,%d,%d,%d", i, snap[2*i], snap[2*i+1], snap[2*i]-snap[2*i+1], int64(sum(h.msgs))-snap[2*i]))
		}
		res := strings.Join(parts, " ")
		if started != n {
			res = fmt.Sprintf("started=%d ", started) + res
		}
		cancel()
		select {
		case <-served:
		case <-time.After(3 * time.Second):
			res += " serve-did-not-return"
		}
		ch.Channel().Close()
		done := make(chan struct{})
		go func() { wg.Wait(); close(done) }()
		select {
		case <-done:
		case <-time.After(3 * time.Second):
			res += " goroutines-left"
		}
		ops.add(op, res)
	}
}
