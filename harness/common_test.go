//go:build verif

package harness

import (
	"bufio"
	"encoding/hex"
	"fmt"
	"math/rand"
	"os"
	"path/filepath"
	"runtime"
	"strconv"
	"strings"
	"sync"
	"testing"
)

// envInt reads an integer environment variable with a default.
func envInt(name string, def int) int {
	if s := os.Getenv(name); s != "" {
		if n, err := strconv.Atoi(s); err == nil {
			return n
		}
	}
	return def
}

func seed() int64 { return int64(envInt("VERIF_SEED", 1)) }

func outDir(t *testing.T) string {
	d := os.Getenv("VERIF_OUT")
	if d == "" {
		d = t.TempDir()
	}
	if err := os.MkdirAll(d, 0o755); err != nil {
		t.Fatal(err)
	}
	return d
}

// opsWriter writes the two parallel files of a correspondence family:
// <name>.ops (one model command per line) and <name>.impl (what the
// implementation answered, one line per command, "" if not compared).
type opsWriter struct {
	mu   sync.Mutex
	ops  *bufio.Writer
	impl *bufio.Writer
	fo   *os.File
	fi   *os.File
	n    int
	lastImpl string
}

func newOps(t *testing.T, name string) *opsWriter {
	d := outDir(t)
	fo, err := os.Create(filepath.Join(d, name+".ops"))
	if err != nil {
		t.Fatal(err)
	}
	fi, err := os.Create(filepath.Join(d, name+".impl"))
	if err != nil {
		t.Fatal(err)
	}
	return &opsWriter{ops: bufio.NewWriterSize(fo, 1<<20), impl: bufio.NewWriterSize(fi, 1<<20), fo: fo, fi: fi}
}

func (w *opsWriter) add(op, impl string) {
	w.mu.Lock()
	defer w.mu.Unlock()
	fmt.Fprintln(w.ops, op)
	fmt.Fprintln(w.impl, impl)
	w.lastImpl = impl
	w.n++
}

func (w *opsWriter) close() {
	w.ops.Flush()
	w.impl.Flush()
	w.fo.Close()
	w.fi.Close()
}

func hx(b []byte) string {
	if len(b) == 0 {
		return "-"
	}
	return hex.EncodeToString(b)
}

func newRng(salt int64) *rand.Rand { return rand.New(rand.NewSource(seed()*1000003 + salt)) }


// census counts the live goroutines that were started by the library itself
// (runtime.Stack's "created by" line), by creating function: C14 says that
// none is left for a finished RPC or an ended tunnel.
type gcensus struct {
	handlers, swatchers, strans int // server: serveStream goroutines, stream-context watchers, one-Send goroutines
	loops, cwatchers, ctrans    int // client: receive loops, stream-context watchers, one-Send goroutines
	other                       int
}

func census() gcensus {
	buf := make([]byte, 1<<20)
	for {
		n := runtime.Stack(buf, true)
		if n < len(buf) {
			buf = buf[:n]
			break
		}
		buf = make([]byte, 2*len(buf))
	}
	var c gcensus
	const pfx = "created by github.com/jhump/grpctunnel."
	for _, g := range strings.Split(string(buf), "\n\n") {
		i := strings.LastIndex(g, pfx)
		if i < 0 {
			continue
		}
		f := g[i+len(pfx):]
		if j := strings.IndexAny(f, " \n"); j >= 0 {
			f = f[:j]
		}
		switch {
		case f == "(*tunnelServer).createStream":
			c.handlers++
		case f == "(*tunnelServerStream).serveStream":
			c.swatchers++
		case strings.HasPrefix(f, "(*tunnelServer).") || strings.HasPrefix(f, "(*tunnelServerStream)."):
			c.strans++
		case f == "newTunnelChannel":
			c.loops++
		case f == "(*tunnelChannel).newStream":
			c.cwatchers++
		case strings.HasPrefix(f, "(*tunnelChannel).") || strings.HasPrefix(f, "(*tunnelClientStream)."):
			c.ctrans++
		default:
			c.other++
		}
	}
	return c
}
