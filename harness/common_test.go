//go:build verif

package harness

import (
	"testing/synctest"
	"bufio"
	"encoding/hex"
	"fmt"
	"math/rand"
	"os"
	"path/filepath"
	"runtime"
	"strconv"
	"strings"
	"sync"
	"sync/atomic"
	"testing"
	"time"
)

// envInt reads an integer environment variable with a default.
func envInt(name string, def int) int {
	if s := os.Getenv(name); s != "" {
		if n, err := strconv.Atoi(s); err == nil {
			return n
		}
	}
	return def
}

func seed() int64 { return int64(envInt("VERIF_SEED", 1)) }

func outDir(t *testing.T) string {
	d := os.Getenv("VERIF_OUT")
	if d == "" {
		d = t.TempDir()
	}
	if err := os.MkdirAll(d, 0o755); err != nil {
		t.Fatal(err)
	}
	return d
}

// opsWriter writes the two parallel files of a correspondence family:
// <name>.ops (one model command per line) and <name>.impl (what the
// implementation answered, one line per command, "" if not compared).
type opsWriter struct {
	mu   sync.Mutex
	ops  *bufio.Writer
	impl *bufio.Writer
	fo   *os.File
	fi   *os.File
	n    int
	lastImpl string
}

func newOps(t *testing.T, name string) *opsWriter {
	d := outDir(t)
	fo, err := os.Create(filepath.Join(d, name+".ops"))
	if err != nil {
		t.Fatal(err)
	}
	fi, err := os.Create(filepath.Join(d, name+".impl"))
	if err != nil {
		t.Fatal(err)
	}
	return &opsWriter{ops: bufio.NewWriterSize(fo, 1<<20), impl: bufio.NewWriterSize(fi, 1<<20), fo: fo, fi: fi}
}

func (w *opsWriter) add(op, impl string) {
	w.mu.Lock()
	defer w.mu.Unlock()
	fmt.Fprintln(w.ops, op)
	fmt.Fprintln(w.impl, impl)
	w.lastImpl = impl
	w.n++
	wdProgress.Add(1)
	wdActive.Store(w)
}

func (w *opsWriter) close() {
	wdActive.CompareAndSwap(w, nil)
	w.mu.Lock()
	defer w.mu.Unlock()
	w.ops.Flush()
	w.impl.Flush()
	w.fo.Close()
	w.fi.Close()
}

// ---- hang watchdog ----
//
// A goroutine blocked on a sync.Mutex is not "durably blocked" for synctest,
// so an endpoint that deadlocks on a mutex makes synctest.Wait (and with it the
// whole world) hang.  The watchdog runs outside every bubble on the real clock:
// when a world that is writing operations makes no progress for
// VERIF_HANG_SECS it records the operation being executed with the answer
// "HANG <library functions blocked on a mutex>" and ends the process, so that
// the scenario up to the hang is the replay.

var (
	wdProgress atomic.Int64
	wdActive   atomic.Pointer[opsWriter]
	wdCurOp    atomic.Pointer[string]
)

// beginOp names the operation about to be executed (for the watchdog).
func beginOp(op string) {
	wdCurOp.Store(&op)
	wdProgress.Add(1)
}

func blockedOnMutex() string {
	buf := make([]byte, 1<<22)
	buf = buf[:runtime.Stack(buf, true)]
	seen := map[string]bool{}
	var out []string
	for _, g := range strings.Split(string(buf), "\n\n") {
		if !strings.Contains(g, "sync.(*Mutex).Lock") && !strings.Contains(g, "sync.(*RWMutex).Lock") &&
			!strings.Contains(g, "sync.(*RWMutex).RLock") && !strings.Contains(g, "sync.runtime_SemacquireMutex") &&
			!strings.Contains(g, "sync.runtime_SemacquireRWMutex") {
			continue
		}
		for _, line := range strings.Split(g, "\n") {
			if i := strings.Index(line, "github.com/jhump/grpctunnel."); i == 0 {
				f := line[len("github.com/jhump/grpctunnel."):]
				if j := strings.LastIndex(f, "("); j > 0 {
					f = f[:j]
				}
				if !seen[f] {
					seen[f] = true
					out = append(out, f)
				}
				break
			}
		}
	}
	if len(out) == 0 {
		return "no-library-goroutine-blocked-on-a-mutex"
	}
	return strings.Join(out, ",")
}

func watchdog() {
	limit := time.Duration(envInt("VERIF_HANG_SECS", 30)) * time.Second
	last, since := int64(-1), time.Now()
	for {
		time.Sleep(time.Second)
		w := wdActive.Load()
		if w == nil {
			last, since = -1, time.Now()
			continue
		}
		if p := wdProgress.Load(); p != last {
			last, since = p, time.Now()
			continue
		}
		if time.Since(since) < limit {
			continue
		}
		op := "?"
		if s := wdCurOp.Load(); s != nil {
			op = *s
		}
		blocked := blockedOnMutex()
		w.mu.Lock()
		fmt.Fprintln(w.ops, op)
		fmt.Fprintln(w.impl, "HANG blocked="+blocked)
		w.ops.Flush()
		w.impl.Flush()
		w.mu.Unlock()
		fmt.Fprintf(os.Stderr, "watchdog: no progress for %v during `%s`; blocked on a mutex: %s\n", limit, op, blocked)
		os.Exit(3)
	}
}

// bubble runs one scenario in a synctest bubble.  If the library leaves a goroutine blocked for good
// (a handler or caller that the end of its tunnel did not release), synctest panics when the
// scenario's main goroutine exits; the scenario's own tear-down line has already recorded the leak,
// so the panic is absorbed here and the world goes on with the next scenario instead of dying.
var leakedBubbles atomic.Int64

func bubble(t *testing.T, f func(t *testing.T)) {
	defer func() {
		if r := recover(); r != nil {
			if strings.Contains(fmt.Sprint(r), "blocked goroutines remain") {
				leakedBubbles.Add(1)
				return
			}
			panic(r)
		}
	}()
	synctest.Test(t, f)
}

func TestMain(m *testing.M) {
	go watchdog()
	os.Exit(m.Run())
}

func hx(b []byte) string {
	if len(b) == 0 {
		return "-"
	}
	return hex.EncodeToString(b)
}

func newRng(salt int64) *rand.Rand { return rand.New(rand.NewSource(seed()*1000003 + salt)) }


// census counts the live goroutines that were started by the library itself
// (runtime.Stack's "created by" line), by creating function: C14 says that
// none is left for a finished RPC or an ended tunnel.
type gcensus struct {
	handlers, swatchers, strans int // server: serveStream goroutines, stream-context watchers, one-Send goroutines
	loops, cwatchers, ctrans    int // client: receive loops, stream-context watchers, one-Send goroutines
	other                       int
}

func census() gcensus {
	buf := make([]byte, 1<<20)
	for {
		n := runtime.Stack(buf, true)
		if n < len(buf) {
			buf = buf[:n]
			break
		}
		buf = make([]byte, 2*len(buf))
	}
	var c gcensus
	const pfx = "created by github.com/jhump/grpctunnel."
	for _, g := range strings.Split(string(buf), "\n\n") {
		i := strings.LastIndex(g, pfx)
		if i < 0 {
			continue
		}
		f := g[i+len(pfx):]
		if j := strings.IndexAny(f, " \n"); j >= 0 {
			f = f[:j]
		}
		switch {
		case f == "(*tunnelServer).createStream":
			c.handlers++
		case f == "(*tunnelServerStream).serveStream":
			c.swatchers++
		case strings.HasPrefix(f, "(*tunnelServer).") || strings.HasPrefix(f, "(*tunnelServerStream)."):
			c.strans++
		case f == "newTunnelChannel":
			c.loops++
		case f == "(*tunnelChannel).newStream":
			c.cwatchers++
		case strings.HasPrefix(f, "(*tunnelChannel).") || strings.HasPrefix(f, "(*tunnelClientStream)."):
			c.ctrans++
		default:
			c.other++
		}
	}
	return c
}
