//go:build verif

package harness

// C-world: the real tunnel channel (newTunnelChannel / recvLoop / client
// streams) with scripted callers, against a raw server driven by the harness.

import (
	"context"
	"errors"
	"fmt"
	"io"
	"math/rand"
	"sort"
	"strconv"
	"strings"
	"sync"
	"testing"
	"testing/synctest"
	"time"

	"github.com/jhump/grpctunnel"
	"github.com/jhump/grpctunnel/tunnelpb"
	"google.golang.org/genproto/googleapis/rpc/status"
	"google.golang.org/grpc"
	"google.golang.org/grpc/metadata"
	"google.golang.org/protobuf/proto"
	"google.golang.org/protobuf/types/known/wrapperspb"
)

// cliEnd is the carrier as the tunnel client sees it.
type cliEnd struct {
	ctx    context.Context
	cancel context.CancelFunc // gRPC cancels a client stream's context before Recv reports its end
	in     *inbox[*tunnelpb.ServerToClient]
	mu     sync.Mutex
	out    []*tunnelpb.ClientToServer
	closed bool // torn down: Send fails
	// early, when set, yields frames the peer answers with the instant it sees a
	// new_stream frame: they are delivered to the receive loop, and processed by
	// it, before Send(new_stream) returns to newStream (a peer that speaks first)
	early func(sid int64) []*tunnelpb.ServerToClient
}

func (c *cliEnd) Context() context.Context { return c.ctx }
func (c *cliEnd) Send(m *tunnelpb.ClientToServer) error {
	b, err := proto.Marshal(m)
	if err != nil {
		return err
	}
	var cp tunnelpb.ClientToServer
	if err := proto.Unmarshal(b, &cp); err != nil {
		return err
	}
	c.mu.Lock()
	if c.closed {
		c.mu.Unlock()
		return io.EOF
	}
	c.out = append(c.out, &cp)
	early := c.early
	c.mu.Unlock()
	if _, isNew := cp.Frame.(*tunnelpb.ClientToServer_NewStream); isNew && early != nil {
		for _, f := range early(cp.StreamId) {
			c.in.put(f)
		}
		synctest.Wait() // the receive loop has dispatched them
	}
	return nil
}
func (c *cliEnd) Recv() (*tunnelpb.ServerToClient, error) { return c.in.recv() }
func (c *cliEnd) take() []*tunnelpb.ClientToServer {
	c.mu.Lock()
	defer c.mu.Unlock()
	o := c.out
	c.out = nil
	return o
}
func (c *cliEnd) isClosed() bool {
	c.mu.Lock()
	defer c.mu.Unlock()
	return c.closed
}
// endCarrier ends the carrier as gRPC does: the stream's context is done before Recv returns the error.
func (c *cliEnd) endCarrier(err error) {
	if c.cancel != nil {
		c.cancel()
	}
	c.in.end(err)
}

func (c *cliEnd) tearDown() {
	c.mu.Lock()
	c.closed = true
	c.mu.Unlock()
	// the real tear-down of a forward tunnel is CloseSend on the carrier: the serving end sees the
	// end of the stream, returns, and the client's Recv then returns io.EOF
	c.in.end(io.EOF)
}

type crpc struct {
	sid    int64
	shape  string
	str    grpc.ClientStream
	cancel context.CancelFunc
	sendQ  chan func()
	recvQ  chan func()
	// generator view
	sendPend, recvPend bool
	half, cancelled    bool
	reqIdx             int
	sendFailed         bool
	invoke             bool // made through ch.Invoke: the caller side is the library's own unary script
	// raw server view
	respIdx                       int
	cur, curSize, curOff, curIdx  int
	closedByServer                bool
}

type cRun struct {
	t      *testing.T
	ops    *opsWriter
	end    *cliEnd
	ch     grpctunnel.VerifChannel
	have   bool
	mu     sync.Mutex
	dones  []string
	events []string
	rpcs   []*crpc
	finished bool
	reqBuf map[int64][]byte
	reqTot map[int64]int
	cancelAll context.CancelFunc
	rpcBase   context.Context
	onStep    func()
	onEmit    func([]*tunnelpb.ClientToServer)
	lastObs   string
}

func (r *cRun) done(sid int64, op, res string) {
	r.mu.Lock()
	r.dones = append(r.dones, fmt.Sprintf("%d.%s:%s", sid, op, res))
	r.mu.Unlock()
}

func (r *cRun) checkReqData(sid int64, data []byte, first bool, total uint32) string {
	if first {
		r.reqBuf[sid] = nil
		r.reqTot[sid] = int(total)
	}
	r.reqBuf[sid] = append(r.reqBuf[sid], data...)
	buf, tot := r.reqBuf[sid], r.reqTot[sid]
	if _, ok := innerLen(tot); !ok || len(buf) > tot {
		return "!CORRUPT"
	}
	for idx := 0; idx < 64; idx++ {
		if string(msgPayload("c", sid, idx, tot)[:len(buf)]) == string(buf) {
			return ""
		}
	}
	return "!CORRUPT"
}

func (r *cRun) fmtC2S(m *tunnelpb.ClientToServer) string {
	sid := m.StreamId
	switch f := m.Frame.(type) {
	case *tunnelpb.ClientToServer_NewStream:
		return fmt.Sprintf("%d:new:%s:%d:%d{%s}", sid, hx([]byte(f.NewStream.MethodName)), f.NewStream.ProtocolRevision,
			f.NewStream.InitialWindowSize, fmtProtoMD(f.NewStream.RequestHeaders))
	case *tunnelpb.ClientToServer_RequestMessage:
		return fmt.Sprintf("%d:msg:%d:%d%s", sid, f.RequestMessage.Size, len(f.RequestMessage.Data), r.checkReqData(sid, f.RequestMessage.Data, true, f.RequestMessage.Size))
	case *tunnelpb.ClientToServer_MoreRequestData:
		return fmt.Sprintf("%d:more:%d%s", sid, len(f.MoreRequestData), r.checkReqData(sid, f.MoreRequestData, false, 0))
	case *tunnelpb.ClientToServer_HalfClose:
		return fmt.Sprintf("%d:half", sid)
	case *tunnelpb.ClientToServer_Cancel:
		return fmt.Sprintf("%d:cancel", sid)
	case *tunnelpb.ClientToServer_WindowUpdate:
		return fmt.Sprintf("%d:wu:%d", sid, f.WindowUpdate)
	}
	return fmt.Sprintf("%d:unset", sid)
}

func chanErrClass(err error) string {
	if err == nil {
		return "nil"
	}
	s := err.Error()
	switch {
	case strings.Contains(s, "never created"):
		return "never_created"
	case strings.Contains(s, "bad stream ID"):
		return "bad_settings_stream_id"
	case strings.Contains(s, "first frame was not settings"):
		return "first_frame_not_settings"
	case strings.Contains(s, "server support revisions"):
		return "no_common_revision"
	case strings.Contains(s, "failed to read settings"):
		return "failed_to_read_settings"
	}
	return "err:" + strings.ReplaceAll(s, " ", "_")
}

func (r *cRun) observe() string {
	synctest.Wait()
	var fs []string
	emitted := r.end.take()
	if r.onEmit != nil {
		r.onEmit(emitted)
	}
	for _, m := range emitted {
		fs = append(fs, r.fmtC2S(m))
	}
	sort.SliceStable(fs, func(i, j int) bool { return sidOf(fs[i]) < sidOf(fs[j]) })
	tbl, last := "", "0"
	if r.have {
		ids, ls, _, fin := r.ch.State()
		var a []string
		for _, id := range ids {
			a = append(a, strconv.FormatInt(id, 10))
		}
		tbl = strings.Join(a, ",")
		last = strconv.FormatInt(ls, 10)
		if fin && !r.finished {
			r.finished = true
			r.mu.Lock()
			r.events = append(r.events, "chan-finished "+chanErrClass(r.ch.Channel().Err()))
			r.mu.Unlock()
		}
	}
	r.mu.Lock()
	dones := append([]string{}, r.dones...)
	events := append([]string{}, r.events...)
	r.dones, r.events = nil, nil
	r.mu.Unlock()
	sort.Strings(dones)
	sort.Strings(events)
	blocked := ""
	if !r.finished && r.end.in.length() > 0 {
		blocked = " B=1"
	}
	r.lastObs += " ## " + fmt.Sprintf("D=[%s]", strings.Join(dones, " "))
	g := census()
	return fmt.Sprintf("F=[%s] D=[%s] E=[%s] T=[%s] L=%s G=%d,%d,%d%s", strings.Join(fs, " "), strings.Join(dones, " "),
		strings.Join(events, ";"), tbl, last, g.loops, g.cwatchers, g.ctrans, blocked)
}

func (r *cRun) step(op string, do func()) {
	beginOp(op)
	do()
	r.ops.add(op, r.observe())
}

type cCfg struct {
	settings bool
	disable  bool
}

// startC creates the channel. With settings it returns only once the settings
// frame has been processed, so creation runs on its own goroutine.
func startC(t *testing.T, ops *opsWriter, cfg cCfg) *cRun {
	ctx, cancel := context.WithCancel(context.Background())
	r := &cRun{t: t, ops: ops, reqBuf: map[int64][]byte{}, reqTot: map[int64]int{}, cancelAll: cancel}
	cctx, ccancel := context.WithCancel(context.Background())
	r.rpcBase = ctx // the callers' contexts do not depend on the carrier's
	r.end = &cliEnd{ctx: cctx, cancel: ccancel, in: newInbox[*tunnelpb.ServerToClient]()}
	created := make(chan grpctunnel.VerifChannel, 1)
	go func() {
		created <- grpctunnel.VerifNewTunnelChannel(r.end, metadata.MD{}, cfg.settings, cfg.disable, r.end.tearDown)
	}()
	get := func() {
		if r.have {
			return
		}
		select {
		case ch := <-created:
			r.ch, r.have = ch, true
			if _, _, _, fin := ch.State(); cfg.settings && !fin {
				rev, _ := ch.Revision()
				r.mu.Lock()
				r.events = append(r.events, fmt.Sprintf("settings-ok rev=%d", rev))
				r.mu.Unlock()
			}
		default:
		}
	}
	synctest.Wait()
	get()
	ops.add(fmt.Sprintf("c.init settings=%s disable=%s", b2s(cfg.settings), b2s(cfg.disable)), r.observe())
	// the first frames may be needed before the channel exists
	r.onStep = get
	return r
}

func (r *cRun) teardown() {
	r.end.endCarrier(io.EOF)
	r.cancelAll()
	synctest.Wait()
	for _, p := range r.rpcs {
		if p.cancel != nil {
			p.cancel()
		}
		if p.sendQ != nil {
			close(p.sendQ)
			close(p.recvQ)
		}
	}
	synctest.Wait()
	// C14: the channel has ended and every RPC context is done: nothing may be left
	g := census()
	tbl := ""
	if r.have {
		ids, _, _, _ := r.ch.State()
		var a []string
		for _, id := range ids {
			a = append(a, strconv.FormatInt(id, 10))
		}
		tbl = strings.Join(a, ",")
	}
	r.ops.add("c.teardown", fmt.Sprintf("left=%d,%d,%d table=[%s]", g.loops, g.cwatchers, g.ctrans, tbl))
}

// raw server frames
func (r *cRun) frame(sid int64, desc string, m *tunnelpb.ServerToClient) {
	r.step(fmt.Sprintf("c.frame sid=%d %s", sid, desc), func() {
		r.end.in.put(m)
		synctest.Wait()
		r.onStep()
	})
}

func mdProto(md metadata.MD) *tunnelpb.Metadata { return grpctunnel.VerifToProto(md) }

func (r *cRun) frameSettings(sid int64, win uint32, revs []int32) {
	var rs []tunnelpb.ProtocolRevision
	var a []string
	for _, x := range revs {
		rs = append(rs, tunnelpb.ProtocolRevision(x))
		a = append(a, strconv.Itoa(int(x)))
	}
	rl := strings.Join(a, ",")
	if rl == "" {
		rl = "-"
	}
	r.frame(sid, fmt.Sprintf("settings win=%d revs=%s", win, rl), &tunnelpb.ServerToClient{StreamId: sid,
		Frame: &tunnelpb.ServerToClient_Settings{Settings: &tunnelpb.Settings{InitialWindowSize: win, SupportedProtocolRevisions: rs}}})
}

func (r *cRun) frameData(sid int64, first bool, size uint32, total, idx, off, n int) {
	data := wirePrefix("s", sid, idx, total, off, n)
	if first {
		r.frame(sid, fmt.Sprintf("msg size=%d len=%d idx=%d", size, n, idx), &tunnelpb.ServerToClient{StreamId: sid,
			Frame: &tunnelpb.ServerToClient_ResponseMessage{ResponseMessage: &tunnelpb.MessageData{Size: size, Data: data}}})
	} else {
		r.frame(sid, fmt.Sprintf("more len=%d idx=%d", n, idx), &tunnelpb.ServerToClient{StreamId: sid,
			Frame: &tunnelpb.ServerToClient_MoreResponseData{MoreResponseData: data}})
	}
}

// client calls
func (r *cRun) newRPC(shape string, md metadata.MD, timeout time.Duration, preCancelled bool, method string) *crpc {
	return r.newRPCEarly(shape, md, timeout, preCancelled, method, 0)
}

// newRPCEarly: with early = n > 0 the peer answers the new_stream frame at once
// with headers a=1 and one complete response message of n bytes, which reach
// the client while it is still inside newStream.
func (r *cRun) newRPCEarly(shape string, md metadata.MD, timeout time.Duration, preCancelled bool, method string, early int) *crpc {
	p := &crpc{shape: shape, sendQ: make(chan func(), 8), recvQ: make(chan func(), 8), cur: -1}
	if early > 0 && !preCancelled {
		r.end.mu.Lock()
		r.end.early = func(sid int64) []*tunnelpb.ServerToClient {
			return []*tunnelpb.ServerToClient{
				{StreamId: sid, Frame: &tunnelpb.ServerToClient_ResponseHeaders{ResponseHeaders: mdProto(metadata.Pairs("a", "1"))}},
				{StreamId: sid, Frame: &tunnelpb.ServerToClient_ResponseMessage{ResponseMessage: &tunnelpb.MessageData{Size: uint32(early), Data: wirePrefix("s", sid, 0, early, 0, early)}}},
			}
		}
		r.end.mu.Unlock()
		defer func() { r.end.mu.Lock(); r.end.early = nil; r.end.mu.Unlock() }()
	} else {
		early = 0
	}
	cs := shape == "CS" || shape == "BD"
	ss := shape == "SS" || shape == "BD"
	op := fmt.Sprintf("c.new shape=%s m=%s md=%s", shape, hx([]byte(method)), fmtMD(md))
	base := r.rpcBase
	if md != nil {
		base = metadata.NewOutgoingContext(base, md)
	}
	var ctx context.Context
	if timeout > 0 {
		ctx, p.cancel = context.WithTimeout(base, timeout)
		op += fmt.Sprintf(" timeout=%d", int64(timeout))
	} else {
		ctx, p.cancel = context.WithCancel(base)
	}
	if preCancelled {
		p.cancel()
		op += " cancelled=1"
		p.cancelled = true
	}
	if early > 0 {
		op += fmt.Sprintf(" early=%d", early)
		p.respIdx = 1
		p.cur = 0
	}
	r.step(op, func() {
		str, err := r.ch.Channel().NewStream(ctx, &grpc.StreamDesc{ClientStreams: cs, ServerStreams: ss}, method)
		if err != nil {
			r.done(0, "new", fmtRes(err))
			return
		}
		p.str = str
		p.sid, _ = grpctunnel.VerifClientStreamID(str)
		r.done(p.sid, "new", "ok")
		go func() {
			for f := range p.sendQ {
				f()
			}
		}()
		go func() {
			for f := range p.recvQ {
				f()
			}
		}()
	})
	if p.str == nil {
		return nil
	}
	r.rpcs = append(r.rpcs, p)
	return p
}

// invoke starts ch.Invoke (the unary call path) on a goroutine of its own; the
// raw server answers it like any other stream.  Only the final result of
// Invoke is observed.
func (r *cRun) invoke(n int, timeout time.Duration) *crpc {
	p := &crpc{shape: "U", invoke: true, cur: -1, reqIdx: 1, half: true, recvPend: true}
	_, last, _, _ := r.ch.State()
	p.sid = last + 1
	op := fmt.Sprintf("c.invoke m=%s n=%d", hx([]byte("/v.S/U")), n)
	var ctx context.Context
	if timeout > 0 {
		ctx, p.cancel = context.WithTimeout(r.rpcBase, timeout)
		op += fmt.Sprintf(" timeout=%d", int64(timeout))
	} else {
		ctx, p.cancel = context.WithCancel(r.rpcBase)
	}
	sid := p.sid
	r.step(op, func() {
		go func() {
			resp := dirtyTarget()
			err := r.ch.Channel().Invoke(ctx, "/v.S/U", &wrapperspb.BytesValue{Value: msgValue("c", sid, 0, n)}, resp)
			switch {
			case err == nil:
				r.done(sid, "invoke", "msg:"+identify("s", sid, resp, 64))
			case strings.Contains(err.Error(), "channel is closed") || strings.Contains(err.Error(), "stream IDs exhausted"):
				r.done(0, "invoke", fmtRes(err))
			default:
				// io.EOF is what Invoke returns both when the stream ended OK without a response and when the
				// carrier refused the request: one token for both (the model driver does the same)
				r.done(sid, "invoke", fmtRes(err))
			}
		}()
	})
	if _, l2, _, _ := r.ch.State(); l2 != p.sid {
		return nil // the stream was not created
	}
	r.rpcs = append(r.rpcs, p)
	return p
}

func (r *cRun) callSend(p *crpc, n int) {
	idx := p.reqIdx
	p.reqIdx++
	p.sendPend = true
	r.step(fmt.Sprintf("c.call sid=%d send n=%d idx=%d", p.sid, n, idx), func() {
		p.sendQ <- func() {
			err := p.str.SendMsg(&wrapperspb.BytesValue{Value: msgValue("c", p.sid, idx, n)})
			r.done(p.sid, "send", fmtCarrier(err))
		}
	})
}

func fmtCarrier(err error) string {
	if err == io.EOF {
		return "other:carrier-closed"
	}
	return fmtRes(err)
}

func (r *cRun) callCloseSend(p *crpc) {
	p.sendPend = true
	p.half = true
	r.step(fmt.Sprintf("c.call sid=%d closesend", p.sid), func() {
		p.sendQ <- func() { r.done(p.sid, "closesend", fmtRes(p.str.CloseSend())) }
	})
}

func (r *cRun) callRecv(p *crpc) {
	p.recvPend = true
	r.step(fmt.Sprintf("c.call sid=%d recv", p.sid), func() {
		p.recvQ <- func() {
			m := dirtyTarget() // an application may reuse its message object: the codec must reset it
			err := p.str.RecvMsg(m)
			if err == nil {
				r.done(p.sid, "recv", "msg:"+identify("s", p.sid, m, 64))
			} else {
				r.done(p.sid, "recv", fmtRes(err))
			}
		}
	})
}

func (r *cRun) callHeader(p *crpc) {
	p.recvPend = true
	r.step(fmt.Sprintf("c.call sid=%d header", p.sid), func() {
		p.recvQ <- func() {
			md, err := p.str.Header()
			if err != nil {
				r.done(p.sid, "header", fmtRes(err))
			} else {
				r.done(p.sid, "header", "md{"+fmtMD(md)+"}")
			}
		}
	})
}

func (r *cRun) callTrailer(p *crpc) {
	r.step(fmt.Sprintf("c.call sid=%d trailer", p.sid), func() {
		r.done(p.sid, "trailer", "md{"+fmtMD(p.str.Trailer())+"}")
	})
}

func (r *cRun) callCancel(p *crpc) {
	p.cancelled = true
	r.step(fmt.Sprintf("c.call sid=%d cancel", p.sid), func() { p.cancel() })
}

func (r *cRun) refresh() {
	line := r.lastObs
	r.lastObs = ""
	for _, seg := range strings.Split(line, " ## ") {
		i := strings.Index(seg, "D=[")
		if i < 0 {
			continue
		}
		j := strings.Index(seg[i:], "]")
		for _, d := range strings.Fields(seg[i+3 : i+j]) {
			dot := strings.IndexByte(d, '.')
			col := strings.IndexByte(d, ':')
			if dot < 0 || col < dot {
				continue
			}
			sid, _ := strconv.ParseInt(d[:dot], 10, 64)
			op := d[dot+1 : col]
			for _, p := range r.rpcs {
				if p.sid != sid {
					continue
				}
				switch op {
				case "recv", "header":
					p.recvPend = false
				case "send":
					p.sendPend = false
					if d[col+1:] != "ok" {
						p.sendFailed = true
					}
				case "closesend":
					p.sendPend = false
				}
			}
		}
	}
}

var respCodes = []int32{0, 0, 0, 5, 13, 14, 2}

func TestCWorldRandom(t *testing.T) {
	ops := newOps(t, "cworld")
	defer ops.close()
	rng := newRng(23)
	n := envInt("VERIF_N", 300)
	for i := 0; i < n; i++ {
		runCScenario(t, ops, rng, 30+rng.Intn(60), rng.Intn(3) == 0)
	}
	t.Logf("cworld lines=%d", ops.n)
}

func runCScenario(t *testing.T, ops *opsWriter, rng *rand.Rand, steps int, hostile bool) {
	bubble(t, func(t *testing.T) {
		cfg := cCfg{settings: rng.Intn(6) != 0, disable: rng.Intn(8) == 0}
		r := startC(t, ops, cfg)
		defer r.teardown()
		if cfg.settings {
			// the settings exchange
			switch {
			case hostile && rng.Intn(3) == 0:
				switch rng.Intn(5) {
				case 0:
					r.frameSettings(0, 65536, []int32{0, 1}) // wrong stream id
				case 1:
					r.frame(-1, "hdr md=-", &tunnelpb.ServerToClient{StreamId: -1, Frame: &tunnelpb.ServerToClient_ResponseHeaders{ResponseHeaders: mdProto(nil)}})
				case 2:
					r.frameSettings(-1, 65536, []int32{2, 7}) // nothing in common
				case 3:
					r.step("c.eof", func() { r.end.endCarrier(io.EOF); synctest.Wait(); r.onStep() })
				default:
					r.frameSettings(-1, 65536, [][]int32{{}, {7, 1, 1, 0}, {0}, {1}, {1, 0, 1}}[rng.Intn(5)])
				}
			default:
				win := uint32(65536)
				if rng.Intn(5) == 0 {
					win = []uint32{0, 1, 100, 16384, 20000}[rng.Intn(5)]
				}
				revs := []int32{0, 1}
				if rng.Intn(6) == 0 {
					revs = [][]int32{{}, {0}, {1}, {1, 0}, {0, 1, 2}}[rng.Intn(5)]
				}
				r.frameSettings(-1, win, revs)
			}
		}
		if !r.have {
			return // channel creation still blocked (no usable first frame)
		}
		pick := func(pred func(*crpc) bool) *crpc {
			var c []*crpc
			for _, p := range r.rpcs {
				if pred(p) {
					c = append(c, p)
				}
			}
			if len(c) == 0 {
				return nil
			}
			return c[rng.Intn(len(c))]
		}
		for step := 0; step < steps; step++ {
			k := rng.Intn(100)
			switch {
			case k < 9 && len(r.rpcs) < 6:
				shape := []string{"U", "CS", "SS", "BD"}[rng.Intn(4)]
				var md metadata.MD
				if rng.Intn(3) == 0 {
					md = mdChoices[rng.Intn(len(mdChoices))]
				}
				var to time.Duration
				if rng.Intn(5) == 0 {
					to = time.Duration(1+rng.Intn(3)) * time.Second
				}
				if rng.Intn(4) == 0 {
					var to time.Duration
					if rng.Intn(5) == 0 {
						to = time.Duration(1+rng.Intn(3)) * time.Second
					}
					r.invoke(feasible([]int{16, 100, 5000, 16384}[rng.Intn(4)]), to)
					continue
				}
				early := 0
				if rng.Intn(4) == 0 {
					early = feasible([]int{16, 100, 5000}[rng.Intn(3)])
				}
				r.newRPCEarly(shape, md, to, rng.Intn(15) == 0, "/v.S/"+shape, early)
			case k < 22: // client send
				p := pick(func(p *crpc) bool { return !p.invoke && !p.sendPend && !p.half && !p.sendFailed })
				if p == nil {
					continue
				}
				if (p.shape == "U" || p.shape == "SS") && p.reqIdx >= 1 && rng.Intn(4) != 0 {
					continue
				}
				r.callSend(p, feasible(dataSizes[rng.Intn(len(dataSizes))]))
			case k < 27:
				p := pick(func(p *crpc) bool { return !p.invoke && !p.sendPend && (!p.half || rng.Intn(5) == 0) })
				if p == nil {
					continue
				}
				r.callCloseSend(p)
			case k < 40:
				p := pick(func(p *crpc) bool { return !p.invoke && !p.recvPend })
				if p == nil {
					continue
				}
				r.callRecv(p)
			case k < 44:
				p := pick(func(p *crpc) bool { return !p.invoke && !p.recvPend })
				if p == nil {
					continue
				}
				r.callHeader(p)
			case k < 48:
				if p := pick(func(p *crpc) bool { return !p.invoke }); p != nil {
					r.callTrailer(p)
				}
			case k < 51:
				if p := pick(func(p *crpc) bool { return !p.cancelled }); p != nil {
					r.callCancel(p)
				}
			case k < 56: // server: headers
				p := pick(func(p *crpc) bool { return true })
				if p == nil {
					continue
				}
				md := mdChoices[rng.Intn(len(mdChoices))]
				r.frame(p.sid, "hdr md="+fmtMD(md), &tunnelpb.ServerToClient{StreamId: p.sid, Frame: &tunnelpb.ServerToClient_ResponseHeaders{ResponseHeaders: mdProto(md)}})
			case k < 75: // server: response data
				p := pick(func(p *crpc) bool { return hostile || !p.closedByServer })
				if p == nil {
					continue
				}
				if r.isRev0() && !p.recvPend && !hostile {
					continue
				}
				startNew := p.cur <= 0
				if hostile && p.cur > 0 && rng.Intn(10) == 0 {
					startNew = true
				}
				if startNew {
					if !hostile && (p.shape == "U" || p.shape == "CS") && p.respIdx >= 1 && rng.Intn(4) != 0 {
						continue
					}
					size := feasible(dataSizes[rng.Intn(len(dataSizes))])
					n := size
					if n > 16384 {
						n = 16384
					}
					if rng.Intn(4) == 0 && n > 1 {
						n = 1 + rng.Intn(n)
					}
					if hostile && rng.Intn(12) == 0 {
						n = size + 1 + rng.Intn(5)
					}
					p.curIdx, p.curSize, p.curOff = p.respIdx, size, n
					p.respIdx++
					p.cur = size - n
					r.frameData(p.sid, true, uint32(size), size, p.curIdx, 0, n)
				} else {
					n := p.cur
					if n > 16384 {
						n = 16384
					}
					if rng.Intn(4) == 0 && n > 1 {
						n = 1 + rng.Intn(n)
					}
					if hostile && rng.Intn(8) == 0 {
						n = p.cur + 1 + rng.Intn(10)
					}
					if hostile && rng.Intn(12) == 0 {
						n = 0
					}
					r.frameData(p.sid, false, 0, p.curSize, p.curIdx, p.curOff, n)
					p.curOff += n
					p.cur -= n
				}
				if p.cur < 0 {
					p.cur = -1
				}
			case k < 77 && hostile: // overrun / stray continuation
				p := pick(func(p *crpc) bool { return p.cur <= 0 })
				if p == nil {
					continue
				}
				if rng.Intn(2) == 0 {
					r.frameData(p.sid, false, 0, feasible(16), p.respIdx, 0, rng.Intn(10))
				} else {
					total := feasible(16384 * 8)
					for j := 0; j < 5; j++ {
						r.frameData(p.sid, j == 0, uint32(total), total, p.respIdx, j*16384, 16384)
					}
					p.curIdx, p.curSize, p.curOff, p.cur = p.respIdx, total, 5*16384, total-5*16384
					p.respIdx++
				}
			case k < 84: // server: close
				p := pick(func(p *crpc) bool { return hostile || (!p.closedByServer && p.cur <= 0) })
				if p == nil {
					continue
				}
				p.closedByServer = true
				code := respCodes[rng.Intn(len(respCodes))]
				md := mdChoices[rng.Intn(len(mdChoices))]
				r.frame(p.sid, fmt.Sprintf("close code=%d md=%s", code, fmtMD(md)), &tunnelpb.ServerToClient{StreamId: p.sid,
					Frame: &tunnelpb.ServerToClient_CloseStream{CloseStream: &tunnelpb.CloseStream{Status: &status.Status{Code: code, Message: "scripted"}, ResponseTrailers: mdProto(md)}}})
			case k < 90: // server: window update
				p := pick(func(p *crpc) bool { return true })
				if p == nil {
					continue
				}
				nn := []uint32{1, 100, 16384, 65536, 65536, 30000}[rng.Intn(6)]
				if hostile && rng.Intn(4) == 0 {
					nn = []uint32{0, 4294967295, 2147483648}[rng.Intn(3)]
				}
				r.frame(p.sid, fmt.Sprintf("wu n=%d", nn), &tunnelpb.ServerToClient{StreamId: p.sid, Frame: &tunnelpb.ServerToClient_WindowUpdate{WindowUpdate: nn}})
			case k < 92 && hostile: // stray frames
				var sid int64
				last := int64(len(r.rpcs))
				switch rng.Intn(4) {
				case 0:
					sid = last + 3 // never created
				case 1:
					sid = -1
				case 2:
					sid = 0
				default:
					if p := pick(func(p *crpc) bool { return true }); p != nil {
						sid = p.sid
					}
				}
				switch rng.Intn(3) {
				case 0:
					r.frame(sid, "unset", &tunnelpb.ServerToClient{StreamId: sid})
				case 1:
					r.frameSettings(sid, 65536, []int32{0, 1})
				default:
					r.frame(sid, "wu n=5", &tunnelpb.ServerToClient{StreamId: sid, Frame: &tunnelpb.ServerToClient_WindowUpdate{WindowUpdate: 5}})
				}
			case k < 95:
				d := []time.Duration{300 * time.Millisecond, time.Second, 3 * time.Second}[rng.Intn(3)]
				r.step(fmt.Sprintf("c.tick ns=%d", int64(d)), func() { time.Sleep(d) })
			default:
				if rng.Intn(8) == 0 {
					switch rng.Intn(3) {
					case 0:
						r.step("c.close", func() { r.ch.Channel().Close() })
					case 1:
						r.step("c.eof", func() { r.end.endCarrier(io.EOF) })
					default:
						r.step("c.fail", func() { r.end.endCarrier(errors.New("carrier broke")) })
					}
				}
			}
			r.refresh()
		}
	})
}

func (r *cRun) isRev0() bool {
	rev, _ := r.ch.Revision()
	return rev == 0
}
