// Package harness ties the Lean models in /verif/lean to the implementation
// in /repo. It only contains tests; build with
//
//	GOTOOLCHAIN=local GOFLAGS=-mod=mod GOPROXY=off go1.26.8 test -c -tags verif
package harness
