package main

// Lock-discipline extraction for C15: for every access to a field of one of
// the shared structs, record the enclosing function, whether it is a write,
// how it is performed (plain / atomic method / lock method), and the set of
// mutexes that are syntactically held at that point.  Purely syntactic
// (go/ast), deliberately conservative: a field access on an expression whose
// struct type cannot be inferred is recorded with struct "?" and fails the
// Lean obligation unless the field name is unused by every tracked struct.

import (
	"fmt"
	"go/ast"
	"go/token"
	"sort"
	"strings"
)

var trackedStructs = []string{
	"tunnelChannel", "tunnelClientStream", "tunnelServer", "tunnelServerStream",
	"defaultSender", "defaultReceiver", "noFlowControlReceiver", "noFlowControlSender",
	"reverseChannels", "TunnelServiceHandler", "ReverseTunnelServer",
	"threadSafeOpenTunnelClient", "threadSafeOpenReverseTunnelServer",
	"threadSafeOpenReverseTunnelClient", "threadSafeOpenTunnelServer",
}

type access struct {
	strct, field, fn string
	line             int
	write            bool
	how              string // plain | atomic | lockop | chan | call
	held             []string
	inLiteral        bool
	method           string // for how == "call" through a field's value: the method invoked ("" for a function-valued field)
	async            bool   // the access sits inside a `go func() { ... }()` literal: it runs on a goroutine of its own
	sects            map[string]int  // lock -> id of the critical section (the Lock/RLock statement of this function) the access sits in
	rheld            map[string]bool // locks held in read mode (RLock)
}

type structInfo struct {
	fields map[string]string // field -> type name (element type for pointers/maps/slices)
}

func baseTypeName(e ast.Expr) string {
	switch t := e.(type) {
	case *ast.Ident:
		return t.Name
	case *ast.StarExpr:
		return baseTypeName(t.X)
	case *ast.SelectorExpr:
		return t.Sel.Name
	case *ast.ArrayType:
		return baseTypeName(t.Elt)
	case *ast.MapType:
		return baseTypeName(t.Value)
	case *ast.IndexExpr:
		return baseTypeName(t.X)
	case *ast.ChanType:
		return "chan"
	case *ast.FuncType:
		return "func"
	}
	return ""
}

func lockTable(fset *token.FileSet, files []*ast.File) string {
	tracked := map[string]bool{}
	for _, s := range trackedStructs {
		tracked[s] = true
	}
	structs := map[string]*structInfo{}
	for _, f := range files {
		for _, d := range f.Decls {
			gd, ok := d.(*ast.GenDecl)
			if !ok || gd.Tok != token.TYPE {
				continue
			}
			for _, sp := range gd.Specs {
				ts := sp.(*ast.TypeSpec)
				st, ok := ts.Type.(*ast.StructType)
				if !ok || !tracked[ts.Name.Name] {
					continue
				}
				si := &structInfo{fields: map[string]string{}}
				for _, fl := range st.Fields.List {
					tn := baseTypeName(fl.Type)
					if sel, ok := fl.Type.(*ast.SelectorExpr); ok {
						tn = exprString(sel.X) + "." + sel.Sel.Name
					}
					if ix, ok := fl.Type.(*ast.IndexExpr); ok {
						if sel, ok := ix.X.(*ast.SelectorExpr); ok {
							tn = exprString(sel.X) + "." + sel.Sel.Name // atomic.Pointer[T]
						}
					}
					if len(fl.Names) == 0 {
						si.fields[baseTypeName(fl.Type)] = tn // embedded
					}
					for _, n := range fl.Names {
						si.fields[n.Name] = tn
					}
				}
				structs[ts.Name.Name] = si
			}
		}
	}
	methodsByName = map[string][]string{}
	packageFuncs = map[string]bool{}
	for _, f := range files {
		for _, d := range f.Decls {
			if fd, ok := d.(*ast.FuncDecl); ok && fd.Body != nil {
				if fd.Recv != nil && len(fd.Recv.List) > 0 {
					methodsByName[fd.Name.Name] = append(methodsByName[fd.Name.Name], baseTypeName(fd.Recv.List[0].Type))
				} else {
					packageFuncs[fd.Name.Name] = true
				}
			}
		}
	}
	var accs []access
	for _, f := range files {
		for _, d := range f.Decls {
			fd, ok := d.(*ast.FuncDecl)
			if !ok || fd.Body == nil {
				continue
			}
			env := map[string]string{}
			fname := fd.Name.Name
			if fd.Recv != nil && len(fd.Recv.List) > 0 {
				rt := baseTypeName(fd.Recv.List[0].Type)
				fname = rt + "." + fname
				for _, n := range fd.Recv.List[0].Names {
					env[n.Name] = rt
				}
			}
			for _, p := range fd.Type.Params.List {
				tn := baseTypeName(p.Type)
				for _, n := range p.Names {
					env[n.Name] = tn
				}
			}
			w := &walker{fset: fset, structs: structs, tracked: tracked, env: env, fn: fname, accs: &accs, sect: map[string]int{}, rl: map[string]bool{}}
			w.body(fd.Body.List, nil)
		}
	}
	// ---- interprocedural pass ----
	funcs := map[string]bool{}
	for _, a := range accs {
		funcs[a.fn] = true
	}
	var allSites []callSite
	allSites = append(allSites, callSites...)
	{
		var typed []callSite
		for _, c := range callSites {
			if !c.byName && !packageFuncs[c.callee] {
				typed = append(typed, c)
			}
		}
		callSites = typed
	}
	for _, c := range callSites {
		funcs[c.caller] = true
		funcs[c.callee] = true
	}
	// entryHeld[fn]: locks held at EVERY call site of fn inside the package (nil = not yet known / top)
	entry := map[string]map[string]bool{}
	hasSite := map[string]bool{}
	for _, c := range callSites {
		hasSite[c.callee] = true
	}
	for f := range funcs {
		if !hasSite[f] {
			entry[f] = map[string]bool{}
		}
	}
	for iter := 0; iter < 20; iter++ {
		changed := false
		for f := range funcs {
			if !hasSite[f] {
				continue
			}
			var inter map[string]bool
			known := false
			for _, c := range callSites {
				if c.callee != f {
					continue
				}
				ce, ok := entry[c.caller]
				if c.async {
					ce, ok = map[string]bool{}, true
				}
				if !ok {
					continue // caller's entry set still unknown: skip for now
				}
				known = true
				cur := map[string]bool{}
				for l := range ce {
					cur[l] = true
				}
				for _, l := range c.held {
					cur[l] = true
				}
				if inter == nil {
					inter = cur
				} else {
					for l := range inter {
						if !cur[l] {
							delete(inter, l)
						}
					}
				}
			}
			if known {
				old, had := entry[f]
				if !had || len(old) != len(inter) {
					entry[f] = inter
					changed = true
				}
			}
		}
		if !changed {
			break
		}
	}
	for i := range accs {
		for l := range entry[accs[i].fn] {
			found := false
			for _, h := range accs[i].held {
				if h == l {
					found = true
				}
			}
			if !found {
				accs[i].held = append(accs[i].held, l)
			}
		}
	}
	// transitive acquisitions and lock-order edges through calls
	trans := map[string]map[string]bool{}
	for f := range funcs {
		trans[f] = map[string]bool{}
		for l := range directAcquires[f] {
			trans[f][l] = true
		}
	}
	for iter := 0; iter < 20; iter++ {
		changed := false
		for _, c := range callSites {
			for l := range trans[c.callee] {
				if !trans[c.caller][l] {
					trans[c.caller][l] = true
					changed = true
				}
			}
		}
		if !changed {
			break
		}
	}
	for _, c := range callSites {
		hs := map[string]bool{}
		for _, h := range c.held {
			hs[h] = true
		}
		if !c.async {
			for h := range entry[c.caller] {
				hs[h] = true
			}
		}
		for h := range hs {
			for l := range trans[c.callee] {
				if h != l {
					lockEdges = append(lockEdges, [2]string{h, l})
				}
			}
		}
	}
	callSites = nil
	directAcquires = map[string]map[string]bool{}

	sort.Slice(accs, func(i, j int) bool {
		a, b := accs[i], accs[j]
		if a.strct != b.strct {
			return a.strct < b.strct
		}
		if a.field != b.field {
			return a.field < b.field
		}
		if a.fn != b.fn {
			return a.fn < b.fn
		}
		return a.line < b.line
	})
	// function names get numeric ids: the kernel decides reachability over Nat, not over strings
	fnSet := map[string]bool{}
	for _, a := range accs {
		fnSet[a.fn] = true
	}
	for _, c := range allSites {
		fnSet[c.caller] = true
		fnSet[c.callee] = true
	}
	var fnNames []string
	for f := range fnSet {
		fnNames = append(fnNames, f)
	}
	sort.Strings(fnNames)
	fnID := map[string]int{}
	for i, f := range fnNames {
		fnID[f] = i
	}
	var b strings.Builder
	b.WriteString("/- GENERATED by /verif/harness/extract (locks.go) from /repo's Go sources on every check. Do not edit. -/\n")
	b.WriteString("namespace TunnelModel.Generated\n\n")
	b.WriteString("structure Access where\n  strct : String\n  field : String\n  fn : String\n  write : Bool\n  how : String\n  held : List String\n  inLiteral : Bool\n  method : String := \"\"\n  async : Bool := false\n  fnId : Nat := 0\n  deriving Repr, DecidableEq\n\n")
	b.WriteString("def accessTable : List Access := [\n")
	// de-duplicate identical rows (line numbers are not part of the obligation)
	seen := map[string]bool{}
	first := true
	for _, a := range accs {
		sort.Strings(a.held)
		extra := ""
		if a.method != "" {
			extra += fmt.Sprintf(", method := %q", a.method)
		}
		if a.async {
			extra += ", async := true"
		}
		extra += fmt.Sprintf(", fnId := %d", fnID[a.fn])
		row := fmt.Sprintf("  { strct := %q, field := %q, fn := %q, write := %v, how := %q, held := [%s], inLiteral := %v%s }",
			a.strct, a.field, a.fn, a.write, a.how, quoteAll(a.held), a.inLiteral, extra)
		if seen[row] {
			continue
		}
		seen[row] = true
		if !first {
			b.WriteString(",\n")
		}
		first = false
		b.WriteString(row)
	}
	b.WriteString("\n]\n\n")
	// critical sections: (function, lock, section id within the function, read-mode, struct, field, write) for every access made
	// inside a critical section the function itself opened (one section id per Lock/RLock statement of the function)
	b.WriteString("def lockSections : List (String × String × Nat × Bool × String × String × Bool) := [\n")
	lsSet := map[string]bool{}
	for _, a := range accs {
		if a.how == "lockop" {
			continue
		}
		for l, id := range a.sects {
			lsSet[fmt.Sprintf("  (%q, %q, %d, %v, %q, %q, %v)", a.fn, l, id, a.rheld[l], a.strct, a.field, a.write)] = true
		}
	}
	var lss []string
	for e := range lsSet {
		lss = append(lss, e)
	}
	sort.Strings(lss)
	b.WriteString(strings.Join(lss, ",\n"))
	b.WriteString("\n]\n\n")
	// lock-order edges: lock B acquired while A is held
	b.WriteString("def lockOrderEdges : List (String × String) := [\n")
	edgeSet := map[string]bool{}
	for _, e := range lockEdges {
		edgeSet[fmt.Sprintf("  (%q, %q)", e[0], e[1])] = true
	}
	var es []string
	for e := range edgeSet {
		es = append(es, e)
	}
	sort.Strings(es)
	b.WriteString(strings.Join(es, ",\n"))
	b.WriteString("\n]\n\n")
	// call edges (caller, callee, async): typed calls, calls of package functions, and calls through
	// interfaces resolved by method name; async = the callee runs on a goroutine of its own
	b.WriteString("def callEdges : List (String × String × Bool) := [\n")
	ceSet := map[string]bool{}
	for _, c := range allSites {
		ceSet[fmt.Sprintf("  (%q, %q, %v)", c.caller, c.callee, c.async)] = true
	}
	var ces []string
	for e := range ceSet {
		ces = append(ces, e)
	}
	sort.Strings(ces)
	b.WriteString(strings.Join(ces, ",\n"))
	b.WriteString("\n]\n\n")
	b.WriteString("/-- function names; the index is the function's id (`Access.fnId`, `callEdgesN`) -/\ndef fnNames : List String := [")
	b.WriteString(quoteAll(fnNames))
	b.WriteString("]\n\n/-- `callEdges` over ids: (caller, callee, async) -/\ndef callEdgesN : List (Nat × Nat × Bool) := [\n")
	cnSet := map[string]bool{}
	for _, c := range allSites {
		cnSet[fmt.Sprintf("  (%d, %d, %v)", fnID[c.caller], fnID[c.callee], c.async)] = true
	}
	var cns []string
	for e := range cnSet {
		cns = append(cns, e)
	}
	sort.Strings(cns)
	b.WriteString(strings.Join(cns, ",\n"))
	b.WriteString("\n]\n\nend TunnelModel.Generated\n")
	lockEdges = nil
	return b.String()
}

var lockEdges [][2]string

type callSite struct {
	caller, callee string
	held           []string
	async          bool // `go f(...)`: the callee runs on a new goroutine and inherits no lock
	byName         bool // resolved by method name only (receiver of interface type): used for reachability, not for lock inheritance
}

var callSites []callSite
var directAcquires = map[string]map[string]bool{}

type walker struct {
	fset    *token.FileSet
	structs map[string]*structInfo
	tracked map[string]bool
	env     map[string]string
	fn      string
	accs    *[]access
	defers  []deferEntry // defer stack of the function body being walked
	async   bool         // walking the body of a `go func() {...}()` literal
	sect    map[string]int  // lock -> id of the critical section currently open in this function (one id per Lock/RLock statement)
	rl      map[string]bool // lock -> currently held in read mode
	nsect   int
}

// methodsByName: method name -> receiver types declaring it (name-based resolution of calls through interfaces)
var methodsByName = map[string][]string{}

// packageFuncs: names of the package-level functions
var packageFuncs = map[string]bool{}

// deferEntry is one `defer` of the function body being walked: a deferred
// unlock, or a deferred closure (walked when the stack is unwound, LIFO, with
// the locks still held at that point).
type deferEntry struct {
	unlock string
	fl     *ast.FuncLit
}

// runDefers unwinds a defer stack at function exit.  Locks held at exit are
// those passed in plus every lock whose unlock was deferred (explicit
// Lock/Unlock pairs are assumed balanced by then).
func (w *walker) runDefers(base []string, ds []deferEntry) {
	held := append([]string{}, base...)
	for _, d := range ds {
		if d.unlock != "" {
			found := false
			for _, h := range held {
				if h == d.unlock {
					found = true
				}
			}
			if !found {
				held = append(held, d.unlock)
			}
		}
	}
	for i := len(ds) - 1; i >= 0; i-- {
		if ds[i].unlock != "" {
			held = without(held, ds[i].unlock)
		} else {
			w.funcLit(ds[i].fl, held)
		}
	}
}

// body walks a function body and then its deferred calls.
func (w *walker) body(stmts []ast.Stmt, held []string) {
	saved := w.defers
	w.defers = nil
	w.block(stmts, held)
	ds := w.defers
	w.defers = saved
	w.runDefers(held, ds)
}

// typeOf infers the tracked struct type of an expression, or "".
func (w *walker) typeOf(e ast.Expr) string {
	switch t := e.(type) {
	case *ast.Ident:
		return w.env[t.Name]
	case *ast.ParenExpr:
		return w.typeOf(t.X)
	case *ast.StarExpr:
		return w.typeOf(t.X)
	case *ast.UnaryExpr:
		if t.Op == token.AND {
			return w.typeOf(t.X)
		}
	case *ast.CompositeLit:
		return baseTypeName(t.Type)
	case *ast.SelectorExpr:
		if st := w.typeOf(t.X); st != "" {
			if si := w.structs[st]; si != nil {
				return si.fields[t.Sel.Name]
			}
		}
	case *ast.IndexExpr:
		return w.typeOf(t.X)
	case *ast.CallExpr:
		// conversion (*tunnelServerStream)(st)
		if p, ok := t.Fun.(*ast.ParenExpr); ok {
			return baseTypeName(p.X)
		}
		if id, ok := t.Fun.(*ast.Ident); ok {
			switch id.Name {
			case "newTunnelChannel", "newReverseChannel":
				return "tunnelChannel"
			case "newReverseChannels":
				return "reverseChannels"
			}
		}
		if sel, ok := t.Fun.(*ast.SelectorExpr); ok {
			switch sel.Sel.Name {
			case "reverseChannelsForKey":
				return "reverseChannels"
			case "newStream", "allocateStream":
				return "tunnelClientStream"
			case "getStream":
				if w.typeOf(sel.X) == "tunnelChannel" {
					return "tunnelClientStream"
				}
				return "tunnelServerStream"
			}
		}
	case *ast.TypeAssertExpr:
		return baseTypeName(t.Type)
	}
	return ""
}

func lockName(strct, field string) string { return strct + "." + field }

func isMutexType(t string) bool {
	return t == "sync.Mutex" || t == "sync.RWMutex"
}

// block walks statements in order with the set of held locks.
func (w *walker) block(stmts []ast.Stmt, held []string) []string {
	for _, s := range stmts {
		held = w.stmt(s, held)
	}
	return held
}

func without(held []string, l string) []string {
	var out []string
	for _, h := range held {
		if h != l {
			out = append(out, h)
		}
	}
	return out
}

// lockCall recognises x.mu.Lock() etc.; returns lock name and op.
func (w *walker) lockCall(e ast.Expr) (string, string) {
	call, ok := e.(*ast.CallExpr)
	if !ok {
		return "", ""
	}
	sel, ok := call.Fun.(*ast.SelectorExpr)
	if !ok {
		return "", ""
	}
	op := sel.Sel.Name
	if op != "Lock" && op != "Unlock" && op != "RLock" && op != "RUnlock" {
		return "", ""
	}
	inner, ok := sel.X.(*ast.SelectorExpr)
	if !ok {
		return "", ""
	}
	st := w.typeOf(inner.X)
	if st == "" || w.structs[st] == nil || !isMutexType(w.structs[st].fields[inner.Sel.Name]) {
		return "", ""
	}
	return lockName(st, inner.Sel.Name), op
}

func (w *walker) stmt(s ast.Stmt, held []string) []string {
	switch t := s.(type) {
	case *ast.ExprStmt:
		if l, op := w.lockCall(t.X); l != "" {
			w.record(t.X.(*ast.CallExpr).Fun.(*ast.SelectorExpr).X, false, held, "lockop")
			switch op {
			case "Lock", "RLock":
				if directAcquires[w.fn] == nil {
					directAcquires[w.fn] = map[string]bool{}
				}
				directAcquires[w.fn][l] = true
				for _, h := range held {
					lockEdges = append(lockEdges, [2]string{h, l})
				}
				w.nsect++
				w.sect[l] = w.nsect
				w.rl[l] = op == "RLock"
				return append(append([]string{}, held...), l)
			default:
				return without(held, l)
			}
		}
		w.expr(t.X, held, false)
	case *ast.DeferStmt:
		if l, op := w.lockCall(t.Call); l != "" && (op == "Unlock" || op == "RUnlock") {
			w.defers = append(w.defers, deferEntry{unlock: l}) // stays held until the function returns
			return held
		}
		if fl, ok := t.Call.Fun.(*ast.FuncLit); ok {
			// deferred closure: walked when the defer stack is unwound (runDefers), with the locks held then
			w.defers = append(w.defers, deferEntry{fl: fl})
		} else {
			w.expr(t.Call, held, false)
		}
	case *ast.GoStmt:
		if fl, ok := t.Call.Fun.(*ast.FuncLit); ok {
			n := len(callSites)
			was := w.async
			w.async = true
			w.funcLit(fl, nil) // a new goroutine holds nothing
			w.async = was
			for i := n; i < len(callSites); i++ {
				callSites[i].async = true
			}
			for _, a := range t.Call.Args {
				w.expr(a, held, false)
			}
		} else {
			n := len(callSites)
			w.expr(t.Call, held, false)
			for i := n; i < len(callSites); i++ {
				callSites[i].async = true
				callSites[i].held = nil
			}
		}
	case *ast.AssignStmt:
		for _, r := range t.Rhs {
			w.expr(r, held, false)
		}
		for i, l := range t.Lhs {
			if t.Tok == token.DEFINE || t.Tok == token.ASSIGN {
				if id, ok := l.(*ast.Ident); ok {
					var rhs ast.Expr
					if len(t.Rhs) == len(t.Lhs) {
						rhs = t.Rhs[i]
					} else if len(t.Rhs) == 1 && i == 0 {
						rhs = t.Rhs[0]
					}
					if rhs != nil {
						if ty := w.typeOf(rhs); ty != "" {
							w.env[id.Name] = ty
						}
					}
					continue
				}
			}
			w.expr(l, held, true)
		}
	case *ast.IncDecStmt:
		w.expr(t.X, held, true)
	case *ast.SendStmt:
		if sel, ok := t.Chan.(*ast.SelectorExpr); ok {
			w.record(sel, false, held, "chan-send")
			w.expr(sel.X, held, false)
		} else {
			w.expr(t.Chan, held, false)
		}
		w.expr(t.Value, held, false)
	case *ast.ReturnStmt:
		for _, r := range t.Results {
			w.expr(r, held, false)
		}
	case *ast.IfStmt:
		if t.Init != nil {
			held = w.stmt(t.Init, held)
		}
		w.expr(t.Cond, held, false)
		w.block(t.Body.List, held)
		if t.Else != nil {
			w.stmt(t.Else, held)
		}
	case *ast.BlockStmt:
		return w.block(t.List, held)
	case *ast.ForStmt:
		if t.Init != nil {
			held = w.stmt(t.Init, held)
		}
		if t.Cond != nil {
			w.expr(t.Cond, held, false)
		}
		w.block(t.Body.List, held)
	case *ast.RangeStmt:
		w.expr(t.X, held, false)
		if ty := w.typeOf(t.X); ty != "" {
			if id, ok := t.Value.(*ast.Ident); ok && id != nil {
				w.env[id.Name] = ty
			}
		}
		w.block(t.Body.List, held)
	case *ast.SwitchStmt:
		if t.Init != nil {
			held = w.stmt(t.Init, held)
		}
		if t.Tag != nil {
			w.expr(t.Tag, held, false)
		}
		for _, c := range t.Body.List {
			cc := c.(*ast.CaseClause)
			for _, e := range cc.List {
				w.expr(e, held, false)
			}
			w.block(cc.Body, held)
		}
	case *ast.TypeSwitchStmt:
		if as, ok := t.Assign.(*ast.AssignStmt); ok {
			for _, r := range as.Rhs {
				w.expr(r, held, false)
			}
		} else if es, ok := t.Assign.(*ast.ExprStmt); ok {
			w.expr(es.X, held, false)
		}
		for _, c := range t.Body.List {
			w.block(c.(*ast.CaseClause).Body, held)
		}
	case *ast.SelectStmt:
		for _, c := range t.Body.List {
			cc := c.(*ast.CommClause)
			if cc.Comm != nil {
				w.stmt(cc.Comm, held)
			}
			w.block(cc.Body, held)
		}
	case *ast.DeclStmt:
		if gd, ok := t.Decl.(*ast.GenDecl); ok {
			for _, sp := range gd.Specs {
				if vs, ok := sp.(*ast.ValueSpec); ok {
					for _, v := range vs.Values {
						w.expr(v, held, false)
					}
					if vs.Type != nil {
						for _, n := range vs.Names {
							w.env[n.Name] = baseTypeName(vs.Type)
						}
					}
				}
			}
		}
	case *ast.LabeledStmt:
		return w.stmt(t.Stmt, held)
	}
	return held
}

func (w *walker) funcLit(fl *ast.FuncLit, held []string) {
	for _, p := range fl.Type.Params.List {
		tn := baseTypeName(p.Type)
		for _, n := range p.Names {
			w.env[n.Name] = tn
		}
	}
	w.body(fl.Body.List, held)
}

var atomicMethods = map[string]bool{"Load": true, "Store": true, "CompareAndSwap": true, "Add": true, "Swap": true}

func (w *walker) expr(e ast.Expr, held []string, write bool) {
	switch t := e.(type) {
	case nil:
	case *ast.SelectorExpr:
		w.record(t, write, held, "plain")
		w.expr(t.X, held, false)
	case *ast.CallExpr:
		// atomic method on a field: x.f.Load()
		if sel, ok := t.Fun.(*ast.SelectorExpr); ok {
			if inner, ok := sel.X.(*ast.SelectorExpr); ok && atomicMethods[sel.Sel.Name] {
				if st := w.typeOf(inner.X); st != "" && w.structs[st] != nil && strings.HasPrefix(w.structs[st].fields[inner.Sel.Name], "atomic.") {
					w.recordM(inner, sel.Sel.Name != "Load", held, "atomic", sel.Sel.Name)
					w.expr(inner.X, held, false)
					for _, a := range t.Args {
						w.expr(a, held, false)
					}
					return
				}
			}
			if l, _ := w.lockCall(t); l != "" {
				w.record(sel.X, false, held, "lockop")
				return
			}
		}
		if id, ok := t.Fun.(*ast.Ident); ok && id.Name == "close" && len(t.Args) == 1 {
			if sel, ok := t.Args[0].(*ast.SelectorExpr); ok {
				w.record(sel, true, held, "chan-close")
				w.expr(sel.X, held, false)
				return
			}
		}
		if sel, ok := t.Fun.(*ast.SelectorExpr); ok {
			if st := w.typeOf(sel.X); st != "" && w.tracked[st] {
				callSites = append(callSites, callSite{caller: w.fn, callee: st + "." + sel.Sel.Name, held: append([]string{}, held...), async: w.async})
			} else if id, isId := sel.X.(*ast.Ident); !(isId && isPackageName(id.Name) && w.env[id.Name] == "") {
				// receiver of unknown (interface) type: every method of that name may be the callee
				for _, rt := range methodsByName[sel.Sel.Name] {
					callSites = append(callSites, callSite{caller: w.fn, callee: rt + "." + sel.Sel.Name, held: append([]string{}, held...), async: w.async, byName: true})
				}
			}
		}
		if id, ok := t.Fun.(*ast.Ident); ok && packageFuncs[id.Name] {
			callSites = append(callSites, callSite{caller: w.fn, callee: id.Name, held: append([]string{}, held...), async: w.async})
		}
		if fl, ok := t.Fun.(*ast.FuncLit); ok {
			w.funcLit(fl, held)
		} else if sel, ok := t.Fun.(*ast.SelectorExpr); ok && w.isField(sel) {
			// x.f(...): a call through a function-valued field (callback)
			w.record(sel, false, held, "call")
			w.expr(sel.X, held, false)
		} else if sel, ok := t.Fun.(*ast.SelectorExpr); ok && w.isFieldSel(sel.X) {
			// x.f.M(...): a method invoked on the value of a field (e.g. the carrier stream's Send)
			inner := sel.X.(*ast.SelectorExpr)
			w.recordM(inner, false, held, "call", sel.Sel.Name)
			w.expr(inner.X, held, false)
		} else {
			w.expr(t.Fun, held, false)
		}
		for _, a := range t.Args {
			w.expr(a, held, false)
		}
	case *ast.FuncLit:
		// a closure stored for later (a callback): called from an unknown context holding nothing,
		// not by the function that creates it; its rows are attributed to "<fn>$closure"
		was, wasAsync := w.fn, w.async
		if !strings.HasSuffix(w.fn, "$closure") {
			w.fn += "$closure"
		}
		w.async = false
		w.funcLit(t, nil)
		w.fn, w.async = was, wasAsync
	case *ast.UnaryExpr:
		if t.Op == token.ARROW {
			if sel, ok := t.X.(*ast.SelectorExpr); ok {
				w.record(sel, false, held, "chan-recv")
				w.expr(sel.X, held, false)
				return
			}
		}
		w.expr(t.X, held, write && t.Op == token.AND)
	case *ast.StarExpr:
		w.expr(t.X, held, false)
	case *ast.BinaryExpr:
		w.expr(t.X, held, false)
		w.expr(t.Y, held, false)
	case *ast.ParenExpr:
		w.expr(t.X, held, write)
	case *ast.IndexExpr:
		w.expr(t.X, held, write)
		w.expr(t.Index, held, false)
	case *ast.SliceExpr:
		w.expr(t.X, held, false)
	case *ast.TypeAssertExpr:
		w.expr(t.X, held, false)
	case *ast.KeyValueExpr:
		w.expr(t.Value, held, false)
	case *ast.CompositeLit:
		st := baseTypeName(t.Type)
		for _, el := range t.Elts {
			if kv, ok := el.(*ast.KeyValueExpr); ok {
				if id, ok := kv.Key.(*ast.Ident); ok && w.tracked[st] {
					*w.accs = append(*w.accs, access{strct: st, field: id.Name, fn: w.fn, line: w.fset.Position(kv.Pos()).Line,
						write: true, how: "plain", held: append([]string{}, held...), inLiteral: true})
				}
				w.expr(kv.Value, held, false)
			} else {
				w.expr(el, held, false)
			}
		}
	}
}

// isField: sel is x.f with x of a tracked struct type and f one of its fields
func (w *walker) isField(sel *ast.SelectorExpr) bool {
	st := w.typeOf(sel.X)
	if st == "" || !w.tracked[st] || w.structs[st] == nil {
		return false
	}
	_, ok := w.structs[st].fields[sel.Sel.Name]
	return ok
}

func (w *walker) isFieldSel(e ast.Expr) bool {
	sel, ok := e.(*ast.SelectorExpr)
	return ok && w.isField(sel)
}

func (w *walker) record(sel ast.Expr, write bool, held []string, how string) {
	w.recordM(sel, write, held, how, "")
}

func (w *walker) recordM(sel ast.Expr, write bool, held []string, how, method string) {
	s, ok := sel.(*ast.SelectorExpr)
	if !ok {
		return
	}
	st := w.typeOf(s.X)
	if st == "" {
		// unknown base: only interesting if the field name belongs to a tracked struct and
		// the base is a plain identifier we could not type (conservative report)
		if id, ok := s.X.(*ast.Ident); ok {
			for name, si := range w.structs {
				_ = name
				if _, has := si.fields[s.Sel.Name]; has && w.env[id.Name] == "" && !isPackageName(id.Name) {
					*w.accs = append(*w.accs, access{strct: "?", field: s.Sel.Name, fn: w.fn, line: w.fset.Position(s.Pos()).Line,
						write: write, how: how, held: append([]string{}, held...)})
					return
				}
			}
		}
		return
	}
	if !w.tracked[st] || w.structs[st] == nil {
		return
	}
	if _, isField := w.structs[st].fields[s.Sel.Name]; !isField {
		return // a method
	}
	sects, rheld := map[string]int{}, map[string]bool{}
	for _, h := range held {
		if id, ok := w.sect[h]; ok {
			sects[h] = id
			if w.rl[h] {
				rheld[h] = true
			}
		}
	}
	*w.accs = append(*w.accs, access{strct: st, field: s.Sel.Name, fn: w.fn, line: w.fset.Position(s.Pos()).Line,
		write: write, how: how, held: append([]string{}, held...), method: method, async: w.async, sects: sects, rheld: rheld})
}

func isPackageName(n string) bool {
	switch n {
	case "tunnelpb", "metadata", "status", "codes", "grpc", "context", "io", "fmt", "errors", "math", "sync", "atomic",
		"strings", "strconv", "time", "proto", "peer", "reflect", "emptypb", "list", "grpchan", "in", "frame", "f", "opt", "md", "settings":
		return true
	}
	return false
}
