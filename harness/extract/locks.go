package main

import (
	"go/ast"
	"go/token"
)

// lockTable is filled in by the C15 machinery (see locks_table.go once it
// exists); until then it produces an empty table.
func lockTable(fset *token.FileSet, files []*ast.File) string {
	return "namespace TunnelModel.Generated\nend TunnelModel.Generated\n"
}
