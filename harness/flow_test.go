//go:build verif

package harness

// W3 hook-stepped world for the L-atomic flow-control model (FlowStep.lean):
// the real defaultSender and defaultReceiver, with the harness as scheduler.
// Every goroutine of the code under test is parked at a yield point (or
// durably blocked in a select / cond.Wait) whenever the scheduler looks, so a
// run is a deterministic function of the list of scheduling choices.

import (
	"context"
	"fmt"
	"math/rand"
	"strings"
	"sync"
	"testing"
	"testing/synctest"

	"github.com/jhump/grpctunnel"
)

type flowThread struct {
	at      string        // yield point the goroutine is parked at ("" = running, blocked elsewhere, or finished)
	release chan struct{} // scheduler -> goroutine
	done    bool
}

type flowWorld struct {
	mu      sync.Mutex
	sender  *flowThread
	updater *flowThread
	reader  *flowThread

	s grpctunnel.VerifSender
	r grpctunnel.VerifReceiver

	dW, cW                          []int
	sent, credited, deq, granted    int
	lockHeld                        bool // the receiver's mutex was found held at a quiescent point
	readerBusy                      bool // a Dequeue call is in progress
	readerCredit                    int  // k while parked in the credit callback
	senderErr                       error
	senderInSelect                  bool // released from send.park and not seen since
	cancel                          context.CancelFunc
	cancelled                       bool
	readCmd                         chan struct{}
	updCmd                          chan int
	overrun                         bool
	msgs                            []int
	w                               *opsWriter
	W                               int
	readsLeft                       int // reader budget (-1 = unlimited)
	corrupt                         bool
	tags                            int
}

func (fw *flowWorld) threadFor(point string) *flowThread {
	switch {
	case strings.HasPrefix(point, "send.") || strings.HasPrefix(point, "sf."):
		return fw.sender
	case strings.HasPrefix(point, "uw."):
		return fw.updater
	case strings.HasPrefix(point, "cb."):
		return fw.reader
	}
	return nil
}

func (fw *flowWorld) yield(point string) {
	th := fw.threadFor(point)
	if th == nil {
		return
	}
	fw.mu.Lock()
	th.at = point
	fw.mu.Unlock()
	<-th.release
	fw.mu.Lock()
	th.at = ""
	fw.mu.Unlock()
}

func (fw *flowWorld) pos(th *flowThread) string {
	fw.mu.Lock()
	defer fw.mu.Unlock()
	if th.done {
		return "done"
	}
	return th.at
}

func (fw *flowWorld) spcClass() string {
	switch p := fw.pos(fw.sender); p {
	case "send.loaded", "send.park", "send.cas":
		return "loaded"
	case "send.reserved":
		return "reserved"
	case "send.start", "send.woke", "sf.sent":
		return "idle"
	case "done":
		if fw.senderErr != nil {
			return "failed"
		}
		return "idle"
	case "":
		return "parked" // blocked in the select
	default:
		return "?" + p
	}
}

func (fw *flowWorld) state() string {
	if fw.lockHeld || fw.r.Locked() {
		// every thread is parked at a yield point or finished, yet the receiver's mutex is held:
		// it is held across a yield point, i.e. across a callback or Send that may block for as
		// long as the carrier is full, and `accept` (the receive loop) cannot run meanwhile
		fw.lockHeld = true
		return fmt.Sprintf("RECEIVER-LOCK-HELD reader@%q sender@%q updater@%q", fw.pos(fw.reader), fw.pos(fw.sender), fw.pos(fw.updater))
	}
	win, items, bytes, _, _ := fw.r.State()
	upc := "idle"
	if fw.pos(fw.updater) == "uw.added" {
		upc = "added"
	}
	rpc := "idle"
	switch {
	case fw.pos(fw.reader) == "cb.credit":
		rpc = fmt.Sprintf("credit:%d", fw.readerCredit)
	case fw.readerBusy:
		rpc = "waiting"
	}
	return fmt.Sprintf("win=%d tok=%s spc=%s upc=%s dW=%s cW=%s rwin=%d qn=%d qb=%d rpc=%s ovr=%s sent=%d credited=%d deq=%d granted=%d",
		fw.s.Window(), b01(fw.s.TokenPresent()), fw.spcClass(), upc, fmtInts(fw.dW), fmtInts(fw.cW),
		win, items, bytes, rpc, b01(fw.overrun), fw.sent, fw.credited, fw.deq, fw.granted)
}

func fmtInts(l []int) string {
	var a []string
	for _, x := range l {
		a = append(a, fmt.Sprint(x))
	}
	return "[" + strings.Join(a, ",") + "]"
}

// acts records a group of model actions performed by one scheduling choice;
// only the state after the last one is compared.
func (fw *flowWorld) acts(names ...string) {
	for i, n := range names {
		if i == len(names)-1 {
			fw.w.add("flow.act "+n, fw.state())
		} else {
			fw.w.add("flow.act "+n, "~")
		}
	}
}

// choices returns the scheduling choices enabled now, in a fixed order.
func (fw *flowWorld) choices() []string {
	var c []string
	sp := fw.pos(fw.sender)
	if sp != "" && sp != "done" {
		c = append(c, "S")
	}
	if len(fw.dW) > 0 {
		c = append(c, "D")
	}
	if !fw.readerBusy && fw.readsLeft != 0 {
		c = append(c, "R")
	}
	if fw.pos(fw.reader) == "cb.credit" {
		c = append(c, "C")
	}
	up := fw.pos(fw.updater)
	if up == "uw.added" {
		c = append(c, "V")
	} else if len(fw.cW) > 0 {
		c = append(c, "U")
	}
	return c
}

// senderMoved reports model actions for a sender that left the select on its
// own (woken by a token or by cancellation) during another thread's action.
func (fw *flowWorld) senderMoved() []string {
	if !fw.senderInSelect {
		return nil
	}
	switch fw.pos(fw.sender) {
	case "send.woke":
		fw.senderInSelect = false
		return []string{"sWake"}
	case "done":
		fw.senderInSelect = false
		return []string{"sFail"}
	}
	return nil
}

func (fw *flowWorld) do(choice string) {
	switch choice {
	case "S":
		from := fw.pos(fw.sender)
		fw.sender.release <- struct{}{}
		synctest.Wait()
		to := fw.pos(fw.sender)
		switch from {
		case "send.start", "send.woke", "sf.sent":
			if to == "send.loaded" {
				fw.acts("sLoad")
			} // else finished: no model action
		case "send.loaded":
			// local branch only
		case "send.park":
			switch to {
			case "":
				fw.senderInSelect = true
				fw.acts("sPark")
			case "send.woke":
				fw.acts("sPark", "sWake")
			case "done":
				fw.acts("sPark", "sFail")
			}
		case "send.cas":
			if to == "send.reserved" {
				fw.acts("sCas")
			} else {
				fw.acts("sCas", "sLoad")
			}
		case "send.reserved":
			fw.acts("sEmit")
		}
	case "D":
		k := fw.dW[0]
		fw.dW = fw.dW[1:]
		wasWaiting := fw.readerBusy && fw.pos(fw.reader) == ""
		fw.tags++
		if fw.r.Locked() {
			fw.lockHeld = true
			fw.acts("deliver")
			return
		}
		if err := fw.r.Accept(grpctunnel.VerifItem{Tag: fw.tags, Size: uint(k)}); err != nil {
			fw.overrun = true
		}
		synctest.Wait()
		if wasWaiting && (!fw.readerBusy || fw.pos(fw.reader) == "cb.credit") {
			fw.acts("deliver", "rResume")
		} else {
			fw.acts("deliver")
		}
	case "R":
		fw.readerBusy = true
		if fw.readsLeft > 0 {
			fw.readsLeft--
		}
		fw.readCmd <- struct{}{}
		synctest.Wait()
		fw.acts("rStart")
	case "C":
		fw.reader.release <- struct{}{}
		synctest.Wait()
		fw.acts("rCredit")
	case "U":
		n := fw.cW[0]
		fw.cW = fw.cW[1:]
		fw.updCmd <- n
		synctest.Wait()
		fw.acts("uAdd")
	case "V":
		fw.updater.release <- struct{}{}
		synctest.Wait()
		fw.acts(append([]string{"uSignal"}, fw.senderMoved()...)...)
	case "X":
		fw.cancelled = true
		fw.cancel()
		synctest.Wait()
		fw.acts(append([]string{"cancel"}, fw.senderMoved()...)...)
	}
}

type flowCfg struct {
	W         int
	msgs      []int
	readsLeft int
	cancelAt  int // step index at which the context is cancelled (-1 never)
}

// runFlow executes one schedule. pick chooses among the enabled choices.
func runFlow(t *testing.T, w *opsWriter, cfg flowCfg, pick func(step int, choices []string) int, maxSteps int) (steps int, endChoices int) {
	synctest.Test(t, func(t *testing.T) {
		ctx, cancel := context.WithCancel(context.Background())
		defer cancel()
		fw := &flowWorld{
			sender:  &flowThread{release: make(chan struct{})},
			updater: &flowThread{release: make(chan struct{})},
			reader:  &flowThread{release: make(chan struct{})},
			cancel:  cancel, readCmd: make(chan struct{}), updCmd: make(chan int),
			msgs: cfg.msgs, w: w, W: cfg.W, readsLeft: cfg.readsLeft,
		}
		total := 0
		for _, m := range cfg.msgs {
			total += m
		}
		var sentBytes []byte
		fw.s = grpctunnel.VerifNewSender(ctx, uint32(cfg.W), func(data []byte, _ uint32, _ bool) error {
			fw.dW = append(fw.dW, len(data))
			fw.sent += len(data)
			sentBytes = append(sentBytes, data...)
			fw.yield("sf.sent")
			return nil
		})
		fw.r = grpctunnel.VerifNewReceiver(func(n uint32) {
			fw.readerCredit = int(n)
			fw.deq += int(n) // the frame left the queue before this callback runs
			fw.yield("cb.credit")
			fw.cW = append(fw.cW, int(n))
			fw.granted += int(n)
		}, uint32(cfg.W))
		grpctunnel.VerifSetHook(func(point string, _ int64) { fw.yield(point) })
		defer grpctunnel.VerifSetHook(nil)

		var expect []byte
		for i, m := range cfg.msgs {
			expect = append(expect, payload(int64(i), m)...)
		}
		go func() { // sender
			fw.yield("send.start")
			for i, m := range cfg.msgs {
				if err := fw.s.Send(payload(int64(i), m)); err != nil {
					fw.senderErr = err
					break
				}
			}
			fw.mu.Lock()
			fw.sender.done = true
			fw.mu.Unlock()
		}()
		go func() { // receive loop of the sending endpoint: applies window updates
			for n := range fw.updCmd {
				fw.credited += n
				fw.s.UpdateWindow(uint32(n))
			}
		}()
		go func() { // application reading from the receiver
			for range fw.readCmd {
				fw.r.Dequeue()
				fw.readerBusy = false
			}
		}()
		synctest.Wait()
		var ms []string
		for _, m := range cfg.msgs {
			ms = append(ms, fmt.Sprint(m))
		}
		msl := strings.Join(ms, ",")
		if msl == "" {
			msl = "-"
		}
		w.add(fmt.Sprintf("flow.init %d %d %s", cfg.W, grpctunnel.VerifChunkMax, msl), fw.state())
		for steps = 0; steps < maxSteps; steps++ {
			if steps == cfg.cancelAt && !fw.cancelled {
				fw.do("X")
				continue
			}
			ch := fw.choices()
			endChoices = len(ch)
			if len(ch) == 0 {
				break
			}
			i := pick(steps, ch)
			if i < 0 || i >= len(ch) {
				break
			}
			fw.do(ch[i])
			if fw.lockHeld {
				break
			}
		}
		if fw.lockHeld {
			// the remaining probes would need the mutex; release everything and stop
			cancel()
			close(fw.readCmd)
			close(fw.updCmd)
			for i := 0; i < 50; i++ {
				synctest.Wait()
				released := false
				for _, th := range []*flowThread{fw.sender, fw.updater, fw.reader} {
					if fw.pos(th) != "" && fw.pos(th) != "done" {
						th.release <- struct{}{}
						released = true
					}
				}
				if !released {
					break
				}
			}
			fw.r.Cancel()
			synctest.Wait()
			return
		}
		endChoices = len(fw.choices())
		// specification predicates evaluated on the implementation's state
		_, _, qb, _, _ := fw.r.State()
		settled := len(fw.dW) == 0 && len(fw.cW) == 0 && fw.pos(fw.updater) != "uw.added" &&
			fw.pos(fw.reader) != "cb.credit" && (fw.pos(fw.sender) == "" || fw.pos(fw.sender) == "done") &&
			!(fw.pos(fw.sender) == "" && fw.s.TokenPresent())
		parked := fw.pos(fw.sender) == ""
		blockedFull := !(settled && parked) || int(qb) == cfg.W
		restored := !(settled && qb == 0 && fw.pos(fw.reader) != "cb.credit") || int(fw.s.Window()) == cfg.W
		// complete: nothing at all is enabled (the reader is waiting on an empty
		// queue, nothing in flight) and the stream was not cancelled
		nothing := settled && fw.readerBusy
		complete := !(nothing && !fw.cancelled) ||
			(!parked && fw.deq == total && fw.sent == total && string(sentBytes) == string(expect))
		bounded := int(qb) <= cfg.W && fw.sent <= cfg.W+fw.credited && fw.granted <= fw.deq && !fw.overrun
		for _, k := range fw.dW {
			if k > grpctunnel.VerifChunkMax {
				bounded = false
			}
		}
		w.add("flow.check", fmt.Sprintf("settled=%s blockedFull=%s restored=%s complete=%s bounded=%s",
			b01(settled), b01(blockedFull), b01(restored), b01(complete), b01(bounded)))
		// tear down: release everything
		cancel()
		close(fw.readCmd)
		close(fw.updCmd)
		fw.r.Cancel()
		for i := 0; i < 50; i++ {
			synctest.Wait()
			released := false
			for _, th := range []*flowThread{fw.sender, fw.updater, fw.reader} {
				if fw.pos(th) != "" && fw.pos(th) != "done" {
					th.release <- struct{}{}
					released = true
				}
			}
			if !released {
				break
			}
		}
		synctest.Wait()
	})
	return
}

func randFlowCfg(rng *rand.Rand) flowCfg {
	var cfg flowCfg
	switch rng.Intn(4) {
	case 0: // tiny window: dense interleavings of load/CAS/park/wake against updates
		cfg.W = 1 + rng.Intn(4)
		n := 1 + rng.Intn(3)
		for i := 0; i < n; i++ {
			cfg.msgs = append(cfg.msgs, rng.Intn(2*cfg.W+2))
		}
	case 1: // small window, several messages incl. empty ones
		cfg.W = 2 + rng.Intn(8)
		n := 1 + rng.Intn(4)
		for i := 0; i < n; i++ {
			cfg.msgs = append(cfg.msgs, []int{0, 1, cfg.W - 1, cfg.W, cfg.W + 1, 3 * cfg.W}[rng.Intn(6)])
		}
	case 2: // real constants: chunking at 16 KiB inside a 64 KiB window
		cfg.W = grpctunnel.VerifInitialWindowSize
		n := 1 + rng.Intn(2)
		for i := 0; i < n; i++ {
			cfg.msgs = append(cfg.msgs, boundarySizes[rng.Intn(len(boundarySizes)-3)])
		}
	default:
		cfg.W = []int{16383, 16384, 16385, 20000}[rng.Intn(4)]
		cfg.msgs = []int{[]int{16384, 40000, 65536}[rng.Intn(3)]}
	}
	cfg.readsLeft = -1
	if rng.Intn(3) == 0 {
		cfg.readsLeft = rng.Intn(4)
	}
	cfg.cancelAt = -1
	if rng.Intn(8) == 0 {
		cfg.cancelAt = rng.Intn(30)
	}
	return cfg
}

// TestFlowRandom: random schedules.
func TestFlowRandom(t *testing.T) {
	w := newOps(t, "flow")
	defer w.close()
	rng := newRng(5)
	n := envInt("VERIF_N", 400)
	totalSteps := 0
	for i := 0; i < n; i++ {
		cfg := randFlowCfg(rng)
		// bias: sometimes starve one kind of choice for a while
		starve := ""
		if rng.Intn(3) == 0 {
			starve = []string{"R", "U", "V", "D", "S"}[rng.Intn(5)]
		}
		steps, _ := runFlow(t, w, cfg, func(step int, ch []string) int {
			if starve != "" && step < 40 {
				var alt []int
				for j, c := range ch {
					if c != starve {
						alt = append(alt, j)
					}
				}
				if len(alt) > 0 {
					return alt[rng.Intn(len(alt))]
				}
			}
			return rng.Intn(len(ch))
		}, 600)
		totalSteps += steps
	}
	t.Logf("flow scenarios=%d steps=%d lines=%d", n, totalSteps, w.n)
}

// TestFlowExhaustive: every schedule (sequence of scheduling choices) of a few
// tiny configurations up to a depth bound, by stateless replay.  Validation of
// the model against the code, not a proof.
func TestFlowExhaustive(t *testing.T) {
	w := newOps(t, "flowex")
	defer w.close()
	depth := envInt("VERIF_DEPTH", 9)
	cfgs := []flowCfg{
		{W: 1, msgs: []int{2}, readsLeft: -1, cancelAt: -1},
		{W: 2, msgs: []int{3}, readsLeft: -1, cancelAt: -1},
		{W: 1, msgs: []int{1, 1}, readsLeft: -1, cancelAt: -1},
		{W: 2, msgs: []int{0, 3}, readsLeft: -1, cancelAt: -1},
	}
	count := 0
	limit := envInt("VERIF_MAXSCHED", 3000)
	for _, cfg := range cfgs {
		// DFS over choice-index sequences
		var prefix []int
		var rec func()
		rec = func() {
			if count >= limit {
				return
			}
			var nAt int
			runFlow(t, w, cfg, func(step int, ch []string) int {
				if step < len(prefix) {
					return prefix[step]
				}
				nAt = len(ch)
				return -1 // stop here
			}, len(prefix)+1)
			count++
			if len(prefix) >= depth || nAt == 0 {
				return
			}
			for i := 0; i < nAt; i++ {
				prefix = append(prefix, i)
				rec()
				prefix = prefix[:len(prefix)-1]
			}
		}
		rec()
	}
	t.Logf("exhaustive schedules run: %d (depth %d)", count, depth)
}
