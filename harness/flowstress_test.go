//go:build verif

package harness

// Free-running stress of the real flow-control objects (supporting evidence and
// failing-input search for C05, never a substitute for the theorems): a sender,
// a receive loop feeding the receiver, and a reading application run on real
// goroutines with no hooks and a sendFunc that costs nothing, so that the
// atomic operations of send() and updateWindow() interleave as tightly as the
// hardware allows.  A watchdog reports a sender that stays parked although every
// byte it sent has been read and credited back (a lost wake-up).

import (
	"context"
	"fmt"
	"os"
	"runtime"
	"sync/atomic"
	"testing"
	"time"

	"github.com/jhump/grpctunnel"
)

func TestFlowStress(t *testing.T) {
	ops := newOps(t, "flowstress")
	defer ops.close()
	if runtime.GOMAXPROCS(0) < 4 {
		defer runtime.GOMAXPROCS(runtime.GOMAXPROCS(4))
	}
	grpctunnel.VerifSetHook(nil)
	budget := time.Duration(envInt("VERIF_MS", 2000)) * time.Millisecond
	type cfg struct{ w, msg int }
	cfgs := []cfg{{65536, 16384}, {65536, 1}, {64, 1}, {2, 1}}
	if os.Getenv("VERIF_TIER") == "thorough" {
		cfgs = append(cfgs, cfg{4, 3}, cfg{16384, 16384})
	}
	rounds := envInt("VERIF_N", 1)
	for round := 0; round < rounds; round++ {
		for _, c := range cfgs {
			res := runFlowStress(c.w, c.msg, budget)
			ops.add(fmt.Sprintf("fs.run w=%d msg=%d", c.w, c.msg), res)
		}
	}
}

func runFlowStress(w, msgSize int, budget time.Duration) string {
	ctx, cancel := context.WithCancel(context.Background())
	defer cancel()
	var sentFrames, sentBytes, readBytes, credited atomic.Int64
	frames := make(chan int, 1<<16) // the carrier: never the bottleneck
	var snd grpctunnel.VerifSender
	rcv := grpctunnel.VerifNewReceiver(func(n uint32) {
		credited.Add(int64(n))
		snd.UpdateWindow(n) // the peer's window update, applied by "its receive loop"
	}, uint32(w))
	snd = grpctunnel.VerifNewSender(ctx, uint32(w), func(data []byte, _ uint32, _ bool) error {
		sentFrames.Add(1)
		sentBytes.Add(int64(len(data)))
		frames <- len(data)
		return nil
	})
	var overrun atomic.Bool
	go func() { // receive loop
		tag := 0
		for n := range frames {
			tag++
			if err := rcv.Accept(grpctunnel.VerifItem{Tag: tag, Size: uint(n)}); err != nil {
				overrun.Store(true)
				return
			}
		}
	}()
	go func() { // the reading application
		for {
			it, ok := rcv.Dequeue()
			if !ok {
				return
			}
			readBytes.Add(int64(it.Size))
		}
	}()
	done := make(chan error, 1)
	var msgs atomic.Int64
	stop := make(chan struct{})
	go func() {
		buf := make([]byte, msgSize)
		for {
			select {
			case <-stop:
				done <- nil
				return
			default:
			}
			if err := snd.Send(buf); err != nil {
				done <- err
				return
			}
			msgs.Add(1)
		}
	}()
	deadline := time.Now().Add(budget)
	lastProgress, lastAt := int64(-1), time.Now()
	res := "completed"
	for time.Now().Before(deadline) {
		time.Sleep(20 * time.Millisecond)
		if overrun.Load() {
			res = "OVERRUN: a conforming sender tripped the receiver's window"
			break
		}
		if p := sentFrames.Load(); p != lastProgress {
			lastProgress, lastAt = p, time.Now()
			continue
		}
		// no frame for a while: is the sender parked although everything was read and credited back?
		if time.Since(lastAt) > time.Second && readBytes.Load() == sentBytes.Load() && credited.Load() == sentBytes.Load() {
			res = fmt.Sprintf("STRANDED after %d messages: every byte sent was read and credited back, window=%d of %d, wake-up token pending=%v, yet send() stays parked",
				msgs.Load(), snd.Window(), w, snd.TokenPresent())
			break
		}
	}
	close(stop)
	cancel() // releases a parked sender
	select {
	case <-done:
	case <-time.After(2 * time.Second):
		res += " (sender did not return after cancellation)"
	}
	close(frames)
	rcv.Cancel()
	return res
}
