module verif/harness

go 1.26.8

require (
	github.com/fullstorydev/grpchan v1.1.1
	github.com/jhump/grpctunnel v0.0.0
	google.golang.org/genproto/googleapis/rpc v0.0.0-20250908214217-97024824d090
	google.golang.org/grpc v1.75.1
	google.golang.org/protobuf v1.36.9
)

require (
	golang.org/x/net v0.44.0 // indirect
	golang.org/x/sys v0.36.0 // indirect
	golang.org/x/text v0.29.0 // indirect
)

replace github.com/jhump/grpctunnel => /repo
