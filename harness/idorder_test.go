//go:build verif

package harness

// Stream-id allocation under real concurrency (C08: "however many goroutines
// start RPCs concurrently ... identifiers reach the wire in strictly
// increasing order, each RPC beginning with its new-stream frame").  The real
// newTunnelChannel over a hand-written carrier that records the order of the
// frames it is handed; g goroutines start RPCs (some on an already cancelled
// context, some sending a message at once) after a common barrier, with random
// delays injected at the yield point between allocation and send
// (`new.allocated`).  Real clock, real parallelism, no bubble.  The answer
// (all ids on the wire, strictly increasing, every stream's first frame its
// new_stream frame) does not depend on the schedule: theorem
// C08_concurrent_ids_increasing.

import (
	"context"
	"fmt"
	"io"
	"runtime"
	"sync"
	"sync/atomic"
	"testing"
	"time"

	"github.com/jhump/grpctunnel"
	"github.com/jhump/grpctunnel/tunnelpb"
	"google.golang.org/grpc"
	"google.golang.org/grpc/metadata"
	"google.golang.org/protobuf/types/known/wrapperspb"
)

type ioCarrier struct {
	ctx    context.Context
	mu     sync.Mutex
	order  []int64         // ids of new_stream frames, in the order Send was called
	seen   map[int64]bool  // ids whose new_stream frame has been sent
	early  int             // frames that named a stream before its new_stream frame
	closed chan struct{}
}

func (c *ioCarrier) Context() context.Context { return c.ctx }
func (c *ioCarrier) Send(m *tunnelpb.ClientToServer) error {
	c.mu.Lock()
	defer c.mu.Unlock()
	if _, isNew := m.Frame.(*tunnelpb.ClientToServer_NewStream); isNew {
		c.order = append(c.order, m.StreamId)
		c.seen[m.StreamId] = true
	} else if !c.seen[m.StreamId] {
		c.early++
	}
	return nil
}
func (c *ioCarrier) Recv() (*tunnelpb.ServerToClient, error) {
	<-c.closed
	return nil, io.EOF
}

func TestIdOrder(t *testing.T) {
	ops := newOps(t, "idorder")
	defer ops.close()
	if runtime.GOMAXPROCS(0) < 4 {
		defer runtime.GOMAXPROCS(runtime.GOMAXPROCS(4))
	}
	rounds := envInt("VERIF_N", 60)
	rng := newRng(88)
	var hookRng atomic.Int64
	grpctunnel.VerifSetHook(func(point string, _ int64) {
		if point != "new.allocated" {
			return
		}
		// the window between taking an id and sending its new_stream frame
		switch x := hookRng.Add(0x9E3779B97F4A7C15>>1) >> 9; x % 4 {
		case 0:
			runtime.Gosched()
		case 1:
			time.Sleep(time.Duration(x%150) * time.Microsecond)
		}
	})
	defer grpctunnel.VerifSetHook(nil)
	for r := 0; r < rounds; r++ {
		g := 2 + rng.Intn(7)
		per := 1 + rng.Intn(3)
		op := fmt.Sprintf("io.round g=%d per=%d", g, per)
		beginOp(op)
		cctx, ccancel := context.WithCancel(context.Background())
		car := &ioCarrier{ctx: cctx, seen: map[int64]bool{}, closed: make(chan struct{})}
		ch := grpctunnel.VerifNewTunnelChannel(car, metadata.MD{}, false, false, func() {})
		start := make(chan struct{})
		var wg sync.WaitGroup
		var okCalls atomic.Int64
		for i := 0; i < g; i++ {
			kind := rng.Intn(4)
			wg.Add(1)
			go func() {
				defer wg.Done()
				<-start
				for k := 0; k < per; k++ {
					ctx, cancel := context.WithCancel(context.Background())
					if kind == 3 {
						cancel() // an RPC that fails at start: its id is consumed all the same
					}
					str, err := ch.Channel().NewStream(ctx, &grpc.StreamDesc{ClientStreams: true, ServerStreams: true}, "/v.S/BD")
					if err == nil {
						okCalls.Add(1)
						if kind == 1 {
							_ = str.SendMsg(&wrapperspb.StringValue{Value: "x"})
						}
						if kind == 2 {
							_ = str.CloseSend()
						}
					}
					cancel()
				}
			}()
		}
		close(start)
		wg.Wait()
		car.mu.Lock()
		order := append([]int64{}, car.order...)
		early := car.early
		car.mu.Unlock()
		inc, distinct := true, true
		seen := map[int64]bool{}
		for i, id := range order {
			if i > 0 && id <= order[i-1] {
				inc = false
			}
			if seen[id] {
				distinct = false
			}
			seen[id] = true
		}
		_, last, _, _ := ch.State()
		ch.Channel().Close()
		ccancel()
		close(car.closed)
		res := fmt.Sprintf("started=%d allsent=%s increasing=%s distinct=%s newfirst=%s", g*per, b01(int64(len(order)) == okCalls.Load() && last == int64(g*per)), b01(inc), b01(distinct), b01(early == 0))
		if !inc {
			res += fmt.Sprintf(" wire=%v", order)
		}
		ops.add(op, res)
	}
}
