//go:build verif

package harness

import (
	"context"
	"fmt"
	"math"
	"strconv"
	"strings"
	"testing"
	"testing/synctest"
	"time"

	"github.com/jhump/grpctunnel"
	"google.golang.org/grpc"
	"google.golang.org/grpc/metadata"
)

// ---- C18: timeoutFromHeaders vs Timeout.parse ----

func timeoutImpl(vals [][]byte) string {
	md := metadata.MD{}
	for _, v := range vals {
		md["grpc-timeout"] = append(md["grpc-timeout"], string(v))
	}
	var res string
	func() {
		defer func() {
			if p := recover(); p != nil {
				res = fmt.Sprintf("panic %v", p)
			}
		}()
		d, ok := grpctunnel.VerifTimeoutFromHeaders(md)
		if !ok {
			res = "none"
		} else {
			res = "some " + strconv.FormatInt(int64(d), 10)
		}
	}()
	return res
}

func TestPureTimeout(t *testing.T) {
	w := newOps(t, "timeout")
	defer w.close()
	rng := newRng(18)
	emit := func(vals ...[]byte) {
		var a []string
		for _, v := range vals {
			a = append(a, hx(v))
		}
		w.add("timeout "+strings.Join(a, " "), timeoutImpl(vals))
	}
	units := []byte("HMSmun")
	unitNs := []int64{3600e9, 60e9, 1e9, 1e6, 1e3, 1}
	// boundary values: every unit x every digit count 0..20 (all 9s, 1 then 0s,
	// leading zeros), values around maxInt64/unit, signs, spaces
	emit()
	emit([]byte(""))
	for ui, u := range units {
		for n := 0; n <= 20; n++ {
			emit([]byte(strings.Repeat("9", n) + string(u)))
			emit([]byte(strings.Repeat("0", n) + string(u)))
			if n > 0 {
				emit([]byte("1" + strings.Repeat("0", n-1) + string(u)))
				emit([]byte(strings.Repeat("0", n-1) + "7" + string(u)))
			}
		}
		lim := math.MaxInt64 / unitNs[ui]
		for d := int64(-2); d <= 2; d++ {
			emit([]byte(strconv.FormatInt(lim+d, 10) + string(u)))
		}
		for _, pre := range []string{"-", "+", " ", "0x", "1e3", "1.5", "１"} {
			emit([]byte(pre + "5" + string(u)))
		}
		emit([]byte("5" + string(u) + " "))
		emit([]byte("5 " + string(u)))
		emit([]byte(string(u)))
		emit([]byte("5"+string(u)), []byte("bogus"))
		emit([]byte("bogus"), []byte("5"+string(u)))
		emit([]byte("7"+string(u)), []byte("5"+string(u)))
	}
	for _, bad := range []string{"5", "5s", "5h", "5x", "S5", "12345678", "123456789", "٣S", "5\x00S", "\xff\xfeS"} {
		emit([]byte(bad))
	}
	// random values
	n := envInt("VERIF_N", 20000)
	alphabet := []byte("0123456789HMSmun-+ .x9999000")
	for i := 0; i < n; i++ {
		nv := 1
		if rng.Intn(8) == 0 {
			nv = 1 + rng.Intn(3)
		}
		var vals [][]byte
		for j := 0; j < nv; j++ {
			switch rng.Intn(4) {
			case 0: // well-formed
				k := 1 + rng.Intn(8)
				s := make([]byte, k)
				for x := range s {
					s[x] = byte('0' + rng.Intn(10))
				}
				vals = append(vals, append(s, units[rng.Intn(6)]))
			case 1: // digits of any length + unit
				k := rng.Intn(22)
				s := make([]byte, k)
				for x := range s {
					s[x] = byte('0' + rng.Intn(10))
				}
				vals = append(vals, append(s, units[rng.Intn(6)]))
			case 2: // alphabet soup
				k := rng.Intn(12)
				s := make([]byte, k)
				for x := range s {
					s[x] = alphabet[rng.Intn(len(alphabet))]
				}
				vals = append(vals, s)
			default: // arbitrary bytes
				k := rng.Intn(6)
				s := make([]byte, k)
				for x := range s {
					s[x] = byte(rng.Intn(256))
				}
				if rng.Intn(2) == 0 {
					s = append(s, units[rng.Intn(6)])
				}
				vals = append(vals, s)
			}
		}
		emit(vals...)
	}
	t.Logf("timeout cases: %d", w.n)
}

// ---- C11: supportedRevisions and the selection loop of recvLoop ----

type scriptedClientStream struct {
	ctx    context.Context
	frames chan *s2cOrErr
}

func TestPureSupported(t *testing.T) {
	w := newOps(t, "supported")
	defer w.close()
	for _, d := range []bool{false, true} {
		var a []string
		for _, r := range grpctunnel.VerifSupportedRevisions(d) {
			a = append(a, strconv.Itoa(int(r)))
		}
		w.add("supported "+b01(d), strings.Join(a, ","))
	}
}

func b01(b bool) string {
	if b {
		return "1"
	}
	return "0"
}

// ---- C08/C09: findMethod ----

func TestPureFindMethod(t *testing.T) {
	// findMethod alone (unary before streams, exact match); method-name
	// splitting is tied through W1 (createStream is not callable alone).
	w := newOps(t, "findmethod")
	defer w.close()
	sd := &grpc.ServiceDesc{
		ServiceName: "v.S",
		Methods:     []grpc.MethodDesc{{MethodName: "U"}, {MethodName: "X"}, {MethodName: "dup"}},
		Streams: []grpc.StreamDesc{
			{StreamName: "CS", ClientStreams: true}, {StreamName: "SS", ServerStreams: true},
			{StreamName: "BD", ClientStreams: true, ServerStreams: true}, {StreamName: "dup", ServerStreams: true},
			{StreamName: "X/Y"},
		},
	}
	w.add("svc "+hx([]byte("v.S"))+" "+hx([]byte("U"))+","+hx([]byte("X"))+","+hx([]byte("dup"))+" "+
		hx([]byte("CS"))+":1:0,"+hx([]byte("SS"))+":0:1,"+hx([]byte("BD"))+":1:1,"+hx([]byte("dup"))+":0:1,"+hx([]byte("X/Y"))+":0:0", "ok")
	names := []string{"U", "X", "dup", "CS", "SS", "BD", "X/Y", "", "u", "U ", "UU", "C", "CSS", "/U", "Y"}
	for _, n := range names {
		kind, idx := grpctunnel.VerifFindMethod(sd, n)
		var exp string
		switch kind {
		case 0:
			exp = "unimplemented"
		case 1:
			exp = fmt.Sprintf("found 118,46,83 unary:%d", idx)
		case 2:
			exp = fmt.Sprintf("found 118,46,83 stream:%d:%v:%v", idx, sd.Streams[idx].ClientStreams, sd.Streams[idx].ServerStreams)
		}
		w.add("method "+hx([]byte("v.S/"+n)), exp)
	}
}

// ---- C01/C06/C13: chunking senders vs Framing.sendAll / Framing.pump ----

func fmtFrame(total uint32, n int, first bool) string {
	if first {
		return fmt.Sprintf("e%d:%d", total, n)
	}
	return fmt.Sprintf("m%d", n)
}

var boundarySizes = []int{0, 1, 2, 100, 16383, 16384, 16385, 32767, 32768, 32769, 49152, 65535, 65536, 65537, 81920, 131071, 131072, 131073, 200000, 1 << 20}

func TestPureSendAll(t *testing.T) {
	w := newOps(t, "sendall")
	defer w.close()
	rng := newRng(1)
	sizes := append([]int{}, boundarySizes...)
	for i := 0; i < envInt("VERIF_N", 300); i++ {
		sizes = append(sizes, rng.Intn(100000))
	}
	for _, n := range sizes {
		var frames []string
		var got []byte
		send := grpctunnel.VerifNewSenderNoFC(func(data []byte, total uint32, first bool) error {
			frames = append(frames, fmtFrame(total, len(data), first))
			got = append(got, data...)
			return nil
		})
		msg := payload(int64(n), n)
		if err := send(msg); err != nil {
			t.Fatalf("send: %v", err)
		}
		if string(got) != string(msg) {
			frames = append(frames, "CORRUPT")
		}
		w.add(fmt.Sprintf("sendall %d %d", grpctunnel.VerifChunkMax, n), strings.Join(frames, " "))
	}
}

// payload is a keyed pseudo-random byte string: byte i of message `key`.
func payload(key int64, n int) []byte {
	b := make([]byte, n)
	x := uint64(key)*0x9E3779B97F4A7C15 + 12345
	for i := range b {
		x ^= x << 13
		x ^= x >> 7
		x ^= x << 17
		b[i] = byte(x >> 32)
	}
	return b
}

// TestPurePump drives the real defaultSender with scripted window updates and
// compares each burst of frames (between two waits) with Framing.pump.
func TestPurePump(t *testing.T) {
	w := newOps(t, "pump")
	defer w.close()
	rng := newRng(2)
	n := envInt("VERIF_N", 300)
	for i := 0; i < n; i++ {
		size := boundarySizes[rng.Intn(len(boundarySizes))]
		if rng.Intn(2) == 0 {
			size = rng.Intn(150000)
		}
		initWin := []uint32{0, 1, 16383, 16384, 16385, 65536, 65536, 65536, 100}[rng.Intn(9)]
		synctest.Test(t, func(t *testing.T) {
			ctx, cancel := context.WithCancel(context.Background())
			defer cancel()
			var frames []string
			var got []byte
			s := grpctunnel.VerifNewSender(ctx, initWin, func(data []byte, total uint32, first bool) error {
				frames = append(frames, fmtFrame(total, len(data), first))
				got = append(got, data...)
				return nil
			})
			msg := payload(int64(i), size)
			done := make(chan error, 1)
			go func() { done <- s.Send(msg) }()
			win := int(initWin)
			rem, first := size, 1
			finished := false
			for step := 0; step < 10000 && !finished; step++ {
				synctest.Wait()
				select {
				case err := <-done:
					if err != nil {
						t.Errorf("send: %v", err)
					}
					finished = true
				default:
				}
				state := "done"
				sent := len(got)
				if !finished {
					state = fmt.Sprintf("rem=%d first=%d", size-sent, b2i(sent == 0 && len(frames) == 0))
				}
				w.add(fmt.Sprintf("pump %d %d %d %d %d", grpctunnel.VerifChunkMax, win, rem, size, first),
					fmt.Sprintf("%s | win=%d %s", strings.Join(frames, " "), s.Window(), state))
				if finished {
					break
				}
				rem = size - sent
				if len(frames) > 0 {
					first = 0
				}
				frames = nil
				add := []int{1, 2, 100, 16383, 16384, 16385, 30000, 65536}[rng.Intn(8)]
				win = int(s.Window()) + add
				s.UpdateWindow(uint32(add))
			}
			if string(got) != string(msg) {
				t.Errorf("payload corrupted (size %d)", size)
				w.add("pump 0 0 0 0 0", "CORRUPT")
			}
		})
	}
}

func b2i(b bool) int {
	if b {
		return 1
	}
	return 0
}

type s2cOrErr struct{}

var _ = time.Second
