//go:build verif

package harness

// Free-running stress for C15 (supporting evidence and failing-input search,
// never a substitute for the discipline obligation): real parallelism, real
// grpc-go on bufconn, random delays at the verif yield points, meant to be
// built with -race.  Exercises exactly the accesses the pinned suite never
// performs: Trailer()/grpc.Trailer targets right after the terminal result,
// closing channels and stopping servers while RPCs run, registry queries
// during open/close, Start() racing with cancellation of its context.

import (
	"context"
	"io"
	"math/rand"
	"net"
	"os"
	"runtime"
	"sync"
	"sync/atomic"
	"testing"
	"time"

	"github.com/jhump/grpctunnel"
	"github.com/jhump/grpctunnel/tunnelpb"
	"google.golang.org/grpc"
	"google.golang.org/grpc/credentials/insecure"
	"google.golang.org/grpc/metadata"
	"google.golang.org/grpc/test/bufconn"
	"google.golang.org/protobuf/types/known/wrapperspb"
)

func stressDesc() *grpc.ServiceDesc {
	u := func(_ any, ctx context.Context, dec func(any) error, _ grpc.UnaryServerInterceptor) (any, error) {
		var m wrapperspb.StringValue
		if err := dec(&m); err != nil {
			return nil, err
		}
		_ = grpc.SetHeader(ctx, metadata.Pairs("h", "1"))
		_ = grpc.SetTrailer(ctx, metadata.Pairs("t", "1"))
		return &m, nil
	}
	b := func(_ any, st grpc.ServerStream) error {
		_ = st.SetHeader(metadata.Pairs("h", "1"))
		st.SetTrailer(metadata.Pairs("t", "1"))
		for {
			var m wrapperspb.StringValue
			if err := st.RecvMsg(&m); err != nil {
				if err == io.EOF {
					return nil
				}
				return err
			}
			if err := st.SendMsg(&m); err != nil {
				return err
			}
		}
	}
	return &grpc.ServiceDesc{ServiceName: "v.X", HandlerType: (*any)(nil),
		Methods: []grpc.MethodDesc{{MethodName: "U", Handler: u}},
		Streams: []grpc.StreamDesc{{StreamName: "B", Handler: b, ClientStreams: true, ServerStreams: true}}}
}

func TestRaceStress(t *testing.T) {
	secs := envInt("VERIF_SECS", 8)
	deadline := time.Now().Add(time.Duration(secs) * time.Second)
	var hookRng atomic.Int64
	grpctunnel.VerifSetHook(func(string, int64) {
		// randomised delay injection at the yield points
		if x := hookRng.Add(0x9E3779B9) >> 7; x%5 == 0 {
			runtime.Gosched()
		} else if x%97 == 0 {
			time.Sleep(time.Duration(x%200) * time.Microsecond)
		}
	})
	defer grpctunnel.VerifSetHook(nil)

	lis := bufconn.Listen(1 << 20)
	handler := grpctunnel.NewTunnelServiceHandler(grpctunnel.TunnelServiceHandlerOptions{
		AffinityKey: func(ch grpctunnel.TunnelChannel) any {
			md, _ := metadata.FromIncomingContext(ch.Context())
			if v := md.Get("key"); len(v) > 0 {
				return v[0]
			}
			return nil
		},
	})
	handler.RegisterService(stressDesc(), struct{}{})
	gs := grpc.NewServer()
	tunnelpb.RegisterTunnelServiceServer(gs, handler.Service())
	go func() { _ = gs.Serve(lis) }()
	defer gs.Stop()
	cc, err := grpc.NewClient("passthrough:///bufnet",
		grpc.WithContextDialer(func(ctx context.Context, _ string) (net.Conn, error) { return lis.DialContext(ctx) }),
		grpc.WithTransportCredentials(insecure.NewCredentials()))
	if err != nil {
		t.Fatal(err)
	}
	defer cc.Close()
	stub := tunnelpb.NewTunnelServiceClient(cc)

	var calls, okCalls, emptyTrailers, serveAfterStop atomic.Int64
	var wg sync.WaitGroup
	seedBase := seed()

	rpcOn := func(rng *rand.Rand, ch grpc.ClientConnInterface) {
		ctx, cancel := context.WithTimeout(context.Background(), 2*time.Second)
		defer cancel()
		calls.Add(1)
		if rng.Intn(2) == 0 {
			var hd, tr metadata.MD
			var resp wrapperspb.StringValue
			err := ch.Invoke(ctx, "/v.X/U", &wrapperspb.StringValue{Value: "x"}, &resp, grpc.Header(&hd), grpc.Trailer(&tr))
			if err == nil {
				okCalls.Add(1)
				if len(tr.Get("t")) == 0 { // read of the call-option target right after completion
					emptyTrailers.Add(1)
				}
				_ = hd.Get("h")
			}
			return
		}
		var tr metadata.MD
		str, err := ch.NewStream(ctx, &grpc.StreamDesc{ClientStreams: true, ServerStreams: true}, "/v.X/B", grpc.Trailer(&tr))
		if err != nil {
			return
		}
		n := rng.Intn(4)
		var swg sync.WaitGroup
		swg.Add(1)
		go func() { // one sender goroutine ...
			defer swg.Done()
			for i := 0; i < n; i++ {
				if str.SendMsg(&wrapperspb.StringValue{Value: "m"}) != nil {
					return
				}
			}
			_ = str.CloseSend()
		}()
		if rng.Intn(6) == 0 {
			cancel()
		}
		for { // ... and one receiver goroutine on the same RPC
			var m wrapperspb.StringValue
			if err := str.RecvMsg(&m); err != nil {
				if err == io.EOF {
					okCalls.Add(1)
					if len(str.Trailer().Get("t")) == 0 || len(tr.Get("t")) == 0 {
						emptyTrailers.Add(1)
					}
					if h, _ := str.Header(); h != nil {
						_ = h.Get("h")
					}
				}
				break
			}
		}
		swg.Wait()
	}

	// forward tunnels: workers share a channel that a janitor closes and replaces while they run
	var chMu sync.Mutex
	var cur grpctunnel.TunnelChannel
	open := func() {
		ctx, cancel := context.WithCancel(context.Background())
		if rand.Intn(4) == 0 {
			// Start racing with cancellation of the opening context (D11)
			go func() { time.Sleep(time.Duration(rand.Intn(300)) * time.Microsecond); cancel() }()
		}
		ch, err := grpctunnel.NewChannel(stub).Start(ctx)
		if err != nil {
			cancel()
			return
		}
		chMu.Lock()
		old := cur
		cur = ch
		chMu.Unlock()
		if old != nil {
			old.Close()
		}
		_ = cancel
	}
	open()
	for g := 0; g < 6; g++ {
		wg.Add(1)
		go func(g int) {
			defer wg.Done()
			rng := rand.New(rand.NewSource(seedBase*131 + int64(g)))
			for time.Now().Before(deadline) {
				chMu.Lock()
				ch := cur
				chMu.Unlock()
				if ch != nil {
					rpcOn(rng, ch)
					_ = ch.Err()
					select {
					case <-ch.Done():
					default:
					}
				}
			}
		}(g)
	}
	wg.Add(1)
	go func() { // janitor
		defer wg.Done()
		for time.Now().Before(deadline) {
			time.Sleep(time.Duration(5+rand.Intn(30)) * time.Millisecond)
			open()
		}
	}()
	// reverse tunnels: servers come and go while RPCs are routed through the registry
	for g := 0; g < 2; g++ {
		wg.Add(1)
		go func(g int) {
			defer wg.Done()
			rng := rand.New(rand.NewSource(seedBase*733 + int64(g)))
			for time.Now().Before(deadline) {
				rts := grpctunnel.NewReverseTunnelServer(stub)
				rts.RegisterService(stressDesc(), struct{}{})
				ctx, cancel := context.WithCancel(metadata.AppendToOutgoingContext(context.Background(), "key", []string{"a", "b"}[rng.Intn(2)]))
				done := make(chan struct{})
				go func() { _, _ = rts.Serve(ctx); close(done) }()
				time.Sleep(time.Duration(10+rng.Intn(40)) * time.Millisecond)
				switch rng.Intn(3) {
				case 0:
					rts.Stop()
				case 1:
					cancel()
				default:
					go rts.GracefulStop()
					time.Sleep(time.Millisecond)
					rts.Stop()
				}
				cancel()
				<-done
			}
		}(g)
	}
	// Serve racing with Stop / GracefulStop from the very start: whichever comes first, once Stop has
	// returned every Serve call has returned too (refused, or served and ended)
	wg.Add(1)
	go func() {
		defer wg.Done()
		rng := rand.New(rand.NewSource(seedBase*1301))
		for time.Now().Before(deadline) {
			rts := grpctunnel.NewReverseTunnelServer(stub)
			rts.RegisterService(stressDesc(), struct{}{})
			ctx, cancel := context.WithCancel(context.Background())
			n := 1 + rng.Intn(3)
			var served sync.WaitGroup
			for i := 0; i < n; i++ {
				served.Add(1)
				d := time.Duration(rng.Intn(400)) * time.Microsecond
				go func() {
					defer served.Done()
					time.Sleep(d)
					_, _ = rts.Serve(ctx)
				}()
			}
			stopped := make(chan struct{})
			d := time.Duration(rng.Intn(400)) * time.Microsecond
			graceful := rng.Intn(3) == 0
			go func() {
				time.Sleep(d)
				if graceful {
					go rts.GracefulStop()
				}
				rts.Stop()
				close(stopped)
			}()
			<-stopped
			time.Sleep(2 * time.Millisecond) // a Serve call that had not started yet is refused now
			allReturned := make(chan struct{})
			go func() { served.Wait(); close(allReturned) }()
			select {
			case <-allReturned:
			case <-time.After(3 * time.Second):
				serveAfterStop.Add(1)
			}
			cancel()
			<-allReturned
		}
	}()
	for g := 0; g < 3; g++ {
		wg.Add(1)
		go func(g int) {
			defer wg.Done()
			rng := rand.New(rand.NewSource(seedBase*977 + int64(g)))
			for time.Now().Before(deadline) {
				var ch grpctunnel.ReverseClientConnInterface = handler.AsChannel()
				if rng.Intn(2) == 0 {
					ch = handler.KeyAsChannel([]string{"a", "b"}[rng.Intn(2)])
				}
				_ = ch.Ready()
				_ = handler.AllReverseTunnels()
				rpcOn(rng, ch)
			}
		}(g)
	}
	wg.Wait()
	chMu.Lock()
	if cur != nil {
		cur.Close()
	}
	chMu.Unlock()
	out := os.Getenv("VERIF_OUT")
	if out != "" {
		_ = os.MkdirAll(out, 0o755)
		_ = os.WriteFile(out+"/race.stats", []byte(
			"calls="+itoa(calls.Load())+" ok="+itoa(okCalls.Load())+" ok_without_trailers="+itoa(emptyTrailers.Load())+" serve_running_after_stop="+itoa(serveAfterStop.Load())+"\n"), 0o644)
	}
	t.Logf("race stress: calls=%d ok=%d ok_without_trailers=%d", calls.Load(), okCalls.Load(), emptyTrailers.Load())
}

func itoa(n int64) string {
	if n == 0 {
		return "0"
	}
	neg := n < 0
	if neg {
		n = -n
	}
	var b []byte
	for n > 0 {
		b = append([]byte{byte('0' + n%10)}, b...)
		n /= 10
	}
	if neg {
		b = append([]byte{'-'}, b...)
	}
	return string(b)
}
