//go:build verif

package harness

// S-world: the real tunnel server (serveTunnel) with scripted handlers,
// against a raw client driven by the harness.  One stimulus, then
// synctest.Wait(), then one observation line; the same stimulus lines are fed
// to the Lean endpoint model (LFrame/Server.lean) by the check.

import (
	"context"
	"errors"
	"fmt"
	"io"
	"math/rand"
	"sort"
	"strconv"
	"strings"
	"sync"
	"testing"
	"testing/synctest"
	"time"

	"github.com/fullstorydev/grpchan"
	"github.com/jhump/grpctunnel"
	"github.com/jhump/grpctunnel/tunnelpb"
	"google.golang.org/grpc"
	"google.golang.org/grpc/codes"
	"google.golang.org/grpc/metadata"
	"google.golang.org/grpc/status"
	"google.golang.org/protobuf/proto"
	"google.golang.org/protobuf/types/known/emptypb"
	"google.golang.org/protobuf/types/known/wrapperspb"
)

// ---------- canonical formatting shared by all worlds ----------

func fmtMD(md map[string][]string) string {
	var keys []string
	for k, v := range md {
		if len(v) > 0 {
			keys = append(keys, k)
		}
	}
	if len(keys) == 0 {
		return "-"
	}
	sort.Strings(keys)
	var parts []string
	for _, k := range keys {
		parts = append(parts, k+"="+strings.Join(md[k], ","))
	}
	return strings.Join(parts, ";")
}

func fmtProtoMD(md *tunnelpb.Metadata) string {
	m := map[string][]string{}
	for k, v := range md.GetMd() {
		m[k] = v.GetVal()
	}
	return fmtMD(m)
}

// fmtRes maps an error to the canonical result enum of the models.
func fmtRes(err error) string {
	switch {
	case err == nil:
		return "ok"
	case err == io.EOF:
		return "eof"
	case err == context.Canceled:
		return "ctx:canceled"
	case err == context.DeadlineExceeded:
		return "ctx:deadline"
	}
	if s, ok := status.FromError(err); ok {
		return "status:" + strconv.Itoa(int(s.Code()))
	}
	return "other:" + strings.ReplaceAll(err.Error(), " ", "_")
}

// fmtResUnwrapped: grpc.SetHeader/SendHeader wrap the transport stream's plain
// error into an Unknown status; report the underlying error text.
func fmtResUnwrapped(err error) string {
	if s, ok := status.FromError(err); ok && err != nil && s.Code() == codes.Unknown {
		return "other:" + strings.ReplaceAll(s.Message(), " ", "_")
	}
	return fmtRes(err)
}

// Tunnelled messages are marshalled wrapperspb.BytesValue messages; the models
// see only the marshalled byte string ("wire size").  feasible rounds a wanted
// wire size up to one that a BytesValue can have exactly.
func innerLen(n int) (int, bool) {
	if n == 0 {
		return 0, true
	}
	for _, l := range []int{n - 2, n - 3, n - 4, n - 5} {
		if l >= 1 && proto.Size(&wrapperspb.BytesValue{Value: make([]byte, l)}) == n {
			return l, true
		}
	}
	return 0, false
}

func feasible(n int) int {
	for {
		if _, ok := innerLen(n); ok {
			return n
		}
		n++
	}
}

// msgValue is the inner value of message idx on stream sid in direction dir
// whose marshalled form has exactly n bytes (n must be feasible).
func msgValue(dir string, sid int64, idx int, n int) []byte {
	l, ok := innerLen(n)
	if !ok {
		panic(fmt.Sprintf("infeasible wire size %d", n))
	}
	key := sid*1000003 + int64(idx)*7919
	if dir == "s" {
		key = key*31 + 17
	}
	return payload(key, l)
}

// msgPayload is the marshalled form (what travels through the tunnel).
func msgPayload(dir string, sid int64, idx int, n int) []byte {
	b, err := proto.Marshal(&wrapperspb.BytesValue{Value: msgValue(dir, sid, idx, n)})
	if err != nil || len(b) != n {
		panic(fmt.Sprintf("marshal size %d != %d (%v)", len(b), n, err))
	}
	return b
}

// wirePrefix returns bytes [off, off+n) of message idx of declared wire size
// total; bytes beyond the end of the message are junk (used by hostile peers).
func wirePrefix(dir string, sid int64, idx int, total, off, n int) []byte {
	full := msgPayload(dir, sid, idx, total)
	out := make([]byte, n)
	for i := range out {
		if off+i < len(full) {
			out[i] = full[off+i]
		} else {
			out[i] = 0xEE
		}
	}
	return out
}

// identify returns "idx:n" if the received message is message idx (its
// marshalled form equals the keyed payload of that size) for some idx < limit,
// "-:0" for the empty message, "CORRUPT:n" otherwise.
// dirtyTarget is a message object that still holds what an earlier RPC left in it: gRPC lets an
// application reuse its message objects (the stock codec resets the target before decoding), so after
// a successful receive nothing of this may be left - not even when the message received is empty.
func dirtyTarget() *wrapperspb.BytesValue {
	return &wrapperspb.BytesValue{Value: []byte("STALE-CONTENT-OF-A-REUSED-MESSAGE-OBJECT")}
}

func identify(dir string, sid int64, m *wrapperspb.BytesValue, limit int) string {
	b, _ := proto.Marshal(m)
	if len(b) == 0 {
		return "-:0"
	}
	if _, ok := innerLen(len(b)); ok {
		for idx := 0; idx < limit; idx++ {
			if string(msgPayload(dir, sid, idx, len(b))) == string(b) {
				return fmt.Sprintf("%d:%d", idx, len(b))
			}
		}
	}
	return fmt.Sprintf("CORRUPT:%d", len(b))
}

// ---------- in-memory carrier ends ----------

type inbox[T any] struct {
	mu   sync.Mutex
	cond *sync.Cond
	q    []T
	err  error // terminal condition reported by Recv once q is empty
}

func newInbox[T any]() *inbox[T] {
	b := &inbox[T]{}
	b.cond = sync.NewCond(&b.mu)
	return b
}
func (b *inbox[T]) put(t T) {
	b.mu.Lock()
	b.q = append(b.q, t)
	b.cond.Broadcast()
	b.mu.Unlock()
}
func (b *inbox[T]) end(err error) {
	b.mu.Lock()
	if b.err == nil {
		b.err = err
	}
	b.cond.Broadcast()
	b.mu.Unlock()
}
func (b *inbox[T]) recv() (T, error) {
	b.mu.Lock()
	defer b.mu.Unlock()
	for len(b.q) == 0 {
		if b.err != nil {
			var z T
			return z, b.err
		}
		b.cond.Wait()
	}
	t := b.q[0]
	b.q = b.q[1:]
	return t, nil
}
func (b *inbox[T]) length() int { b.mu.Lock(); defer b.mu.Unlock(); return len(b.q) }

// srvEnd is the carrier as the tunnel server sees it.
type srvEnd struct {
	ctx     context.Context
	in      *inbox[*tunnelpb.ClientToServer]
	mu      sync.Mutex
	out     []*tunnelpb.ServerToClient
	sendErr error
}

func (c *srvEnd) Context() context.Context { return c.ctx }
func (c *srvEnd) Send(m *tunnelpb.ServerToClient) error {
	// every frame goes through the codec, as over grpc-go
	b, err := proto.Marshal(m)
	if err != nil {
		c.mu.Lock()
		c.sendErr = err
		c.mu.Unlock()
		return err
	}
	var cp tunnelpb.ServerToClient
	if err := proto.Unmarshal(b, &cp); err != nil {
		return err
	}
	c.mu.Lock()
	defer c.mu.Unlock()
	if c.sendErr != nil {
		return c.sendErr
	}
	c.out = append(c.out, &cp)
	return nil
}
func (c *srvEnd) Recv() (*tunnelpb.ClientToServer, error) { return c.in.recv() }
func (c *srvEnd) take() []*tunnelpb.ServerToClient {
	c.mu.Lock()
	defer c.mu.Unlock()
	o := c.out
	c.out = nil
	return o
}

// ---------- scripted handlers ----------

type hcmd struct {
	op   string
	n    int
	idx  int
	md   metadata.MD
	code codes.Code
}

type hstream struct {
	sid     int64
	sendQ   chan hcmd // send-side commands (send, sethdr, sendhdr, settlr, ret, reply)
	recvQ   chan hcmd // recv-side commands
	entered bool
}

type sworld struct {
	mu      sync.Mutex
	dones   []string
	events  []string
	streams map[int64]*hstream
	sentIdx map[int64]int // messages sent by the handler so far (response direction)
	rcvOff  map[int64]int // bytes of the current response message seen on the wire
	rcvTotal map[int64]int
	rcvBuf   map[int64][]byte
}

func (w *sworld) done(sid int64, op, res string) {
	w.mu.Lock()
	w.dones = append(w.dones, fmt.Sprintf("%d.%s:%s", sid, op, res))
	w.mu.Unlock()
}
func (w *sworld) event(e string) {
	w.mu.Lock()
	w.events = append(w.events, e)
	w.mu.Unlock()
}

func (w *sworld) streamOf(ctx context.Context) *hstream {
	md, _ := metadata.FromIncomingContext(ctx)
	v := md.Get("x-sid")
	if len(v) == 0 {
		return nil
	}
	sid, _ := strconv.ParseInt(v[0], 10, 64)
	w.mu.Lock()
	defer w.mu.Unlock()
	return w.streams[sid]
}

func (w *sworld) watchCtx(ctx context.Context, sid int64) {
	go func() {
		<-ctx.Done()
		why := "canceled"
		if ctx.Err() == context.DeadlineExceeded {
			why = "deadline"
		}
		w.event(fmt.Sprintf("ctxdone %d %s", sid, why))
	}()
}

func (w *sworld) recvLoop(hs *hstream, recv func(m any) error, opName string) {
	for range hs.recvQ {
		m := dirtyTarget() // an application may reuse its message object: the codec must reset it
		err := recv(m)
		if err == nil {
			w.done(hs.sid, opName, "msg:"+identify("c", hs.sid, m, 64))
		} else {
			w.done(hs.sid, opName, fmtRes(err))
		}
	}
}

func (w *sworld) streamHandler(_ any, st grpc.ServerStream) error {
	hs := w.streamOf(st.Context())
	if hs == nil {
		return status.Error(codes.Aborted, "no script")
	}
	w.event(fmt.Sprintf("entered %d stream", hs.sid))
	w.watchCtx(st.Context(), hs.sid)
	go w.recvLoop(hs, st.RecvMsg, "recv")
	for c := range hs.sendQ {
		switch c.op {
		case "send":
			err := st.SendMsg(&wrapperspb.BytesValue{Value: msgValue("s", hs.sid, c.idx, c.n)})
			w.done(hs.sid, "send", fmtRes(err))
		case "sethdr":
			w.done(hs.sid, "sethdr", fmtRes(st.SetHeader(c.md)))
		case "sendhdr":
			w.done(hs.sid, "sendhdr", fmtRes(st.SendHeader(c.md)))
		case "settlr":
			st.SetTrailer(c.md)
			w.done(hs.sid, "settlr", "ok")
		case "ret":
			w.event(fmt.Sprintf("returned %d", hs.sid))
			if c.code == codes.OK {
				return nil
			}
			return status.Error(c.code, "scripted")
		}
	}
	return status.Error(codes.Aborted, "script ended")
}

func (w *sworld) unaryHandler(_ any, ctx context.Context, dec func(any) error, _ grpc.UnaryServerInterceptor) (any, error) {
	hs := w.streamOf(ctx)
	if hs == nil {
		return nil, status.Error(codes.Aborted, "no script")
	}
	w.watchCtx(ctx, hs.sid)
	m := dirtyTarget() // an application may reuse its message object: the codec must reset it
	if err := dec(m); err != nil {
		w.done(hs.sid, "decode", fmtRes(err))
		return nil, err
	}
	w.done(hs.sid, "decode", "msg:"+identify("c", hs.sid, m, 64))
	for c := range hs.sendQ {
		switch c.op {
		case "sethdr":
			// straight to the tunnel's transport stream (grpc.SetHeader short-cuts empty metadata)
			w.done(hs.sid, "sethdr", fmtRes(grpc.ServerTransportStreamFromContext(ctx).SetHeader(c.md)))
		case "sendhdr":
			w.done(hs.sid, "sendhdr", fmtRes(grpc.ServerTransportStreamFromContext(ctx).SendHeader(c.md)))
		case "settlr":
			_ = grpc.ServerTransportStreamFromContext(ctx).SetTrailer(c.md)
			w.done(hs.sid, "settlr", "ok")
		case "reply":
			return &wrapperspb.BytesValue{Value: msgValue("s", hs.sid, c.idx, c.n)}, nil
		case "ret":
			w.event(fmt.Sprintf("returned %d", hs.sid))
			code := c.code
			if code == codes.OK {
				code = codes.Aborted
			}
			return nil, status.Error(code, "scripted")
		}
	}
	return nil, status.Error(codes.Aborted, "script ended")
}

func (w *sworld) desc() *grpc.ServiceDesc {
	return &grpc.ServiceDesc{
		ServiceName: "v.S", HandlerType: (*any)(nil),
		Methods: []grpc.MethodDesc{{MethodName: "U", Handler: w.unaryHandler}},
		Streams: []grpc.StreamDesc{
			{StreamName: "CS", Handler: w.streamHandler, ClientStreams: true},
			{StreamName: "SS", Handler: w.streamHandler, ServerStreams: true},
			{StreamName: "BD", Handler: w.streamHandler, ClientStreams: true, ServerStreams: true},
		},
	}
}

// svcLine is the model driver's definition of the same service table.
func svcLine() string {
	return "svc " + hx([]byte("v.S")) + " " + hx([]byte("U")) + " " +
		hx([]byte("CS")) + ":1:0," + hx([]byte("SS")) + ":0:1," + hx([]byte("BD")) + ":1:1"
}

// ---------- frame formatting ----------

func (w *sworld) fmtS2C(m *tunnelpb.ServerToClient) string {
	sid := m.StreamId
	switch f := m.Frame.(type) {
	case *tunnelpb.ServerToClient_Settings:
		var rs []string
		for _, r := range f.Settings.SupportedProtocolRevisions {
			rs = append(rs, strconv.Itoa(int(r)))
		}
		return fmt.Sprintf("%d:settings:%d:%s", sid, f.Settings.InitialWindowSize, strings.Join(rs, ","))
	case *tunnelpb.ServerToClient_ResponseHeaders:
		return fmt.Sprintf("%d:hdr{%s}", sid, fmtProtoMD(f.ResponseHeaders))
	case *tunnelpb.ServerToClient_ResponseMessage:
		ok := w.checkRespData(sid, f.ResponseMessage.Data, true, f.ResponseMessage.Size)
		return fmt.Sprintf("%d:msg:%d:%d%s", sid, f.ResponseMessage.Size, len(f.ResponseMessage.Data), ok)
	case *tunnelpb.ServerToClient_MoreResponseData:
		ok := w.checkRespData(sid, f.MoreResponseData, false, 0)
		return fmt.Sprintf("%d:more:%d%s", sid, len(f.MoreResponseData), ok)
	case *tunnelpb.ServerToClient_CloseStream:
		return fmt.Sprintf("%d:close:%d{%s}", sid, f.CloseStream.GetStatus().GetCode(), fmtProtoMD(f.CloseStream.ResponseTrailers))
	case *tunnelpb.ServerToClient_WindowUpdate:
		return fmt.Sprintf("%d:wu:%d", sid, f.WindowUpdate)
	}
	return fmt.Sprintf("%d:unset", sid)
}

// checkRespData verifies the bytes of a response data frame against the keyed
// payload of the message the handler was told to send.
func (w *sworld) checkRespData(sid int64, data []byte, first bool, total uint32) string {
	w.mu.Lock()
	defer w.mu.Unlock()
	if first {
		w.rcvBuf[sid] = nil
		w.rcvTotal[sid] = int(total)
	}
	w.rcvBuf[sid] = append(w.rcvBuf[sid], data...)
	buf := w.rcvBuf[sid]
	tot := w.rcvTotal[sid]
	if _, ok := innerLen(tot); !ok || len(buf) > tot {
		return "!CORRUPT"
	}
	for idx := 0; idx < 64; idx++ {
		if string(msgPayload("s", sid, idx, tot)[:len(buf)]) == string(buf) {
			return ""
		}
	}
	return "!CORRUPT"
}

// ---------- the world ----------

type sRun struct {
	t       *testing.T
	w       *sworld
	ops     *opsWriter
	end     *srvEnd
	serveCh chan error
	served  bool
	serveRes string
	closing bool
	cancel  context.CancelFunc
	onEmit  func([]*tunnelpb.ServerToClient)
	lastObs string
	initFrames []*tunnelpb.ServerToClient
}

func b2s(b bool) string { return b01(b) }

func (r *sRun) observe() string {
	synctest.Wait()
	if !r.served {
		select {
		case err := <-r.serveCh:
			r.served = true
			switch {
			case err == nil:
				r.serveRes = "nil"
			case strings.Contains(err.Error(), "already exists"):
				r.serveRes = "already_exists"
			case strings.Contains(err.Error(), "already been used"):
				r.serveRes = "already_used"
			case strings.Contains(err.Error(), "never created"):
				r.serveRes = "never_created"
			case strings.HasPrefix(err.Error(), "PANIC"):
				r.serveRes = "PANIC"
			default:
				r.serveRes = "err:" + strings.ReplaceAll(err.Error(), " ", "_")
			}
			r.w.event("serve-returned " + r.serveRes)
			synctest.Wait()
		default:
		}
	}
	var fs []string
	emitted := r.end.take()
	if r.onEmit != nil {
		r.onEmit(emitted)
	}
	for _, m := range emitted {
		fs = append(fs, r.w.fmtS2C(m))
	}
	// group by stream id, keeping per-stream order
	sort.SliceStable(fs, func(i, j int) bool { return sidOf(fs[i]) < sidOf(fs[j]) })
	r.w.mu.Lock()
	dones := append([]string{}, r.w.dones...)
	events := append([]string{}, r.w.events...)
	r.w.dones, r.w.events = nil, nil
	r.w.mu.Unlock()
	sort.Strings(dones)
	sort.Strings(events)
	tbl := "-"
	last := "-"
	if ids, ls, ok := grpctunnel.VerifServerState(r.end); ok {
		var a []string
		for _, id := range ids {
			a = append(a, strconv.FormatInt(id, 10))
		}
		tbl = strings.Join(a, ",")
		last = strconv.FormatInt(ls, 10)
	}
	blocked := ""
	if !r.served && r.end.in.length() > 0 {
		blocked = " B=1" // the receive loop did not come back to Recv: it is blocked
	}
	r.lastObs += " ## " + fmt.Sprintf("D=[%s] E=[%s]", strings.Join(dones, " "), strings.Join(events, ";"))
	g := census()
	return fmt.Sprintf("F=[%s] D=[%s] E=[%s] T=[%s] L=%s G=%d,%d,%d%s", strings.Join(fs, " "), strings.Join(dones, " "),
		strings.Join(events, ";"), tbl, last, g.handlers, g.swatchers, g.strans, blocked)
}

func sidOf(f string) int64 {
	i := strings.IndexByte(f, ':')
	n, _ := strconv.ParseInt(f[:i], 10, 64)
	return n
}

func (r *sRun) step(op string, do func()) {
	beginOp(op)
	do()
	r.ops.add(op, r.observe())
}

func fmtMDArg(md metadata.MD) string { return fmtMD(md) }

type sCfg struct {
	settings bool
	disable  bool
}

func startS(t *testing.T, ops *opsWriter, cfg sCfg) *sRun {
	ops.add(svcLine(), "ok")
	return startSNoSvc(t, ops, cfg)
}

func startSNoSvc(t *testing.T, ops *opsWriter, cfg sCfg) *sRun {
	ctx, cancel := context.WithCancel(context.Background())
	w := &sworld{streams: map[int64]*hstream{}, sentIdx: map[int64]int{}, rcvOff: map[int64]int{}, rcvTotal: map[int64]int{}, rcvBuf: map[int64][]byte{}}
	r := &sRun{t: t, w: w, ops: ops, serveCh: make(chan error, 1), cancel: cancel}
	r.end = &srvEnd{ctx: ctx, in: newInbox[*tunnelpb.ClientToServer]()}
	hm := grpchan.HandlerMap{}
	hm.RegisterService(w.desc(), struct{}{})
	go func() {
		defer func() {
			if p := recover(); p != nil {
				r.serveCh <- fmt.Errorf("PANIC %v", p)
			}
		}()
		r.serveCh <- grpctunnel.VerifServeTunnel(r.end, metadata.MD{}, cfg.settings, cfg.disable, hm, func() bool { return r.closing })
	}()
	r.onEmit = func(fs []*tunnelpb.ServerToClient) { r.initFrames = append(r.initFrames, fs...) }
	ops.add(fmt.Sprintf("s.init settings=%s disable=%s", b2s(cfg.settings), b2s(cfg.disable)), r.observe())
	r.onEmit = nil
	return r
}

func (r *sRun) teardown() {
	r.end.in.end(io.EOF)
	r.cancel()
	synctest.Wait()
	r.w.mu.Lock()
	for _, hs := range r.w.streams {
		close(hs.sendQ)
		close(hs.recvQ)
	}
	r.w.mu.Unlock()
	synctest.Wait()
	// C14: the tunnel has ended and every handler has been told to return: nothing may be left
	g := census()
	tbl := ""
	if ids, _, ok := grpctunnel.VerifServerState(r.end); ok {
		var a []string
		for _, id := range ids {
			a = append(a, strconv.FormatInt(id, 10))
		}
		tbl = strings.Join(a, ",")
	}
	r.ops.add("s.teardown", fmt.Sprintf("left=%d,%d,%d table=[%s]", g.handlers, g.swatchers, g.strans, tbl))
	grpctunnel.VerifForgetServer(r.end)
}

// raw frames
func (r *sRun) frameNew(sid int64, method string, rev int32, win uint32, md metadata.MD, withSid bool) {
	if md == nil {
		md = metadata.MD{}
	}
	md = md.Copy()
	if withSid {
		md.Set("x-sid", strconv.FormatInt(sid, 10))
		r.w.mu.Lock()
		if _, dup := r.w.streams[sid]; !dup {
			r.w.streams[sid] = &hstream{sid: sid, sendQ: make(chan hcmd, 8), recvQ: make(chan hcmd, 8)}
		}
		r.w.mu.Unlock()
	}
	op := fmt.Sprintf("s.frame sid=%d new m=%s rev=%d win=%d md=%s", sid, hx([]byte(method)), rev, win, fmtMD(md))
	r.step(op, func() {
		r.end.in.put(&tunnelpb.ClientToServer{StreamId: sid, Frame: &tunnelpb.ClientToServer_NewStream{NewStream: &tunnelpb.NewStream{
			MethodName: method, RequestHeaders: grpctunnel.VerifToProto(md), ProtocolRevision: tunnelpb.ProtocolRevision(rev), InitialWindowSize: win}}})
	})
}

func (r *sRun) frameData(sid int64, first bool, size uint32, total int, idx, off, n int) {
	data := wirePrefix("c", sid, idx, total, off, n)
	if first {
		r.step(fmt.Sprintf("s.frame sid=%d msg size=%d len=%d idx=%d", sid, size, n, idx), func() {
			r.end.in.put(&tunnelpb.ClientToServer{StreamId: sid, Frame: &tunnelpb.ClientToServer_RequestMessage{RequestMessage: &tunnelpb.MessageData{Size: size, Data: data}}})
		})
	} else {
		r.step(fmt.Sprintf("s.frame sid=%d more len=%d idx=%d", sid, n, idx), func() {
			r.end.in.put(&tunnelpb.ClientToServer{StreamId: sid, Frame: &tunnelpb.ClientToServer_MoreRequestData{MoreRequestData: data}})
		})
	}
}

func (r *sRun) frameSimple(sid int64, kind string, n uint32) {
	var m *tunnelpb.ClientToServer
	op := fmt.Sprintf("s.frame sid=%d %s", sid, kind)
	switch kind {
	case "half":
		m = &tunnelpb.ClientToServer{StreamId: sid, Frame: &tunnelpb.ClientToServer_HalfClose{HalfClose: &emptypb.Empty{}}}
	case "cancel":
		m = &tunnelpb.ClientToServer{StreamId: sid, Frame: &tunnelpb.ClientToServer_Cancel{Cancel: &emptypb.Empty{}}}
	case "wu":
		m = &tunnelpb.ClientToServer{StreamId: sid, Frame: &tunnelpb.ClientToServer_WindowUpdate{WindowUpdate: n}}
		op += fmt.Sprintf(" n=%d", n)
	default:
		m = &tunnelpb.ClientToServer{StreamId: sid}
	}
	r.step(op, func() { r.end.in.put(m) })
}

func (r *sRun) call(sid int64, c hcmd) {
	r.w.mu.Lock()
	hs := r.w.streams[sid]
	r.w.mu.Unlock()
	if hs == nil {
		return
	}
	op := fmt.Sprintf("s.call sid=%d %s", sid, c.op)
	switch c.op {
	case "send", "reply":
		op += fmt.Sprintf(" n=%d idx=%d", c.n, c.idx)
	case "sethdr", "sendhdr", "settlr":
		op += " md=" + fmtMD(c.md)
	case "ret":
		op += fmt.Sprintf(" code=%d", c.code)
	}
	r.step(op, func() {
		if c.op == "recv" {
			hs.recvQ <- c
		} else {
			hs.sendQ <- c
		}
	})
}

// ---------- generator ----------

type gStream struct {
	sid                      int64
	shape                    string // U CS SS BD
	accepted                 bool
	fc                       bool
	reqIdx                   int  // next request message index
	cur                      int  // bytes of the current request message still to send (-1 none)
	curSize, curOff, curIdx  int
	half, cancelled          bool
	hRecvPend, hSendPend     bool
	hSendFailed              bool // a SendMsg of the handler returned an error: by the gRPC contract it must not send again
	hReturned                bool
	hEntered                 bool
	respIdx                  int
	unaryReplied             bool
}

var mdChoices = []metadata.MD{nil, {}, metadata.Pairs("a", "1"), metadata.Pairs("a", "1", "a", "2", "b", "x"), metadata.Pairs("k-bin", "v")}
var dataSizes = []int{0, 0, 1, 5, 100, 16383, 16384, 16385, 20000, 32768, 40000, 65535, 65536, 65537, 70000, 131072}

// TestSWorldRandom: random mostly-valid raw-client conversations with
// deviations, against the real server.
func TestSWorldRandom(t *testing.T) {
	ops := newOps(t, "sworld")
	defer ops.close()
	rng := newRng(11)
	n := envInt("VERIF_N", 300)
	for i := 0; i < n; i++ {
		hostile := rng.Intn(3) == 0
		runSScenario(t, ops, rng, 30+rng.Intn(60), hostile)
	}
	t.Logf("sworld lines=%d", ops.n)
}

func runSScenario(t *testing.T, ops *opsWriter, rng *rand.Rand, steps int, hostile bool) {
	bubble(t, func(t *testing.T) {
		cfg := sCfg{settings: rng.Intn(5) != 0, disable: false}
		r := startS(t, ops, cfg)
		defer r.teardown()
		var streams []*gStream
		next := int64(rng.Intn(3))
		pick := func(pred func(*gStream) bool) *gStream {
			var c []*gStream
			for _, s := range streams {
				if pred(s) {
					c = append(c, s)
				}
			}
			if len(c) == 0 {
				return nil
			}
			return c[rng.Intn(len(c))]
		}
		// The harness tracks, conservatively, which handler calls are pending
		// by looking at the completion lines of the implementation.
		track := func() {}
		_ = track
		if rng.Intn(5) == 0 {
			// A peer that says everything at once: a server-streaming RPC gets TWO complete request messages and the
			// half-close before its handler reads for the first time (C16: the first read must fail with InvalidArgument,
			// whether or not more frames can still arrive).
			sid := next
			next++
			g := &gStream{sid: sid, shape: "SS", accepted: true, fc: true, cur: -1, hEntered: true}
			streams = append(streams, g)
			r.frameNew(sid, "/v.S/SS", 1, 65536, nil, true)
			n1, n2 := feasible([]int{5, 100, 16384}[rng.Intn(3)]), feasible([]int{0, 5, 100}[rng.Intn(3)])
			r.frameData(sid, true, uint32(n1), n1, 0, 0, n1)
			r.frameData(sid, true, uint32(n2), n2, 1, 0, n2)
			g.reqIdx = 2
			if rng.Intn(4) != 0 {
				g.half = true
				r.frameSimple(sid, "half", 0)
			}
			g.hRecvPend = true
			r.call(sid, hcmd{op: "recv"})
			r.refreshPending(streams)
		}
		if rng.Intn(6) == 0 && !r.closing {
			// A unary handler that is still computing when the deadline from its grpc-timeout header fires and then returns its
			// response as if nothing had happened (C07: the caller must get DeadlineExceeded, never an OK close without the
			// response; C18: the header became the handler's deadline).
			sid := next
			next++
			g := &gStream{sid: sid, shape: "U", accepted: true, fc: true, cur: -1}
			streams = append(streams, g)
			r.frameNew(sid, "/v.S/U", 1, 65536, metadata.Pairs("grpc-timeout", []string{"500m", "1S", "300000u"}[rng.Intn(3)]), true)
			n1 := feasible([]int{0, 5, 100}[rng.Intn(3)])
			r.frameData(sid, true, uint32(n1), n1, 0, 0, n1)
			g.reqIdx = 1
			g.half = true
			r.frameSimple(sid, "half", 0)
			g.hEntered = true
			r.step(fmt.Sprintf("s.tick ns=%d", int64(2*time.Second)), func() { time.Sleep(2 * time.Second) })
			if rng.Intn(4) != 0 {
				g.hReturned = true
				r.call(sid, hcmd{op: "reply", n: feasible([]int{5, 100, 20000}[rng.Intn(3)]), idx: 0})
			}
			r.refreshPending(streams)
		}
		for step := 0; step < steps && !r.served; step++ {
			k := rng.Intn(100)
			switch {
			case k < 10 && len(streams) < 6: // new stream
				shape := []string{"U", "CS", "SS", "BD"}[rng.Intn(4)]
				method := "/v.S/" + shape
				sid := next
				next += 1 + int64(rng.Intn(5)/4)
				rev := int32(1)
				win := uint32(65536)
				var md metadata.MD
				if rng.Intn(4) == 0 {
					win = []uint32{0, 1, 100, 16384, 20000, 4294967295}[rng.Intn(6)]
				}
				if rng.Intn(6) == 0 {
					md = metadata.Pairs("grpc-timeout", []string{"1S", "2S", "500m", "-5S", "99999999H", "1", "2000000u"}[rng.Intn(7)])
				}
				if rng.Intn(5) == 0 {
					md = metadata.Join(md, mdChoices[rng.Intn(len(mdChoices))])
				}
				accepted := !r.closing
				if hostile || rng.Intn(8) == 0 {
					switch rng.Intn(9) {
					case 0:
						method = "v.S/" + shape // no leading slash: still fine
					case 1:
						method, accepted = "/v.S/Nope", false
					case 2:
						method, accepted = "/x.Y/U", false
					case 3:
						method, accepted = "noslash", false
					case 4:
						method, accepted = "", false
					case 5:
						rev, accepted = 7, false
					case 6:
						rev = 0
					case 7:
						method, accepted = "/", false
					case 8:
						method, accepted = "/v.S/"+shape+"/x", false
					}
				}
				g := &gStream{sid: sid, shape: shape, accepted: accepted, fc: rev == 1, cur: -1, hEntered: accepted && shape != "U"}
				streams = append(streams, g)
				r.frameNew(sid, method, rev, win, md, true)
			case k < 13 && hostile: // id abuse
				var sid int64
				switch rng.Intn(4) {
				case 0:
					if g := pick(func(*gStream) bool { return true }); g != nil {
						sid = g.sid // reuse (active or finished)
					}
				case 1:
					sid = -1 - int64(rng.Intn(3))
				case 2:
					sid = next + 5 // frame for a stream never created
					r.frameSimple(sid, []string{"half", "cancel", "wu", "unset"}[rng.Intn(4)], 5)
					continue
				default:
					sid = next - 1 - int64(rng.Intn(3))
				}
				r.frameNew(sid, "/v.S/BD", 1, 65536, nil, true)
			case k < 40: // request data
				g := pick(func(s *gStream) bool { return !s.cancelled && (hostile || !s.half) })
				if g == nil {
					continue
				}
				if !g.fc && !g.hRecvPend && !hostile {
					continue // revision zero: only feed a reader that is waiting
				}
				startNew := g.cur <= 0
				if hostile && g.cur > 0 && rng.Intn(10) == 0 {
					startNew = true // envelope before the previous message finished
				}
				if startNew {
					size := feasible(dataSizes[rng.Intn(len(dataSizes))])
					if !hostile && (g.shape == "U" || g.shape == "SS") && g.reqIdx >= 1 && rng.Intn(4) != 0 {
						continue
					}
					n := size
					if n > 16384 {
						n = 16384
					}
					if rng.Intn(4) == 0 && n > 1 {
						n = 1 + rng.Intn(n)
					}
					if hostile && rng.Intn(12) == 0 {
						n = size + 1 + rng.Intn(5) // envelope carrying more than it declares
					}
					g.curIdx, g.curSize, g.curOff = g.reqIdx, size, n
					g.reqIdx++
					g.cur = size - n
					r.frameData(g.sid, true, uint32(size), size, g.curIdx, 0, n)
				} else {
					n := g.cur
					if n > 16384 {
						n = 16384
					}
					if rng.Intn(4) == 0 && n > 1 {
						n = 1 + rng.Intn(n)
					}
					if hostile && rng.Intn(8) == 0 {
						n = g.cur + 1 + rng.Intn(10) // more than declared
					}
					if hostile && rng.Intn(12) == 0 {
						n = 0 // empty continuation
					}
					r.frameData(g.sid, false, 0, g.curSize, g.curIdx, g.curOff, n)
					g.curOff += n
					g.cur -= n
				}
				if g.cur < 0 {
					g.cur = -1
				}
			case k < 43 && hostile: // stray continuation / oversize burst
				g := pick(func(s *gStream) bool { return !s.cancelled })
				if g == nil {
					continue
				}
				if rng.Intn(2) == 0 && g.cur <= 0 {
					r.frameData(g.sid, false, 0, feasible(16), g.reqIdx, 0, rng.Intn(10))
				} else if g.cur <= 0 {
					// overrun the window: 16 KiB frames of one huge message until refused
					total := feasible(16384 * 8)
					for j := 0; j < 5 && !r.served; j++ {
						r.frameData(g.sid, j == 0, uint32(total), total, g.reqIdx, j*16384, 16384)
					}
					g.curIdx, g.curSize, g.curOff, g.cur = g.reqIdx, total, 5*16384, total-5*16384
					g.reqIdx++
				}
			case k < 48:
				g := pick(func(s *gStream) bool { return !s.half && !s.cancelled && (hostile || s.cur <= 0) })
				if g == nil {
					continue
				}
				g.half = true
				r.frameSimple(g.sid, "half", 0)
			case k < 51:
				g := pick(func(s *gStream) bool { return !s.cancelled })
				if g == nil {
					continue
				}
				g.cancelled = true
				r.frameSimple(g.sid, "cancel", 0)
			case k < 58:
				g := pick(func(s *gStream) bool { return true })
				if g == nil {
					continue
				}
				nn := []uint32{1, 100, 16384, 65536, 65536, 30000}[rng.Intn(6)]
				if hostile && rng.Intn(4) == 0 {
					nn = []uint32{0, 4294967295, 2147483648}[rng.Intn(3)]
				}
				r.frameSimple(g.sid, "wu", nn)
			case k < 59 && hostile:
				g := pick(func(s *gStream) bool { return true })
				if g == nil {
					continue
				}
				r.frameSimple(g.sid, "unset", 0)
			case k < 70: // handler recv
				g := pick(func(s *gStream) bool { return s.accepted && s.shape != "U" && !s.hRecvPend && !s.hReturned })
				if g == nil {
					continue
				}
				g.hRecvPend = true
				r.call(g.sid, hcmd{op: "recv"})
			case k < 82: // handler send / reply
				g := pick(func(s *gStream) bool {
					return s.accepted && s.hEntered && !s.hSendPend && !s.hReturned && (!s.hSendFailed || rng.Intn(4) == 0)
				})
				if g == nil {
					continue
				}
				n := feasible(dataSizes[rng.Intn(len(dataSizes))])
				if g.shape == "U" {
					if rng.Intn(2) == 0 {
						continue
					}
					g.hReturned = true
					r.call(g.sid, hcmd{op: "reply", n: n, idx: 0})
				} else {
					if (g.shape == "CS") && g.respIdx >= 1 && rng.Intn(4) != 0 {
						continue
					}
					g.hSendPend = true
					r.call(g.sid, hcmd{op: "send", n: n, idx: g.respIdx})
					g.respIdx++
				}
			case k < 88:
				g := pick(func(s *gStream) bool { return s.accepted && s.hEntered && !s.hSendPend && !s.hReturned })
				if g == nil {
					continue
				}
				op := []string{"sethdr", "sendhdr", "settlr"}[rng.Intn(3)]
				r.call(g.sid, hcmd{op: op, md: mdChoices[rng.Intn(len(mdChoices))]})
			case k < 92:
				g := pick(func(s *gStream) bool { return s.accepted && s.hEntered && !s.hSendPend && !s.hRecvPend && !s.hReturned })
				if g == nil {
					continue
				}
				g.hReturned = true
				code := []codes.Code{codes.OK, codes.OK, codes.NotFound, codes.Internal}[rng.Intn(4)]
				if g.shape == "U" && code == codes.OK {
					code = codes.Aborted // a unary handler that does not reply must return an error
				}
				r.call(g.sid, hcmd{op: "ret", code: code})
			case k < 94:
				if rng.Intn(3) == 0 {
					r.closing = !r.closing
					r.ops.add(fmt.Sprintf("s.closing %s", b2s(r.closing)), r.observe())
				}
			case k < 97:
				d := []time.Duration{300 * time.Millisecond, time.Second, 3 * time.Second}[rng.Intn(3)]
				r.step(fmt.Sprintf("s.tick ns=%d", int64(d)), func() { time.Sleep(d) })
			default:
				if rng.Intn(6) == 0 {
					if rng.Intn(2) == 0 {
						r.step("s.eof", func() { r.end.in.end(io.EOF) })
					} else {
						r.step("s.fail", func() { r.end.in.end(errors.New("carrier broke")) })
					}
				}
			}
			// refresh the generator's view of pending handler calls from what completed
			r.refreshPending(streams)
		}
	})
}

// lastDones is filled by observe through the ops writer; to keep the generator
// simple it re-parses the most recent implementation line.
func (r *sRun) refreshPending(streams []*gStream) {
	line := r.lastObs
	r.lastObs = ""
	for _, seg := range strings.Split(line, " ## ") {
		i := strings.Index(seg, "D=[")
		if i < 0 {
			continue
		}
		j := strings.Index(seg[i:], "]")
		for _, d := range strings.Fields(seg[i+3 : i+j]) {
			dot := strings.IndexByte(d, '.')
			col := strings.IndexByte(d, ':')
			if dot < 0 || col < dot {
				continue
			}
			sid, _ := strconv.ParseInt(d[:dot], 10, 64)
			op := d[dot+1 : col]
			for _, g := range streams {
				if g.sid != sid {
					continue
				}
				switch op {
				case "recv":
					g.hRecvPend = false
				case "send":
					g.hSendPend = false
					if d[col+1:] != "ok" {
						g.hSendFailed = true
					}
				case "decode":
					if strings.HasPrefix(d[col+1:], "msg") {
						g.hEntered = true
					} else {
						g.hReturned = true
					}
				}
			}
		}
		if e := strings.Index(seg, "E=["); e >= 0 {
			k := strings.LastIndex(seg, "]")
			for _, ev := range strings.Split(seg[e+3:k], ";") {
				f := strings.Fields(ev)
				if len(f) == 3 && f[0] == "entered" {
					sid, _ := strconv.ParseInt(f[1], 10, 64)
					for _, g := range streams {
						if g.sid == sid {
							g.hEntered = true
						}
					}
				}
			}
		}
	}
}
