//go:build verif

package harness

// W1: the real tunnel client and the real tunnel server joined by
// harness-owned FIFO carrier queues.  One stimulus per quiescence; a stimulus
// is an application call on either side, the delivery of the ONE frame at the
// head of a carrier direction, a tick, or a termination cause.  Each step is
// written as an op of the endpoint it acts on ("c.*" / "s.*"), so the same
// endpoint models check it; end-to-end monitors read both.

import (
	"errors"
	"fmt"
	"io"
	"math/rand"
	"strconv"
	"strings"
	"testing"
	"testing/synctest"
	"time"

	"github.com/jhump/grpctunnel/tunnelpb"
	"google.golang.org/grpc/codes"
	"google.golang.org/grpc/metadata"
)

type w1 struct {
	c   *cRun
	s   *sRun
	c2s []*tunnelpb.ClientToServer
	s2c []*tunnelpb.ServerToClient
	// index bookkeeping for describing data frames to the models
	reqIdx  map[int64]int // current request message index per stream (as seen on the wire)
	respIdx map[int64]int
	c2sEnd  error // set once the client tore the carrier down (server sees it after the queue drains)
	c2sEnded, s2cEnded bool
}

func descMD(md *tunnelpb.Metadata) string { return fmtProtoMD(md) }

// descC2S renders a real client frame as the arguments of an `s.frame` op.
func (w *w1) descC2S(m *tunnelpb.ClientToServer) string {
	sid := m.StreamId
	switch f := m.Frame.(type) {
	case *tunnelpb.ClientToServer_NewStream:
		w.reqIdx[sid] = -1
		return fmt.Sprintf("new m=%s rev=%d win=%d md=%s", hx([]byte(f.NewStream.MethodName)), f.NewStream.ProtocolRevision,
			f.NewStream.InitialWindowSize, descMD(f.NewStream.RequestHeaders))
	case *tunnelpb.ClientToServer_RequestMessage:
		w.reqIdx[sid]++
		return fmt.Sprintf("msg size=%d len=%d idx=%d", f.RequestMessage.Size, len(f.RequestMessage.Data), w.reqIdx[sid])
	case *tunnelpb.ClientToServer_MoreRequestData:
		return fmt.Sprintf("more len=%d idx=%d", len(f.MoreRequestData), w.reqIdx[sid])
	case *tunnelpb.ClientToServer_HalfClose:
		return "half"
	case *tunnelpb.ClientToServer_Cancel:
		return "cancel"
	case *tunnelpb.ClientToServer_WindowUpdate:
		return fmt.Sprintf("wu n=%d", f.WindowUpdate)
	}
	return "unset"
}

func (w *w1) descS2C(m *tunnelpb.ServerToClient) string {
	sid := m.StreamId
	switch f := m.Frame.(type) {
	case *tunnelpb.ServerToClient_Settings:
		var a []string
		for _, x := range f.Settings.SupportedProtocolRevisions {
			a = append(a, strconv.Itoa(int(x)))
		}
		rl := strings.Join(a, ",")
		if rl == "" {
			rl = "-"
		}
		return fmt.Sprintf("settings win=%d revs=%s", f.Settings.InitialWindowSize, rl)
	case *tunnelpb.ServerToClient_ResponseHeaders:
		return "hdr md=" + descMD(f.ResponseHeaders)
	case *tunnelpb.ServerToClient_ResponseMessage:
		if _, ok := w.respIdx[sid]; !ok {
			w.respIdx[sid] = -1
		}
		w.respIdx[sid]++
		return fmt.Sprintf("msg size=%d len=%d idx=%d", f.ResponseMessage.Size, len(f.ResponseMessage.Data), w.respIdx[sid])
	case *tunnelpb.ServerToClient_MoreResponseData:
		return fmt.Sprintf("more len=%d idx=%d", len(f.MoreResponseData), w.respIdx[sid])
	case *tunnelpb.ServerToClient_CloseStream:
		return fmt.Sprintf("close code=%d md=%s", f.CloseStream.GetStatus().GetCode(), descMD(f.CloseStream.ResponseTrailers))
	case *tunnelpb.ServerToClient_WindowUpdate:
		return fmt.Sprintf("wu n=%d", f.WindowUpdate)
	}
	return "unset"
}

type w1Cfg struct {
	clientDisable, serverDisable bool
}

func startW1(t *testing.T, ops *opsWriter, cfg w1Cfg) *w1 {
	w := &w1{reqIdx: map[int64]int{}, respIdx: map[int64]int{}}
	ops.add(svcLine(), "ok")
	// server first: it emits the settings frame
	w.s = startSNoSvc(t, ops, sCfg{settings: true, disable: cfg.serverDisable})
	w.s.onEmit = func(fs []*tunnelpb.ServerToClient) { w.s2c = append(w.s2c, fs...) }
	// the settings frame was emitted during s.init, before the hook was installed
	w.s2c = append(w.s2c, w.s.initFrames...)
	w.c = startC(t, ops, cCfg{settings: true, disable: cfg.clientDisable})
	w.c.onEmit = func(fs []*tunnelpb.ClientToServer) { w.c2s = append(w.c2s, fs...) }
	// tear-down of a forward tunnel half-closes the carrier
	return w
}

// netC2S hands the frame at the head of the client->server queue to the server.
func (w *w1) netC2S() bool {
	if len(w.c2s) == 0 {
		if w.c.end.isClosed() && !w.c2sEnded {
			w.c2sEnded = true
			w.s.step("s.eof", func() { w.s.end.in.end(io.EOF) })
			return true
		}
		return false
	}
	m := w.c2s[0]
	w.c2s = w.c2s[1:]
	w.s.step(fmt.Sprintf("s.frame sid=%d %s", m.StreamId, w.descC2S(m)), func() { w.s.end.in.put(m) })
	return true
}

func (w *w1) netS2C() bool {
	if len(w.s2c) == 0 {
		if w.s.served && !w.s2cEnded {
			// the serving call returned: the carrier ends for the client
			w.s2cEnded = true
			if w.s.serveRes == "nil" {
				w.c.step("c.eof", func() { w.c.end.endCarrier(io.EOF); synctest.Wait(); w.c.onStep() })
			} else {
				w.c.step("c.fail", func() { w.c.end.endCarrier(errors.New("carrier broke")); synctest.Wait(); w.c.onStep() })
			}
			return true
		}
		return false
	}
	m := w.s2c[0]
	w.s2c = w.s2c[1:]
	w.c.frame(m.StreamId, w.descS2C(m), m)
	return true
}

func (w *w1) tick(d time.Duration) {
	time.Sleep(d)
	w.c.ops.add(fmt.Sprintf("c.tick ns=%d", int64(d)), w.c.observe())
	w.s.ops.add(fmt.Sprintf("s.tick ns=%d", int64(d)), w.s.observe())
}

func TestW1Random(t *testing.T) {
	ops := newOps(t, "w1")
	defer ops.close()
	rng := newRng(41)
	n := envInt("VERIF_N", 200)
	for i := 0; i < n; i++ {
		runW1Scenario(t, ops, rng, 60+rng.Intn(120))
	}
	t.Logf("w1 lines=%d", ops.n)
}

func runW1Scenario(t *testing.T, ops *opsWriter, rng *rand.Rand, steps int) {
	bubble(t, func(t *testing.T) {
		cfg := w1Cfg{clientDisable: rng.Intn(10) == 0, serverDisable: rng.Intn(10) == 0}
		w := startW1(t, ops, cfg)
		defer func() {
			w.c.teardown()
			w.s.teardown()
		}()
		// settings exchange
		w.netS2C()
		if !w.c.have {
			return
		}
		rev0 := w.c.isRev0()
		var gs []*gStream // server-side view of handlers, by sid
		findG := func(sid int64) *gStream {
			for _, g := range gs {
				if g.sid == sid {
					return g
				}
			}
			return nil
		}
		pickC := func(pred func(*crpc) bool) *crpc {
			var c []*crpc
			for _, p := range w.c.rpcs {
				if pred(p) {
					c = append(c, p)
				}
			}
			if len(c) == 0 {
				return nil
			}
			return c[rng.Intn(len(c))]
		}
		pickG := func(pred func(*gStream) bool) *gStream {
			var c []*gStream
			for _, g := range gs {
				if pred(g) {
					c = append(c, g)
				}
			}
			if len(c) == 0 {
				return nil
			}
			return c[rng.Intn(len(c))]
		}
		closed := false
		for step := 0; step < steps; step++ {
			k := rng.Intn(100)
			switch {
			case k < 7 && len(w.c.rpcs) < 5 && !closed:
				shape := []string{"U", "CS", "SS", "BD"}[rng.Intn(4)]
				_, last, _, _ := w.c.ch.State()
				sid := last + 1
				md := metadata.Pairs("x-sid", strconv.FormatInt(sid, 10))
				if rng.Intn(3) == 0 {
					md = metadata.Join(md, mdChoices[rng.Intn(len(mdChoices))])
				}
				if rng.Intn(6) == 0 {
					md.Set("grpc-timeout", []string{"1S", "2S", "500m"}[rng.Intn(3)])
				}
				var to time.Duration
				if rng.Intn(6) == 0 {
					to = time.Duration(1+rng.Intn(3)) * time.Second
				}
				method := "/v.S/" + shape
				w.s.w.mu.Lock()
				w.s.w.streams[sid] = &hstream{sid: sid, sendQ: make(chan hcmd, 8), recvQ: make(chan hcmd, 8)}
				w.s.w.mu.Unlock()
				if p := w.c.newRPC(shape, md, to, rng.Intn(20) == 0, method); p != nil {
					gs = append(gs, &gStream{sid: p.sid, shape: shape, accepted: true, fc: !rev0, cur: -1})
				}
			case k < 17: // client send
				p := pickC(func(p *crpc) bool { return !p.sendPend && !p.half && !p.sendFailed })
				if p == nil {
					continue
				}
				if (p.shape == "U" || p.shape == "SS") && p.reqIdx >= 1 && rng.Intn(5) != 0 {
					continue
				}
				w.c.callSend(p, feasible(dataSizes[rng.Intn(len(dataSizes))]))
			case k < 21:
				p := pickC(func(p *crpc) bool { return !p.sendPend && !p.half })
				if p == nil {
					continue
				}
				w.c.callCloseSend(p)
			case k < 31:
				p := pickC(func(p *crpc) bool { return !p.recvPend })
				if p == nil {
					continue
				}
				w.c.callRecv(p)
			case k < 33:
				if p := pickC(func(p *crpc) bool { return !p.recvPend }); p != nil {
					w.c.callHeader(p)
				}
			case k < 36:
				if p := pickC(func(p *crpc) bool { return true }); p != nil {
					w.c.callTrailer(p)
				}
			case k < 38:
				if p := pickC(func(p *crpc) bool { return !p.cancelled }); p != nil {
					w.c.callCancel(p)
				}
			case k < 45: // handler recv
				g := pickG(func(s *gStream) bool { return s.hEntered && s.shape != "U" && !s.hRecvPend && !s.hReturned })
				if g == nil {
					continue
				}
				g.hRecvPend = true
				w.s.call(g.sid, hcmd{op: "recv"})
			case k < 53: // handler send / reply (never after a failed send: the handler contract)
				g := pickG(func(s *gStream) bool { return s.hEntered && !s.hSendPend && !s.hReturned && !s.hSendFailed })
				if g == nil {
					continue
				}
				n := feasible(dataSizes[rng.Intn(len(dataSizes))])
				if g.shape == "U" {
					if rng.Intn(2) == 0 {
						continue
					}
					g.hReturned = true
					w.s.call(g.sid, hcmd{op: "reply", n: n, idx: 0})
				} else {
					if g.shape == "CS" && g.respIdx >= 1 && rng.Intn(5) != 0 {
						continue
					}
					g.hSendPend = true
					w.s.call(g.sid, hcmd{op: "send", n: n, idx: g.respIdx})
					g.respIdx++
				}
			case k < 57:
				g := pickG(func(s *gStream) bool { return s.hEntered && !s.hSendPend && !s.hReturned })
				if g == nil {
					continue
				}
				op := []string{"sethdr", "sendhdr", "settlr"}[rng.Intn(3)]
				w.s.call(g.sid, hcmd{op: op, md: mdChoices[rng.Intn(len(mdChoices))]})
			case k < 60:
				g := pickG(func(s *gStream) bool { return s.hEntered && !s.hSendPend && !s.hRecvPend && !s.hReturned })
				if g == nil {
					continue
				}
				g.hReturned = true
				code := []codes.Code{codes.OK, codes.OK, codes.NotFound, codes.Internal}[rng.Intn(4)]
				if g.shape == "U" && code == codes.OK {
					code = codes.Aborted
				}
				w.s.call(g.sid, hcmd{op: "ret", code: code})
			case k < 78:
				if rev0 {
					// revision zero: only hand a data frame to a reader that is waiting (the
					// hand-off otherwise blocks the receive loop; see finding D10)
					if len(w.c2s) > 0 && isC2SData(w.c2s[0]) {
						if g := findG(w.c2s[0].StreamId); g != nil && !g.hRecvPend && !(g.shape == "U" && !g.hEntered && !g.hReturned) {
							continue
						}
					}
				}
				w.netC2S()
			case k < 94:
				if rev0 && len(w.s2c) > 0 && isS2CData(w.s2c[0]) {
					var p *crpc
					for _, q := range w.c.rpcs {
						if q.sid == w.s2c[0].StreamId {
							p = q
						}
					}
					if p != nil && !p.recvPend {
						continue
					}
				}
				w.netS2C()
			case k < 96:
				w.tick([]time.Duration{300 * time.Millisecond, time.Second, 3 * time.Second}[rng.Intn(3)])
			case k < 97:
				if rng.Intn(4) == 0 {
					w.s.closing = !w.s.closing
					w.s.ops.add(fmt.Sprintf("s.closing %s", b2s(w.s.closing)), w.s.observe())
				}
			default:
				if rng.Intn(10) == 0 && !closed {
					closed = true
					switch rng.Intn(3) {
					case 0:
						w.c.step("c.close", func() { w.c.ch.Channel().Close() })
					case 1: // the carrier breaks; the server notices first
						w.c2s = nil
						w.s.step("s.fail", func() { w.s.end.in.end(errors.New("carrier broke")) })
					default: // the client notices first
						w.s2c = nil
						w.s2cEnded = true
						w.c.step("c.fail", func() { w.c.end.endCarrier(errors.New("carrier broke")) })
						w.c2s = nil
						w.s.step("s.fail", func() { w.s.end.in.end(errors.New("carrier broke")) })
					}
				}
			}
			w.c.refresh()
			w.s.refreshPending(gs)
			// a unary handler is entered when its decode completes
		}
		// drain: deliver everything that is in flight, both ways, until quiet
		for i := 0; i < 400; i++ {
			a := false
			if !rev0 {
				a = w.netC2S()
				a = w.netS2C() || a
			}
			if !a {
				break
			}
		}
	})
}

func isC2SData(m *tunnelpb.ClientToServer) bool {
	switch m.Frame.(type) {
	case *tunnelpb.ClientToServer_RequestMessage, *tunnelpb.ClientToServer_MoreRequestData:
		return true
	}
	return false
}

func isS2CData(m *tunnelpb.ServerToClient) bool {
	switch m.Frame.(type) {
	case *tunnelpb.ServerToClient_ResponseMessage, *tunnelpb.ServerToClient_MoreResponseData:
		return true
	}
	return false
}
