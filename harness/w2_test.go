//go:build verif

package harness

// W2: the public API over real grpc-go on bufconn, inside a synctest bubble:
// TunnelServiceHandler (forward + reverse), NewChannel().Start,
// ReverseTunnelServer.Serve/Stop/GracefulStop, AsChannel/KeyAsChannel,
// Ready/WaitForReady/AllReverseTunnels, the context accessors.

import (
	"context"
	"fmt"
	"math/rand"
	"net"
	"sort"
	"strconv"
	"strings"
	"sync"
	"testing"
	"testing/synctest"
	"time"

	"github.com/jhump/grpctunnel"
	"github.com/jhump/grpctunnel/tunnelpb"
	"google.golang.org/grpc"
	"google.golang.org/grpc/credentials/insecure"
	"google.golang.org/grpc/metadata"
	"google.golang.org/grpc/peer"
	"google.golang.org/grpc/status"
	"google.golang.org/grpc/test/bufconn"
	"google.golang.org/protobuf/types/known/wrapperspb"
)

type ctxTagKey struct{}

type revTunnel struct {
	id       int
	key      string // "-" = no key
	rts      *grpctunnel.ReverseTunnelServer
	cancel   context.CancelFunc
	done     chan struct{}
	started  bool
	err      error
	returned bool
}

type w2 struct {
	t       *testing.T
	lis     *bufconn.Listener
	gs      *grpc.Server
	handler *grpctunnel.TunnelServiceHandler
	cc      *grpc.ClientConn
	stub    tunnelpb.TunnelServiceClient
	mu      sync.Mutex
	cb      []string
	tunnels map[int]*revTunnel
	ops     *opsWriter
	waiters []*regWaiter
	// when set, the OnReverseTunnelClose callback parks a waiter (named by the value) while the
	// tunnel is being torn down: between unregister and the handler's deferred removals
	waitInCloseCB int
}

// regWaiter is a goroutine inside WaitForReady with a deadline that never arrives.
type regWaiter struct {
	id  int
	key string
	mu  sync.Mutex
	res string // "" while parked, then ok / err
	cancel context.CancelFunc
}

func (w *w2) chanFor(key string) grpctunnel.ReverseClientConnInterface {
	switch key {
	case "*":
		return w.handler.AsChannel()
	case "-":
		return w.handler.KeyAsChannel(nil)
	}
	return w.handler.KeyAsChannel(key)
}

func (w *w2) startWaiter(id int, key string) {
	wt := &regWaiter{id: id, key: key}
	w.mu.Lock()
	w.waiters = append(w.waiters, wt)
	w.mu.Unlock()
	ch := w.chanFor(key)
	ctx, cancel := context.WithTimeout(context.Background(), 1000*time.Hour)
	wt.cancel = cancel
	go func() {
		defer cancel()
		err := ch.WaitForReady(ctx)
		wt.mu.Lock()
		if err == nil {
			wt.res = "ok"
		} else {
			wt.res = "err"
		}
		wt.mu.Unlock()
	}()
}

func (w *w2) showWaiters() string {
	w.mu.Lock()
	defer w.mu.Unlock()
	var a []string
	for _, wt := range w.waiters {
		wt.mu.Lock()
		r := wt.res
		wt.mu.Unlock()
		if r == "" {
			r = "parked"
		}
		a = append(a, fmt.Sprintf("%d:%s", wt.id, r))
	}
	return strings.Join(a, " ")
}

// scrub overwrites, in place, the values a metadata accessor returned for key k
// (what a handler redacting a credential before logging would do).
func scrub(md metadata.MD, k string) {
	vs := md.Get(k)
	for i := range vs {
		vs[i] = "SCRUBBED"
	}
}

func tidOf(ch grpctunnel.TunnelChannel) int {
	md, _ := metadata.FromIncomingContext(ch.Context())
	if v := md.Get("tid"); len(v) > 0 {
		n, _ := strconv.Atoi(v[0])
		return n
	}
	return -1
}

// echoDesc: one unary method that reports who served it and what the handler
// context carries.
func echoDesc(tid int) *grpc.ServiceDesc {
	h := func(_ any, ctx context.Context, dec func(any) error, _ grpc.UnaryServerInterceptor) (any, error) {
		var m wrapperspb.StringValue
		if err := dec(&m); err != nil {
			return nil, err
		}
		tmd, _ := grpctunnel.TunnelMetadataFromIncomingContext(ctx)
		rmd, _ := metadata.FromIncomingContext(ctx)
		// mutate what the accessor returned, by key and in place: must not be visible to anyone else
		tmd.Set("mutated", "yes")
		scrub(tmd, "tid")
		tmd2, _ := grpctunnel.TunnelMetadataFromIncomingContext(ctx)
		return &wrapperspb.StringValue{Value: fmt.Sprintf("tid=%d tmd.tid=%s tmd.mut=%d req.x=%s", tid,
			strings.Join(tmd2.Get("tid"), ","), len(tmd2.Get("mutated")), strings.Join(rmd.Get("x"), ","))}, nil
	}
	return &grpc.ServiceDesc{ServiceName: "v.E", HandlerType: (*any)(nil),
		Methods: []grpc.MethodDesc{{MethodName: "Who", Handler: h}}}
}

// w2NoAffinity: the next handler is created WITHOUT an AffinityKey function (every reverse tunnel then has the nil key)
var w2NoAffinity bool

func startW2(t *testing.T, ops *opsWriter, noReverseFC bool) *w2 {
	w := &w2{t: t, ops: ops, tunnels: map[int]*revTunnel{}}
	w.lis = bufconn.Listen(1 << 20)
	hopts := grpctunnel.TunnelServiceHandlerOptions{
		OnReverseTunnelOpen: func(ch grpctunnel.TunnelChannel) {
			w.mu.Lock()
			w.cb = append(w.cb, fmt.Sprintf("open:%d", tidOf(ch)))
			w.mu.Unlock()
		},
		OnReverseTunnelClose: func(ch grpctunnel.TunnelChannel) {
			w.mu.Lock()
			w.cb = append(w.cb, fmt.Sprintf("close:%d", tidOf(ch)))
			wid := w.waitInCloseCB
			w.waitInCloseCB = 0
			w.mu.Unlock()
			if wid != 0 {
				w.startWaiter(wid, "*")
				time.Sleep(time.Millisecond) // let it park before the tear-down continues
			}
		},
		AffinityKey: func(ch grpctunnel.TunnelChannel) any {
			md, _ := metadata.FromIncomingContext(ch.Context())
			if v := md.Get("key"); len(v) > 0 {
				return v[0]
			}
			return nil
		},
		DisableFlowControl: noReverseFC,
	}
	if w2NoAffinity {
		hopts.AffinityKey = nil
	}
	w.handler = grpctunnel.NewTunnelServiceHandler(hopts)
	w.gs = grpc.NewServer()
	tunnelpb.RegisterTunnelServiceServer(w.gs, w.handler.Service())
	go func() { _ = w.gs.Serve(w.lis) }()
	cc, err := grpc.NewClient("passthrough:///bufnet",
		grpc.WithContextDialer(func(ctx context.Context, _ string) (net.Conn, error) { return w.lis.DialContext(ctx) }),
		grpc.WithTransportCredentials(insecure.NewCredentials()))
	if err != nil {
		t.Fatal(err)
	}
	w.cc = cc
	w.stub = tunnelpb.NewTunnelServiceClient(cc)
	return w
}

func (w *w2) stop() {
	w.mu.Lock()
	for _, wt := range w.waiters {
		wt.cancel()
	}
	w.mu.Unlock()
	for _, tn := range w.tunnels {
		tn.cancel()
	}
	synctest.Wait()
	w.cc.Close()
	w.gs.Stop()
	synctest.Wait()
}

func (w *w2) settle() {
	synctest.Wait()
	for _, tn := range w.tunnels {
		if !tn.returned {
			select {
			case <-tn.done:
				tn.returned = true
			default:
			}
		}
	}
}

func (w *w2) takeCB() string {
	w.mu.Lock()
	defer w.mu.Unlock()
	s := strings.Join(w.cb, ",")
	w.cb = nil
	return s
}

func (w *w2) allIDs() string {
	var a []string
	for _, ch := range w.handler.AllReverseTunnels() {
		a = append(a, strconv.Itoa(tidOf(ch)))
	}
	return strings.Join(a, ",")
}

// obsReg: registry answers at quiescence.
func (w *w2) obsReg(extra string) string {
	w.settle()
	var ret []string
	for id, tn := range w.tunnels {
		if tn.returned && !tn.started {
			continue
		}
		_ = id
	}
	sort.Strings(ret)
	return fmt.Sprintf("%sall=[%s] ready=%s cb=[%s] waiters=[%s]", extra, w.allIDs(), b01(w.handler.AsChannel().Ready()), w.takeCB(), w.showWaiters())
}

func (w *w2) open(id int, key string, shared *grpctunnel.ReverseTunnelServer) *revTunnel {
	tn := &revTunnel{id: id, key: key, done: make(chan struct{})}
	if shared != nil {
		tn.rts = shared
	} else {
		tn.rts = grpctunnel.NewReverseTunnelServer(w.stub)
		tn.rts.RegisterService(echoDesc(id), struct{}{})
	}
	ctx, cancel := context.WithCancel(context.Background())
	tn.cancel = cancel
	md := metadata.Pairs("tid", strconv.Itoa(id))
	if key != "-" {
		md.Set("key", key)
	}
	ctx = metadata.NewOutgoingContext(ctx, md)
	w.tunnels[id] = tn
	go func() {
		tn.started, tn.err = tn.rts.Serve(ctx)
		close(tn.done)
	}()
	return tn
}

func (w *w2) who(ch grpctunnel.ReverseClientConnInterface, opts ...grpc.CallOption) string {
	var resp wrapperspb.StringValue
	ctx, cancel := context.WithTimeout(metadata.AppendToOutgoingContext(context.Background(), "x", "req"), 5*time.Second)
	defer cancel()
	err := ch.Invoke(ctx, "/v.E/Who", &wrapperspb.StringValue{Value: "q"}, &resp, opts...)
	if err != nil {
		if s, ok := status.FromError(err); ok {
			return "status:" + strconv.Itoa(int(s.Code()))
		}
		return "err:" + strings.ReplaceAll(err.Error(), " ", "_")
	}
	return resp.Value
}

// TestW2Registry: histories of opens (arbitrary, colliding and absent keys),
// closes from either end, interleaved with routed RPCs and registry queries,
// against the Lean registry model (RoundRobin.Pool, two levels).
func TestW2Registry(t *testing.T) {
	ops := newOps(t, "registry")
	defer ops.close()
	rng := newRng(71)
	n := envInt("VERIF_N", 60)
	for i := 0; i < n; i++ {
		synctest.Test(t, func(t *testing.T) {
			// every fifth handler has no AffinityKey function: whatever the tunnels say about themselves they all have the
			// nil key, so KeyAsChannel(k) for any other k matches none of them (the op lines carry the EFFECTIVE key)
			noAff := i%5 == 4
			w2NoAffinity = noAff
			w := startW2(t, ops, false)
			w2NoAffinity = false
			defer w.stop()
			ops.add("r.init", w.obsReg(""))
			next := 1
			nextW := 0
			keys := []string{"-", "a", "b", "a"}
			eff := func(k string) string {
				if noAff {
					return "-"
				}
				return k
			}
			for step := 0; step < 25+rng.Intn(30); step++ {
				var live []*revTunnel
				for _, tn := range w.tunnels {
					if !tn.returned {
						live = append(live, tn)
					}
				}
				sort.Slice(live, func(i, j int) bool { return live[i].id < live[j].id })
				k := rng.Intn(100)
				switch {
				case k < 22 && len(live) < 5:
					key := keys[rng.Intn(len(keys))]
					id := next
					next++
					w.open(id, key, nil)
					keyArg := eff(key)
					ops.add(fmt.Sprintf("r.open t=%d key=%s", id, keyArg), w.obsReg(""))
				case k < 32 && len(live) > 0:
					tn := live[rng.Intn(len(live))]
					tn.cancel() // the client end hangs up
					ops.add(fmt.Sprintf("r.close t=%d", tn.id), w.obsReg(""))
				case k < 40 && len(live) > 0:
					tn := live[rng.Intn(len(live))]
					for _, ch := range w.handler.AllReverseTunnels() {
						if tidOf(ch) == tn.id {
							ch.Close() // the server end closes the channel
						}
					}
					ops.add(fmt.Sprintf("r.close t=%d", tn.id), w.obsReg(""))
				case k < 70:
					via := "all"
					var ch grpctunnel.ReverseClientConnInterface = w.handler.AsChannel()
					if rng.Intn(2) == 0 {
						key := []string{"-", "a", "b", "zz"}[rng.Intn(4)]
						via = "key:" + key
						if key == "-" {
							ch = w.handler.KeyAsChannel(nil)
						} else {
							ch = w.handler.KeyAsChannel(key)
						}
					}
					var used grpctunnel.TunnelChannel
					res := w.who(ch, grpctunnel.WithTunnelChannel(&used))
					served := "unavailable"
					if strings.HasPrefix(res, "tid=") {
						f := strings.Fields(res)
						served = strings.TrimPrefix(f[0], "tid=")
						// C17: identity and privacy of what the accessors return
						if used == nil || strconv.Itoa(tidOf(used)) != served {
							served += "!WRONG-CHANNEL"
						}
						if f[1] != "tmd.tid="+served || f[2] != "tmd.mut=0" || f[3] != "req.x=req" {
							served += "!BAD-CONTEXT(" + res + ")"
						}
					} else if res != "status:14" {
						served = res
					}
					ops.add("r.pick via="+via, w.obsReg("served="+served+" "))
				case k < 85:
					key := []string{"*", "-", "a", "b", "zz"}[rng.Intn(5)]
					var ch grpctunnel.ReverseClientConnInterface
					switch key {
					case "*":
						ch = w.handler.AsChannel()
					case "-":
						ch = w.handler.KeyAsChannel(nil)
					default:
						ch = w.handler.KeyAsChannel(key)
					}
					ctx, cancel := context.WithTimeout(context.Background(), time.Millisecond)
					wouldBlock := ch.WaitForReady(ctx) != nil
					cancel()
					ops.add("r.ready key="+key, w.obsReg(fmt.Sprintf("ready=%s waitblocks=%s ", b01(ch.Ready()), b01(wouldBlock))))
				case k < 91:
					// a caller parks in WaitForReady (released only by a tunnel becoming available)
					key := []string{"*", "-", "a", "b"}[rng.Intn(4)]
					nextW++
					w.startWaiter(nextW, key)
					ops.add(fmt.Sprintf("r.wait w=%d key=%s", nextW, key), w.obsReg(""))
				case k < 95:
					// a reverse tunnel that is dead on arrival: the peer asks for the settings exchange and hangs up
					key := keys[rng.Intn(len(keys))]
					id := next
					next++
					md := metadata.Pairs("tid", strconv.Itoa(id), grpctunnel.VerifNegotiateKey, grpctunnel.VerifNegotiateVal)
					if key != "-" {
						md.Set("key", key)
					}
					ctx, cancel := context.WithCancel(metadata.NewOutgoingContext(context.Background(), md))
					if str, err := w.stub.OpenReverseTunnel(ctx); err == nil {
						_ = str.CloseSend()
						for {
							if _, err := str.Recv(); err != nil {
								break
							}
						}
					}
					cancel()
					ops.add(fmt.Sprintf("r.doa t=%d key=%s", id, eff(key)), w.obsReg(""))
				case k < 96:
					// a tunnel whose channel is closed by the network server BETWEEN the two registration steps
					// (after the global pool, before the per-key pool): like a dead-on-arrival tunnel it must leave nothing behind
					key := keys[rng.Intn(len(keys))]
					id := next
					next++
					grpctunnel.VerifSetHook(func(point string, _ int64) {
						if point != "rev.addglobal" {
							return
						}
						for _, ch := range w.handler.AllReverseTunnels() {
							if tidOf(ch) == id {
								ch.Close()
							}
						}
					})
					tn := w.open(id, key, nil)
					synctest.Wait()
					grpctunnel.VerifSetHook(nil)
					tn.cancel()
					ops.add(fmt.Sprintf("r.doa t=%d key=%s", id, eff(key)), w.obsReg(""))
				case k < 97 && len(live) == 1:
					// the last tunnel goes away and a caller starts waiting while it is being torn down
					tn := live[0]
					nextW++
					w.mu.Lock()
					w.waitInCloseCB = nextW
					w.mu.Unlock()
					tn.cancel()
					synctest.Wait()
					time.Sleep(5 * time.Millisecond) // lets the callback's pause elapse (virtual time)
					ops.add(fmt.Sprintf("r.closewait t=%d w=%d", tn.id, nextW), w.obsReg(""))
				default:
					ops.add("r.all", w.obsReg(""))
				}
			}
		})
	}
}

var _ = peer.FromContext
var _ = rand.Intn

// ---- C17: identity of tunnel, peer and opening metadata (forward, several tunnels, nested) ----

// relaySTS stands for the transport stream of the gRPC handler a relaying caller runs in.
type relaySTS struct{}

func (relaySTS) Method() string               { return "/relay.Svc/Relay" }
func (relaySTS) SetHeader(metadata.MD) error  { return nil }
func (relaySTS) SendHeader(metadata.MD) error { return nil }
func (relaySTS) SetTrailer(metadata.MD) error { return nil }

type taggedStream struct {
	grpc.ServerStream
	ctx context.Context
}

func (t *taggedStream) Context() context.Context { return t.ctx }

func identityDesc(name string) *grpc.ServiceDesc {
	h := func(_ any, ctx context.Context, dec func(any) error, _ grpc.UnaryServerInterceptor) (any, error) {
		var m wrapperspb.StringValue
		if err := dec(&m); err != nil {
			return nil, err
		}
		tag, _ := ctx.Value(ctxTagKey{}).(string)
		_, hasPeer := peer.FromContext(ctx)
		tmd, ok := grpctunnel.TunnelMetadataFromIncomingContext(ctx)
		tmd.Set("mutated", "yes")
		scrub(tmd, "open")
		tmd2, _ := grpctunnel.TunnelMetadataFromIncomingContext(ctx)
		rmd, _ := metadata.FromIncomingContext(ctx)
		var keys []string
		for k := range rmd {
			keys = append(keys, k)
		}
		sort.Strings(keys)
		return &wrapperspb.StringValue{Value: fmt.Sprintf("svc=%s tag=%s peer=%v tmdok=%v open=%s mut=%d x=%s keys=%s", name, tag, hasPeer, ok,
			strings.Join(tmd2.Get("open"), ","), len(tmd2.Get("mutated")), strings.Join(rmd.Get("x"), ","), strings.Join(keys, ","))}, nil
	}
	return &grpc.ServiceDesc{ServiceName: "v.I", HandlerType: (*any)(nil), Methods: []grpc.MethodDesc{{MethodName: "Who", Handler: h}},
		Streams: []grpc.StreamDesc{{StreamName: "S", ClientStreams: true, ServerStreams: true, Handler: func(_ any, st grpc.ServerStream) error {
			var m wrapperspb.StringValue
			_ = st.RecvMsg(&m)
			return nil
		}}}}
}

func TestW2Identity(t *testing.T) {
	ops := newOps(t, "identity")
	defer ops.close()
	n := envInt("VERIF_N", 20)
	for i := 0; i < n; i++ {
		synctest.Test(t, func(t *testing.T) {
			lis := bufconn.Listen(1 << 20)
			handler := grpctunnel.NewTunnelServiceHandler(grpctunnel.TunnelServiceHandlerOptions{})
			handler.RegisterService(identityDesc("outer"), struct{}{})
			// a nested tunnel service reachable THROUGH a tunnel
			inner := grpctunnel.NewTunnelServiceHandler(grpctunnel.TunnelServiceHandlerOptions{})
			inner.RegisterService(identityDesc("inner"), struct{}{})
			tunnelpb.RegisterTunnelServiceServer(handler, inner.Service())
			gs := grpc.NewServer(grpc.StreamInterceptor(func(srv any, ss grpc.ServerStream, _ *grpc.StreamServerInfo, h grpc.StreamHandler) error {
				return h(srv, &taggedStream{ServerStream: ss, ctx: context.WithValue(ss.Context(), ctxTagKey{}, "planted")})
			}))
			tunnelpb.RegisterTunnelServiceServer(gs, handler.Service())
			go func() { _ = gs.Serve(lis) }()
			cc, err := grpc.NewClient("passthrough:///bufnet",
				grpc.WithContextDialer(func(ctx context.Context, _ string) (net.Conn, error) { return lis.DialContext(ctx) }),
				grpc.WithTransportCredentials(insecure.NewCredentials()))
			if err != nil {
				t.Fatal(err)
			}
			defer func() { cc.Close(); gs.Stop(); synctest.Wait() }()
			stub := tunnelpb.NewTunnelServiceClient(cc)
			ops.add("id.init", "ok")
			open := func(stub tunnelpb.TunnelServiceClient, name string) (grpctunnel.TunnelChannel, context.CancelFunc) {
				ctx, cancel := context.WithCancel(metadata.AppendToOutgoingContext(context.Background(), "open", name))
				ch, err := grpctunnel.NewChannel(stub).Start(ctx)
				if err != nil {
					t.Fatalf("start %s: %v", name, err)
				}
				return ch, cancel
			}
			ch1, c1 := open(stub, "fwd1")
			ch2, c2 := open(stub, "fwd2")
			nested, c3 := open(tunnelpb.NewTunnelServiceClient(ch1), "nested")
			defer func() { c3(); c2(); c1() }()
			check := func(label string, ch grpctunnel.TunnelChannel, wantOpen, wantSvc string) {
				var resp wrapperspb.StringValue
				// every other RPC carries no request metadata at all: its handler must see none - in particular not the
				// metadata the tunnel was opened with, which its context inherits everything else from
				bare := strings.HasSuffix(label, "-bare")
				base := context.Background()
				wantX, wantKeys := "", ""
				if !bare {
					base = metadata.AppendToOutgoingContext(base, "x", label)
					wantX, wantKeys = label, "x"
				}
				if strings.HasSuffix(label, "-relay") {
					// the caller is itself inside a gRPC handler and passes its handler context on (a relay, a gateway): the
					// outbound RPC's context then still carries the handler's ServerTransportStream
					base = grpc.NewContextWithServerTransportStream(base, relaySTS{})
				}
				ctx, cancel := context.WithTimeout(base, 5*time.Second)
				defer cancel()
				var used grpctunnel.TunnelChannel
				err := ch.Invoke(ctx, "/v.I/Who", &wrapperspb.StringValue{Value: "q"}, &resp, grpctunnel.WithTunnelChannel(&used))
				res := "ok"
				want := fmt.Sprintf("svc=%s tag=planted peer=true tmdok=true open=%s mut=0 x=%s keys=%s", wantSvc, wantOpen, wantX, wantKeys)
				if err != nil {
					res = "BAD:rpc:" + fmtStatus(err)
				} else if resp.Value != want {
					res = "BAD:handler-saw(" + strings.ReplaceAll(resp.Value, " ", "_") + ")"
				} else if used != ch {
					res = "BAD:WithTunnelChannel-reported-another-channel"
				}
				// caller-side accessors on a stream's context
				str, err := ch.NewStream(ctx, &grpc.StreamDesc{ClientStreams: true, ServerStreams: true}, "/v.I/S")
				if err == nil {
					if grpctunnel.TunnelChannelFromContext(str.Context()) != ch {
						res += "+BAD:TunnelChannelFromContext"
					}
					omd, ok := grpctunnel.TunnelMetadataFromOutgoingContext(str.Context())
					if !ok || strings.Join(omd.Get("open"), ",") != wantOpen {
						res += "+BAD:TunnelMetadataFromOutgoingContext(" + strings.Join(omd.Get("open"), ",") + ")"
					}
					omd.Set("open", "tampered")
					omd2, _ := grpctunnel.TunnelMetadataFromOutgoingContext(str.Context())
					if strings.Join(omd2.Get("open"), ",") != wantOpen {
						res += "+BAD:outgoing-metadata-copy-shared"
					}
					_ = str.CloseSend()
				}
				ops.add("id.case "+label, res)
			}
			for round := 0; round < 3; round++ {
				check(fmt.Sprintf("a%d", round), ch1, "fwd1", "outer")
				check(fmt.Sprintf("b%d", round), ch2, "fwd2", "outer")
				check(fmt.Sprintf("n%d", round), nested, "nested", "inner")
				check(fmt.Sprintf("a%d-bare", round), ch1, "fwd1", "outer")
				check(fmt.Sprintf("n%d-bare", round), nested, "nested", "inner")
				check(fmt.Sprintf("b%d-relay", round), ch2, "fwd2", "outer")
				check(fmt.Sprintf("n%d-relay", round), nested, "nested", "inner")
			}
		})
	}
}
