//go:build verif

package harness

// Forward tunnels over real grpc-go (bufconn): what Err() and Done() report
// after the tunnel ended, for every termination cause, with and without a
// delay at the yield point inside tunnelChannel.close (between tearing the
// carrier down and recording the outcome).  C04: "Err() is nil after a clean
// close and the cause otherwise".

import (
	"context"
	"fmt"
	"testing"
	"testing/synctest"
	"time"

	"github.com/jhump/grpctunnel"
	"google.golang.org/grpc/codes"
	"google.golang.org/grpc/status"
	"google.golang.org/protobuf/types/known/wrapperspb"
)

func errClass(err error) string {
	switch {
	case err == nil:
		return "nil"
	case err == context.Canceled:
		return "ctx-canceled"
	case err == context.DeadlineExceeded:
		return "ctx-deadline"
	}
	if st, ok := status.FromError(err); ok {
		return "status:" + st.Code().String()
	}
	return "other"
}

func TestW2CloseErr(t *testing.T) {
	ops := newOps(t, "closeerr")
	defer ops.close()
	rng := newRng(91)
	n := envInt("VERIF_N", 40)
	for i := 0; i < n; i++ {
		cause := []string{"close", "close", "cancel", "deadline", "server-stop"}[rng.Intn(5)]
		delay := rng.Intn(2) == 0
		withRPC := rng.Intn(2) == 0
		synctest.Test(t, func(t *testing.T) {
			w := startW2(t, ops, false)
			w.handler.RegisterService(echoDesc(0), struct{}{})
			defer w.stop()
			if delay {
				grpctunnel.VerifSetHook(func(point string, _ int64) {
					if point == "close.torndown" {
						time.Sleep(50 * time.Millisecond)
					}
				})
				defer grpctunnel.VerifSetHook(nil)
			}
			var ctx context.Context
			var cancel context.CancelFunc
			if cause == "deadline" {
				ctx, cancel = context.WithTimeout(context.Background(), 3*time.Second)
			} else {
				ctx, cancel = context.WithCancel(context.Background())
			}
			defer cancel()
			ch, err := grpctunnel.NewChannel(w.stub).Start(ctx)
			if err != nil {
				ops.add(fmt.Sprintf("x.closeerr cause=%s delay=%s rpc=%s", cause, b01(delay), b01(withRPC)), "start-failed:"+errClass(err))
				return
			}
			// what Err() says at the very moment Done() is closed (not a moment later, when the receive loop has caught up)
			atDone := make(chan string, 1)
			go func() {
				<-ch.Done()
				if ch.Err() == nil {
					atDone <- "nil"
				} else {
					atDone <- "err"
				}
			}()
			rpc := "-"
			if withRPC {
				var resp wrapperspb.StringValue
				rctx, rcancel := context.WithTimeout(context.Background(), time.Second)
				rpc = errClass(ch.Invoke(rctx, "/v.E/Who", &wrapperspb.StringValue{Value: "q"}, &resp))
				rcancel()
			}
			switch cause {
			case "close":
				ch.Close()
			case "cancel":
				cancel()
			case "deadline":
				time.Sleep(4 * time.Second)
			case "server-stop":
				w.gs.Stop()
			}
			synctest.Wait()
			time.Sleep(time.Second)
			synctest.Wait()
			done := "open"
			select {
			case <-ch.Done():
				done = "closed"
			default:
			}
			// a new RPC on the ended tunnel must fail at once
			var resp wrapperspb.StringValue
			late := make(chan error, 1)
			go func() { late <- ch.Invoke(context.Background(), "/v.E/Who", &wrapperspb.StringValue{Value: "q"}, &resp) }()
			synctest.Wait()
			lateRes := "hangs"
			select {
			case e := <-late:
				lateRes = errClass(e)
				if e != nil && status.Code(e) != codes.OK {
					lateRes = "fails"
				}
			default:
			}
			pre := ""
			if rpc != "-" && rpc != "nil" {
				pre = "rpc=" + rpc + " " // the warm-up RPC on the open tunnel failed
			}
			at := "never"
			select {
			case at = <-atDone:
			default:
			}
			ops.add(fmt.Sprintf("x.closeerr cause=%s delay=%s rpc=%s", cause, b01(delay), b01(withRPC)),
				fmt.Sprintf("%sdone=%s err=%s atdone=%s late=%s", pre, done, errClass(ch.Err()), at, lateRes))
			ch.Close()
		})
	}
}
