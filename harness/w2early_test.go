//go:build verif

package harness

// A handler (or an interceptor in front of it) that ends the RPC before it has
// read the request - an authorisation check, a rate limiter - while the caller
// is still sending a request larger than the flow-control window.  C02: the
// caller must get exactly the status the handler returned.

import (
	"context"
	"fmt"
	"strings"
	"testing"
	"testing/synctest"
	"time"

	"github.com/jhump/grpctunnel"
	"google.golang.org/grpc"
	"google.golang.org/grpc/codes"
	"google.golang.org/grpc/status"
	"google.golang.org/protobuf/types/known/wrapperspb"
)

func earlyDesc() *grpc.ServiceDesc {
	reject := func(_ any, _ context.Context, _ func(any) error, _ grpc.UnaryServerInterceptor) (any, error) {
		return nil, status.Error(codes.PermissionDenied, "not allowed") // the request is never decoded
	}
	rejectStream := func(_ any, _ grpc.ServerStream) error {
		return status.Error(codes.PermissionDenied, "not allowed")
	}
	return &grpc.ServiceDesc{ServiceName: "v.R", HandlerType: (*any)(nil),
		Methods: []grpc.MethodDesc{{MethodName: "U", Handler: reject}},
		Streams: []grpc.StreamDesc{{StreamName: "CS", Handler: rejectStream, ClientStreams: true}}}
}

func TestW2EarlyReject(t *testing.T) {
	ops := newOps(t, "earlyreject")
	defer ops.close()
	for _, size := range []int{10, 60000, 70000, 200000} {
		for _, shape := range []string{"U", "CS"} {
			synctest.Test(t, func(t *testing.T) {
				w := startW2(t, ops, false)
				w.handler.RegisterService(earlyDesc(), struct{}{})
				defer w.stop()
				ctx, cancel := context.WithCancel(context.Background())
				defer cancel()
				ch, err := grpctunnel.NewChannel(w.stub).Start(ctx)
				if err != nil {
					t.Fatalf("start: %v", err)
				}
				req := &wrapperspb.StringValue{Value: strings.Repeat("x", size)}
				rctx, rcancel := context.WithTimeout(context.Background(), 30*time.Second)
				defer rcancel()
				res := "hangs"
				done := make(chan string, 1)
				go func() {
					if shape == "U" {
						var resp wrapperspb.StringValue
						done <- errClass(ch.Invoke(rctx, "/v.R/U", req, &resp))
						return
					}
					str, err := ch.NewStream(rctx, &grpc.StreamDesc{ClientStreams: true}, "/v.R/CS")
					if err != nil {
						done <- "new:" + errClass(err)
						return
					}
					sendRes := errClass(str.SendMsg(req))
					_ = str.CloseSend()
					var resp wrapperspb.StringValue
					done <- "send=" + sendRes + ",recv=" + errClass(str.RecvMsg(&resp))
				}()
				synctest.Wait()
				time.Sleep(time.Second)
				synctest.Wait()
				select {
				case res = <-done:
				default:
				}
				ops.add(fmt.Sprintf("x.earlyreject shape=%s size=%d", shape, size), res)
				ch.Close()
			})
		}
	}
}
