//go:build verif

package harness

// C10 for FORWARD tunnels on the public API over real grpc-go:
// TunnelServiceHandler.InitiateShutdown refuses every RPC subsequently started
// on an existing (or new) forward tunnel with Unavailable, while RPCs already
// in flight run to completion and the tunnels stay up.

import (
	"context"
	"fmt"
	"io"
	"testing"
	"testing/synctest"
	"time"

	"github.com/jhump/grpctunnel"
	"google.golang.org/grpc"
	"google.golang.org/protobuf/types/known/wrapperspb"
)

func fwdDesc() *grpc.ServiceDesc {
	u := func(_ any, _ context.Context, dec func(any) error, _ grpc.UnaryServerInterceptor) (any, error) {
		var m wrapperspb.StringValue
		if err := dec(&m); err != nil {
			return nil, err
		}
		return &m, nil
	}
	b := func(_ any, st grpc.ServerStream) error {
		for {
			var m wrapperspb.StringValue
			if err := st.RecvMsg(&m); err != nil {
				if err == io.EOF {
					return nil
				}
				return err
			}
			if err := st.SendMsg(&m); err != nil {
				return err
			}
		}
	}
	return &grpc.ServiceDesc{ServiceName: "v.F", HandlerType: (*any)(nil), Methods: []grpc.MethodDesc{{MethodName: "U", Handler: u}},
		Streams: []grpc.StreamDesc{{StreamName: "B", Handler: b, ClientStreams: true, ServerStreams: true}}}
}

type fwdHold struct {
	id  int
	tid int
	str grpc.ClientStream
}

func TestW2ForwardShutdown(t *testing.T) {
	ops := newOps(t, "fwdshutdown")
	defer ops.close()
	rng := newRng(97)
	n := envInt("VERIF_N", 30)
	for i := 0; i < n; i++ {
		synctest.Test(t, func(t *testing.T) {
			w := startW2(t, ops, false)
			w.handler.RegisterService(fwdDesc(), struct{}{})
			defer w.stop()
			ctx, cancel := context.WithCancel(context.Background())
			defer cancel()
			chans := map[int]grpctunnel.TunnelChannel{}
			var holds []*fwdHold
			ops.add("f.init", "ok")
			nextT, nextH := 1, 1
			shut := false
			echo := func(h *fwdHold) string {
				if err := h.str.SendMsg(&wrapperspb.StringValue{Value: "x"}); err != nil {
					return "send:" + errClass(err)
				}
				var m wrapperspb.StringValue
				if err := h.str.RecvMsg(&m); err != nil {
					return "recv:" + errClass(err)
				}
				return "ok"
			}
			for step := 0; step < 10+rng.Intn(14); step++ {
				var tids []int
				for id := range chans {
					tids = append(tids, id)
				}
				k := rng.Intn(100)
				switch {
				case k < 20 && len(chans) < 3:
					ch, err := grpctunnel.NewChannel(w.stub).Start(ctx)
					id := nextT
					nextT++
					res := "ok"
					if err != nil {
						res = "start:" + errClass(err)
					} else {
						chans[id] = ch
					}
					ops.add(fmt.Sprintf("f.open t=%d", id), res)
				case k < 40 && len(tids) > 0:
					tid := tids[rng.Intn(len(tids))]
					rctx, rcancel := context.WithCancel(context.Background()) // no deadline: virtual hours may pass while it is in flight
					str, err := chans[tid].NewStream(rctx, &grpc.StreamDesc{ClientStreams: true, ServerStreams: true}, "/v.F/B")
					h := &fwdHold{id: nextH, tid: tid, str: str}
					nextH++
					res := "new:" + errClass(err)
					if err == nil {
						res = echo(h) // exchange one message: the RPC is in flight (or was refused)
						if res == "ok" {
							holds = append(holds, h)
						}
					}
					defer rcancel()
					ops.add(fmt.Sprintf("f.hold h=%d t=%d", h.id, tid), res)
				case k < 62 && len(tids) > 0:
					tid := tids[rng.Intn(len(tids))]
					var resp wrapperspb.StringValue
					rctx, rcancel := context.WithTimeout(context.Background(), 5*time.Second)
					err := chans[tid].Invoke(rctx, "/v.F/U", &wrapperspb.StringValue{Value: "q"}, &resp)
					rcancel()
					ops.add(fmt.Sprintf("f.rpc t=%d", tid), errClass(err))
				case k < 74 && !shut:
					shut = true
					w.handler.InitiateShutdown()
					if rng.Intn(2) == 0 {
						w.handler.InitiateShutdown() // idempotent
					}
					ops.add("f.shutdown", "ok")
				case k < 90 && len(holds) > 0:
					// an RPC in flight goes on (another exchange) and then finishes normally
					j := rng.Intn(len(holds))
					h := holds[j]
					holds = append(holds[:j], holds[j+1:]...)
					res := echo(h)
					if res == "ok" {
						_ = h.str.CloseSend()
						var m wrapperspb.StringValue
						if err := h.str.RecvMsg(&m); err == io.EOF {
							res = "eof"
						} else {
							res = "end:" + errClass(err)
						}
					}
					select {
					case <-chans[h.tid].Done():
						res += "+tunnel-ended"
					default:
					}
					ops.add(fmt.Sprintf("f.finish h=%d", h.id), res)
				default:
					time.Sleep(time.Minute)
					ops.add("f.tick", "ok")
				}
			}
			for _, ch := range chans {
				ch.Close()
			}
		})
	}
}
