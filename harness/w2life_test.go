//go:build verif

package harness

// W2 lifecycle: one ReverseTunnelServer with several Serve calls, in-flight
// RPCs of a "hold" shape, GracefulStop / Stop / channel close at arbitrary
// points (C10 lifecycle part, C04 lifecycle part).

import (
	"context"
	"fmt"
	"io"
	"sort"
	"strconv"
	"strings"
	"testing"
	"testing/synctest"
	"time"

	"github.com/jhump/grpctunnel"
	"google.golang.org/grpc"
	"google.golang.org/grpc/metadata"
	"google.golang.org/grpc/status"
	"google.golang.org/protobuf/types/known/wrapperspb"
)

type hold struct {
	id     int
	tid    int
	str    grpc.ClientStream
	cancel context.CancelFunc
	res    string // "" while open
	hctx   string // what the handler's context did: "" / "ctxdone"
	stuck  bool
}

type lifeWorld struct {
	*w2
	rts       *grpctunnel.ReverseTunnelServer
	holds     []*hold
	gstop     string // "-", "blocked", "returned"
	stop      string
	gstopDone chan struct{}
	stopDone  chan struct{}
	hctx      map[int]string
}

// holdDesc: bidi method whose handler echoes until the client half-closes,
// then returns OK; it records when its context ends.
func (lw *lifeWorld) desc() *grpc.ServiceDesc {
	holdH := func(_ any, st grpc.ServerStream) error {
		md, _ := metadata.FromIncomingContext(st.Context())
		id, _ := strconv.Atoi(strings.Join(md.Get("hold"), ""))
		go func() {
			<-st.Context().Done()
			lw.mu.Lock()
			lw.hctx[id] = "ctxdone"
			lw.mu.Unlock()
		}()
		if len(md.Get("stuck")) > 0 {
			// a consumer that stops reading: waits for its context only
			<-st.Context().Done()
			return st.Context().Err()
		}
		for {
			var m wrapperspb.StringValue
			if err := st.RecvMsg(&m); err != nil {
				if err == io.EOF {
					return nil
				}
				return err
			}
			if err := st.SendMsg(&m); err != nil {
				return err
			}
		}
	}
	d := echoDesc(0)
	d.ServiceName = "v.E"
	d.Streams = []grpc.StreamDesc{{StreamName: "Hold", Handler: holdH, ClientStreams: true, ServerStreams: true}}
	return d
}

func (lw *lifeWorld) chanOf(tid int) grpctunnel.TunnelChannel {
	for _, ch := range lw.handler.AllReverseTunnels() {
		if tidOf(ch) == tid {
			return ch
		}
	}
	return nil
}

func fmtStatus(err error) string {
	if err == nil {
		return "ok"
	}
	if err == io.EOF {
		return "eof"
	}
	if s, ok := status.FromError(err); ok {
		return "status:" + strconv.Itoa(int(s.Code()))
	}
	return "err:" + strings.ReplaceAll(err.Error(), " ", "_")
}

func (lw *lifeWorld) obs(last string) string {
	lw.settle()
	check := func(ch chan struct{}, cur string) string {
		if cur == "-" || cur == "returned" {
			return cur
		}
		select {
		case <-ch:
			return "returned"
		default:
			return "blocked"
		}
	}
	lw.gstop = check(lw.gstopDone, lw.gstop)
	lw.stop = check(lw.stopDone, lw.stop)
	var ids []int
	for id := range lw.tunnels {
		ids = append(ids, id)
	}
	sort.Ints(ids)
	var sv []string
	for _, id := range ids {
		tn := lw.tunnels[id]
		if tn.returned {
			sv = append(sv, fmt.Sprintf("%d:ret:%s:%s", id, b01(tn.started), fmtStatus(tn.err)))
		} else {
			sv = append(sv, fmt.Sprintf("%d:run", id))
		}
	}
	var hs []string
	lw.mu.Lock()
	for _, h := range lw.holds {
		r := h.res
		if r == "" {
			r = "open"
		}
		kind := "echo"
		if h.stuck {
			kind = "stuck"
		}
		hs = append(hs, fmt.Sprintf("%d@%d:%s:%s:%s", h.id, h.tid, kind, r, lw.hctx[h.id]))
	}
	lw.mu.Unlock()
	state, inst := grpctunnel.VerifReverseServerState(lw.rts)
	// refuses: what the server's tunnels are told when they ask whether to refuse a new RPC (isClosing)
	refuses, _ := grpctunnel.VerifReverseServerIsClosing(lw.rts)
	return fmt.Sprintf("last=%s state=%d refuses=%s inst=%d gstop=%s stop=%s serves=[%s] holds=[%s] all=[%s]",
		last, state, b01(refuses), inst, lw.gstop, lw.stop, strings.Join(sv, " "), strings.Join(hs, " "), lw.allIDs())
}

func TestW2Lifecycle(t *testing.T) {
	ops := newOps(t, "lifecycle")
	defer ops.close()
	rng := newRng(73)
	n := envInt("VERIF_N", 60)
	for i := 0; i < n; i++ {
		disableFC := rng.Intn(6) == 0
		synctest.Test(t, func(t *testing.T) {
			lw := &lifeWorld{w2: startW2(t, ops, false), gstop: "-", stop: "-", hctx: map[int]string{}}
			defer lw.w2.stop()
			var opts []grpctunnel.TunnelOption
			if disableFC {
				opts = append(opts, grpctunnel.WithDisableFlowControl())
			}
			lw.rts = grpctunnel.NewReverseTunnelServer(lw.stub, opts...)
			lw.rts.RegisterService(lw.desc(), struct{}{})
			ops.add(fmt.Sprintf("l.init fc=%s", b01(!disableFC)), lw.obs("-"))
			nextT, nextH := 1, 1
			for step := 0; step < 12+rng.Intn(25); step++ {
				var live []int
				for id, tn := range lw.tunnels {
					if !tn.returned {
						live = append(live, id)
					}
				}
				sort.Ints(live)
				k := rng.Intn(100)
				switch {
				case k < 18 && len(lw.tunnels) < 4:
					id := nextT
					nextT++
					lw.open(id, "-", lw.rts)
					ops.add(fmt.Sprintf("l.serve t=%d", id), lw.obs("-"))
				case k < 36 && len(live) > 0: // start a hold RPC on a tunnel
					tid := live[rng.Intn(len(live))]
					ch := lw.chanOf(tid)
					if ch == nil {
						continue
					}
					h := &hold{id: nextH, tid: tid}
					nextH++
					stuck := rng.Intn(4) == 0
					octx := metadata.AppendToOutgoingContext(context.Background(), "hold", strconv.Itoa(h.id))
					if stuck {
						octx = metadata.AppendToOutgoingContext(octx, "stuck", "1")
					}
					ctx, cancel := context.WithCancel(octx)
					h.cancel = cancel
					str, err := ch.NewStream(ctx, &grpc.StreamDesc{ClientStreams: true, ServerStreams: true}, "/v.E/Hold")
					last := "new:" + fmtStatus(err)
					if err == nil {
						h.str = str
						// one message so that the handler is certainly running; a stuck
						// consumer gets a few more that it will never read
						_ = str.SendMsg(&wrapperspb.StringValue{Value: "x"})
						if stuck {
							h.stuck = true
							for j := 0; j < 3; j++ {
								_ = str.SendMsg(&wrapperspb.StringValue{Value: "y"})
							}
						}
						go func() {
							for {
								var m wrapperspb.StringValue
								if err := str.RecvMsg(&m); err != nil {
									lw.mu.Lock()
									h.res = fmtStatus(err)
									lw.mu.Unlock()
									return
								}
							}
						}()
						lw.holds = append(lw.holds, h)
					}
					ops.add(fmt.Sprintf("l.hold h=%d t=%d stuck=%s", h.id, tid, b01(stuck)), lw.obs(last))
				case k < 48: // let an in-flight RPC finish normally
					var open []*hold
					for _, h := range lw.holds {
						if h.res == "" {
							open = append(open, h)
						}
					}
					if len(open) == 0 {
						continue
					}
					h := open[rng.Intn(len(open))]
					if h.stuck {
						h.cancel()
						ops.add(fmt.Sprintf("l.cancel h=%d", h.id), lw.obs("-"))
					} else {
						_ = h.str.CloseSend()
						ops.add(fmt.Sprintf("l.finish h=%d", h.id), lw.obs("-"))
					}
				case k < 58 && len(live) > 0: // a new RPC on an existing tunnel
					tid := live[rng.Intn(len(live))]
					ch := lw.chanOf(tid)
					if ch == nil {
						continue
					}
					var resp wrapperspb.StringValue
					ctx, cancel := context.WithTimeout(context.Background(), 5*time.Second)
					err := ch.Invoke(ctx, "/v.E/Who", &wrapperspb.StringValue{Value: "q"}, &resp)
					cancel()
					ops.add(fmt.Sprintf("l.rpc t=%d", tid), lw.obs("rpc:"+fmtStatus(err)))
				case k < 68 && lw.gstop == "-":
					lw.gstop = "blocked"
					lw.gstopDone = make(chan struct{})
					go func() { lw.rts.GracefulStop(); close(lw.gstopDone) }()
					ops.add("l.gstop", lw.obs("-"))
				case k < 76 && lw.stop == "-":
					lw.stop = "blocked"
					lw.stopDone = make(chan struct{})
					go func() { lw.rts.Stop(); close(lw.stopDone) }()
					ops.add("l.stop", lw.obs("-"))
				case k < 86 && len(live) > 0: // the peer (network server) hangs up the tunnel
					tid := live[rng.Intn(len(live))]
					if ch := lw.chanOf(tid); ch != nil {
						ch.Close()
					}
					ops.add(fmt.Sprintf("l.hangup t=%d", tid), lw.obs("-"))
				default:
					time.Sleep(time.Hour)
					ops.add("l.tick", lw.obs("-"))
				}
			}
		})
	}
}
