//go:build verif

package harness

// W2 metadata/status family (C02): a forward tunnel over real grpc-go on
// bufconn; the handler is scripted per case; the caller uses the call options
// Header, Trailer, Peer, PerRPCCredentials, with and without outgoing metadata.

import (
	"reflect"
	"context"
	"encoding/hex"
	"fmt"
	"io"
	"sort"
	"strconv"
	"strings"
	"sync"
	"testing"
	"testing/synctest"
	"time"
	"unicode/utf8"

	"github.com/jhump/grpctunnel"
	"google.golang.org/genproto/googleapis/rpc/errdetails"
	"google.golang.org/grpc"
	"google.golang.org/grpc/codes"
	"google.golang.org/grpc/metadata"
	"google.golang.org/grpc/peer"
	"google.golang.org/grpc/status"
	"google.golang.org/protobuf/proto"
	"google.golang.org/protobuf/types/known/wrapperspb"
)

type metaCase struct {
	id       int
	shape    string
	code     codes.Code
	msg      string
	details  bool
	hdr, tlr metadata.MD
	req      metadata.MD
	creds    map[string]string
	creds2   map[string]string // a second PerRPCCredentials option (its keys may repeat the first one's)
	// what the caller must receive: computed from PRISTINE copies - the objects in hdr / tlr are shared between cases (as a
	// service that keeps a metadata value around and passes it to every RPC would) and the library must never write into them
	hdrWant, tlrWant metadata.MD
	outgoing bool
	order    int // permutation of the handler's calls for the streaming shape
}

type metaWorld struct {
	*w2
	mu    sync.Mutex
	cases map[int]*metaCase
	seen  map[int]metadata.MD // request metadata as the handler saw it
}

type mapCreds map[string]string

func (m mapCreds) GetRequestMetadata(context.Context, ...string) (map[string]string, error) {
	return m, nil
}
func (m mapCreds) RequireTransportSecurity() bool { return false }

// caseOf: the case id travels in the request MESSAGE ("case:<id>"), never in the
// metadata, so that an RPC can carry exactly the metadata under test - none at all included.
func (mw *metaWorld) caseOf(ctx context.Context, msg string) *metaCase {
	md, _ := metadata.FromIncomingContext(ctx)
	id, err := strconv.Atoi(strings.TrimPrefix(msg, "case:"))
	if err != nil {
		return nil
	}
	mw.mu.Lock()
	defer mw.mu.Unlock()
	mw.seen[id] = md.Copy()
	return mw.cases[id]
}

func (c *metaCase) status() error {
	if c.code == codes.OK {
		return nil
	}
	st := status.New(c.code, c.msg)
	if c.details {
		st, _ = st.WithDetails(&errdetails.ErrorInfo{Reason: "r", Domain: "d"}, &errdetails.RetryInfo{})
	}
	return st.Err()
}

func (mw *metaWorld) desc() *grpc.ServiceDesc {
	u := func(_ any, ctx context.Context, dec func(any) error, _ grpc.UnaryServerInterceptor) (any, error) {
		var m wrapperspb.StringValue
		if err := dec(&m); err != nil {
			return nil, err
		}
		c := mw.caseOf(ctx, m.Value)
		if c == nil {
			return &wrapperspb.StringValue{Value: "alive"}, nil
		}
		if c.hdr != nil {
			_ = grpc.SetHeader(ctx, c.hdr)
		}
		_ = grpc.SetHeader(ctx, metadata.Pairs("h-case", strconv.Itoa(c.id)))
		if c.tlr != nil {
			_ = grpc.SetTrailer(ctx, c.tlr)
		}
		_ = grpc.SetTrailer(ctx, metadata.Pairs("t-case", strconv.Itoa(c.id)))
		if err := c.status(); err != nil {
			return nil, err
		}
		return &wrapperspb.StringValue{Value: "ok"}, nil
	}
	b := func(_ any, st grpc.ServerStream) error {
		var m wrapperspb.StringValue
		_ = st.RecvMsg(&m)
		c := mw.caseOf(st.Context(), m.Value)
		if c == nil {
			return status.Error(codes.Internal, "no such case")
		}
		half := metadata.MD{}
		rest := metadata.MD{}
		i := 0
		for k, v := range c.hdr {
			if i%2 == 0 {
				half[k] = v
			} else {
				rest[k] = v
			}
			i++
		}
		hcase := metadata.Pairs("h-case", strconv.Itoa(c.id))
		tcase := metadata.Pairs("t-case", strconv.Itoa(c.id))
		switch c.order % 3 {
		case 0:
			_ = st.SetHeader(half)
			_ = st.SetHeader(rest)
			_ = st.SetHeader(hcase)
			st.SetTrailer(c.tlr)
			st.SetTrailer(tcase)
			_ = st.SendMsg(&wrapperspb.StringValue{Value: "r"})
		case 1:
			_ = st.SetHeader(half)
			_ = st.SetHeader(hcase)
			_ = st.SendHeader(rest)
			_ = st.SendMsg(&wrapperspb.StringValue{Value: "r"})
			st.SetTrailer(c.tlr)
			st.SetTrailer(tcase)
		default:
			st.SetTrailer(c.tlr)
			st.SetTrailer(tcase)
			_ = st.SetHeader(c.hdr) // goes out with the close frame
			_ = st.SetHeader(hcase)
		}
		return c.status()
	}
	return &grpc.ServiceDesc{ServiceName: "v.M", HandlerType: (*any)(nil),
		Methods: []grpc.MethodDesc{{MethodName: "U", Handler: u}},
		Streams: []grpc.StreamDesc{{StreamName: "B", Handler: b, ClientStreams: true, ServerStreams: true}}}
}

func mdEq(a, b metadata.MD) bool {
	norm := func(m metadata.MD) string {
		var ks []string
		for k, v := range m {
			if len(v) > 0 {
				ks = append(ks, k+"="+strings.Join(v, "\x00"))
			}
		}
		sort.Strings(ks)
		return strings.Join(ks, "\x01")
	}
	return norm(a) == norm(b)
}

func allStrings(c *metaCase) []string {
	out := []string{c.msg}
	for _, md := range []metadata.MD{c.hdr, c.tlr, c.req} {
		for k, vs := range md {
			out = append(out, k)
			out = append(out, vs...)
		}
	}
	for k, v := range c.creds {
		out = append(out, k, v)
	}
	for k, v := range c.creds2 {
		out = append(out, k, v)
	}
	return out
}

func hexList(ss []string) string {
	var a []string
	for _, s := range ss {
		if s == "" {
			a = append(a, "-")
		} else {
			a = append(a, hex.EncodeToString([]byte(s)))
		}
	}
	if len(a) == 0 {
		return "-"
	}
	return strings.Join(a, ",")
}

var mdPool = []metadata.MD{nil, {}, metadata.Pairs("a", "1"), metadata.Pairs("a", "1", "a", "2", "b", "x"),
	metadata.Pairs("k-bin", "plain"), metadata.Pairs("u", "héllo wörld ✓"), metadata.Pairs("e", "")}
var badMDPool = []metadata.MD{metadata.Pairs("x-bin", "\xff\xfe"), metadata.Pairs("v", "ok", "x-bin", "\x80")}

// pristineOf: deep copies of the pool entries taken before any of them was handed to the library, keyed by the
// identity of the shared object
var pristineOf = func() map[uintptr]metadata.MD {
	m := map[uintptr]metadata.MD{}
	for _, md := range append(append([]metadata.MD{}, mdPool...), badMDPool...) {
		if md != nil {
			m[reflect.ValueOf(md).Pointer()] = md.Copy()
		}
	}
	return m
}()

func pristine(md metadata.MD) metadata.MD {
	if md == nil {
		return metadata.MD{}
	}
	return pristineOf[reflect.ValueOf(md).Pointer()].Copy()
}

func TestW2Meta(t *testing.T) {
	ops := newOps(t, "meta")
	defer ops.close()
	rng := newRng(79)
	n := envInt("VERIF_N", 150)
	id := 0
	for i := 0; i < n; i++ {
		includeBad := rng.Intn(12) == 0
		synctest.Test(t, func(t *testing.T) {
			mw := &metaWorld{w2: startW2(t, ops, false), cases: map[int]*metaCase{}, seen: map[int]metadata.MD{}}
			defer mw.w2.stop()
			mw.handler.RegisterService(mw.desc(), struct{}{})
			// the tunnel is opened with metadata of its own (credentials, ids): no RPC may see it as ITS request metadata
			ctx, cancel := context.WithCancel(metadata.AppendToOutgoingContext(context.Background(), "authorization", "tunnel-secret", "tunnel-id", "42"))
			defer cancel()
			// half of the scenarios run over a REVERSE tunnel, through the round-robin channel of the network server
			var ch grpc.ClientConnInterface
			via := "fwd"
			if rng.Intn(2) == 0 {
				via = "rev"
				rts := grpctunnel.NewReverseTunnelServer(mw.stub)
				rts.RegisterService(mw.desc(), struct{}{})
				go func() { _, _ = rts.Serve(ctx) }()
				synctest.Wait()
				rch := mw.handler.AsChannel()
				wctx, wcancel := context.WithTimeout(context.Background(), 5*time.Second)
				if err := rch.WaitForReady(wctx); err != nil {
					wcancel()
					t.Fatalf("reverse tunnel not ready: %v", err)
				}
				wcancel()
				ch = rch
			} else {
				fch, err := grpctunnel.NewChannel(mw.stub).Start(ctx)
				if err != nil {
					t.Fatalf("start: %v", err)
				}
				ch = fch
			}
			synctest.Wait()
			ops.add("meta.init via="+via, "ok")
			for j := 0; j < 6; j++ {
				id++
				c := &metaCase{id: id, shape: []string{"U", "B"}[rng.Intn(2)], code: codes.Code(rng.Intn(17)),
					msg: []string{"", "boom", "ünï ✓", "a b c"}[rng.Intn(4)], details: rng.Intn(3) == 0,
					hdr: mdPool[rng.Intn(len(mdPool))], tlr: mdPool[rng.Intn(len(mdPool))], req: mdPool[rng.Intn(len(mdPool))],
					outgoing: rng.Intn(3) != 0, order: rng.Intn(3)}
				if rng.Intn(3) == 0 {
					c.creds = map[string]string{"authorization": "bearer t", "x-cred": "1"}
					switch rng.Intn(3) {
					case 1:
						// a credential under a key the caller's outgoing metadata already uses: both values reach the handler
						for k := range c.req {
							if c.outgoing && !strings.HasSuffix(k, "-bin") {
								c.creds[k] = "from-creds"
								break
							}
						}
					case 2:
						c.creds2 = map[string]string{"authorization": "second", "x-cred2": "2"}
					}
				}
				if includeBad && j == 2 {
					switch rng.Intn(4) {
					case 0:
						c.req, c.outgoing = badMDPool[rng.Intn(2)], true
					case 1:
						c.hdr = badMDPool[rng.Intn(2)]
					case 2:
						c.tlr = badMDPool[rng.Intn(2)]
					default:
						c.msg, c.code = "bad \xff text", codes.Internal
					}
				}
				c.hdrWant = metadata.Join(pristine(c.hdr), metadata.Pairs("h-case", strconv.Itoa(c.id)))
				c.tlrWant = metadata.Join(pristine(c.tlr), metadata.Pairs("t-case", strconv.Itoa(c.id)))
				mw.mu.Lock()
				mw.cases[c.id] = c
				mw.mu.Unlock()
				res := mw.runCase(ch, c)
				ops.add(fmt.Sprintf("meta.rpc id=%d shape=%s code=%d creds=%s outgoing=%s strs=%s", c.id, c.shape, c.code,
					b01(c.creds != nil), b01(c.outgoing), hexList(allStrings(c))), res)
			}
		})
	}
}

func (mw *metaWorld) runCase(ch grpc.ClientConnInterface, c *metaCase) (res string) {
	defer func() {
		if p := recover(); p != nil {
			res = fmt.Sprintf("PANIC(%v)", p)
			res = strings.ReplaceAll(res, " ", "_")
		}
	}()
	ctx, cancel := context.WithTimeout(context.Background(), 10*time.Second)
	defer cancel()
	var wantReq metadata.MD
	if c.outgoing {
		ctx = metadata.NewOutgoingContext(ctx, c.req.Copy())
		wantReq = c.req.Copy()
	}
	if wantReq == nil {
		wantReq = metadata.MD{}
	}
	for k, v := range c.creds {
		wantReq.Append(k, v)
	}
	for k, v := range c.creds2 {
		wantReq.Append(k, v)
	}
	caseMsg := "case:" + strconv.Itoa(c.id)
	var h, tr metadata.MD
	var p peer.Peer
	opts := []grpc.CallOption{grpc.Header(&h), grpc.Trailer(&tr), grpc.Peer(&p)}
	if c.creds != nil {
		opts = append(opts, grpc.PerRPCCredentials(mapCreds(c.creds)))
	}
	if c.creds2 != nil {
		opts = append(opts, grpc.PerRPCCredentials(mapCreds(c.creds2)))
	}
	var rpcErr error
	var hdrAtFirstMsg metadata.MD
	if c.shape == "U" {
		var resp wrapperspb.StringValue
		rpcErr = ch.Invoke(ctx, "/v.M/U", &wrapperspb.StringValue{Value: caseMsg}, &resp, opts...)
		hdrAtFirstMsg = h
	} else {
		str, err := ch.NewStream(ctx, &grpc.StreamDesc{ClientStreams: true, ServerStreams: true}, "/v.M/B", opts...)
		if err != nil {
			rpcErr = err
		} else {
			_ = str.SendMsg(&wrapperspb.StringValue{Value: caseMsg})
			_ = str.CloseSend()
			first := true
			for {
				var m wrapperspb.StringValue
				err := str.RecvMsg(&m)
				if err == nil && first {
					first = false
					hdrAtFirstMsg, _ = str.Header() // must be available no later than the first message
				}
				if err != nil {
					if err != io.EOF {
						rpcErr = err
					}
					break
				}
			}
			if hdrAtFirstMsg == nil {
				hdrAtFirstMsg, _ = str.Header()
			}
			if !mdEq(str.Trailer(), tr) {
				tr = metadata.Pairs("MISMATCH-BETWEEN-TRAILER-AND-OPTION", "1")
			}
		}
	}
	synctest.Wait()
	// verdicts: delivered == set
	stOK := false
	if c.code == codes.OK {
		stOK = rpcErr == nil
	} else if s, ok := status.FromError(rpcErr); ok && rpcErr != nil {
		stOK = s.Code() == c.code && s.Message() == c.msg
		if c.details {
			want, _ := status.FromError(c.status())
			stOK = stOK && proto.Equal(s.Proto(), want.Proto())
		} else {
			stOK = stOK && len(s.Details()) == 0
		}
	}
	mw.mu.Lock()
	seen := mw.seen[c.id]
	mw.mu.Unlock()
	hdrOK := mdEq(hdrAtFirstMsg, c.hdrWant) && mdEq(h, c.hdrWant)
	tlrOK := mdEq(tr, c.tlrWant)
	reqOK := seen != nil && mdEq(seen, wantReq)
	peerOK := true // forward tunnel: peer of the carrier, if any
	// is the tunnel still usable?
	var resp wrapperspb.StringValue
	actx, acancel := context.WithTimeout(context.Background(), 5*time.Second)
	aerr := ch.Invoke(actx, "/v.M/U", &wrapperspb.StringValue{Value: "alive?"}, &resp)
	acancel()
	alive := aerr == nil
	_ = peerOK
	return fmt.Sprintf("st=%s hdr=%s tlr=%s req=%s alive=%s", b01(stOK), b01(hdrOK), b01(tlrOK), b01(reqOK), b01(alive))
}

// TestPureUTF8: Metadata.validUTF8 vs utf8.Valid, and Metadata.marshalable vs
// proto.Marshal of the converted metadata.
func TestPureUTF8(t *testing.T) {
	w := newOps(t, "utf8")
	defer w.close()
	rng := newRng(83)
	emit := func(b []byte) {
		md := metadata.MD{"k": []string{string(b)}}
		_, err := proto.Marshal(grpctunnel.VerifToProto(md))
		w.add("meta.utf8 "+hx(b), fmt.Sprintf("valid=%s marshal=%s", b01(utf8.Valid(b)), b01(err == nil)))
	}
	fixed := []string{"", "a", "é", "✓", "\xff", "\xc0\x80", "\xe0\x80\x80", "\xed\xa0\x80", "\xf4\x90\x80\x80", "\xf0\x9f\x98\x80", "\xc2", "\xe2\x82", "a\x80b", "\xf8\x88\x80\x80\x80", "\xef\xbf\xbd"}
	for _, s := range fixed {
		emit([]byte(s))
	}
	for i := 0; i < envInt("VERIF_N", 3000); i++ {
		n := rng.Intn(6)
		b := make([]byte, n)
		for j := range b {
			switch rng.Intn(3) {
			case 0:
				b[j] = byte(rng.Intn(128))
			case 1:
				b[j] = byte(0x80 + rng.Intn(0x40))
			default:
				b[j] = byte(0xC0 + rng.Intn(0x40))
			}
		}
		emit(b)
	}
}
