//go:build verif

package harness

// C11 on the public API over real grpc-go: where the negotiate header is sent
// and recognised (handler.go, reverse_server.go, tunnel_client.go Start), in
// all four roles the library can play, against a hand-written peer that is
// either a current implementation (advertises negotiation) or a legacy one
// (no header: revision zero only, must never be sent a settings frame).

import (
	"strings"
	"strconv"
	"context"
	"fmt"
	"net"
	"sync"
	"testing"
	"testing/synctest"
	"time"

	"github.com/jhump/grpctunnel"
	"github.com/jhump/grpctunnel/tunnelpb"
	"google.golang.org/grpc"
	"google.golang.org/grpc/credentials/insecure"
	"google.golang.org/grpc/metadata"
	"google.golang.org/grpc/test/bufconn"
	"google.golang.org/protobuf/types/known/wrapperspb"
)

func negDesc() *grpc.ServiceDesc {
	u := func(_ any, _ context.Context, dec func(any) error, _ grpc.UnaryServerInterceptor) (any, error) {
		var m wrapperspb.StringValue
		if err := dec(&m); err != nil {
			return nil, err
		}
		return &m, nil
	}
	return &grpc.ServiceDesc{ServiceName: "v.N", HandlerType: (*any)(nil), Methods: []grpc.MethodDesc{{MethodName: "U", Handler: u}}}
}

// rawPeerServer is a hand-written TunnelService: the peer of the library when
// the library is the grpc CLIENT of the carrier (NewChannel.Start, ReverseTunnelServer.Serve).
type rawPeerServer struct {
	tunnelpb.UnimplementedTunnelServiceServer
	advertise bool
	mu        sync.Mutex
	reqHeader bool                       // the library's request metadata carried the negotiate header
	fromLib   []string                   // kinds of the frames received from the library, in order
	revs      []int32                    // revision of every new_stream frame received
	sendC2S   chan *tunnelpb.ClientToServer // frames to send on a reverse tunnel (we are the tunnel client there)
}

func (p *rawPeerServer) note(kind string) {
	p.mu.Lock()
	p.fromLib = append(p.fromLib, kind)
	p.mu.Unlock()
}

// OpenTunnel: the library is the calling end (tunnel client); we are a tunnel server.
func (p *rawPeerServer) OpenTunnel(stream tunnelpb.TunnelService_OpenTunnelServer) error {
	md, _ := metadata.FromIncomingContext(stream.Context())
	p.mu.Lock()
	p.reqHeader = len(md.Get(grpctunnel.VerifNegotiateKey)) > 0
	p.mu.Unlock()
	if p.advertise {
		_ = stream.SendHeader(metadata.Pairs(grpctunnel.VerifNegotiateKey, grpctunnel.VerifNegotiateVal))
		_ = stream.Send(&tunnelpb.ServerToClient{StreamId: -1, Frame: &tunnelpb.ServerToClient_Settings{Settings: &tunnelpb.Settings{
			InitialWindowSize: 65536, SupportedProtocolRevisions: []tunnelpb.ProtocolRevision{0, 1}}}})
	} else {
		_ = stream.SendHeader(metadata.MD{})
	}
	for {
		in, err := stream.Recv()
		if err != nil {
			return nil
		}
		if ns := in.GetNewStream(); ns != nil {
			p.mu.Lock()
			p.revs = append(p.revs, int32(ns.ProtocolRevision))
			p.mu.Unlock()
			p.note("new")
			// answer: headers, empty response, OK
			_ = stream.Send(&tunnelpb.ServerToClient{StreamId: in.StreamId, Frame: &tunnelpb.ServerToClient_ResponseHeaders{ResponseHeaders: &tunnelpb.Metadata{}}})
			_ = stream.Send(&tunnelpb.ServerToClient{StreamId: in.StreamId, Frame: &tunnelpb.ServerToClient_ResponseMessage{ResponseMessage: &tunnelpb.MessageData{Size: 0}}})
			_ = stream.Send(&tunnelpb.ServerToClient{StreamId: in.StreamId, Frame: &tunnelpb.ServerToClient_CloseStream{CloseStream: &tunnelpb.CloseStream{}}})
		}
	}
}

// OpenReverseTunnel: the library (ReverseTunnelServer.Serve) is the serving end; we are the tunnel client.
func (p *rawPeerServer) OpenReverseTunnel(stream tunnelpb.TunnelService_OpenReverseTunnelServer) error {
	md, _ := metadata.FromIncomingContext(stream.Context())
	p.mu.Lock()
	p.reqHeader = len(md.Get(grpctunnel.VerifNegotiateKey)) > 0
	p.mu.Unlock()
	if p.advertise {
		_ = stream.SendHeader(metadata.Pairs(grpctunnel.VerifNegotiateKey, grpctunnel.VerifNegotiateVal))
	} else {
		_ = stream.SendHeader(metadata.MD{})
	}
	go func() {
		for f := range p.sendC2S {
			_ = stream.Send(f)
		}
	}()
	for {
		in, err := stream.Recv()
		if err != nil {
			return nil
		}
		switch in.Frame.(type) {
		case *tunnelpb.ServerToClient_Settings:
			p.note("settings")
			p.note("revs:" + fmtRevs(in.GetSettings().GetSupportedProtocolRevisions()))
		case *tunnelpb.ServerToClient_CloseStream:
			p.note(fmt.Sprintf("close:%d", in.GetCloseStream().GetStatus().GetCode()))
		case *tunnelpb.ServerToClient_WindowUpdate:
			p.note("wu")
		default:
			p.note("other")
		}
	}
}

// fmtRevs renders the revision list of a settings frame ("-" for an empty one).
func fmtRevs(rs []tunnelpb.ProtocolRevision) string {
	if len(rs) == 0 {
		return "-"
	}
	var a []string
	for _, r := range rs {
		a = append(a, strconv.Itoa(int(r)))
	}
	return strings.Join(a, ",")
}

func TestW2Negotiate(t *testing.T) {
	ops := newOps(t, "negotiate")
	defer ops.close()
	for _, role := range []string{"fwd-call", "rev-serve", "fwd-serve", "rev-call"} {
		for _, lib := range []string{"enabled", "disabled"} {
			for _, peer := range []string{"legacy", "enabled"} {
				synctest.Test(t, func(t *testing.T) {
					ops.add(fmt.Sprintf("n.case role=%s lib=%s peer=%s", role, lib, peer), negCase(t, role, lib == "disabled", peer == "enabled"))
				})
			}
		}
	}
}

func negCase(t *testing.T, role string, libDisabled, peerAdvertises bool) string {
	lis := bufconn.Listen(1 << 20)
	gs := grpc.NewServer()
	dial := func() *grpc.ClientConn {
		cc, err := grpc.NewClient("passthrough:///bufnet",
			grpc.WithContextDialer(func(ctx context.Context, _ string) (net.Conn, error) { return lis.DialContext(ctx) }),
			grpc.WithTransportCredentials(insecure.NewCredentials()))
		if err != nil {
			t.Fatal(err)
		}
		return cc
	}
	ctx, cancel := context.WithCancel(context.Background())
	defer func() { cancel(); synctest.Wait(); gs.Stop(); synctest.Wait() }()
	var libOpts []grpctunnel.TunnelOption
	if libDisabled {
		libOpts = append(libOpts, grpctunnel.WithDisableFlowControl())
	}
	switch role {
	case "fwd-call", "rev-serve":
		// the library is the grpc client of the carrier; the peer is a hand-written TunnelService
		p := &rawPeerServer{advertise: peerAdvertises, sendC2S: make(chan *tunnelpb.ClientToServer, 8)}
		tunnelpb.RegisterTunnelServiceServer(gs, p)
		go func() { _ = gs.Serve(lis) }()
		cc := dial()
		defer cc.Close()
		stub := tunnelpb.NewTunnelServiceClient(cc)
		if role == "fwd-call" {
			ch, err := grpctunnel.NewChannel(stub, libOpts...).Start(ctx)
			if err != nil {
				return "start-failed:" + errClass(err)
			}
			var resp wrapperspb.StringValue
			rctx, rcancel := context.WithTimeout(context.Background(), 5*time.Second)
			rpc := errClass(ch.Invoke(rctx, "/v.N/U", &wrapperspb.StringValue{}, &resp))
			rcancel()
			synctest.Wait()
			p.mu.Lock()
			defer p.mu.Unlock()
			rev := int32(-1)
			if len(p.revs) > 0 {
				rev = p.revs[0]
			}
			return fmt.Sprintf("header=%s rev=%d rpc=%s", b01(p.reqHeader), rev, rpc)
		}
		rts := grpctunnel.NewReverseTunnelServer(stub, libOpts...)
		rts.RegisterService(negDesc(), struct{}{})
		go func() { _, _ = rts.Serve(ctx) }()
		synctest.Wait()
		// we (the tunnel client) open a unary RPC with the revision a conforming client would use
		rev := tunnelpb.ProtocolRevision(0)
		p.mu.Lock()
		gotSettings := len(p.fromLib) > 0 && p.fromLib[0] == "settings"
		p.mu.Unlock()
		if gotSettings && !libDisabled {
			rev = 1
		}
		p.sendC2S <- &tunnelpb.ClientToServer{StreamId: 1, Frame: &tunnelpb.ClientToServer_NewStream{NewStream: &tunnelpb.NewStream{
			MethodName: "v.N/U", ProtocolRevision: rev, InitialWindowSize: 65536}}}
		p.sendC2S <- &tunnelpb.ClientToServer{StreamId: 1, Frame: &tunnelpb.ClientToServer_RequestMessage{RequestMessage: &tunnelpb.MessageData{Size: 0}}}
		p.sendC2S <- &tunnelpb.ClientToServer{StreamId: 1, Frame: &tunnelpb.ClientToServer_HalfClose{}}
		synctest.Wait()
		close(p.sendC2S)
		p.mu.Lock()
		defer p.mu.Unlock()
		settings, closed, revs := 0, "none", "-"
		for _, k := range p.fromLib {
			if k == "settings" {
				settings++
			}
			if len(k) > 6 && k[:6] == "close:" {
				closed = k[6:]
			}
			if len(k) > 5 && k[:5] == "revs:" {
				revs = k[5:]
			}
		}
		return fmt.Sprintf("header=%s settings=%d revs=%s close=%s", b01(p.reqHeader), settings, revs, closed)
	default:
		// the library is the grpc server of the carrier (TunnelServiceHandler); the peer is a hand-written grpc client
		handler := grpctunnel.NewTunnelServiceHandler(grpctunnel.TunnelServiceHandlerOptions{DisableFlowControl: libDisabled})
		handler.RegisterService(negDesc(), struct{}{})
		tunnelpb.RegisterTunnelServiceServer(gs, handler.Service())
		go func() { _ = gs.Serve(lis) }()
		cc := dial()
		defer cc.Close()
		stub := tunnelpb.NewTunnelServiceClient(cc)
		octx := ctx
		if peerAdvertises {
			octx = metadata.AppendToOutgoingContext(ctx, grpctunnel.VerifNegotiateKey, grpctunnel.VerifNegotiateVal)
		}
		if role == "fwd-serve" {
			str, err := stub.OpenTunnel(octx)
			if err != nil {
				return "open-failed:" + errClass(err)
			}
			hdr, _ := str.Header()
			var mu sync.Mutex
			var kinds []string
			go func() {
				for {
					in, err := str.Recv()
					if err != nil {
						return
					}
					mu.Lock()
					switch in.Frame.(type) {
					case *tunnelpb.ServerToClient_Settings:
						kinds = append(kinds, "settings")
						kinds = append(kinds, "revs:"+fmtRevs(in.GetSettings().GetSupportedProtocolRevisions()))
					case *tunnelpb.ServerToClient_CloseStream:
						kinds = append(kinds, fmt.Sprintf("close:%d", in.GetCloseStream().GetStatus().GetCode()))
					default:
						kinds = append(kinds, "other")
					}
					mu.Unlock()
				}
			}()
			synctest.Wait()
			mu.Lock()
			gotSettings := len(kinds) > 0 && kinds[0] == "settings"
			mu.Unlock()
			rev := tunnelpb.ProtocolRevision(0)
			if gotSettings && !libDisabled {
				rev = 1
			}
			_ = str.Send(&tunnelpb.ClientToServer{StreamId: 1, Frame: &tunnelpb.ClientToServer_NewStream{NewStream: &tunnelpb.NewStream{
				MethodName: "v.N/U", ProtocolRevision: rev, InitialWindowSize: 65536}}})
			_ = str.Send(&tunnelpb.ClientToServer{StreamId: 1, Frame: &tunnelpb.ClientToServer_RequestMessage{RequestMessage: &tunnelpb.MessageData{Size: 0}}})
			_ = str.Send(&tunnelpb.ClientToServer{StreamId: 1, Frame: &tunnelpb.ClientToServer_HalfClose{}})
			synctest.Wait()
			mu.Lock()
			defer mu.Unlock()
			settings, closed, revs := 0, "none", "-"
			for _, k := range kinds {
				if k == "settings" {
					settings++
				}
				if len(k) > 6 && k[:6] == "close:" {
					closed = k[6:]
				}
				if len(k) > 5 && k[:5] == "revs:" {
					revs = k[5:]
				}
			}
			return fmt.Sprintf("header=%s settings=%d revs=%s close=%s", b01(len(hdr.Get(grpctunnel.VerifNegotiateKey)) > 0), settings, revs, closed)
		}
		// rev-call: we open a reverse tunnel and act as its tunnel server; the handler's channel is the calling end
		str, err := stub.OpenReverseTunnel(octx)
		if err != nil {
			return "open-failed:" + errClass(err)
		}
		hdr, _ := str.Header()
		if peerAdvertises {
			_ = str.Send(&tunnelpb.ServerToClient{StreamId: -1, Frame: &tunnelpb.ServerToClient_Settings{Settings: &tunnelpb.Settings{
				InitialWindowSize: 65536, SupportedProtocolRevisions: []tunnelpb.ProtocolRevision{0, 1}}}})
		}
		var mu sync.Mutex
		rev := int32(-1)
		go func() {
			for {
				in, err := str.Recv()
				if err != nil {
					return
				}
				if ns := in.GetNewStream(); ns != nil {
					mu.Lock()
					if rev < 0 {
						rev = int32(ns.ProtocolRevision)
					}
					mu.Unlock()
					_ = str.Send(&tunnelpb.ServerToClient{StreamId: in.StreamId, Frame: &tunnelpb.ServerToClient_ResponseHeaders{ResponseHeaders: &tunnelpb.Metadata{}}})
					_ = str.Send(&tunnelpb.ServerToClient{StreamId: in.StreamId, Frame: &tunnelpb.ServerToClient_ResponseMessage{ResponseMessage: &tunnelpb.MessageData{Size: 0}}})
					_ = str.Send(&tunnelpb.ServerToClient{StreamId: in.StreamId, Frame: &tunnelpb.ServerToClient_CloseStream{CloseStream: &tunnelpb.CloseStream{}}})
				}
			}
		}()
		synctest.Wait()
		var resp wrapperspb.StringValue
		rctx, rcancel := context.WithTimeout(context.Background(), 5*time.Second)
		rpc := errClass(handler.AsChannel().Invoke(rctx, "/v.N/U", &wrapperspb.StringValue{}, &resp))
		rcancel()
		synctest.Wait()
		mu.Lock()
		defer mu.Unlock()
		return fmt.Sprintf("header=%s rev=%d rpc=%s", b01(len(hdr.Get(grpctunnel.VerifNegotiateKey)) > 0), rev, rpc)
	}
}
