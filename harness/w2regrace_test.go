//go:build verif

package harness

// Registry under real concurrency (C12: "... from many goroutines"): real
// grpc-go on bufconn, real clock, real parallelism, NO bubble.  Every round
// uses a FRESH affinity key, so that the per-key pool is created by whoever
// comes first, and forces the n registrations (and optionally a WaitForReady
// on the same key) to reach the registry at the same instant: the AffinityKey
// callback, which runs immediately before registration, is a barrier.  What is
// observed once all open callbacks have fired is independent of the schedule
// (the registry model's answer): all n tunnels are enumerated, the key's
// channel is ready and n consecutive RPCs through it reach n distinct tunnels,
// the waiter is released; after the tunnels ended nothing is left.

import (
	"context"
	"fmt"
	"net"
	"runtime"
	"strconv"
	"strings"
	"sync"
	"sync/atomic"
	"testing"
	"time"

	"github.com/jhump/grpctunnel"
	"github.com/jhump/grpctunnel/tunnelpb"
	"google.golang.org/grpc"
	"google.golang.org/grpc/credentials/insecure"
	"google.golang.org/grpc/metadata"
	"google.golang.org/grpc/test/bufconn"
	"google.golang.org/protobuf/types/known/wrapperspb"
)

type rrBarrier struct {
	n       int32
	arrived atomic.Int32
	ch      chan struct{}
}

func (b *rrBarrier) arrive() {
	if b.arrived.Add(1) == b.n {
		close(b.ch)
	}
	select {
	case <-b.ch:
	case <-time.After(300 * time.Millisecond):
	}
}

func TestW2RegistryRace(t *testing.T) {
	ops := newOps(t, "regrace")
	defer ops.close()
	if runtime.GOMAXPROCS(0) < 4 {
		defer runtime.GOMAXPROCS(runtime.GOMAXPROCS(4))
	}
	grpctunnel.VerifSetHook(nil)
	rounds := envInt("VERIF_N", 120)
	rng := newRng(77)

	var bar atomic.Pointer[rrBarrier]
	var opened, closed atomic.Int32
	handler := grpctunnel.NewTunnelServiceHandler(grpctunnel.TunnelServiceHandlerOptions{
		OnReverseTunnelOpen:  func(grpctunnel.TunnelChannel) { opened.Add(1) },
		OnReverseTunnelClose: func(grpctunnel.TunnelChannel) { closed.Add(1) },
		AffinityKey: func(ch grpctunnel.TunnelChannel) any {
			md, _ := metadata.FromIncomingContext(ch.Context())
			if b := bar.Load(); b != nil {
				b.arrive() // all registrations of the round proceed together
			}
			if v := md.Get("key"); len(v) > 0 {
				return v[0]
			}
			return nil
		},
	})
	lis := bufconn.Listen(1 << 20)
	gs := grpc.NewServer()
	tunnelpb.RegisterTunnelServiceServer(gs, handler.Service())
	go func() { _ = gs.Serve(lis) }()
	defer gs.Stop()
	cc, err := grpc.NewClient("passthrough:///bufnet",
		grpc.WithContextDialer(func(ctx context.Context, _ string) (net.Conn, error) { return lis.DialContext(ctx) }),
		grpc.WithTransportCredentials(insecure.NewCredentials()))
	if err != nil {
		t.Fatal(err)
	}
	defer cc.Close()
	stub := tunnelpb.NewTunnelServiceClient(cc)

	waitFor := func(cond func() bool, d time.Duration) bool {
		end := time.Now().Add(d)
		for !cond() {
			if time.Now().After(end) {
				return false
			}
			time.Sleep(200 * time.Microsecond)
		}
		return true
	}

	for r := 0; r < rounds; r++ {
		n := 2 + rng.Intn(3)
		withWaiter := rng.Intn(2) == 0
		key := fmt.Sprintf("k%d-%d", seed(), r)
		op := fmt.Sprintf("rr.round n=%d waiter=%s", n, b2s(withWaiter))
		beginOp(op)
		opened.Store(0)
		closed.Store(0)
		b := &rrBarrier{n: int32(n), ch: make(chan struct{})}
		bar.Store(b)
		ctx, cancel := context.WithCancel(context.Background())
		var served sync.WaitGroup
		for i := 0; i < n; i++ {
			rts := grpctunnel.NewReverseTunnelServer(stub)
			rts.RegisterService(echoDesc(r*10+i+1), struct{}{})
			sctx := metadata.NewOutgoingContext(ctx, metadata.Pairs("tid", strconv.Itoa(r*10+i+1), "key", key))
			served.Add(1)
			go func() {
				defer served.Done()
				_, _ = rts.Serve(sctx)
			}()
		}
		waiterRes := make(chan string, 1)
		if withWaiter {
			go func() {
				<-b.ch // together with the registrations
				wctx, wcancel := context.WithTimeout(context.Background(), 3*time.Second)
				defer wcancel()
				if err := handler.KeyAsChannel(key).WaitForReady(wctx); err != nil {
					waiterRes <- "stuck"
				} else {
					waiterRes <- "ok"
				}
			}()
		} else {
			waiterRes <- "-"
		}
		waitFor(func() bool { return int(opened.Load()) >= n }, 5*time.Second)
		nOpen := int(opened.Load())
		all := len(handler.AllReverseTunnels())
		kch := handler.KeyAsChannel(key)
		ready := kch.Ready()
		seen := map[string]bool{}
		for i := 0; i < n; i++ {
			var resp wrapperspb.StringValue
			rctx, rcancel := context.WithTimeout(context.Background(), 3*time.Second)
			err := kch.Invoke(rctx, "/v.E/Who", &wrapperspb.StringValue{Value: "q"}, &resp)
			rcancel()
			if err == nil {
				seen[strings.SplitN(resp.Value, " ", 2)[0]] = true
			}
		}
		wres := <-waiterRes
		bar.Store(nil)
		cancel()
		served.Wait()
		waitFor(func() bool { return int(closed.Load()) >= nOpen }, 5*time.Second)
		waitFor(func() bool { return len(handler.AllReverseTunnels()) == 0 && !kch.Ready() }, 5*time.Second)
		ops.add(op, fmt.Sprintf("open=%d all=%d ready=%s distinct=%d waiter=%s closed=%d left=%d readyafter=%s",
			nOpen, all, b01(ready), len(seen), wres, closed.Load(), len(handler.AllReverseTunnels()), b01(kch.Ready())))
	}
}
