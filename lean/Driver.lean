import Driver.Main
