import TunnelModel
import Driver.Util
import Driver.SWorld
/-! line-protocol commands for the client endpoint model (C-world) -/
namespace Driver
open TunnelModel TunnelModel.LFrame

def showHexName (m : List Nat) : String :=
  if m.isEmpty then "-" else
  String.join (m.map (fun b => let h := "0123456789abcdef".toList; String.ofList [h[b / 16]!, h[b % 16]!]))

def showC2S (sid : Sid) : C2S Nat → String
  | .newStream m md rev win => s!"{sid}:new:{showHexName m}:{rev}:{win}\{{showMD md}}"
  | .msg size d => s!"{sid}:msg:{size}:{d.length}"
  | .more d => s!"{sid}:more:{d.length}"
  | .halfClose => s!"{sid}:half"
  | .cancel => s!"{sid}:cancel"
  | .windowUpdate n => s!"{sid}:wu:{n}"
  | .unset => s!"{sid}:unset"

structure CWState where
  cfg : CCfg := {}
  cli : Cli Nat := {}
  invokes : List (Sid × InvStage Nat) := []     -- unary calls made through Invoke and the call each waits for

def showCObs (st : CWState) (o : COut Nat) : String :=
  if st.cli.streams.any (·.2.unsupported) then "UNSUPPORTED" else
  let fs := (sortBy (fun a b => a.1 < b.1) o.frames).map (fun (sid, f) => showC2S sid f)
  let ds := sortBy (· < ·) (o.dones.map (fun (sid, op, r) => s!"{sid}.{op}:{showRes r}"))
  let es := sortBy (· < ·) o.events
  s!"F=[{joinWith " " fs}] D=[{joinWith " " ds}] E=[{joinWith ";" es}] T=[{showIds st.cli.table}] L={st.cli.lastStreamID} G={if st.cli.finished.isSome then 0 else 1},{cliWatchers st.cli},0"

/-- advance the `Invoke` scripts whose pending call completed in `o` (their
    stream-level completions are internal to `Invoke`: they are replaced by the
    final `invoke` result when the script ends) -/
def settleInvokes : Nat → CWState → COut Nat → CWState × COut Nat
  | 0, st, o => (st, o)
  | fuel + 1, st, o =>
    match st.invokes.findSome? (fun (sid, stage) =>
        (o.dones.find? (fun d => d.1 == sid && d.2.1 == stage.waitsFor)).map (fun d => (sid, stage, d.2.2))) with
    | none => (st, o)
    | some (sid, stage, res) =>
      -- drop the first matching internal completion
      let rec dropFirst : List (Sid × String × Res Nat) → List (Sid × String × Res Nat)
        | [] => []
        | d :: ds => if d.1 == sid && d.2.1 == stage.waitsFor then ds else d :: dropFirst ds
      let o1 : COut Nat := { o with dones := dropFirst o.dones }
      match Inv.next stage res with
      | .inr final =>
        let st1 := { st with invokes := st.invokes.filter (·.1 != sid) }
        -- a second response makes Invoke cancel the stream
        let (st2, o2) := match stage, res with
          | .recv2 _, .msg _ =>
            let (cli, oc) := st1.cli.onCall st1.cfg sid .cancel
            ({ st1 with cli := cli }, o1.add oc)
          | _, _ => (st1, o1)
        -- io.EOF from SendMsg (carrier closed) and from RecvMsg (OK end without a response) are the same Go error
        let final' : Res Nat := match final with | .other "carrier-closed" => .eof | r => r
        settleInvokes fuel st2 { o2 with dones := o2.dones ++ [(sid, "invoke", final')] }
      | .inl (call, stage') =>
        let (cli, oc) := st.cli.onCall st.cfg sid call
        let st1 := { st with cli := cli, invokes := st.invokes.map (fun e => if e.1 == sid then (sid, stage') else e) }
        settleInvokes fuel st1 (o1.add oc)

def finishC (st : CWState) (o : COut Nat) : CWState × String :=
  let (st', o') := settleInvokes 64 st o
  (st', showCObs st' o')

def parseS2C (kind : String) (args : List String) : Option (S2C Nat) :=
  match kind with
  | "settings" =>
    match kvNat args "win", (kv args "revs").bind parseIntList with
    | some w, some revs => some (.settings w revs)
    | _, _ => none
  | "hdr" => some (.headers (parseMD ((kv args "md").getD "-")))
  | "msg" =>
    match kvNat args "size", kvNat args "len", kvNat args "idx" with
    | some size, some len, some idx => some (.msg size (List.replicate len idx))
    | _, _, _ => none
  | "more" =>
    match kvNat args "len", kvNat args "idx" with
    | some len, some idx => some (.more (List.replicate len idx))
    | _, _ => none
  | "close" =>
    (kvNat args "code").map (fun c => .close (mkStatus c "scripted") (parseMD ((kv args "md").getD "-")))
  | "wu" => (kvNat args "n").map .windowUpdate
  | "unset" => some .unset
  | _ => none

def cworldCmd (st : CWState) (cmd : String) (args : List String) : Option (CWState × String) :=
  let kind := (args.filter (fun a => !a.contains '=')).headD ""
  match cmd with
  | "c.init" =>
    let cfg : CCfg := { awaitSettings := kv args "settings" == some "1",
                        revs := Negotiate.supportedRevisions (kv args "disable" == some "1") }
    let st' : CWState := { cfg := cfg, cli := Cli.start cfg }
    some (finishC st' {})
  | "c.frame" =>
    match kvInt args "sid", parseS2C kind args with
    | some sid, some f =>
      let (cli, o) := st.cli.onFrame st.cfg sid f
      let st' := { st with cli := cli }
      some (finishC st' o)
    | _, _ => some (st, "bad-op")
  | "c.new" =>
    -- c.new shape=U|CS|SS|BD m=<hex> md=.. [timeout=<ns>] [cancelled=1]
    let (cs, ss) := match kv args "shape" with
      | some "CS" => (true, false) | some "SS" => (false, true) | some "BD" => (true, true) | _ => (false, false)
    match (kv args "m").bind parseHex with
    | none => some (st, "bad-op")
    | some m =>
      let (cli, o, sid?) := st.cli.newStream st.cfg cs ss m (parseMD ((kv args "md").getD "-"))
        (kvNat args "timeout") (kv args "cancelled" == some "1")
      -- early=<n>: the peer answers the new_stream frame at once with headers a=1 and one complete
      -- message of n bytes; in the model these are simply the next two frames
      match kvNat args "early", sid? with
      | some n, some sid =>
        let (cli1, o1) := cli.onFrame st.cfg sid (.headers [("a", ["1"])])
        let (cli2, o2) := cli1.onFrame st.cfg sid (.msg n (List.replicate n 0))
        let st' := { st with cli := cli2 }
        some (finishC st' ((o.add o1).add o2))
      | _, _ =>
        let st' := { st with cli := cli }
        some (finishC st' o)
  | "c.invoke" =>
    -- c.invoke n=<request bytes> [timeout=<ns>]: ch.Invoke on the unary method; the script sends the request at once
    match (kv args "m").bind parseHex, kvNat args "n" with
    | some m, some n =>
      let (cli, o, sid?) := st.cli.newStream st.cfg false false m [] (kvNat args "timeout") false
      match sid? with
      | none =>
        -- newStream failed: Invoke returns that error
        let o' : COut Nat := { o with dones := o.dones.map (fun d => if d.2.1 == "new" then (d.1, "invoke", d.2.2) else d) }
        some (finishC { st with cli := cli } o')
      | some sid =>
        let o0 : COut Nat := { o with dones := o.dones.filter (fun d => d.2.1 != "new") }
        let (cli1, o1) := cli.onCall st.cfg sid (.send (List.replicate n 0))
        let st1 := { st with cli := cli1, invokes := st.invokes ++ [(sid, .sending)] }
        some (finishC st1 (o0.add o1))
    | _, _ => some (st, "bad-op")
  | "c.call" =>
    match kvInt args "sid" with
    | none => some (st, "bad-op")
    | some sid =>
      let c : Option (CCall Nat) :=
        match kind with
        | "send" => match kvNat args "n", kvNat args "idx" with
          | some n, some idx => some (.send (List.replicate n idx))
          | _, _ => none
        | "closesend" => some .closeSend
        | "recv" => some .recv
        | "header" => some .header
        | "trailer" => some .trailer
        | "cancel" => some .cancel
        | _ => none
      match c with
      | none => some (st, "bad-op")
      | some c =>
        let (cli, o) := st.cli.onCall st.cfg sid c
        let st' := { st with cli := cli }
        some (finishC st' o)
  | "c.tick" =>
    match kvNat args "ns" with
    | none => some (st, "bad-op")
    | some d =>
      let (cli, o) := st.cli.tick d
      let st' := { st with cli := cli }
      some (finishC st' o)
  | "c.eof" => let (cli, o) := st.cli.carrierEnds none; let st' := { st with cli := cli }; some (finishC st' o)
  | "c.fail" => let (cli, o) := st.cli.carrierEnds (some "err:carrier_broke"); let st' := { st with cli := cli }; some (finishC st' o)
  | "c.close" => let (cli, o) := st.cli.close none false; let st' := { st with cli := cli }; some (finishC st' o)
  | "c.teardown" =>
    -- end of a scenario: the channel has ended and every RPC context is done; by C14_client_after_tunnel_end and
    -- C14_client_close_empties_table nothing is left
    some (st, "left=0,0,0 table=[]")
  | "x.earlyreject" =>
    -- a handler that rejects without reading the request; the request of `size` bytes is sent against a 64 KiB window.
    -- The client endpoint model follows the code (finding D12 included): the close frame releases a send blocked on
    -- the window with the bare context error.
    match kvNat args "size", kv args "shape" with
    | some size, some shape =>
      let cfg : CCfg := {}
      let c0 : Cli Nat := { (Cli.start cfg) with phase := .running, rev := 1, peerWin := 65536 }
      let cs := shape == "CS"
      let (c1, _, sid?) := c0.newStream cfg cs false [] [] none false
      match sid? with
      | none => some (st, "bad-op")
      | some sid =>
        -- marshalled StringValue: 1 tag byte + varint length + payload
        let n := size + (if size < 128 then 2 else if size < 16384 then 3 else 4)
        let (c2, o2) := c1.onCall cfg sid (.send (List.replicate n 0))
        let (c3, o3) := c2.onFrame cfg sid (.close (mkStatus 7 "not allowed") [])
        let sendRes := ((o2.add o3).dones.find? (fun d => d.2.1 == "send")).map (·.2.2)
        let showR := fun (r : Option (Res Nat)) => match r with
          | some .ok => "nil" | some (.ctx .canceled) => "ctx-canceled" | some (.status 7) => "status:PermissionDenied"
          | some .eof => "eof" | _ => "other"
        if cs then
          let (c4, _) := c3.onCall cfg sid .closeSend
          let (_, o5) := c4.onCall cfg sid .recv
          let recvRes := (o5.dones.find? (fun d => d.2.1 == "recv")).map (·.2.2)
          some (st, s!"send={showR sendRes},recv={showR recvRes}")
        else
          -- Invoke: a failed SendMsg is returned as is; otherwise CloseSend, RecvMsg
          match sendRes with
          | some .ok =>
            let (c4, _) := c3.onCall cfg sid .closeSend
            let (_, o5) := c4.onCall cfg sid .recv
            some (st, showR ((o5.dones.find? (fun d => d.2.1 == "recv")).map (·.2.2)))
          | r => some (st, showR r)
    | _, _ => some (st, "bad-op")
  | "x.closeerr" =>
    -- a forward tunnel over real grpc-go ended by `cause`: what Done()/Err() report and what a later RPC does,
    -- according to the client endpoint model (Cli.close / Cli.carrierEnds / Cli.newStream)
    let cfg : CCfg := {}
    let c0 : Cli Nat := { (Cli.start cfg) with phase := .running }
    let c1 := match kv args "cause" with
      | some "close" => (c0.close none false).1
      | some "cancel" => (c0.carrierEnds (some "status:Canceled")).1
      | some "deadline" => (c0.carrierEnds (some "status:DeadlineExceeded")).1
      | some "server-stop" => (c0.carrierEnds (some "status:Unavailable")).1
      | _ => c0
    let err := match c1.finished with | none => "open" | some none => "nil" | some (some e) => e
    let late := match (c1.newStream cfg true true [] [] none false).2.1.dones with
      | [(_, "new", .other _)] => "fails"
      | _ => "proceeds"
    -- `atdone`: Err() read at the instant Done() is closed.  A clean close records its (nil) cause before it cancels the
    -- context; when the opening context ends first, Err() falls back on the context's error until the loop records its own
    -- (finding D13: `close` tears the carrier down BEFORE it records the cause; with a delay forced between the two, Done()
    -- closes - the carrier's context ends - while Err() still falls back on that context's error: transiently non-nil
    -- during a clean Close().  The model follows the code.)
    let atdone := if err == "open" then "never"
                  else if err == "nil" then (if kv args "delay" == some "1" then "err" else "nil")
                  else "err"
    some (st, s!"done={if c1.finished.isSome then "closed" else "open"} err={err} atdone={atdone} late={late}")
  | _ => none

end Driver
