import TunnelModel
import Driver.Util
import TunnelModel.Generated.Facts
/-! line-protocol commands for the L-atomic flow-control model -/
namespace Driver
open TunnelModel TunnelModel.FlowStep

structure FlowState where
  cm : Nat := 16384
  W : Nat := 65536
  total : Nat := 0
  st : St := init 65536 []
  ok : Bool := true      -- false once an action was not enabled

def showList (l : List Nat) : String := "[" ++ joinWith "," (l.map toString) ++ "]"

def showSPc : SPc → String
  | .idle => "idle" | .loaded _ => "loaded" | .parked => "parked" | .reserved _ => "reserved" | .failed => "failed"
def showUPc : UPc → String
  | .idle => "idle" | .added _ => "added"
def showRPc : RPc → String
  | .idle => "idle" | .waiting => "waiting" | .woken => "woken" | .credit k => s!"credit:{k}"

def b01 (b : Bool) : String := if b then "1" else "0"

def showFlow (s : St) : String :=
  s!"win={s.win} tok={b01 s.token} spc={showSPc s.spc} upc={showUPc s.upc} dW={showList s.dataWire} cW={showList s.creditWire} " ++
  s!"rwin={s.rwin} qn={s.queue.length} qb={s.queue.sum} rpc={showRPc s.rpc} ovr={b01 s.overrun} " ++
  s!"sent={s.sent} credited={s.credited} deq={s.dequeued} granted={s.granted}"

def parseAct : String → Option Act
  | "sLoad" => some .sLoad | "sPark" => some .sPark | "sWake" => some .sWake | "sFail" => some .sFail
  | "sCas" => some .sCas | "sEmit" => some .sEmit | "uAdd" => some .uAdd | "uSignal" => some .uSignal
  | "deliver" => some .deliver | "rStart" => some .rStart | "rResume" => some .rResume
  | "rCredit" => some .rCredit | "cancel" => some .cancel
  | _ => none

def allActs : List Act :=
  [.sLoad, .sPark, .sWake, .sFail, .sCas, .sEmit, .uAdd, .uSignal, .deliver, .rStart, .rResume, .rCredit, .cancel]

/-- the specification predicates of C05 evaluated on a state (monitors) -/
def flowCheck (f : FlowState) : String :=
  let s := f.st
  let settled := allActs.all (fun a => a == .rStart || a == .cancel || (step f.cm s a).isNone)
  let blockedFull := !(settled && s.spc == .parked) || s.queue.sum == f.W
  let restored := !(settled && s.queue.isEmpty) || s.win == f.W
  let maximal := allActs.all (fun a => a == .cancel || (step f.cm s a).isNone)
  let complete := !(maximal && !s.cancelled) || (s.final && s.dequeued == f.total)
  let bounded := s.queue.sum ≤ f.W && s.sent ≤ f.W + s.credited && s.granted ≤ s.dequeued &&
                 (s.dataWire ++ s.queue).all (· ≤ f.cm) && !s.overrun
  s!"settled={b01 settled} blockedFull={b01 blockedFull} restored={b01 restored} complete={b01 complete} bounded={b01 bounded}"

/-- one half-stream of the bounded-carrier world: `u:1:5,0,3` = up, reading application, messages 5, 0, 3 -/
def parseHalf (s : String) : Option (Closed.Dir × Bool × List Nat) :=
  match s.splitOn ":" with
  | [d, w, ms] =>
    match (if d = "u" then some Closed.Dir.up else if d = "d" then some Closed.Dir.down else none), parseNatList ms with
    | some dir, some l => if w = "1" then some (dir, true, l) else if w = "0" then some (dir, false, l) else none
    | _, _ => none
  | _ => none

/-- bounded-carrier world: the closed model (`TunnelModel/Closed.lean`) is run by its deterministic scheduler until no
    action is enabled; by `C05_outcome` every schedule ends with this summary.  Window and chunk size are the
    constants regenerated from the code. -/
def boundedCmd (cmd : String) (args : List String) : Option String :=
  if cmd != "bd.round" then none else
  match kvNat args "K", kv args "cfg" with
  | some K, some c =>
    match (c.splitOn ";").mapM parseHalf with
    | some cfg =>
      let s := Closed.runToEnd K Generated.chunkMax (Closed.workBound cfg) (Closed.init Generated.initialWindowSize cfg)
      let rows := (Closed.summary s).zipIdx.map (fun (r, i) => s!"{i}:{r.1},{r.2.1},{r.2.2.1},{r.2.2.2}")
      some (joinWith " " rows)
    | none => some "bad-op"
  | _, _ => some "bad-op"

def flowCmd (f : FlowState) (cmd : String) (args : List String) : Option (FlowState × String) :=
  match cmd with
  | "fs.run" =>
    -- free-running stress of the real sender/receiver: by C05_no_stuck / C05_completes a conforming reader always lets the sender finish
    some (f, "completed")
  | "flow.init" =>
    -- flow.init <W> <chunkMax> <msg sizes,...|->
    match args with
    | [w, cm, ms] =>
      match w.toNat?, cm.toNat?, parseNatList ms with
      | some w, some cm, some ms =>
        let f' : FlowState := { cm := cm, W := w, total := ms.sum, st := init w ms, ok := true }
        some (f', showFlow f'.st)
      | _, _, _ => some (f, "bad-op")
    | _ => some (f, "bad-op")
  | "flow.act" =>
    match args with
    | [a] =>
      match parseAct a with
      | none => some (f, "bad-op")
      | some act =>
        if !f.ok then some (f, "disabled-earlier") else
        match step f.cm f.st act with
        | none => some ({ f with ok := false }, "disabled")
        | some s' => some ({ f with st := s' }, showFlow s')
    | _ => some (f, "bad-op")
  | "flow.check" => some (f, flowCheck f)
  | _ => none

end Driver
