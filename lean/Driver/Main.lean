import Driver.Pure
import Driver.Flow
import Driver.SWorld
import Driver.CWorld
import Driver.Registry
/-!
  Model driver: one command per input line, one output line per command.
  `lake build driver && .lake/build/bin/driver < ops.txt`
-/
open Driver

structure DState where
  pure : PureState := {}
  flow : FlowState := {}
  sw : SWState := {}
  cw : CWState := {}
  reg : RegState := {}
  life : LifeState := {}
  metaDead : Bool := false
  fwdClosing : Bool := false

def stepLine (st : DState) (line : String) : DState × String :=
  match (line.trimAscii.toString.splitOn " ").filter (· ≠ "") with
  | [] => (st, "")
  | cmd :: args =>
    match pureCmd st.pure cmd args with
    | some (p, out) => ({ st with pure := p }, out)
    | none =>
      match flowCmd st.flow cmd args with
      | some (f, out) => ({ st with flow := f }, out)
      | none =>
        match sworldCmd st.pure.services st.sw cmd args with
        | some (w, out) => ({ st with sw := w }, out)
        | none =>
          match cworldCmd st.cw cmd args with
          | some (w, out) => ({ st with cw := w }, out)
          | none =>
            match regCmd st.reg cmd args with
            | some (r, out) => ({ st with reg := r }, out)
            | none =>
              match lifeCmd st.life cmd args with
              | some (l, out) => ({ st with life := l }, out)
              | none =>
                match metaCmd st.metaDead cmd args with
                | some (d, out) => ({ st with metaDead := d }, out)
                | none =>
                  match fwdCmd st.fwdClosing cmd with
                  | some (c, out) => ({ st with fwdClosing := c }, out)
                  | none =>
                  match (((idCmd cmd).orElse (fun _ => negCmd cmd args)).orElse (fun _ => idOrderCmd cmd args)).orElse (fun _ => boundedCmd cmd args) with
                  | some out => (st, out)
                  | none => (st, "bad-op")

partial def loop (h : IO.FS.Stream) (out : IO.FS.Stream) (st : DState) : IO Unit := do
  let line ← h.getLine
  if line.isEmpty then return ()
  let (st', o) := stepLine st line
  out.putStrLn o
  loop h out st'

def main : IO Unit := do
  let stdin ← IO.getStdin
  let stdout ← IO.getStdout
  loop stdin stdout {}
  stdout.flush
