import TunnelModel
import Driver.Util
/-! line-protocol commands for the pure models -/
namespace Driver
open TunnelModel

def showDFrame : Framing.DFrame Unit → String
  | .env size d => s!"e{size}:{d.length}"
  | .more d => s!"m{d.length}"
  | .other => "o"

def parseDFrame (s : String) : Option (Framing.DFrame Unit) :=
  if s = "o" then some .other
  else if s.startsWith "e" then
    match ((s.drop 1).toString.splitOn ":").map String.toNat? with
    | [some size, some len] => some (.env size (List.replicate len ()))
    | _ => none
  else if s.startsWith "m" then
    ((s.drop 1).toString.toNat?).map (fun len => .more (List.replicate len ()))
  else none

def showPErr : Framing.PErr → String
  | .envBeforeDone => "envBeforeDone"
  | .moreThanDeclared => "moreThanDeclared"
  | .noEnvelope => "noEnvelope"
  | .unrecognized => "unrecognized"

def showFound : Method.Found → String
  | .unary i => s!"unary:{i}"
  | .stream i cs ss => s!"stream:{i}:{cs}:{ss}"

structure PureState where
  services : List (Method.Name × Method.ServiceDesc) := []
  pool : RoundRobin.Pool := RoundRobin.Pool.empty

def showPool (p : RoundRobin.Pool) : String :=
  let cs := joinWith "," (p.chans.map (fun (t, k) => s!"{t}:{k}"))
  s!"[{cs}] idx={p.idx} latch={p.latchClosed}"

/-- returns `none` if the command is not one of ours -/
def pureCmd (st : PureState) (cmd : String) (args : List String) : Option (PureState × String) :=
  match cmd with
  | "timeout" =>
    match args.mapM parseHex with
    | none => some (st, "bad-op")
    | some vals =>
      some (st, s!"{showOptNat (Timeout.parse vals)} | spec {showOptNat (Timeout.spec vals)}")
  | "select" =>
    match args with
    | [d, revs] =>
      match parseIntList revs with
      | none => some (st, "bad-op")
      | some rs =>
        let client := Negotiate.supportedRevisions (d = "1")
        some (st, s!"{showOptInt (Negotiate.select client rs)} | spec {showOptInt (Negotiate.spec client rs)}")
    | _ => some (st, "bad-op")
  | "supported" =>
    match args with
    | [d] => some (st, joinWith "," ((Negotiate.supportedRevisions (d = "1")).map toString))
    | _ => some (st, "bad-op")
  | "svc" =>
    -- svc <name> <method,method,...|-> <stream:cs:ss,...|->   (names in hex)
    match args with
    | [n, ms, ss] =>
      let msL := if ms = "-" then [] else ms.splitOn ","
      let ssL := if ss = "-" then [] else ss.splitOn ","
      match parseHex n, msL.mapM parseHex,
            ssL.mapM (fun e => match e.splitOn ":" with
              | [h, c, s] => (parseHex h).map (fun nm => (nm, decide (c = "1"), decide (s = "1")))
              | _ => none) with
      | some name, some methods, some streams =>
        some ({ st with services := st.services ++ [(name, { methods := methods, streams := streams })] }, "ok")
      | _, _, _ => some (st, "bad-op")
    | _ => some (st, "bad-op")
  | "method" =>
    match args with
    | [n] =>
      match parseHex n with
      | none => some (st, "bad-op")
      | some name =>
        let r := match Method.resolve st.services name with
          | .malformed => "malformed"
          | .unimplemented => "unimplemented"
          | .found svc f => s!"found {joinWith "," (svc.map toString)} {showFound f}"
        some (st, r)
    | _ => some (st, "bad-op")
  | "sendall" =>
    -- sendall <chunkMax> <n>
    match args.map String.toNat? with
    | [some cm, some n] =>
      some (st, joinWith " " ((Framing.sendAll cm (List.replicate n ())).map showDFrame))
    | _ => some (st, "bad-op")
  | "pump" =>
    -- pump <chunkMax> <win> <rem> <total> <first:0|1>
    match args.map String.toNat? with
    | [some cm, some win, some rem, some total, some first] =>
      let (fs, w, r) := Framing.pump cm win { rem := List.replicate rem (), total := total, first := first = 1 }
      let rs := match r with
        | none => "done"
        | some s => s!"rem={s.rem.length} first={if s.first then 1 else 0}"
      some (st, s!"{joinWith " " (fs.map showDFrame)} | win={w} {rs}")
    | _ => some (st, "bad-op")
  | "parse" =>
    match args.mapM parseDFrame with
    | none => some (st, "bad-op")
    | some fs =>
      let (ms, r) := Framing.parse none fs
      let rs := match r with
        | .ok none => "idle"
        | .ok (some (n, b)) => s!"partial {b.length}/{n}"
        | .error e => s!"err {showPErr e}"
      some (st, s!"[{joinWith "," (ms.map (fun m => toString m.length))}] {rs}")
  | "idsnew" =>
    match args with
    | [tbl, ls, id] =>
      match parseIntList tbl, ls.toInt?, id.toInt? with
      | some t, some l, some i => some (st, reprStr (IdRules.serverNew t l i))
      | _, _, _ => some (st, "bad-op")
    | _ => some (st, "bad-op")
  | "pool.reset" => some ({ st with pool := RoundRobin.Pool.empty }, "ok")
  | "pool.add" =>
    match args.map String.toNat? with
    | [some t, some k] => let p := st.pool.add t k; some ({ st with pool := p }, showPool p)
    | _ => some (st, "bad-op")
  | "pool.remove" =>
    match args.map String.toNat? with
    | [some t] =>
      let (p, r) := st.pool.remove t
      some ({ st with pool := p }, s!"{showOptNat r} {showPool p}")
    | _ => some (st, "bad-op")
  | "pool.pick" =>
    let (p, r) := st.pool.pick
    some ({ st with pool := p }, s!"{showOptNat r} {showPool p}")
  | "pool.ready" => some (st, s!"{st.pool.ready} all=[{joinWith "," (st.pool.all.map toString)}]")
  | _ => none

end Driver
