import TunnelModel
import Driver.Util
/-! line-protocol commands for the registry model (W2) -/
namespace Driver
open TunnelModel TunnelModel.Lifecycle

def keyCode (s : String) : Nat :=
  if s = "-" then 0 else s.toList.foldl (fun a c => a * 256 + c.toNat) 0

/-- a caller inside WaitForReady: (id, key code or `none` for the whole handler, released) -/
abbrev Waiter := Nat × Option Nat × Bool × Bool   -- id, key, released, "may already have passed" (started during a tear-down)

structure RegState where
  reg : Registry := {}
  waiters : List Waiter := []

/-- a parked waiter passes as soon as the latch of its pool is closed -/
def releaseWaiters (r : Registry) (ws : List Waiter) : List Waiter :=
  ws.map (fun (id, k, rel, race) =>
    let blocks := match k with | none => r.waitBlocksAll | some k => r.waitBlocksKey k
    (id, k, rel || !blocks, race))

def showWaiters (ws : List Waiter) : String :=
  joinWith " " (ws.map (fun (id, _, rel, race) => s!"{id}:{if rel then "ok" else if race then "RACE:ok-or-parked" else "parked"}"))

def showRegW (r : Registry) (ws : List Waiter) (extra cb : String) : String :=
  s!"{extra}all=[{joinWith "," (r.all.map toString)}] ready={if r.readyAll then "1" else "0"} cb=[{cb}] waiters=[{showWaiters ws}]"

def regCmd (st : RegState) (cmd : String) (args : List String) : Option (RegState × String) :=
  let fin := fun (r : Registry) (ws : List Waiter) (extra cb : String) =>
    let ws' := releaseWaiters r ws
    some (({ reg := r, waiters := ws' } : RegState), showRegW r ws' extra cb)
  match cmd with
  | "r.init" => some ({}, showRegW {} [] "" "")
  | "rr.round" =>
    -- free-running registry world: `n` tunnels with one fresh key (code 1) register concurrently, optionally together
    -- with a WaitForReady on that key; what is observed once all are open does not depend on the order of registration
    match kvNat args "n", kv args "waiter" with
    | some n, some w =>
      let b := fun (x : Bool) => if x then "1" else "0"
      let r := (List.range n).foldl (fun (r : Registry) i => r.open (i + 1) 1) {}
      let (r2, picks) := (List.range n).foldl (fun (acc : Registry × List Nat) _ =>
        let (r', p) := acc.1.pickKey 1
        (r', match p with | some t => t :: acc.2 | none => acc.2)) (r, [])
      let wres := if w = "1" then (if r.waitBlocksKey 1 then "stuck" else "ok") else "-"
      let r3 := (List.range n).foldl (fun (r : Registry) i => r.close (i + 1)) r2
      -- the same round in the atomic-step registration model (`RegAtomic`): all registrations interleaved step by step,
      -- then every tunnel closed and every goroutine run to its end; by C12_registry_exact_at_rest /
      -- C14_registry_nothing_left_behind the observations do not depend on the interleaving chosen here
      let ts := List.range n
      let up := ts.map RegAtomic.Act.addGlobal ++ ts.map RegAtomic.Act.getPool ++ ts.map RegAtomic.Act.addKey
      let down := ts.map RegAtomic.Act.close ++ ts.map RegAtomic.Act.uRemGlobal ++ ts.map RegAtomic.Act.uLookup ++
                  ts.map RegAtomic.Act.uRemKey ++ ts.map RegAtomic.Act.remKey ++ ts.map RegAtomic.Act.remGlobal
      match RegAtomic.run true false (RegAtomic.init (List.replicate n 1)) up with
      | none => some (st, "model-stuck")
      | some a1 =>
        match RegAtomic.run true false a1 down with
        | none => some (st, "model-stuck")
        | some a2 =>
          let agree := (RegAtomic.globalIds a1).length == r.all.length && (RegAtomic.keyPool a1 1).length == picks.eraseDups.length &&
                       RegAtomic.resting true a1 && RegAtomic.allOver a2 && (RegAtomic.globalIds a2).length == r3.all.length
          if !agree then some (st, "models-disagree") else
          some (st, s!"open={n} all={(RegAtomic.globalIds a1).length} ready={b (r.readyKey 1)} distinct={(RegAtomic.keyPool a1 1).length} waiter={wres} " ++
                    s!"closed={n} left={(RegAtomic.globalIds a2).length + (RegAtomic.keyPool a2 1).length} readyafter={b (r3.readyKey 1)}")
    | _, _ => some (st, "bad-op")
  | "r.open" =>
    match kvNat args "t", kv args "key" with
    | some t, some k => fin (st.reg.open t (keyCode k)) st.waiters "" s!"open:{t}"
    | _, _ => some (st, "bad-op")
  | "r.doa" =>
    -- a tunnel that is dead on arrival is registered and removed again at once (openReverseTunnel does not
    -- look at the channel before adding it): waiters see the latch close
    match kvNat args "t", kv args "key" with
    | some t, some k =>
      let r1 := st.reg.open t (keyCode k)
      let ws1 := releaseWaiters r1 st.waiters
      fin (r1.close t) ws1 "" s!"open:{t},close:{t}"
    | _, _ => some (st, "bad-op")
  | "r.close" =>
    match kvNat args "t" with
    | some t =>
      let was := st.reg.all.contains t
      fin (st.reg.close t) st.waiters "" (if was then s!"close:{t}" else "")
    | none => some (st, "bad-op")
  | "r.closewait" =>
    -- the last tunnel closes and a caller starts waiting while it is torn down: it parks on the new latch
    match kvNat args "t", kvNat args "w" with
    | some t, some w =>
      let was := st.reg.all.contains t
      let r := st.reg.close t
      -- the close callback runs as soon as the carrier's context is done, which may be before the receive loop has
      -- unregistered the tunnel: the waiter either still finds it registered (and passes) or parks on the new latch
      fin r (st.waiters ++ [(w, none, false, true)]) "" (if was then s!"close:{t}" else "")
    | _, _ => some (st, "bad-op")
  | "r.wait" =>
    match kvNat args "w", kv args "key" with
    | some w, some k => fin st.reg (st.waiters ++ [(w, if k = "*" then none else some (keyCode k), false, false)]) "" ""
    | _, _ => some (st, "bad-op")
  | "r.pick" =>
    match kv args "via" with
    | some via =>
      let (r, res) := if via = "all" then st.reg.pickAll else st.reg.pickKey (keyCode ((via.drop 4).toString))
      let served := match res with | some t => toString t | none => "unavailable"
      fin r st.waiters s!"served={served} " ""
    | none => some (st, "bad-op")
  | "r.ready" =>
    match kv args "key" with
    | some k =>
      let (rd, wb) := if k = "*" then (st.reg.readyAll, st.reg.waitBlocksAll)
                      else (st.reg.readyKey (keyCode k), st.reg.waitBlocksKey (keyCode k))
      fin st.reg st.waiters s!"ready={if rd then "1" else "0"} waitblocks={if wb then "1" else "0"} " ""
    | none => some (st, "bad-op")
  | "r.all" => fin st.reg st.waiters "" ""
  | _ => none

end Driver

namespace Driver
open TunnelModel TunnelModel.Lifecycle

structure LifeState where
  srv : RServer := {}
  inst : Nat := 0

def showLife (s : LifeState) : String :=
  let st := match s.srv.state with | .active => 0 | .closing => 1 | .closed => 2
  s!"state={st} refuses={if s.srv.isClosing then 1 else 0} inst={s.inst}"

/-- lifecycle commands: only the state machine of ReverseTunnelServer is
    predicted (state, number of registered instances); everything else on these
    lines is judged by the lifecycle monitor -/
def lifeCmd (st : LifeState) (cmd : String) (_args : List String) : Option (LifeState × String) :=
  match cmd with
  | "l.init" => some ({}, showLife {})
  | "l.serve" =>
    let (srv, ok) := st.srv.serve 0
    let st' : LifeState := { srv := srv, inst := if ok then st.inst + 1 else st.inst }
    some (st', showLife st')
  | "l.gstop" => let st' := { st with srv := st.srv.gracefulStop }; some (st', showLife st')
  | "l.stop" => let st' := { st with srv := st.srv.stop }; some (st', showLife st')
  | "l.hold" | "l.finish" | "l.cancel" | "l.rpc" | "l.hangup" | "l.tick" => some (st, showLife st)
  | _ => none

end Driver

namespace Driver
open TunnelModel

/-- C02 metadata family: the model of the code predicts exact delivery when
    every string can be marshalled, and a dead tunnel otherwise -/
def metaCmd (dead : Bool) (cmd : String) (args : List String) : Option (Bool × String) :=
  match cmd with
  | "meta.init" => some (false, "ok")
  | "meta.utf8" =>
    match args with
    | [h] => match parseHex h with
      | some b => let v := if Metadata.validUTF8 b then "1" else "0"; some (dead, s!"valid={v} marshal={v}")
      | none => some (dead, "bad-op")
    | _ => some (dead, "bad-op")
  | "meta.rpc" =>
    match kv args "strs" with
    | some ss =>
      let strs := if ss = "-" then [] else ss.splitOn ","
      match strs.mapM parseHex with
      | some bs =>
        -- a frame that cannot be marshalled ends the carrier: the tunnel is dead from then on
        if dead then some (true, "alive=0")
        else if bs.all Metadata.validUTF8 then some (false, "st=1 hdr=1 tlr=1 req=1 alive=1") else some (true, "alive=0")
      | none => some (dead, "bad-op")
    | none => some (dead, "bad-op")
  | _ => none

end Driver

namespace Driver
/-- forward tunnels and `InitiateShutdown` (TestW2ForwardShutdown): the only state is the handler's shutdown flag, which
    every tunnel's `createStream` consults (`Srv.closing`): by `C10_refused` a new RPC is then refused with Unavailable, and by
    `C10_flag_only_read_by_new_stream` nothing else changes: RPCs in flight finish as they would have -/
def fwdCmd (closing : Bool) (cmd : String) : Option (Bool × String) :=
  match cmd with
  | "f.init" => some (false, "ok")
  | "f.open" | "f.tick" => some (closing, "ok")
  | "f.shutdown" => some (true, "ok")
  | "f.rpc" => some (closing, if closing then "status:Unavailable" else "nil")
  | "f.hold" => some (closing, if closing then "recv:status:Unavailable" else "ok")
  | "f.finish" => some (closing, "eof")
  | _ => none

open TunnelModel in
/-- negotiation on the public API (TestW2Negotiate): the library in one of its four roles against a hand-written peer -/
def negCmd (cmd : String) (args : List String) : Option String :=
  if cmd != "n.case" then none else
  let peerOf := fun (s : Option String) => match s with
    | some "disabled" => Negotiate.Peer.disabled | some "legacy" => Negotiate.Peer.legacy | _ => Negotiate.Peer.enabled
  let lib := peerOf (kv args "lib")
  let peer := peerOf (kv args "peer")
  let hdr := if lib.advertises then 1 else 0
  match kv args "role" with
  | some "fwd-call" | some "rev-call" =>
    -- the library is the calling end: which revision its new_stream frames carry
    match Negotiate.revisionUsed lib peer with
    | some r => some s!"header={hdr} rev={r} rpc=nil"
    | none => some s!"header={hdr} rev=-1 rpc=fails"
  | some "fwd-serve" | some "rev-serve" =>
    -- the library is the serving end: does it send a settings frame
    -- ... and which revisions that frame lists (only revision zero when the library's flow control is disabled)
    let sent := Negotiate.settingsSent peer lib
    let revs := if sent then joinWith "," (lib.revisions.map toString) else "-"
    some s!"header={hdr} settings={if sent then 1 else 0} revs={revs} close=0"
  | _ => some "bad-op"

/-- C17 identity family: the specification is "every accessor reports the planted
    identity"; the harness reduces each case to `ok` or a description of what differed -/
def idCmd (cmd : String) : Option String :=
  if cmd == "id.init" || cmd == "id.case" then some "ok" else none

/-- C08 id-order family: `g` goroutines start `per` RPCs each.  The model (`IdAlloc`, guarded) is run on one
    schedule — goroutine after goroutine — and asked what is on the wire; by `C08_concurrent_ids_increasing`
    the answers `increasing` / `distinct` are the same for every schedule. -/
def idOrderCmd (cmd : String) (args : List String) : Option String :=
  if cmd != "io.round" then none else
  match kvNat args "g", kvNat args "per" with
  | some g, some per =>
    let n := g * per
    let sched := (List.range n).flatMap (fun i => [TunnelModel.IdAlloc.Act.lock i, TunnelModel.IdAlloc.Act.alloc i true, TunnelModel.IdAlloc.Act.send i, TunnelModel.IdAlloc.Act.unlock i])
    match TunnelModel.IdAlloc.run true (TunnelModel.IdAlloc.init n) sched with
    | some s =>
      let b := fun (x : Bool) => if x then "1" else "0"
      some s!"started={n} allsent={b (s.wire.length == n && s.last == n)} increasing={b (TunnelModel.IdAlloc.increasing s.wire)} distinct={b (s.wire.eraseDups.length == s.wire.length)} newfirst=1"
    | none => some "model-stuck"
  | _, _ => some "bad-op"
end Driver
