import TunnelModel
import Driver.Util
import Driver.Pure
/-! line-protocol commands for the server endpoint model (S-world); payload type = message index -/
namespace Driver
open TunnelModel TunnelModel.LFrame

def insertSorted (lt : β → β → Bool) (x : β) : List β → List β
  | [] => [x]
  | y :: ys => if lt x y then x :: y :: ys else y :: insertSorted lt x ys

/-- stable insertion sort -/
def sortBy (lt : β → β → Bool) (l : List β) : List β :=
  l.foldl (fun acc x =>
    -- insert after all elements not greater than x (stability)
    let rec ins : List β → List β
      | [] => [x]
      | y :: ys => if lt x y then x :: y :: ys else y :: ins ys
    ins acc) []

def showMD (m : MD) : String :=
  let m' := m.filter (fun e => !e.2.isEmpty)
  if m'.isEmpty then "-"
  else joinWith ";" ((sortBy (fun a b => a.1 < b.1) m').map (fun (k, vs) => k ++ "=" ++ joinWith "," vs))

def parseMD (s : String) : MD :=
  if s = "-" then [] else
  (s.splitOn ";").filterMap (fun kv =>
    match kv.splitOn "=" with
    | [k, vs] => some (k, vs.splitOn ",")
    | _ => none)

def showMsg (m : List Nat) : String :=
  match m with
  | [] => "-:0"
  | i :: rest => if rest.all (· == i) then s!"{i}:{m.length}" else s!"mixed:{m.length}"

def showRes : Res Nat → String
  | .ok => "ok"
  | .msg m => "msg:" ++ showMsg m
  | .md m => "md{" ++ showMD m ++ "}"
  | .eof => "eof"
  | .status c => s!"status:{c}"
  | .ctx .canceled => "ctx:canceled"
  | .ctx .deadline => "ctx:deadline"
  | .other t => "other:" ++ t.replace " " "_"

def showS2C (sid : Sid) : S2C Nat → String
  | .settings w revs => s!"{sid}:settings:{w}:{joinWith "," (revs.map toString)}"
  | .headers md => s!"{sid}:hdr\{{showMD md}}"
  | .msg size d => s!"{sid}:msg:{size}:{d.length}"
  | .more d => s!"{sid}:more:{d.length}"
  | .close st tr => s!"{sid}:close:{joinWith "/" ((st.code :: st.alt).map toString)}\{{showMD tr}}"
  | .windowUpdate n => s!"{sid}:wu:{n}"
  | .unset => s!"{sid}:unset"

def showIds (l : List Int) : String := joinWith "," ((sortBy (· < ·) l).map toString)

structure SWState where
  cfg : SCfg := {}
  srv : Srv Nat := {}

def showSObs (st : SWState) (o : Out Nat) : String :=
  if st.srv.streams.any (·.2.unsupported) then "UNSUPPORTED" else
  let fs := (sortBy (fun a b => a.1 < b.1) o.frames).map (fun (sid, f) => showS2C sid f)
  let ds := sortBy (· < ·) (o.dones.map (fun (sid, op, r) => s!"{sid}.{op}:{showRes r}"))
  let es := sortBy (· < ·) o.events
  let (t, l) := (showIds st.srv.table, toString st.srv.lastSeen)
  s!"F=[{joinWith " " fs}] D=[{joinWith " " ds}] E=[{joinWith ";" es}] T=[{t}] L={l} G={srvHandlers st.srv},{srvWatchers st.srv},0"

def sworldCmd (services : List (Method.Name × Method.ServiceDesc)) (st : SWState) (cmd : String) (args : List String) :
    Option (SWState × String) :=
  match cmd with
  | "s.teardown" =>
    -- end of a scenario: the carrier has ended and every handler has returned; by C14_server_after_tunnel_end and
    -- C14_server_table_exact nothing is left
    some (st, "left=0,0,0 table=[]")
  | "s.init" =>
    let cfg : SCfg := { services := services, sendSettings := kv args "settings" == some "1",
                        revs := Negotiate.supportedRevisions (kv args "disable" == some "1") }
    let (srv, o) := Srv.start (α := Nat) cfg
    let st' : SWState := { cfg := cfg, srv := srv }
    some (st', showSObs st' o)
  | "s.frame" =>
    match kvInt args "sid" with
    | none => some (st, "bad-op")
    | some sid =>
      let kind := (args.filter (fun a => !a.contains '=')).headD ""
      let f : Option (C2S Nat) :=
        match kind with
        | "new" =>
          match (kv args "m").bind parseHex, kvInt args "rev", kvNat args "win" with
          | some m, some rev, some win => some (.newStream m (parseMD ((kv args "md").getD "-")) rev win)
          | _, _, _ => none
        | "msg" =>
          match kvNat args "size", kvNat args "len", kvNat args "idx" with
          | some size, some len, some idx => some (.msg size (List.replicate len idx))
          | _, _, _ => none
        | "more" =>
          match kvNat args "len", kvNat args "idx" with
          | some len, some idx => some (.more (List.replicate len idx))
          | _, _ => none
        | "half" => some .halfClose
        | "cancel" => some .cancel
        | "wu" => (kvNat args "n").map .windowUpdate
        | "unset" => some .unset
        | _ => none
      match f with
      | none => some (st, "bad-op")
      | some f =>
        let (srv, o) := st.srv.onFrame st.cfg sid f
        let st' := { st with srv := srv }
        some (st', showSObs st' o)
  | "s.call" =>
    match kvInt args "sid" with
    | none => some (st, "bad-op")
    | some sid =>
      let kind := (args.filter (fun a => !a.contains '=')).headD ""
      let md := parseMD ((kv args "md").getD "-")
      let c : Option (HCall Nat) :=
        match kind with
        | "recv" => some .recv
        | "send" => match kvNat args "n", kvNat args "idx" with
          | some n, some idx => some (.send (List.replicate n idx))
          | _, _ => none
        | "reply" => match kvNat args "n", kvNat args "idx" with
          | some n, some idx => some (.reply (List.replicate n idx))
          | _, _ => none
        | "sethdr" => some (.setHeader md)
        | "sendhdr" => some (.sendHeader md)
        | "settlr" => some (.setTrailer md)
        | "ret" => (kvNat args "code").map (fun c => .ret (mkStatus c "scripted"))
        | _ => none
      match c with
      | none => some (st, "bad-op")
      | some c =>
        let (srv, o) := st.srv.onCall st.cfg sid c
        let st' := { st with srv := srv }
        some (st', showSObs st' o)
  | "s.closing" =>
    let st' := { st with srv := { st.srv with closing := args.head? == some "1" } }
    some (st', showSObs st' {})
  | "s.tick" =>
    match kvNat args "ns" with
    | none => some (st, "bad-op")
    | some d =>
      let (srv, o) := st.srv.tick d
      let st' := { st with srv := srv }
      some (st', showSObs st' o)
  | "s.eof" =>
    let (srv, o) := if st.srv.returned.isSome then (st.srv, {}) else st.srv.serveReturns none
    let st' := { st with srv := srv }
    some (st', showSObs st' o)
  | "s.fail" =>
    let (srv, o) := if st.srv.returned.isSome then (st.srv, {}) else st.srv.serveReturns (some "err:carrier_broke")
    let st' := { st with srv := srv }
    some (st', showSObs st' o)
  | _ => none

end Driver
