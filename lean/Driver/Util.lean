/-! small parsing/printing helpers for the line protocol (core only) -/
namespace Driver

def hexVal (c : Char) : Option Nat :=
  if '0' ≤ c ∧ c ≤ '9' then some (c.toNat - '0'.toNat)
  else if 'a' ≤ c ∧ c ≤ 'f' then some (c.toNat - 'a'.toNat + 10)
  else none

/-- "-" = empty; otherwise pairs of hex digits -/
def parseHex (s : String) : Option (List Nat) :=
  if s = "-" then some [] else
  let rec go : List Char → List Nat → Option (List Nat)
    | [], acc => some acc.reverse
    | [_], _ => none
    | a :: b :: rest, acc =>
      match hexVal a, hexVal b with
      | some x, some y => go rest ((x * 16 + y) :: acc)
      | _, _ => none
  go s.toList []

def parseIntList (s : String) : Option (List Int) :=
  if s = "-" then some [] else
  (s.splitOn ",").mapM (fun x => x.toInt?)

def parseNatList (s : String) : Option (List Nat) :=
  if s = "-" then some [] else
  (s.splitOn ",").mapM (fun x => x.toNat?)

def showOptNat : Option Nat → String
  | none => "none"
  | some n => s!"some {n}"

def showOptInt : Option Int → String
  | none => "none"
  | some n => s!"some {n}"

def joinWith (sep : String) (l : List String) : String := sep.intercalate l

def kv (args : List String) (k : String) : Option String :=
  args.findSome? (fun a => if a.startsWith (k ++ "=") then some ((a.drop (k.length + 1)).toString) else none)

def kvNat (args : List String) (k : String) : Option Nat := (kv args k).bind (·.toNat?)
def kvInt (args : List String) (k : String) : Option Int := (kv args k).bind (·.toInt?)

end Driver
