import Proofs.Lemmas.LockTable
/-! Diagnostics evaluated by /verif/check when a C15 obligation fails: the offending rows. -/
open Proofs.C15 TunnelModel.Generated
#eval do
  for a in violations accessTable do IO.println s!"DISCIPLINE {showAccess a}"
  for a in blockingViolations accessTable do IO.println s!"BLOCKING-UNDER-LOOP-LOCK {showAccess a}"
  for a in loopSendViolations accessTable do IO.println s!"SEND-ON-RECEIVE-LOOP {showAccess a}"
  for a in lockedWaitViolations accessTable do IO.println s!"WAIT-WITH-LOCK-HELD {showAccess a}"
  if !acyclic lockOrderEdges then IO.println s!"LOCK-ORDER-CYCLE {lockOrderEdges}"
