import Proofs.Lemmas.LockTable
/-! Diagnostics evaluated by /verif/check when a C15 obligation fails: the offending rows. -/
open Proofs.C15 TunnelModel.Generated
#eval do
  for a in violations accessTable do IO.println s!"DISCIPLINE {showAccess a}"
  for a in blockingViolations accessTable do IO.println s!"BLOCKING-UNDER-LOOP-LOCK {showAccess a}"
  for a in loopSendViolations accessTable do IO.println s!"SEND-ON-RECEIVE-LOOP {showAccess a}"
  for a in lockedWaitViolations accessTable do IO.println s!"WAIT-WITH-LOCK-HELD {showAccess a}"
  for r in splitSections lockSections do IO.println s!"SPLIT-CRITICAL-SECTION {r.1} accesses data protected by {r.2} in two separate critical sections (check-then-act)"
  for r in writesUnderRLock lockSections do IO.println s!"WRITE-UNDER-READ-LOCK {r.1} writes {r.2.2.2.2.1}.{r.2.2.2.2.2.1} holding {r.2.1} in read mode"
  for a in wakeupViolations accessTable do IO.println s!"WAKEUP-UNDER-SLEEPERS-LOCK {showAccess a}"
  for a in idOrderViolations accessTable do IO.println s!"ID-ORDER {showAccess a}"
  if !acyclic lockOrderEdges then IO.println s!"LOCK-ORDER-CYCLE {lockOrderEdges}"
