import TunnelModel.Generated.Facts
import TunnelModel.Negotiate
/-!
  Side conditions on the facts regenerated from /repo's sources by
  /verif/harness/extract.  Every theorem that mentions a protocol constant is
  stated over a parameter with these hypotheses; this file discharges them for
  the values the code has *now*.  A changed constant breaks a `decide` here.
-/
namespace Proofs.Facts
open TunnelModel

theorem extractor_complete : Generated.missing = [] := by decide
theorem chunkMax_eq : Generated.chunkMax = 16384 := by decide
theorem window_eq : Generated.initialWindowSize = 65536 := by decide
theorem chunkMax_pos : 0 < Generated.chunkMax := by decide
theorem chunkMax_le_window : Generated.chunkMax ≤ Generated.initialWindowSize := by decide
theorem window_fits_uint32 : Generated.initialWindowSize < 4294967296 := by decide
theorem negotiate_header : Generated.negotiateKey = "grpctunnel-negotiate" ∧ Generated.negotiateVal = "on" := by decide
theorem server_initial_lastSeen : Generated.serverInitialLastSeen = -1 := by decide
theorem settings_stream_id : Generated.settingsStreamIdSent = -1 ∧ Generated.settingsStreamIdExpected = -1 := by decide
theorem supported_enabled : Negotiate.supportedRevisions false = Generated.supportedRevisionsEnabled := by decide
theorem supported_disabled : Negotiate.supportedRevisions true = Generated.supportedRevisionsDisabled := by decide
theorem advertised_windows :
    Generated.settingsWindowExpr = "initialWindowSize" ∧ Generated.newStreamWindowExpr = "initialWindowSize" := by decide

end Proofs.Facts

namespace Proofs.Facts
/-- the context constructions the C17 model describes are the ones in the source -/
theorem context_wiring : TunnelModel.Generated.ctxFacts.all (·.2) = true := by decide
end Proofs.Facts
