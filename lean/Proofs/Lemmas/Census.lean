import Proofs.Lemmas.Teardown
import TunnelModel.LFrame.Census
/-!
  # Census: no goroutine is left behind by a finished RPC / a finished tunnel

  Goroutines are not objects of the model; what the model has is the state that
  keeps each of them alive.  On the server every stream object accounts for two
  goroutines: the handler goroutine (alive until `hstatus = .returned`) and the
  context watcher started by `createStream` (alive until the stream context
  ends, `ctxDone.isSome`).  On the client every stream accounts for its context
  watcher, and the channel for its receive loop (alive until `finished.isSome`).
  `sGoroutines`, `srvCensus`, `cGoroutines`, `cliCensus` count them.

  Everything requested is TRUE of the model and proved as stated, completely
  (axioms used: a subset of `propext`, `Classical.choice`, `Quot.sound`; see the
  `#print axioms` at the end of the file).

  Method.  One relation `GRel s s'` between a stream object before and after a
  stream-level operation is proved for every operation (`onFrame_g`,
  `onCall_g`, `cancelCtx_g`, following the `_tab` proofs of `Teardown.lean`):
    * `t`  : `Teardown.TRel s s'` (`closed` is monotone, an ended context stays ended);
    * `cd` : if `s'` is closed then `s` was closed already or the context of `s'` has ended;
    * `rc` : if the handler of `s'` has returned then it had returned in `s` already or `s'` is closed.
  `finishCore` alone is NOT in `GRel` (it marks the stream closed and leaves the
  context alone); the model only ever runs it followed by `cancelCtx`
  (`finish`, the model of `finishStream`, whose Go original cancels first — the
  net effect of the atomic step is the same) or on a stream whose context has
  just ended (inside `cancelCtx`): `finish_abs`, `finishCore_abs`.

  `CD` (closed → context ended) is inductive on its own and lifted with
  `Teardown.SLift` (`cd_lift`).  `RC` (handler returned → closed) is FALSE of
  the fourth field of `SLift` — `SLift.fresh` asks for the predicate on a fresh
  stream object with an ARBITRARY `hstatus`, and a fresh object with `hstatus =
  .returned` is not closed — so it is lifted with `SLiftR`, the same device
  with `fresh` restricted to the `hstatus` that `createStream` really installs
  (`if unary then .decoding else .running`).

  Main theorems
    1  `cd_lift`, `closed_ctxDone_run`
    2  `server_no_goroutine_left`, `server_census_after_return`,
       `client_no_goroutine_left`, `client_census_after_close`,
       `returned_closed_run`, `server_quiescent_census`,
       `open_ctx_not_closed_run`, `server_goroutines_zero_iff`,
       `server_census_zero_iff`
-/
namespace Proofs.Census
open TunnelModel TunnelModel.LFrame TunnelModel.Framing
open Proofs.Teardown
open Proofs.ServerBound (AllS allS_init allS_setAny getAny_mem getStream_mem append_all)

variable {α : Type}

/-! ## Part 1: a finished stream's context has ended; a returned handler's stream is finished -/

/-- a finished stream's context has ended -/
def CD (s : SStream α) : Prop := s.closed = true → s.ctxDone.isSome = true

/-- a stream whose handler has returned is finished -/
def RC (s : SStream α) : Prop := s.hstatus = .returned → s.closed = true

structure GRel (s s' : SStream α) : Prop where
  t : TRel s s'
  cd : s'.closed = true → s.closed = true ∨ s'.ctxDone.isSome = true
  rc : s'.hstatus = .returned → s.hstatus = .returned ∨ s'.closed = true

theorem GRel.refl (s : SStream α) : GRel s s := ⟨TRel.refl s, Or.inl, Or.inl⟩

theorem GRel.trans {a b c : SStream α} (h1 : GRel a b) (h2 : GRel b c) : GRel a c := by
  refine ⟨h1.t.trans h2.t, fun hc => ?_, fun hr => ?_⟩
  · rcases h2.cd hc with hb | hx
    · rcases h1.cd hb with ha | hx
      · exact Or.inl ha
      · exact Or.inr (h2.t.ctxDone hx)
    · exact Or.inr hx
  · rcases h2.rc hr with hb | hx
    · rcases h1.rc hb with ha | hx
      · exact Or.inl ha
      · exact Or.inr (h2.t.closed hx)
    · exact Or.inr hx

theorem GRel.trans' {a b c : SStream α} (h2 : GRel b c) (h1 : GRel a b) : GRel a c := h1.trans h2

theorem GRel.of_eq {s s' : SStream α} (hc : s'.closed = s.closed) (ht : s'.inTable = s.inTable)
    (hx : s'.ctxDone = s.ctxDone) (hh : s'.hstatus = s.hstatus) : GRel s s' :=
  ⟨TRel.of_eq hc ht hx, fun h => Or.inl (hc ▸ h), fun h => Or.inl (hh ▸ h)⟩

theorem GRel.keeps_cd {s s' : SStream α} (h : GRel s s') (hi : CD s) : CD s' := by
  intro hc
  rcases h.cd hc with h0 | hx
  · exact h.t.ctxDone (hi h0)
  · exact hx

theorem GRel.keeps_rc {s s' : SStream α} (h : GRel s s') (hi : RC s) : RC s' := by
  intro hr
  rcases h.rc hr with h0 | hx
  · exact h.t.closed (hi h0)
  · exact hx

theorem finish_ctxDone (sid : Sid) (s : SStream α) (err : Option SErr) (b : Bool) :
    (s.finish sid err b).1.ctxDone.isSome = true := by
  unfold SStream.finish
  exact (Proofs.C09.cancelCtx_released _ _ _).1

/-- `finishStream` absorbs whatever was done to the stream object before it, as
    far as `closed`, `inTable` and an ended context are concerned: afterwards the
    stream is closed and its context has ended -/
theorem finish_abs {s0 s : SStream α} (sid : Sid) (err : Option SErr) (b : Bool) (h : TRel s0 s) :
    GRel s0 (s.finish sid err b).1 :=
  ⟨h.trans (finish_tab sid s err b), fun _ => Or.inr (finish_ctxDone sid s err b),
   fun _ => Or.inr (Proofs.ServerShape.finish_closed sid s err b).1⟩

/-- the same for `finishCore` on a stream whose context has ended -/
theorem finishCore_abs {s0 s : SStream α} (sid : Sid) (err : Option SErr) (h : TRel s0 s)
    (hx : s.ctxDone.isSome = true) : GRel s0 (s.finishCore sid err).1 :=
  ⟨h.trans (finishCore_tab sid s err),
   fun _ => Or.inr (by rw [(Proofs.C09.finishCore_fields sid s err).1]; exact hx),
   fun _ => Or.inr (Proofs.ServerShape.finishCore_closed sid s err).1⟩

theorem halfClose_g (s : SStream α) (e : SErr) : GRel s (s.halfClose e) := by
  unfold SStream.halfClose
  split
  · exact GRel.refl s
  · exact GRel.of_eq rfl rfl rfl rfl

theorem ccSend_g (sid : Sid) (s : SStream α) (e : CtxErr) (hx : s.ctxDone.isSome = true) :
    GRel s (Proofs.ServerBound.ccSend sid s e).1 := by
  unfold Proofs.ServerBound.ccSend
  split
  · dsimp only
    split
    · exact finishCore_abs _ _ (TRel.of_eq rfl rfl rfl) hx
    · exact GRel.of_eq rfl rfl rfl rfl
  · exact GRel.refl s

theorem ccRead_g (sid : Sid) (s : SStream α) (e : CtxErr) (hx : s.ctxDone.isSome = true) :
    GRel s (Proofs.ServerBound.ccRead sid s e).1 := by
  unfold Proofs.ServerBound.ccRead
  split
  · dsimp only
    split
    · exact finishCore_abs _ _ (TRel.of_eq rfl rfl rfl) hx
    · exact GRel.of_eq rfl rfl rfl rfl
  · exact GRel.refl s

theorem cancelCtx_g (sid : Sid) (s : SStream α) (e : CtxErr) : GRel s (s.cancelCtx sid e).1 := by
  rw [Proofs.ServerBound.cancelCtx_fst]
  split
  · exact GRel.refl s
  · rename_i hn
    have h1 : GRel s ({ s with ctxDone := some e, rcv := if s.fc then s.rcv.cancel else s.rcv.close } : SStream α) :=
      ⟨⟨Or.inl ⟨rfl, rfl⟩, fun h => absurd h hn⟩, Or.inl, Or.inl⟩
    exact (h1.trans (ccSend_g _ _ _ rfl)).trans (ccRead_g _ _ _ ((ccSend_tab _ _ _).ctxDone rfl))

theorem finish_g (sid : Sid) (s : SStream α) (err : Option SErr) (b : Bool) :
    GRel s (s.finish sid err b).1 := finish_abs sid err b (TRel.refl s)

theorem pumpSend_g (cfg : SCfg) (sid : Sid) (s : SStream α) (snd : Snd α) :
    GRel s (s.pumpSend cfg sid snd).1 := by
  unfold SStream.pumpSend
  split
  · dsimp only
    split
    · exact GRel.of_eq rfl rfl rfl rfl
    · split
      · exact GRel.of_eq rfl rfl rfl rfl
      · exact GRel.of_eq rfl rfl rfl rfl
  · exact GRel.of_eq rfl rfl rfl rfl

theorem afterSend_g (sid : Sid) (s : SStream α) (o : Out α) : GRel s (s.afterSend sid o).1 := by
  unfold SStream.afterSend
  split
  · dsimp only
    exact finish_abs _ _ _ (TRel.of_eq rfl rfl rfl)
  · exact GRel.refl s

theorem resumeRead_g (sid : Sid) (mn : String) : ∀ (fuel : Nat) (s : SStream α),
    GRel s (SStream.resumeRead sid mn fuel s).1 := by
  intro fuel
  induction fuel with
  | zero => intro s; exact GRel.refl s
  | succ fuel ih =>
    intro s
    unfold SStream.resumeRead
    split
    · exact GRel.refl s
    · rename_i p hp
      generalize hr : readLoop s.rcv.rwin s.rcv.queue p.rst = r
      obtain ⟨rwin, q, credits, out⟩ := r
      dsimp -zeta only
      extract_lets cf rcv0 s1 opName failWith e
      have hs1 : GRel s s1 := GRel.of_eq rfl rfl rfl rfl
      have hfw : ∀ (s' : SStream α) (e : SErr) (b : Bool), GRel s' (failWith s' e b).1 := by
        intro s' e b
        simp only [failWith]
        split
        · exact GRel.of_eq rfl rfl rfl rfl
        · dsimp only
          exact finish_abs _ _ _ (TRel.of_eq rfl rfl rfl)
      clear_value s1 failWith
      refine hs1.trans ?_
      split
      · split
        · split
          · exact GRel.of_eq rfl rfl rfl rfl
          · exact hfw _ _ _
        · exact GRel.of_eq rfl rfl rfl rfl
      · split
        · exact hfw _ _ _
        · split
          · exact GRel.of_eq rfl rfl rfl rfl
          · dsimp only
            exact GRel.trans' (ih _) (GRel.of_eq rfl rfl rfl rfl)
      · exact hfw _ _ _
      · exact GRel.refl s1

theorem afterDecode_g (sid : Sid) (s : SStream α) (o : Out α) : GRel s (s.afterDecode sid o).1 := by
  unfold SStream.afterDecode
  split
  · split
    · exact ⟨TRel.of_eq rfl rfl rfl, Or.inl, fun h => by cases h⟩
    · dsimp only
      exact finish_abs _ _ _ (TRel.of_eq rfl rfl rfl)
    · exact GRel.refl s
  · exact GRel.refl s

theorem readAndSettle_g (sid : Sid) (s : SStream α) : GRel s (s.readAndSettle sid).1 := by
  unfold SStream.readAndSettle
  dsimp only
  refine GRel.trans ?_ (afterDecode_g _ _ _)
  exact resumeRead_g _ _ _ _

theorem startRecv_g (sid : Sid) (s : SStream α) : GRel s (s.startRecv sid).1 := by
  unfold SStream.startRecv
  dsimp only
  split
  · exact afterDecode_g _ _ _
  · split
    · exact GRel.trans' (afterDecode_g _ _ _) (GRel.of_eq rfl rfl rfl rfl)
    · exact GRel.trans' (readAndSettle_g _ _) (GRel.of_eq rfl rfl rfl rfl)

theorem onFrame_g (cfg : SCfg) (sid : Sid) (s : SStream α) (f : C2S α) :
    GRel s (s.onFrame cfg sid f).1 := by
  cases f with
  | newStream m md rev win => exact GRel.refl s
  | halfClose =>
    simp only [SStream.onFrame]
    split
    · exact GRel.refl s
    · exact (halfClose_g _ _).trans (readAndSettle_g _ _)
  | cancel => exact finish_g _ _ _ _
  | unset => exact finish_g _ _ _ _
  | windowUpdate n =>
    simp only [SStream.onFrame]
    split
    · exact GRel.refl s
    · split
      · exact GRel.of_eq rfl rfl rfl rfl
      · refine GRel.trans ?_ (afterSend_g _ _ _)
        refine GRel.trans ?_ (pumpSend_g _ _ _ _)
        exact GRel.of_eq rfl rfl rfl rfl
  | msg size d =>
    simp only [SStream.onFrame]
    split
    · split
      · exact GRel.refl s
      · exact finish_g _ _ _ _
      · exact GRel.trans' (readAndSettle_g _ _) (GRel.of_eq rfl rfl rfl rfl)
    · split
      · exact GRel.refl s
      · split
        · exact GRel.of_eq rfl rfl rfl rfl
        · exact GRel.trans' (readAndSettle_g _ _) (GRel.of_eq rfl rfl rfl rfl)
  | more d =>
    simp only [SStream.onFrame]
    split
    · split
      · exact GRel.refl s
      · exact finish_g _ _ _ _
      · exact GRel.trans' (readAndSettle_g _ _) (GRel.of_eq rfl rfl rfl rfl)
    · split
      · exact GRel.refl s
      · split
        · exact GRel.of_eq rfl rfl rfl rfl
        · exact GRel.trans' (readAndSettle_g _ _) (GRel.of_eq rfl rfl rfl rfl)

theorem onCall_g (cfg : SCfg) (sid : Sid) (s : SStream α) (c : HCall α) :
    GRel s (s.onCall cfg sid c).1 := by
  cases c with
  | recv => exact startRecv_g _ _
  | send m =>
    simp only [SStream.onCall]
    split
    · split
      · exact GRel.refl s
      · refine GRel.trans ?_ (pumpSend_g _ _ _ _)
        exact GRel.of_eq rfl rfl rfl rfl
    · split
      · exact GRel.of_eq rfl rfl rfl rfl
      · refine GRel.trans ?_ (pumpSend_g _ _ _ _)
        exact GRel.of_eq rfl rfl rfl rfl
  | setHeader md =>
    simp only [SStream.onCall]
    split
    · exact GRel.refl s
    · exact GRel.of_eq rfl rfl rfl rfl
  | sendHeader md =>
    simp only [SStream.onCall]
    split
    · exact GRel.refl s
    · exact GRel.of_eq rfl rfl rfl rfl
  | setTrailer md =>
    simp only [SStream.onCall]
    split
    · exact GRel.refl s
    · exact GRel.of_eq rfl rfl rfl rfl
  | ret st =>
    simp only [SStream.onCall]
    exact finish_abs _ _ _ (TRel.of_eq rfl rfl rfl)
  | reply m =>
    simp only [SStream.onCall]
    refine GRel.trans ?_ (afterSend_g _ _ _)
    refine GRel.trans ?_ (pumpSend_g _ _ _ _)
    split
    · exact GRel.of_eq rfl rfl rfl rfl
    · exact GRel.of_eq rfl rfl rfl rfl

/-- **`CD` is kept by every stream-level operation and holds for fresh streams** -/
theorem cd_lift (cfg : SCfg) : SLift cfg (CD (α := α)) :=
  ⟨fun sid s f h => (onFrame_g cfg sid s f).keeps_cd h, fun sid s c h => (onCall_g cfg sid s c).keeps_cd h,
   fun sid s e h => (cancelCtx_g sid s e).keeps_cd h, fun _ _ _ _ _ _ _ _ h => by cases h⟩

/-- **In every reachable server state a finished stream's context has ended.** -/
theorem closed_ctxDone_run (cfg : SCfg) (xs : List (SStim α)) :
    ∀ e ∈ (Srv.run cfg ({} : Srv α) xs).1.streams, e.2.closed = true → e.2.ctxDone.isSome = true :=
  allS_run (cd_lift cfg) xs {} (allS_init _)

/-- contrapositive: while the stream context is live the stream is not finished -/
theorem open_ctx_not_closed_run (cfg : SCfg) (xs : List (SStim α)) :
    ∀ e ∈ (Srv.run cfg ({} : Srv α) xs).1.streams, e.2.ctxDone = none → e.2.closed = false := by
  intro e he hn
  cases hc : e.2.closed with
  | false => rfl
  | true =>
    have := closed_ctxDone_run cfg xs e he hc
    rw [hn] at this; cases this

/-! ### lifting with the `hstatus` that `createStream` installs

  `Teardown.SLift.fresh` quantifies over every `hstatus`; `RC` does not hold
  for a fresh stream object whose handler "has returned".  `SLiftR` is `SLift`
  with `fresh` restricted to what `createStream` builds. -/

structure SLiftR (cfg : SCfg) (P : SStream α → Prop) : Prop where
  frame : ∀ (sid : Sid) (s : SStream α) (f : C2S α), P s → P (s.onFrame cfg sid f).1
  call : ∀ (sid : Sid) (s : SStream α) (c : HCall α), P s → P (s.onCall cfg sid c).1
  ctx : ∀ (sid : Sid) (s : SStream α) (e : CtxErr), P s → P (s.cancelCtx sid e).1
  fresh : ∀ (cs ss unary fc : Bool) (W win : Nat) (dl : Option Nat),
    P ({ cs := cs, ss := ss, unary := unary, fc := fc, rcv := RcvQ.init W, win := win, deadline := dl,
         hstatus := if unary then .decoding else .running } : SStream α)

theorem allS_createStreamR {cfg : SCfg} {P : SStream α → Prop} (hP : SLiftR cfg P)
    (s : Srv α) (sid : Sid) (m : List Nat) (md : MD) (rev : Int) (win : Nat) (h : AllS P s) :
    AllS P (s.createStream cfg sid m md rev win).1 := by
  unfold Srv.createStream
  split
  · exact allS_serveReturns hP.ctx _ _ h
  · split
    · exact allS_serveReturns hP.ctx _ _ h
    · dsimp only
      split
      · exact h
      · split
        · exact h
        · split
          · exact h
          · exact h
          · split
            · exact append_all h (hP.call sid _ .recv (hP.fresh _ _ _ _ _ _ _))
            · exact append_all h (hP.fresh _ _ _ _ _ _ _)

theorem allS_stepR {cfg : SCfg} {P : SStream α → Prop} (hP : SLiftR cfg P)
    (s : Srv α) (x : SStim α) (h : AllS P s) : AllS P (s.step cfg x).1 := by
  cases x with
  | frame sid f =>
    simp only [Srv.step, Srv.onFrame]
    split
    · exact h
    · split
      · exact allS_createStreamR hP _ _ _ _ _ _ h
      · split
        · rename_i st hst
          obtain ⟨e, he, rfl⟩ := getStream_mem _ _ _ hst
          exact allS_setAny _ _ _ h (hP.frame _ _ _ (h e he))
        · split
          · exact h
          · exact allS_serveReturns hP.ctx _ _ h
  | call sid c =>
    simp only [Srv.step, Srv.onCall]
    split
    · exact h
    · rename_i st hst
      obtain ⟨e, he, rfl⟩ := getAny_mem _ _ _ hst
      exact allS_setAny _ _ _ h (hP.call _ _ _ (h e he))
  | tick d => exact allS_tick hP.ctx _ _ h
  | closing b => exact h
  | carrierEnds err =>
    simp only [Srv.step]
    split
    · exact h
    · exact allS_serveReturns hP.ctx _ _ h

theorem allS_runR {cfg : SCfg} {P : SStream α → Prop} (hP : SLiftR cfg P) :
    ∀ (xs : List (SStim α)) (s : Srv α), AllS P s → AllS P (Srv.run cfg s xs).1 := by
  intro xs
  induction xs with
  | nil => intro s h; exact h
  | cons x xs ih =>
    intro s h
    simp only [Srv.run]
    exact ih _ (allS_stepR hP s x h)

theorem rc_lift (cfg : SCfg) : SLiftR cfg (RC (α := α)) :=
  ⟨fun sid s f h => (onFrame_g cfg sid s f).keeps_rc h, fun sid s c h => (onCall_g cfg sid s c).keeps_rc h,
   fun sid s e h => (cancelCtx_g sid s e).keeps_rc h,
   fun _ _ unary _ _ _ _ h => by cases unary <;> cases h⟩

/-- **In every reachable server state a stream whose handler has returned is
    finished** (the return of a handler always runs `finishStream`). -/
theorem returned_closed_run (cfg : SCfg) (xs : List (SStim α)) :
    ∀ e ∈ (Srv.run cfg ({} : Srv α) xs).1.streams, e.2.hstatus = .returned → e.2.closed = true :=
  allS_runR (rc_lift cfg) xs {} (allS_init _)

/-! ## Part 2: the census -/

theorem sGoroutines_zero {s : SStream α} (hr : s.hstatus = .returned) (hx : s.ctxDone.isSome = true) :
    sGoroutines s = 0 := by
  unfold sGoroutines
  rw [hr, hx]
  rfl

theorem sGoroutines_zero_iff (s : SStream α) :
    sGoroutines s = 0 ↔ s.hstatus = .returned ∧ s.ctxDone.isSome = true := by
  constructor
  · intro h
    unfold sGoroutines at h
    refine ⟨?_, ?_⟩
    · cases hh : s.hstatus with
      | returned => rfl
      | decoding => rw [hh] at h; simp at h
      | running => rw [hh] at h; simp at h
    · cases hx : s.ctxDone.isSome with
      | true => rfl
      | false => rw [hx] at h; simp at h
  · intro ⟨hr, hx⟩; exact sGoroutines_zero hr hx

/-- **Server: a finished RPC whose handler has returned leaves no goroutine behind.** -/
theorem server_no_goroutine_left (cfg : SCfg) (xs : List (SStim α)) :
    ∀ e ∈ (Srv.run cfg ({} : Srv α) xs).1.streams, e.2.closed = true → e.2.hstatus = .returned →
      sGoroutines e.2 = 0 :=
  fun e he hc hr => sGoroutines_zero hr (closed_ctxDone_run cfg xs e he hc)

/-- the census, by definition: handlers that have not returned plus live contexts -/
theorem census_split (l : List (Sid × SStream α)) :
    (l.map (fun e => sGoroutines e.2)).sum =
      (l.filter (fun e => e.2.hstatus != .returned)).length + (l.filter (fun e => e.2.ctxDone.isNone)).length := by
  induction l with
  | nil => rfl
  | cons x rest ih =>
    rw [List.map_cons, List.sum_cons, ih]
    simp only [List.filter_cons]
    unfold sGoroutines
    cases hh : x.2.hstatus <;> cases hx : x.2.ctxDone <;> simp <;> omega

/-- when every context has ended only the handlers are left -/
theorem census_of_ctxEnded (l : List (Sid × SStream α)) (h : ∀ e ∈ l, e.2.ctxDone.isSome = true) :
    (l.map (fun e => sGoroutines e.2)).sum = (l.filter (fun e => e.2.hstatus != .returned)).length := by
  rw [census_split]
  have : l.filter (fun e => e.2.ctxDone.isNone) = [] := by
    apply List.filter_eq_nil_iff.mpr
    intro e he
    have := h e he
    cases hx : e.2.ctxDone with
    | none => rw [hx] at this; cases this
    | some c => simp
  rw [this]; rfl

/-- **Server: after `serve` has returned the only goroutines left are handlers
    that have not returned yet** (every context watcher is gone; by
    `C04_server_returned_never_blocks` none of those handlers is blocked in the
    tunnel). -/
theorem server_census_after_return (cfg : SCfg) (xs : List (SStim α)) :
    let s := (Srv.run cfg ({} : Srv α) xs).1
    s.returned.isSome = true →
    srvCensus s = (s.streams.filter (fun e => e.2.hstatus != .returned)).length := by
  intro s hret
  exact census_of_ctxEnded s.streams (fun e he => (C04_server_returned_never_blocks cfg xs hret e he).1)

/-- **Server, any reachable state: the census is the number of handlers that
    have not returned plus the number of live stream contexts; a stream with a
    live context is not finished; a stream whose handler returned is finished,
    its context has ended and it accounts for no goroutine.** -/
theorem server_quiescent_census (cfg : SCfg) (xs : List (SStim α)) :
    let s := (Srv.run cfg ({} : Srv α) xs).1
    srvCensus s = (s.streams.filter (fun e => e.2.hstatus != .returned)).length +
                  (s.streams.filter (fun e => e.2.ctxDone.isNone)).length ∧
    (∀ e ∈ s.streams, e.2.ctxDone = none → e.2.closed = false) ∧
    (∀ e ∈ s.streams, e.2.hstatus = .returned →
      e.2.closed = true ∧ e.2.ctxDone.isSome = true ∧ sGoroutines e.2 = 0) := by
  intro s
  refine ⟨census_split s.streams, open_ctx_not_closed_run cfg xs, fun e he hr => ?_⟩
  have hc := returned_closed_run cfg xs e he hr
  exact ⟨hc, closed_ctxDone_run cfg xs e he hc, server_no_goroutine_left cfg xs e he hc hr⟩

/-- in a reachable state a stream object accounts for no goroutine iff its handler has returned -/
theorem server_goroutines_zero_iff (cfg : SCfg) (xs : List (SStim α)) :
    ∀ e ∈ (Srv.run cfg ({} : Srv α) xs).1.streams, (sGoroutines e.2 = 0 ↔ e.2.hstatus = .returned) := by
  intro e he
  constructor
  · intro h; exact ((sGoroutines_zero_iff e.2).mp h).1
  · intro hr
    exact ((server_quiescent_census cfg xs).2.2 e he hr).2.2

theorem sum_eq_zero_iff (l : List Nat) : l.sum = 0 ↔ ∀ n ∈ l, n = 0 := by
  induction l with
  | nil => simp
  | cons x rest ih =>
    simp only [List.sum_cons, List.mem_cons, forall_eq_or_imp, ← ih]
    omega

/-- **Server: the census is zero exactly when every handler has returned.** -/
theorem server_census_zero_iff (cfg : SCfg) (xs : List (SStim α)) :
    let s := (Srv.run cfg ({} : Srv α) xs).1
    srvCensus s = 0 ↔ ∀ e ∈ s.streams, e.2.hstatus = .returned := by
  intro s
  unfold srvCensus
  rw [sum_eq_zero_iff]
  constructor
  · intro h e he
    exact (server_goroutines_zero_iff cfg xs e he).mp (h _ (List.mem_map.mpr ⟨e, he, rfl⟩))
  · intro h n hn
    obtain ⟨e, he, rfl⟩ := List.mem_map.mp hn
    exact (server_goroutines_zero_iff cfg xs e he).mpr (h e he)

/-! ### client -/

/-- **Client: an RPC with its terminal result leaves no goroutine behind.** -/
theorem client_no_goroutine_left (cfg : CCfg) (xs : List (CStim α)) :
    ∀ e ∈ (Cli.run cfg (Cli.start cfg : Cli α) xs).1.streams, e.2.done.isSome = true → cGoroutines e.2 = 0 := by
  intro e he hd
  have hwf := (Proofs.C07.reachable_WF cfg xs e he).1
  unfold cGoroutines
  rw [hwf, hd]
  rfl

theorem ccensus_of_ctxEnded (l : List (Sid × CStream α)) (h : ∀ e ∈ l, e.2.ctxDone.isSome = true) :
    (l.map (fun e => cGoroutines e.2)).sum = 0 := by
  rw [sum_eq_zero_iff]
  intro n hn
  obtain ⟨e, he, rfl⟩ := List.mem_map.mp hn
  unfold cGoroutines
  rw [h e he]
  rfl

/-- **Client: a finished channel leaves no goroutine behind** (the receive loop
    is gone and so is every context watcher). -/
theorem client_census_after_close (cfg : CCfg) (xs : List (CStim α)) :
    let c := (Cli.run cfg (Cli.start cfg : Cli α) xs).1
    c.finished.isSome = true → cliCensus c = 0 := by
  intro c hf
  unfold cliCensus
  rw [hf, ccensus_of_ctxEnded c.streams (fun e he => (C04_client_finished_never_blocks cfg xs hf e he).2.1)]
  rfl

/-! ## non-vacuity (payload type `Nat`) -/

section Examples

/-- service `[1]` with one unary method `[3]` and one bidi stream method `[2]` -/
def exCfg : SCfg := { services := [([1], { methods := [[3]], streams := [([2], true, true)] })] }

-- mid-RPC: the handler of a streaming RPC is blocked in a read — handler + context watcher
example :
    let s := (Srv.run (α := Nat) exCfg {} [.frame 0 (.newStream [47, 1, 47, 2] [] 1 10), .call 0 .recv]).1
    srvCensus s = 2 ∧
    s.streams.map (fun e => (e.1, sGoroutines e.2, e.2.closed, e.2.ctxDone.isSome)) = [(0, 2, false, false)] := by
  decide

-- ... the handler returns: census 0, stream finished, context ended
example :
    let s := (Srv.run (α := Nat) exCfg {}
      [.frame 0 (.newStream [47, 1, 47, 2] [] 1 10), .call 0 .recv, .frame 0 .halfClose,
       .call 0 (.ret (mkStatus 0 ""))]).1
    srvCensus s = 0 ∧
    s.streams.map (fun e => (e.1, sGoroutines e.2, e.2.closed, e.2.ctxDone.isSome)) = [(0, 0, true, true)] := by
  decide

-- a cancel frame while the handler runs: `finishStream` by the receive loop — the stream
-- is finished and its context watcher is gone (`CD`), the handler goroutine is still
-- there (census 1) until it returns (census 0)
example :
    let s1 := (Srv.run (α := Nat) exCfg {} [.frame 0 (.newStream [47, 1, 47, 2] [] 1 10), .frame 0 .cancel]).1
    let s2 := (Srv.run (α := Nat) exCfg s1 [.call 0 (.ret (mkStatus 1 "canceled"))]).1
    srvCensus s1 = 1 ∧
    s1.streams.map (fun e => (e.1, e.2.closed, e.2.ctxDone.isSome, e.2.hstatus == .returned)) = [(0, true, true, false)] ∧
    srvCensus s2 = 0 := by
  decide

-- a unary RPC blocked in its decode callback is released by the cancel frame: the handler
-- returns the context error in the same step — nothing is left
example :
    let s0 := (Srv.run (α := Nat) exCfg {} [.frame 0 (.newStream [47, 1, 47, 3] [] 1 10)]).1
    let s1 := (Srv.run (α := Nat) exCfg s0 [.frame 0 .cancel]).1
    srvCensus s0 = 2 ∧ srvCensus s1 = 0 ∧
    s1.streams.map (fun e => (e.1, e.2.closed, e.2.ctxDone.isSome, e.2.hstatus == .returned)) = [(0, true, true, true)] := by
  decide

-- `serve` returns with two RPCs in flight (one blocked in a read, one running): the
-- context watchers are gone, the two handlers remain (`server_census_after_return`)
-- until they return
example :
    let xs : List (SStim Nat) :=
      [.frame 0 (.newStream [47, 1, 47, 2] [] 1 10), .frame 2 (.newStream [47, 1, 47, 2] [] 1 10), .call 0 .recv]
    let s0 := (Srv.run exCfg {} xs).1
    let s1 := (Srv.run exCfg s0 [.carrierEnds none]).1
    let s2 := (Srv.run exCfg s1 [.call 0 (.ret (mkStatus 1 "")), .call 2 (.ret (mkStatus 0 ""))]).1
    srvCensus s0 = 4 ∧ s1.returned.isSome = true ∧ srvCensus s1 = 2 ∧
    (s1.streams.filter (fun e => e.2.hstatus != .returned)).length = 2 ∧ srvCensus s2 = 0 := by
  decide

-- client: receive loop + two context watchers; a close frame ends one RPC; `close` ends everything
example :
    let xs : List (CStim Nat) :=
      [.frame (-1) (.settings 100 [1]), .new true true [1] [] none false, .new true true [1] [] none false]
    let c0 := (Cli.run {} (Cli.start {}) xs).1
    let c1 := (Cli.run {} c0 [.frame 1 (.close (mkStatus 0 "") [])]).1
    let c2 := (Cli.run {} c1 [.close]).1
    cliCensus c0 = 3 ∧ cliCensus c1 = 2 ∧
    c1.streams.map (fun e => (e.1, e.2.done.isSome, cGoroutines e.2)) = [(1, true, 0), (2, false, 1)] ∧
    c2.finished.isSome = true ∧ cliCensus c2 = 0 := by
  decide

end Examples

end Proofs.Census

#print axioms Proofs.Census.cd_lift
#print axioms Proofs.Census.closed_ctxDone_run
#print axioms Proofs.Census.open_ctx_not_closed_run
#print axioms Proofs.Census.returned_closed_run
#print axioms Proofs.Census.server_no_goroutine_left
#print axioms Proofs.Census.server_census_after_return
#print axioms Proofs.Census.server_quiescent_census
#print axioms Proofs.Census.server_goroutines_zero_iff
#print axioms Proofs.Census.server_census_zero_iff
#print axioms Proofs.Census.client_no_goroutine_left
#print axioms Proofs.Census.client_census_after_close
