import TunnelModel.LFrame.Client
/-!
  Invariants of the client endpoint model (`TunnelModel.LFrame.Client`) that
  hold for every stimulus list.  Same architecture as the server-side files
  `Server.lean`, `ServerBound.lean`, `ServerLocal.lean`.

  All statements are proved as requested; there is no `_partial` variant.

  Part 2 (C09 / C03, bounded buffering, no blocking):
    `Pres s s'` (keeps `fc`; on a flow-controlled stream keeps `unsupported`
    and does not increase `rwin + queuedBytes`) is reflexive and transitive,
    and every stream-level operation relates its argument to its result
    (`ctxEnds_pres`, `resumeRead_pres`, `finish_pres`, `cancelStream_pres`,
    `afterRead_pres`, `ctxCancelled_pres`, `pumpSend_pres`, `onFrame_pres`,
    `onCall_pres`).  `AllS P` lifts a per-stream predicate to the endpoint;
    `Liftable cfg P` is what `P` needs for `allS_step` / `allS_run`
    (`allS_setAny`, `allS_close`, `allS_tick`, `allS_newStream`,
    `allS_onSettingsPhase`, `allS_onFrame`, `allS_carrierEnds`, `allS_onCall`).
    Main theorems: `C09_client_bounded`, `client_fc_never_unsupported`.

  Part 1 (C08, ids): `CInv`, `cinv_init`, `cinv_start`, `cinv_step` (needs
    `lastStreamID < maxInt64`: `IdRules.allocate` wraps at `2^63 - 1`, see the
    `example` after `cinv_step`), `step_lastStreamID_le`, `cinv_run`,
    `C08_client_ids_increasing`, and (in part 3, since it uses `onlySid`)
    `client_newStream_ok`.

  Part 3 (C03, locality): `COut.onlySid`, `*_onlySid` for every `CStream`
    operation, `client_frame_local`, `client_call_local`,
    `client_late_frame_ignored`.
-/
namespace Proofs.ClientInv
open TunnelModel TunnelModel.LFrame TunnelModel.Framing

variable {α : Type}

/-! ## Part 2: bounded buffering (C09 / C03, client side) -/

/-- bytes held in the receive queue of a stream -/
def queuedBytes {α} (s : CStream α) : Nat := (s.rcv.queue.map TunnelModel.Framing.DFrame.size).sum

/-- flow-controlled streams: window still open plus bytes queued never exceed `W` -/
def BInv {α} (W : Nat) (s : CStream α) : Prop := s.fc = true → s.rcv.rwin + queuedBytes s ≤ W

/-- flow-controlled streams never reach the "receive loop would block" state -/
def UInv {α} (s : CStream α) : Prop := s.fc = true → s.unsupported = false

/-- `Pres s s'`: `s'` keeps `fc`, and on a flow-controlled stream keeps
    `unsupported` and does not increase `rwin + queuedBytes`. -/
def Pres {α} (s s' : CStream α) : Prop :=
  s'.fc = s.fc ∧ (s.fc = true → s'.unsupported = s.unsupported) ∧
  (s.fc = true → s'.rcv.rwin + queuedBytes s' ≤ s.rcv.rwin + queuedBytes s)

theorem Pres.refl (s : CStream α) : Pres s s := ⟨rfl, fun _ => rfl, fun _ => Nat.le_refl _⟩

theorem Pres.trans {a b c : CStream α} (h1 : Pres a b) (h2 : Pres b c) : Pres a c := by
  obtain ⟨f1, u1, m1⟩ := h1
  obtain ⟨f2, u2, m2⟩ := h2
  refine ⟨f2.trans f1, fun h => ?_, fun h => ?_⟩
  · rw [u2 (f1.trans h), u1 h]
  · exact Nat.le_trans (m2 (f1.trans h)) (m1 h)

/-- the part of the state the invariants look at is unchanged -/
theorem Pres.of_eq {s s' : CStream α} (hf : s'.fc = s.fc) (hu : s'.unsupported = s.unsupported)
    (hr : s'.rcv.rwin = s.rcv.rwin) (hq : s'.rcv.queue = s.rcv.queue) : Pres s s' := by
  refine ⟨hf, fun _ => hu, fun _ => ?_⟩
  simp [queuedBytes, hr, hq]

/-- on a stream without flow control nothing is claimed beyond `fc` being kept -/
theorem Pres.of_not_fc {s s' : CStream α} (hfc : ¬ s.fc = true) (h : s'.fc = s.fc) : Pres s s' :=
  ⟨h, fun h' => absurd h' hfc, fun h' => absurd h' hfc⟩

theorem Pres.binv {W : Nat} {s s' : CStream α} (h : Pres s s') (hb : BInv W s) : BInv W s' := by
  intro hfc
  have hfc' : s.fc = true := h.1 ▸ hfc
  exact Nat.le_trans (h.2.2 hfc') (hb hfc')

theorem Pres.uinv {s s' : CStream α} (h : Pres s s') (hb : UInv s) : UInv s' := by
  intro hfc
  have hfc' : s.fc = true := h.1 ▸ hfc
  rw [h.2.1 hfc']; exact hb hfc'

/-! ### stream-level operations -/

theorem fst_eq {A B : Type} {p : A × B} {a : A} {b : B} (h : p = (a, b)) : a = p.1 := by rw [h]
theorem snd_eq {A B : Type} {p : A × B} {a : A} {b : B} (h : p = (a, b)) : b = p.2 := by rw [h]

theorem ctxEnds_pres (sid : Sid) (s : CStream α) (e : CtxErr) (b : Bool) :
    Pres s (s.ctxEnds sid e b).1 := by
  unfold CStream.ctxEnds
  split
  · exact Pres.refl s
  · extract_lets s1
    split; rename_i s2 o1 h1
    split; rename_i s3 o2 h2
    have p1 : Pres s s1 := Pres.of_eq rfl rfl rfl rfl
    have p2 : Pres s1 s2 := by
      rw [fst_eq h1]
      split
      · exact Pres.of_eq rfl rfl rfl rfl
      · exact Pres.refl _
    have p3 : Pres s2 s3 := by
      rw [fst_eq h2]
      split
      · exact Pres.of_eq rfl rfl rfl rfl
      · exact Pres.refl _
    exact (p1.trans p2).trans p3

/-- `readLoop` moves bytes from the queue to the window: their sum is unchanged -/
theorem readLoop_sum' (q : List (DFrame α)) : ∀ (rwin : Nat) (st : RState α) (rwin' : Nat)
    (q' : List (DFrame α)) (cs : List Nat) (out : Option (PStep α)),
    readLoop rwin q st = (rwin', q', cs, out) →
    rwin' + (q'.map DFrame.size).sum = rwin + (q.map DFrame.size).sum := by
  induction q with
  | nil =>
    intro rwin st rwin' q' cs out h
    simp only [readLoop, Prod.mk.injEq] at h
    obtain ⟨h1, h2, _⟩ := h
    subst h1 h2; rfl
  | cons f q ih =>
    intro rwin st rwin' q' cs out h
    simp only [readLoop] at h
    split at h
    · rename_i st' _
      generalize hr : readLoop (rwin + f.size) q st' = r at h
      obtain ⟨w, q2, cs2, r2⟩ := r
      simp only [Prod.mk.injEq] at h
      obtain ⟨h1, h2, _⟩ := h
      subst h1 h2
      have := ih _ _ _ _ _ _ hr
      simp only [List.map_cons, List.sum_cons]
      omega
    · simp only [Prod.mk.injEq] at h
      obtain ⟨h1, h2, _⟩ := h
      subst h1 h2
      simp only [List.map_cons, List.sum_cons]; omega
    · simp only [Prod.mk.injEq] at h
      obtain ⟨h1, h2, _⟩ := h
      subst h1 h2
      simp only [List.map_cons, List.sum_cons]; omega

theorem readLoop_sum {q q' : List (DFrame α)} {rwin rwin' : Nat} {st : RState α} {cs : List Nat}
    {out : Option (PStep α)} (h : readLoop rwin q st = (rwin', q', cs, out)) :
    rwin' + (q'.map DFrame.size).sum = rwin + (q.map DFrame.size).sum :=
  readLoop_sum' q rwin st rwin' q' cs out h

theorem resumeRead_pres (sid : Sid) : ∀ (fuel : Nat) (s : CStream α),
    Pres s (CStream.resumeRead sid fuel s).1 := by
  intro fuel
  induction fuel with
  | zero => intro s; exact Pres.refl s
  | succ fuel ih =>
    intro s
    unfold CStream.resumeRead
    split
    · exact Pres.refl s
    · rename_i p hp
      split
      rename_i rwin q credits out hr
      have hsum := readLoop_sum hr
      extract_lets cf rcv0 s1 failWith e
      have hs1 : Pres s s1 := by
        refine ⟨rfl, fun _ => rfl, fun h => ?_⟩
        simp only [s1, queuedBytes, h, if_true]
        omega
      have hfw : ∀ (s' : CStream α) (e : SErr) (b : Bool), Pres s' (failWith s' e b).1 := by
        intro s' e b
        exact Pres.of_eq rfl rfl rfl rfl
      clear_value s1 failWith
      refine hs1.trans ?_
      split
      · split
        · split
          · exact Pres.of_eq rfl rfl rfl rfl
          · exact hfw _ _ _
        · exact Pres.of_eq rfl rfl rfl rfl
      · split
        · exact hfw _ _ _
        · split
          · exact Pres.of_eq rfl rfl rfl rfl
          · extract_lets s2
            split; rename_i s3 o3 c3 h3
            have : s3 = (CStream.resumeRead sid fuel s2).1 := by rw [h3]
            show Pres s1 s3
            rw [this]
            exact (Pres.of_eq rfl rfl rfl rfl).trans (ih _)
      · exact hfw _ _ _
      · exact Pres.refl s1

theorem finish_pres (sid : Sid) (s : CStream α) (err : Option SErr) (tr : MD) :
    Pres s (s.finish sid err tr).1 := by
  unfold CStream.finish
  split
  · exact Pres.refl s
  · extract_lets e s1
    split; rename_i s2 o1 h1
    split; rename_i s3 o2 c2 h2
    split; rename_i s4 o3 h3
    have p1 : Pres s s1 := Pres.of_eq rfl rfl rfl rfl
    have p2 : Pres s1 s2 := by
      rw [fst_eq h1]
      split
      · exact Pres.of_eq rfl rfl rfl rfl
      · exact Pres.refl _
    have p3 : Pres s2 s3 := by
      rw [fst_eq h2]; exact resumeRead_pres _ _ _
    have p4 : Pres s3 s4 := by
      rw [fst_eq h3]; exact ctxEnds_pres _ _ _ _
    exact ((p1.trans p2).trans p3).trans p4

theorem cancelStream_pres (sid : Sid) (s : CStream α) (err : SErr) :
    Pres s (s.cancelStream sid err).1 := by
  unfold CStream.cancelStream
  split; rename_i s1 o1 won h1
  have p1 : Pres s s1 := by rw [fst_eq h1]; exact finish_pres _ _ _ _
  split
  · exact p1
  · refine p1.trans ?_
    refine ⟨rfl, fun _ => rfl, fun h => ?_⟩
    simp [h, queuedBytes, RcvQ.cancel]

theorem afterRead_pres (sid : Sid) (s : CStream α) (r : CStream α × COut α × Option SErr)
    (h : Pres s r.1) : Pres s (CStream.afterRead sid r).1 := by
  unfold CStream.afterRead
  split
  · exact h
  · split; rename_i s2 o2 h2
    rw [fst_eq h2]
    exact Pres.trans h (cancelStream_pres _ _ _)

theorem ctxCancelled_pres (sid : Sid) (s : CStream α) (e : CtxErr) :
    Pres s (s.ctxCancelled sid e).1 := by
  unfold CStream.ctxCancelled
  split
  · exact Pres.refl s
  · split; rename_i s1 o1 h1
    split; rename_i s2 o2 h2
    have p1 : Pres s s1 := by rw [fst_eq h1]; exact ctxEnds_pres _ _ _ _
    have p2 : Pres s1 s2 := by rw [fst_eq h2]; exact cancelStream_pres _ _ _
    exact p1.trans p2

theorem pumpSend_pres (cfg : CCfg) (sid : Sid) (s : CStream α) (snd : Snd α) :
    Pres s (s.pumpSend cfg sid snd).1 := by
  unfold CStream.pumpSend
  split
  · split; rename_i fs w rest h
    extract_lets frames
    split
    · exact Pres.of_eq rfl rfl rfl rfl
    · split
      · exact Pres.of_eq rfl rfl rfl rfl
      · exact Pres.of_eq rfl rfl rfl rfl
  · exact Pres.of_eq rfl rfl rfl rfl

theorem accept_ok_pres (s : CStream α) (df : DFrame α) (r : RcvQ α) (h : s.rcv.accept df = (r, .ok)) :
    Pres s ({ s with rcv := r } : CStream α) := by
  refine ⟨rfl, fun _ => rfl, fun _ => ?_⟩
  unfold RcvQ.accept at h
  split at h
  · simp at h
  · split at h
    · simp at h
    · simp only [Prod.mk.injEq, and_true] at h
      subst h
      simp only [queuedBytes, List.map_append, List.sum_append, List.map_cons, List.map_nil, List.sum_cons,
        List.sum_nil]
      omega

theorem finish_proj_pres (sid : Sid) (s : CStream α) (err : Option SErr) (tr : MD) :
    Pres s (match s.finish sid err tr with | (s1, o1, _) => (s1, o1)).1 := by
  split; rename_i s1 o1 w h
  rw [fst_eq h]; exact finish_pres _ _ _ _

theorem onFrame_pres (cfg : CCfg) (sid : Sid) (s : CStream α) (f : S2C α) :
    Pres s (s.onFrame cfg sid f).1 := by
  unfold CStream.onFrame
  split
  · exact finish_proj_pres _ _ _ _
  · split
    · exact Pres.refl s
    · extract_lets s1
      split
      · exact Pres.of_eq rfl rfl rfl rfl
      · exact Pres.of_eq rfl rfl rfl rfl
  · exact finish_proj_pres _ _ _ _
  · split
    · exact Pres.refl s
    · extract_lets s1
      have p1 : Pres s s1 := Pres.of_eq rfl rfl rfl rfl
      split
      · exact p1
      · exact p1.trans (pumpSend_pres _ _ _ _)
  · exact finish_proj_pres _ _ _ _
  · extract_lets df
    split
    · split
      · exact Pres.refl s
      · exact finish_proj_pres _ _ _ _
      · rename_i r hacc
        apply afterRead_pres
        exact (accept_ok_pres s _ r hacc).trans (resumeRead_pres _ _ _)
    · rename_i hfc
      split
      · exact Pres.refl s
      · split
        · exact Pres.of_not_fc hfc rfl
        · apply afterRead_pres
          exact Pres.of_not_fc hfc (resumeRead_pres _ _ _).1

theorem onCall_pres (cfg : CCfg) (sid : Sid) (s : CStream α) (c : CCall α) :
    Pres s (s.onCall cfg sid c).1 := by
  unfold CStream.onCall
  split
  · split
    · exact Pres.refl s
    · exact Pres.trans (Pres.of_eq rfl rfl rfl rfl) (pumpSend_pres _ _ _ _)
  · split
    · exact Pres.refl s
    · split
      · exact Pres.refl s
      · exact Pres.of_eq rfl rfl rfl rfl
  · split
    · exact Pres.refl s
    · apply afterRead_pres
      exact Pres.trans (Pres.of_eq rfl rfl rfl rfl) (resumeRead_pres _ _ _)
  · split
    · exact Pres.refl s
    · split
      · exact Pres.refl s
      · exact Pres.of_eq rfl rfl rfl rfl
  · exact Pres.refl s
  · exact ctxCancelled_pres _ _ _

/-! ### lifting to the endpoint -/

/-- a per-stream predicate holds for every stream object of the endpoint -/
def AllS {α} (P : CStream α → Prop) (c : Cli α) : Prop := ∀ e ∈ c.streams, P e.2

/-- what a per-stream predicate needs to be an endpoint invariant: it is kept
    along `Pres` and holds for a stream object as `newStream` builds it -/
structure Liftable {α} (cfg : CCfg) (P : CStream α → Prop) : Prop where
  pres : ∀ {s s' : CStream α}, Pres s s' → P s → P s'
  fresh : ∀ st : CStream α, st.rcv = RcvQ.init cfg.W → st.unsupported = false → P st

theorem allS_init (P : CStream α → Prop) : AllS P ({} : Cli α) := by
  intro e he; cases he

theorem allS_start (cfg : CCfg) (P : CStream α → Prop) : AllS P (Cli.start cfg : Cli α) := by
  intro e he; cases he

theorem allS_setAny {P : CStream α → Prop} (c : Cli α) (sid : Sid) (st : CStream α)
    (h : AllS P c) (hst : P st) : AllS P (c.setAny sid st) := by
  intro e he
  simp only [Cli.setAny, List.mem_map] at he
  obtain ⟨e0, he0, rfl⟩ := he
  split
  · exact hst
  · exact h e0 he0

theorem getAny_mem (c : Cli α) (sid : Sid) (st : CStream α) (h : c.getAny sid = some st) :
    ∃ e ∈ c.streams, e.2 = st := by
  simp only [Cli.getAny, Option.map_eq_some_iff] at h
  obtain ⟨e, he, rfl⟩ := h
  exact ⟨e, List.mem_of_find?_eq_some he, rfl⟩

theorem getStream_mem (c : Cli α) (sid : Sid) (st : CStream α) (h : c.getStream sid = some st) :
    ∃ e ∈ c.streams, e.2 = st := by
  simp only [Cli.getStream, Option.map_eq_some_iff] at h
  obtain ⟨e, he, rfl⟩ := h
  exact ⟨e, List.mem_of_find?_eq_some he, rfl⟩

theorem close_go_all {P : CStream α → Prop} (hP : ∀ {s s' : CStream α}, Pres s s' → P s → P s')
    (l : List (Sid × CStream α)) (h : ∀ e ∈ l, P e.2) :
    ∀ e ∈ (Cli.close.go l).1, P e.2 := by
  induction l with
  | nil => intro e he; simp [Cli.close.go] at he
  | cons x rest ih =>
    obtain ⟨sid, st⟩ := x
    intro e he
    simp only [Cli.close.go] at he
    rcases List.mem_cons.mp he with h1 | h1
    · subst h1
      have hst := h (sid, st) List.mem_cons_self
      dsimp only
      split
      · exact hP (ctxCancelled_pres sid st .canceled) hst
      · exact hst
    · exact ih (fun e he => h e (List.mem_cons_of_mem _ he)) e h1

theorem tick_go_all {P : CStream α → Prop} (hP : ∀ {s s' : CStream α}, Pres s s' → P s → P s')
    (now : Nat) (l : List (Sid × CStream α)) (h : ∀ e ∈ l, P e.2) :
    ∀ e ∈ (Cli.tick.go now l).1, P e.2 := by
  induction l with
  | nil => intro e he; simp [Cli.tick.go] at he
  | cons x rest ih =>
    obtain ⟨sid, st⟩ := x
    intro e he
    simp only [Cli.tick.go] at he
    rcases List.mem_cons.mp he with h1 | h1
    · subst h1
      have hst := h (sid, st) List.mem_cons_self
      dsimp only
      split
      · split
        · exact hP (ctxCancelled_pres sid st .deadline) hst
        · exact hst
      · exact hst
    · exact ih (fun e he => h e (List.mem_cons_of_mem _ he)) e h1

theorem allS_close {P : CStream α → Prop} (hP : ∀ {s s' : CStream α}, Pres s s' → P s → P s')
    (c : Cli α) (err : Option String) (b : Bool) (h : AllS P c) : AllS P (c.close err b).1 := by
  unfold Cli.close
  split
  · exact h
  · intro e he
    exact close_go_all hP _ h e he

theorem allS_tick {P : CStream α → Prop} (hP : ∀ {s s' : CStream α}, Pres s s' → P s → P s')
    (c : Cli α) (d : Nat) (h : AllS P c) : AllS P (c.tick d).1 := by
  intro e he
  simp only [Cli.tick] at he
  exact tick_go_all hP _ _ h e he

theorem append_all {P : CStream α → Prop} {l : List (Sid × CStream α)} {sid : Sid} {st : CStream α}
    (h : ∀ e ∈ l, P e.2) (hst : P st) : ∀ e ∈ l ++ [(sid, st)], P e.2 := by
  intro e he
  rcases List.mem_append.mp he with he | he
  · exact h e he
  · rw [List.mem_singleton.mp he]; exact hst

theorem allS_newStream {cfg : CCfg} {P : CStream α → Prop} (hP : Liftable cfg P)
    (c : Cli α) (cs ss : Bool) (m : List Nat) (md : MD) (t : Option Nat) (cn : Bool) (h : AllS P c) :
    AllS P (c.newStream cfg cs ss m md t cn).1 := by
  unfold Cli.newStream
  split
  · exact h
  · split
    · exact h
    · rename_i sid hsid
      extract_lets fc st c1 o
      have hst : P st := hP.fresh st rfl rfl
      have hc1 : AllS P c1 := append_all h hst
      split
      · split; rename_i st' o' h'
        apply allS_setAny _ _ _ hc1
        rw [fst_eq h']
        exact hP.pres (ctxCancelled_pres _ _ _) hst
      · exact hc1

theorem allS_onSettingsPhase {cfg : CCfg} {P : CStream α → Prop} (hP : Liftable cfg P)
    (c : Cli α) (sid : Sid) (f : S2C α) (h : AllS P c) : AllS P (c.onSettingsPhase cfg sid f).1 := by
  unfold Cli.onSettingsPhase
  split
  · exact allS_close hP.pres _ _ _ h
  · split
    · split
      · exact allS_close hP.pres _ _ _ h
      · exact h
    · exact allS_close hP.pres _ _ _ h

theorem allS_onFrame {cfg : CCfg} {P : CStream α → Prop} (hP : Liftable cfg P)
    (c : Cli α) (sid : Sid) (f : S2C α) (h : AllS P c) : AllS P (c.onFrame cfg sid f).1 := by
  unfold Cli.onFrame
  split
  · exact h
  · split
    · exact allS_onSettingsPhase hP _ _ _ h
    · split
      · rename_i st hst
        obtain ⟨e, he, rfl⟩ := getStream_mem _ _ _ hst
        split; rename_i st' o h'
        apply allS_setAny _ _ _ h
        rw [fst_eq h']
        exact hP.pres (onFrame_pres _ _ _ _) (h e he)
      · split
        · exact h
        · exact allS_close hP.pres _ _ _ h

theorem allS_carrierEnds {P : CStream α → Prop} (hP : ∀ {s s' : CStream α}, Pres s s' → P s → P s')
    (c : Cli α) (err : Option String) (h : AllS P c) : AllS P (c.carrierEnds err).1 := by
  unfold Cli.carrierEnds
  split
  · exact allS_close hP _ _ _ h
  · exact allS_close hP _ _ _ h

theorem allS_onCall {cfg : CCfg} {P : CStream α → Prop} (hP : Liftable cfg P)
    (c : Cli α) (sid : Sid) (call : CCall α) (h : AllS P c) : AllS P (c.onCall cfg sid call).1 := by
  unfold Cli.onCall
  split
  · exact h
  · rename_i st hst
    obtain ⟨e, he, rfl⟩ := getAny_mem _ _ _ hst
    split; rename_i st' o h'
    have hst' : P st' := by
      rw [fst_eq h']
      exact hP.pres (onCall_pres _ _ _ _) (h e he)
    split
    · split
      · apply allS_setAny _ _ _ h
        exact hP.pres (s := st') (Pres.of_eq rfl rfl rfl rfl) hst'
      · exact allS_setAny _ _ _ h hst'
    · exact allS_setAny _ _ _ h hst'

theorem allS_step {cfg : CCfg} {P : CStream α → Prop} (hP : Liftable cfg P)
    (c : Cli α) (x : CStim α) (h : AllS P c) : AllS P (c.step cfg x).1 := by
  cases x with
  | frame sid f => exact allS_onFrame hP _ _ _ h
  | new cs ss m md t cn => exact allS_newStream hP c cs ss m md t cn h
  | call sid call => exact allS_onCall hP _ _ _ h
  | tick d => exact allS_tick hP.pres _ _ h
  | carrierEnds err => exact allS_carrierEnds hP.pres _ _ h
  | close => exact allS_close hP.pres _ _ _ h

theorem allS_run {cfg : CCfg} {P : CStream α → Prop} (hP : Liftable cfg P) :
    ∀ (xs : List (CStim α)) (c : Cli α), AllS P c → AllS P (Cli.run cfg c xs).1 := by
  intro xs
  induction xs with
  | nil => intro c h; exact h
  | cons x xs ih =>
    intro c h
    simp only [Cli.run]
    exact ih _ (allS_step hP c x h)

/-! ### the per-operation statements, spelled out -/

section PerOp
variable {W : Nat}

theorem ctxEnds_binv (sid : Sid) (s : CStream α) (e : CtxErr) (b : Bool) (h : BInv W s) :
    BInv W (s.ctxEnds sid e b).1 := (ctxEnds_pres sid s e b).binv h
theorem resumeRead_binv (sid : Sid) (fuel : Nat) (s : CStream α) (h : BInv W s) :
    BInv W (CStream.resumeRead sid fuel s).1 := (resumeRead_pres sid fuel s).binv h
theorem finish_binv (sid : Sid) (s : CStream α) (err : Option SErr) (tr : MD) (h : BInv W s) :
    BInv W (s.finish sid err tr).1 := (finish_pres sid s err tr).binv h
theorem cancelStream_binv (sid : Sid) (s : CStream α) (err : SErr) (h : BInv W s) :
    BInv W (s.cancelStream sid err).1 := (cancelStream_pres sid s err).binv h
theorem afterRead_binv (sid : Sid) (r : CStream α × COut α × Option SErr) (h : BInv W r.1) :
    BInv W (CStream.afterRead sid r).1 := (afterRead_pres sid r.1 r (Pres.refl _)).binv h
theorem ctxCancelled_binv (sid : Sid) (s : CStream α) (e : CtxErr) (h : BInv W s) :
    BInv W (s.ctxCancelled sid e).1 := (ctxCancelled_pres sid s e).binv h
theorem pumpSend_binv (cfg : CCfg) (sid : Sid) (s : CStream α) (snd : Snd α) (h : BInv W s) :
    BInv W (s.pumpSend cfg sid snd).1 := (pumpSend_pres cfg sid s snd).binv h
theorem onFrame_binv (cfg : CCfg) (sid : Sid) (s : CStream α) (f : S2C α) (h : BInv W s) :
    BInv W (s.onFrame cfg sid f).1 := (onFrame_pres cfg sid s f).binv h
theorem onCall_binv (cfg : CCfg) (sid : Sid) (s : CStream α) (c : CCall α) (h : BInv W s) :
    BInv W (s.onCall cfg sid c).1 := (onCall_pres cfg sid s c).binv h

theorem onFrame_fc (cfg : CCfg) (sid : Sid) (s : CStream α) (f : S2C α) : (s.onFrame cfg sid f).1.fc = s.fc :=
  (onFrame_pres cfg sid s f).1
theorem onCall_fc (cfg : CCfg) (sid : Sid) (s : CStream α) (c : CCall α) : (s.onCall cfg sid c).1.fc = s.fc :=
  (onCall_pres cfg sid s c).1

/-- on a flow-controlled stream every operation leaves `unsupported` alone -/
theorem onFrame_unsupported (cfg : CCfg) (sid : Sid) (s : CStream α) (f : S2C α) (hfc : s.fc = true) :
    (s.onFrame cfg sid f).1.unsupported = s.unsupported := (onFrame_pres cfg sid s f).2.1 hfc
theorem onCall_unsupported (cfg : CCfg) (sid : Sid) (s : CStream α) (c : CCall α) (hfc : s.fc = true) :
    (s.onCall cfg sid c).1.unsupported = s.unsupported := (onCall_pres cfg sid s c).2.1 hfc

end PerOp

/-! ### endpoint invariants -/

def CliBInv {α} (W : Nat) (c : Cli α) : Prop := ∀ e ∈ c.streams, BInv W e.2

def CliUInv {α} (c : Cli α) : Prop := ∀ e ∈ c.streams, UInv e.2

theorem binv_fresh (W : Nat) (st : CStream α) (h : st.rcv = RcvQ.init W) : BInv W st := by
  intro _
  simp [queuedBytes, h, RcvQ.init]

theorem binv_liftable (cfg : CCfg) : Liftable cfg (BInv (α := α) cfg.W) :=
  ⟨fun hp h => hp.binv h, fun st h _ => binv_fresh cfg.W st h⟩

theorem uinv_liftable (cfg : CCfg) : Liftable cfg (UInv (α := α)) :=
  ⟨fun hp h => hp.uinv h, fun _ _ h _ => h⟩

theorem cliBInv_step (cfg : CCfg) (c : Cli α) (x : CStim α) (h : CliBInv cfg.W c) :
    CliBInv cfg.W (c.step cfg x).1 :=
  allS_step (binv_liftable cfg) c x h

theorem cliBInv_run (cfg : CCfg) (xs : List (CStim α)) :
    CliBInv cfg.W (Cli.run cfg (Cli.start cfg : Cli α) xs).1 :=
  allS_run (binv_liftable cfg) xs _ (allS_start cfg _)

theorem cliUInv_step (cfg : CCfg) (c : Cli α) (x : CStim α) (h : CliUInv c) : CliUInv (c.step cfg x).1 :=
  allS_step (uinv_liftable cfg) c x h

theorem cliUInv_run (cfg : CCfg) (xs : List (CStim α)) :
    CliUInv (Cli.run cfg (Cli.start cfg : Cli α) xs).1 :=
  allS_run (uinv_liftable cfg) xs _ (allS_start cfg _)

/-- **C09, bounded buffering (client side).** Whatever the peer and the
    application do, a flow-controlled client stream never holds more than `W`
    bytes in its receive queue. -/
theorem C09_client_bounded (cfg : CCfg) (xs : List (CStim α)) :
    ∀ e ∈ (Cli.run cfg (Cli.start cfg : Cli α) xs).1.streams, e.2.fc = true → queuedBytes e.2 ≤ cfg.W := by
  intro e he hfc
  have := cliBInv_run cfg xs e he hfc
  omega

/-- flow-controlled client streams never enter the "receive loop would block" state -/
theorem client_fc_never_unsupported (cfg : CCfg) (xs : List (CStim α)) :
    ∀ e ∈ (Cli.run cfg (Cli.start cfg : Cli α) xs).1.streams, e.2.fc = true → e.2.unsupported = false :=
  fun e he hfc => cliUInv_run cfg xs e he hfc

-- non-vacuity: a flow-controlled stream exists and holds queued bytes after a run
example :
    let r := (Cli.run (α := Nat) {} (Cli.start {})
      [.frame (-1) (.settings 100 [1]), .new true true [1] [] none false, .frame 1 (.msg 5 [1, 2])]).1
    r.streams.map (fun e => (e.2.fc, queuedBytes e.2)) = [(true, 2)] := by decide

-- the hypothesis `fc = true` is needed: a revision-zero stream does reach `unsupported`
example :
    let r := (Cli.run (α := Nat) {} (Cli.start {})
      [.frame (-1) (.settings 100 [0]), .new true true [1] [] none false, .frame 1 (.msg 5 [1, 2]),
       .frame 1 (.more [3])]).1
    r.streams.map (fun e => (e.2.fc, e.2.unsupported)) = [(false, true)] := by decide

/-! ## Part 1: stream ids (C08, client side) -/

/-- ids of all stream objects, in creation order -/
def ids (c : Cli α) : List Int := c.streams.map (·.1)

/-- every allocated id is at most the counter, ids were allocated in strictly
    increasing order, the counter is non-negative, and before the first
    allocation there is no stream -/
def CInv (c : Cli α) : Prop :=
  (∀ i ∈ ids c, i ≤ c.lastStreamID) ∧ (ids c).Pairwise (· < ·) ∧ 0 ≤ c.lastStreamID ∧
  (c.streamCreated = false → c.streams = [])

/-- the part of the endpoint state that `CInv` looks at is unchanged -/
def Same (c c' : Cli α) : Prop :=
  ids c' = ids c ∧ c'.lastStreamID = c.lastStreamID ∧ c'.streamCreated = c.streamCreated

theorem Same.refl (c : Cli α) : Same c c := ⟨rfl, rfl, rfl⟩

theorem Same.cinv {c c' : Cli α} (h : Same c c') (hi : CInv c) : CInv c' := by
  obtain ⟨h1, h2, h3⟩ := h
  obtain ⟨i1, i2, i3, i4⟩ := hi
  refine ⟨?_, ?_, ?_, ?_⟩
  · rw [h1, h2]; exact i1
  · rw [h1]; exact i2
  · rw [h2]; exact i3
  · intro hc
    rw [h3] at hc
    have : ids c' = [] := by rw [h1]; simp [ids, i4 hc]
    simpa [ids] using this

theorem ids_setAny (c : Cli α) (sid : Sid) (st : CStream α) : ids (c.setAny sid st) = ids c := by
  simp only [ids, Cli.setAny, List.map_map]
  apply List.map_congr_left
  intro e _
  simp only [Function.comp]
  split
  · rename_i h; simp at h; exact h.symm
  · rfl

theorem same_setAny (c : Cli α) (sid : Sid) (st : CStream α) : Same c (c.setAny sid st) :=
  ⟨ids_setAny c sid st, rfl, rfl⟩

theorem close_go_ids (l : List (Sid × CStream α)) :
    ((Cli.close.go l).1).map (·.1) = l.map (·.1) := by
  induction l with
  | nil => simp [Cli.close.go]
  | cons e rest ih =>
    obtain ⟨sid, st⟩ := e
    simp only [Cli.close.go, List.map_cons]
    rw [ih]

theorem tick_go_ids (now : Nat) (l : List (Sid × CStream α)) :
    ((Cli.tick.go now l).1).map (·.1) = l.map (·.1) := by
  induction l with
  | nil => simp [Cli.tick.go]
  | cons e rest ih =>
    obtain ⟨sid, st⟩ := e
    simp only [Cli.tick.go, List.map_cons]
    rw [ih]

theorem same_close (c : Cli α) (err : Option String) (b : Bool) : Same c (c.close err b).1 := by
  unfold Cli.close
  split
  · exact Same.refl c
  · exact ⟨close_go_ids _, rfl, rfl⟩

theorem same_tick (c : Cli α) (d : Nat) : Same c (c.tick d).1 := by
  simp only [Cli.tick]
  exact ⟨tick_go_ids _ _, rfl, rfl⟩

theorem same_onSettingsPhase (cfg : CCfg) (c : Cli α) (sid : Sid) (f : S2C α) :
    Same c (c.onSettingsPhase cfg sid f).1 := by
  unfold Cli.onSettingsPhase
  split
  · exact same_close _ _ _
  · split
    · split
      · exact same_close _ _ _
      · exact ⟨rfl, rfl, rfl⟩
    · exact same_close _ _ _

theorem same_onFrame (cfg : CCfg) (c : Cli α) (sid : Sid) (f : S2C α) :
    Same c (c.onFrame cfg sid f).1 := by
  unfold Cli.onFrame
  split
  · exact Same.refl c
  · split
    · exact same_onSettingsPhase _ _ _ _
    · split
      · split
        exact same_setAny _ _ _
      · split
        · exact Same.refl c
        · exact same_close _ _ _

theorem same_carrierEnds (c : Cli α) (err : Option String) : Same c (c.carrierEnds err).1 := by
  unfold Cli.carrierEnds
  split
  · exact same_close _ _ _
  · exact same_close _ _ _

theorem same_onCall (cfg : CCfg) (c : Cli α) (sid : Sid) (call : CCall α) :
    Same c (c.onCall cfg sid call).1 := by
  unfold Cli.onCall
  split
  · exact Same.refl c
  · split
    split
    · split
      · exact same_setAny _ _ _
      · exact same_setAny _ _ _
    · exact same_setAny _ _ _

theorem wrap64_le (x : Int) : IdRules.wrap64 x ≤ x := by
  unfold IdRules.wrap64
  split <;> omega

theorem allocate_eq (n : Int) (h0 : 0 ≤ n) (hlt : n < IdRules.maxInt64) :
    IdRules.allocate n = some (n + 1) := by
  unfold IdRules.allocate IdRules.wrap64
  unfold IdRules.maxInt64 at *
  rw [if_neg (by omega), if_neg (by omega)]

/-- what `newStream` does to the part of the state `CInv` looks at: nothing
    (and it reports failure), or it appends the allocated id -/
theorem newStream_shape (cfg : CCfg) (c : Cli α) (cs ss : Bool) (m : List Nat) (md : MD)
    (t : Option Nat) (cn : Bool) :
    ((c.newStream cfg cs ss m md t cn).2.2 = none ∧ (c.newStream cfg cs ss m md t cn).1 = c) ∨
    (∃ sid, IdRules.allocate c.lastStreamID = some sid ∧ c.finished = none ∧
      (c.newStream cfg cs ss m md t cn).2.2 = some sid ∧
      ids (c.newStream cfg cs ss m md t cn).1 = ids c ++ [sid] ∧
      (c.newStream cfg cs ss m md t cn).1.lastStreamID = sid ∧
      (c.newStream cfg cs ss m md t cn).1.streamCreated = true) := by
  unfold Cli.newStream
  split
  · exact Or.inl ⟨rfl, rfl⟩
  · rename_i hfin
    have hfin' : c.finished = none := by
      cases hc : c.finished with
      | none => rfl
      | some v => rw [hc] at hfin; exact absurd rfl hfin
    split
    · exact Or.inl ⟨rfl, rfl⟩
    · rename_i sid hsid
      right
      refine ⟨sid, hsid, hfin', ?_⟩
      extract_lets fc st c1 o
      have hc1 : ids c1 = ids c ++ [sid] := by simp [ids, c1]
      split
      · split
        refine ⟨rfl, ?_, rfl, rfl⟩
        rw [ids_setAny]; exact hc1
      · exact ⟨rfl, hc1, rfl, rfl⟩

theorem cinv_newStream (cfg : CCfg) (c : Cli α) (cs ss : Bool) (m : List Nat) (md : MD)
    (t : Option Nat) (cn : Bool) (h : CInv c) (hlt : c.lastStreamID < IdRules.maxInt64) :
    CInv (c.newStream cfg cs ss m md t cn).1 := by
  rcases newStream_shape cfg c cs ss m md t cn with ⟨_, he⟩ | ⟨sid, hal, _, _, hi, hl, hc⟩
  · rw [he]; exact h
  · obtain ⟨i1, i2, i3, i4⟩ := h
    rw [allocate_eq _ i3 hlt] at hal
    have hsid : sid = c.lastStreamID + 1 := (Option.some.inj hal).symm
    refine ⟨?_, ?_, ?_, ?_⟩
    · intro i hi'
      rw [hi] at hi'; rw [hl]
      rcases List.mem_append.mp hi' with hm | hm
      · have := i1 i hm; omega
      · simp at hm; omega
    · rw [hi]
      apply List.pairwise_append.mpr
      refine ⟨i2, by simp, ?_⟩
      intro a ha b hb
      simp at hb; subst hb
      have := i1 a ha; omega
    · rw [hl]; omega
    · intro hf; rw [hc] at hf; cases hf

theorem cinv_init : CInv ({} : Cli α) := by
  refine ⟨?_, ?_, ?_, ?_⟩ <;> simp [ids]

theorem cinv_start (cfg : CCfg) : CInv (Cli.start cfg : Cli α) := by
  refine ⟨?_, ?_, ?_, ?_⟩ <;> simp [ids, Cli.start]

/-- `CInv` is kept by every step as long as the id counter has not reached
    `maxInt64` (where `IdRules.allocate` wraps around) -/
theorem cinv_step (cfg : CCfg) (c : Cli α) (x : CStim α) (h : CInv c)
    (hlt : c.lastStreamID < IdRules.maxInt64) : CInv (c.step cfg x).1 := by
  cases x with
  | frame sid f => exact (same_onFrame cfg c sid f).cinv h
  | new cs ss m md t cn => exact cinv_newStream cfg c cs ss m md t cn h hlt
  | call sid call => exact (same_onCall cfg c sid call).cinv h
  | tick d => exact (same_tick c d).cinv h
  | carrierEnds err => exact (same_carrierEnds c err).cinv h
  | close => exact (same_close c none false).cinv h

-- the hypothesis `lastStreamID < maxInt64` of `cinv_step` is needed: at `maxInt64` the
-- allocation wraps to a negative id, which breaks `0 ≤ lastStreamID` (and the ordering)
example :
    (({ lastStreamID := IdRules.maxInt64, streamCreated := true } : Cli Nat).newStream {} true true [] [] none false).1.lastStreamID
      = -9223372036854775808 := by decide

/-- a step advances the id counter by at most one (unconditionally) -/
theorem step_lastStreamID_le (cfg : CCfg) (c : Cli α) (x : CStim α) :
    (c.step cfg x).1.lastStreamID ≤ c.lastStreamID + 1 := by
  cases x with
  | frame sid f => have := (same_onFrame cfg c sid f).2.1; simp only [Cli.step]; omega
  | new cs ss m md t cn =>
    show (c.newStream cfg cs ss m md t cn).1.lastStreamID ≤ _
    rcases newStream_shape cfg c cs ss m md t cn with ⟨_, he⟩ | ⟨sid, hal, _, _, _, hl, _⟩
    · rw [he]; omega
    · rw [hl]
      unfold IdRules.allocate at hal
      split at hal
      · cases hal
      · have := wrap64_le (c.lastStreamID + 1)
        have := Option.some.inj hal
        omega
  | call sid call => have := (same_onCall cfg c sid call).2.1; simp only [Cli.step]; omega
  | tick d => have := (same_tick c d).2.1; simp only [Cli.step]; omega
  | carrierEnds err => have := (same_carrierEnds c err).2.1; simp only [Cli.step]; omega
  | close => have := (same_close c none false).2.1; simp only [Cli.step]; omega

theorem cinv_run (cfg : CCfg) : ∀ (xs : List (CStim α)) (c : Cli α), CInv c →
    c.lastStreamID + (xs.length : Int) ≤ IdRules.maxInt64 → CInv (Cli.run cfg c xs).1 := by
  intro xs
  induction xs with
  | nil => intro c h _; exact h
  | cons x xs ih =>
    intro c h hlen
    simp only [Cli.run]
    simp only [List.length_cons] at hlen
    have hstep := step_lastStreamID_le cfg c x
    refine ih _ (cinv_step cfg c x h (by omega)) (by omega)

/-- **C08 (client side).** From the initial state, as long as fewer than
    `2^63 - 1` stimuli were applied (so the id counter cannot have wrapped), the
    ids of the endpoint's streams are strictly increasing in creation order
    and bounded by `lastStreamID`. -/
theorem C08_client_ids_increasing (cfg : CCfg) (xs : List (CStim α))
    (hlen : (xs.length : Int) < IdRules.maxInt64) :
    (ids (Cli.run cfg (Cli.start cfg) xs).1).Pairwise (· < ·) ∧
    ∀ i ∈ ids (Cli.run cfg (Cli.start cfg) xs).1, i ≤ (Cli.run cfg (Cli.start cfg) xs).1.lastStreamID := by
  have h0 : (Cli.start cfg : Cli α).lastStreamID = 0 := rfl
  have := cinv_run cfg xs (Cli.start cfg) (cinv_start cfg) (by rw [h0]; omega)
  exact ⟨this.2.1, this.1⟩

/-! ## Part 3: locality (C03, client side) -/

/-- every frame and every completion of the output is tagged with `sid` -/
def COut.onlySid {α} (sid : Sid) (o : COut α) : Prop :=
  (∀ f ∈ o.frames, f.1 = sid) ∧ (∀ d ∈ o.dones, d.1 = sid)

theorem onlySid_empty (sid : Sid) : COut.onlySid sid ({} : COut α) := by
  constructor <;> intro x hx <;> cases hx

theorem onlySid_mk {sid : Sid} {fr : List (Sid × C2S α)} {dn : List (Sid × String × Res α)} {ev : List String}
    (hf : ∀ f ∈ fr, f.1 = sid) (hd : ∀ d ∈ dn, d.1 = sid) :
    COut.onlySid sid ({ frames := fr, dones := dn, events := ev } : COut α) := ⟨hf, hd⟩

theorem onlySid_add {sid : Sid} {a b : COut α} (ha : COut.onlySid sid a) (hb : COut.onlySid sid b) :
    COut.onlySid sid (a.add b) := by
  refine ⟨fun f hf => ?_, fun d hd => ?_⟩
  · rcases List.mem_append.mp hf with h | h
    · exact ha.1 f h
    · exact hb.1 f h
  · rcases List.mem_append.mp hd with h | h
    · exact ha.2 d h
    · exact hb.2 d h

theorem onlySid_events (sid : Sid) (ev : List String) : COut.onlySid sid ({ events := ev } : COut α) := by
  constructor <;> intro x hx <;> cases hx

theorem onlySid_done (sid : Sid) (op : String) (r : Res α) :
    COut.onlySid sid ({ dones := [(sid, op, r)] } : COut α) := by
  constructor
  · intro x hx; cases hx
  · intro x hx; simp at hx; rw [hx]

theorem mem_map_tag {A : Type} {sid : Sid} {g : A → C2S α} {l : List A} :
    ∀ f ∈ l.map (fun x => (sid, g x)), f.1 = sid := by
  intro f hf
  obtain ⟨x, _, hx⟩ := List.mem_map.mp hf
  rw [← hx]

theorem mem_single {A : Type} {sid : Sid} {a : A} : ∀ d ∈ [(sid, a)], d.1 = sid := by
  intro d hd; simp at hd; rw [hd]

theorem mem_nil {A : Type} {sid : Sid} : ∀ d ∈ ([] : List (Sid × A)), d.1 = sid := by
  intro d hd; cases hd

theorem ctxEnds_onlySid (sid : Sid) (s : CStream α) (e : CtxErr) (b : Bool) :
    COut.onlySid sid (s.ctxEnds sid e b).2 := by
  unfold CStream.ctxEnds
  split
  · exact onlySid_empty sid
  · extract_lets s1
    split; rename_i s2 o1 h1
    split; rename_i s3 o2 h2
    have ho1 : COut.onlySid sid o1 := by
      rw [snd_eq h1]
      split
      · exact onlySid_done ..
      · exact onlySid_empty sid
    have ho2 : COut.onlySid sid o2 := by
      rw [snd_eq h2]
      split
      · exact onlySid_done ..
      · exact onlySid_empty sid
    exact onlySid_add ho1 ho2

theorem resumeRead_onlySid (sid : Sid) : ∀ (fuel : Nat) (s : CStream α),
    COut.onlySid sid (CStream.resumeRead sid fuel s).2.1 := by
  intro fuel
  induction fuel with
  | zero => intro s; exact onlySid_empty sid
  | succ fuel ih =>
    intro s
    unfold CStream.resumeRead
    split
    · exact onlySid_empty sid
    · split
      rename_i rwin q credits out hr
      extract_lets cf rcv0 s1 failWith e
      have hcf : ∀ f ∈ cf, f.1 = sid := by
        simp only [cf]
        split
        · exact mem_map_tag
        · exact mem_nil
      have hfw : ∀ (x : CStream α) (e : SErr) (b : Bool), COut.onlySid sid (failWith x e b).2.1 := by
        intro x e b
        exact onlySid_mk hcf mem_single
      clear_value cf s1 failWith
      split
      · split
        · split
          · exact onlySid_mk hcf mem_single
          · exact hfw ..
        · exact onlySid_mk hcf mem_nil
      · split
        · exact hfw ..
        · split
          · exact onlySid_mk hcf mem_single
          · extract_lets s2
            split; rename_i s3 o3 c3 h3
            have : o3 = (CStream.resumeRead sid fuel s2).2.1 := by rw [h3]
            refine onlySid_add (onlySid_mk hcf mem_nil) ?_
            rw [this]; exact ih s2
      · exact hfw ..
      · exact onlySid_mk hcf mem_nil

theorem finish_onlySid (sid : Sid) (s : CStream α) (err : Option SErr) (tr : MD) :
    COut.onlySid sid (s.finish sid err tr).2.1 := by
  unfold CStream.finish
  split
  · exact onlySid_empty sid
  · extract_lets e s1
    split; rename_i s2 o1 h1
    split; rename_i s3 o2 c2 h2
    split; rename_i s4 o3 h3
    have ho1 : COut.onlySid sid o1 := by
      rw [snd_eq h1]
      split
      · exact onlySid_done ..
      · exact onlySid_empty sid
    have ho2 : COut.onlySid sid o2 := by
      have : o2 = (CStream.resumeRead sid 3 s2).2.1 := by rw [h2]
      rw [this]; exact resumeRead_onlySid _ _ _
    have ho3 : COut.onlySid sid o3 := by
      rw [snd_eq h3]; exact ctxEnds_onlySid ..
    exact onlySid_add (onlySid_add ho1 ho2) ho3

theorem finish_proj_onlySid (sid : Sid) (s : CStream α) (err : Option SErr) (tr : MD) :
    COut.onlySid sid (match s.finish sid err tr with | (s1, o1, _) => (s1, o1)).2 := by
  split; rename_i s1 o1 w h
  have : o1 = (s.finish sid err tr).2.1 := by rw [h]
  rw [this]; exact finish_onlySid ..

theorem cancelStream_onlySid (sid : Sid) (s : CStream α) (err : SErr) :
    COut.onlySid sid (s.cancelStream sid err).2 := by
  unfold CStream.cancelStream
  split; rename_i s1 o1 won h1
  have ho1 : COut.onlySid sid o1 := by
    have : o1 = (s.finish sid (some err) []).2.1 := by rw [h1]
    rw [this]; exact finish_onlySid ..
  split
  · exact ho1
  · exact onlySid_add ho1 (onlySid_mk mem_single mem_nil)

theorem afterRead_onlySid (sid : Sid) (r : CStream α × COut α × Option SErr)
    (h : COut.onlySid sid r.2.1) : COut.onlySid sid (CStream.afterRead sid r).2 := by
  unfold CStream.afterRead
  split
  · exact h
  · split; rename_i s2 o2 h2
    refine onlySid_add h ?_
    rw [snd_eq h2]; exact cancelStream_onlySid ..

theorem ctxCancelled_onlySid (sid : Sid) (s : CStream α) (e : CtxErr) :
    COut.onlySid sid (s.ctxCancelled sid e).2 := by
  unfold CStream.ctxCancelled
  split
  · exact onlySid_empty sid
  · split; rename_i s1 o1 h1
    split; rename_i s2 o2 h2
    refine onlySid_add ?_ ?_
    · rw [snd_eq h1]; exact ctxEnds_onlySid ..
    · rw [snd_eq h2]; exact cancelStream_onlySid ..

theorem pumpSend_onlySid (cfg : CCfg) (sid : Sid) (s : CStream α) (snd : Snd α) :
    COut.onlySid sid (s.pumpSend cfg sid snd).2 := by
  unfold CStream.pumpSend
  split
  · split; rename_i fs w rest h
    extract_lets frames
    split
    · exact onlySid_mk mem_map_tag mem_single
    · split
      · exact onlySid_mk mem_map_tag mem_single
      · exact onlySid_mk mem_map_tag mem_nil
  · exact onlySid_mk mem_map_tag mem_single

theorem CStream_onFrame_onlySid (cfg : CCfg) (sid : Sid) (s : CStream α) (f : S2C α) :
    COut.onlySid sid (s.onFrame cfg sid f).2 := by
  unfold CStream.onFrame
  split
  · exact finish_proj_onlySid ..
  · split
    · exact onlySid_empty sid
    · extract_lets s1
      split
      · exact onlySid_done ..
      · exact onlySid_empty sid
  · exact finish_proj_onlySid ..
  · split
    · exact onlySid_empty sid
    · extract_lets s1
      split
      · exact onlySid_empty sid
      · exact pumpSend_onlySid ..
  · exact finish_proj_onlySid ..
  · extract_lets df
    split
    · split
      · exact onlySid_empty sid
      · exact finish_proj_onlySid ..
      · apply afterRead_onlySid
        exact resumeRead_onlySid ..
    · split
      · exact onlySid_empty sid
      · split
        · exact onlySid_empty sid
        · apply afterRead_onlySid
          exact resumeRead_onlySid ..

theorem CStream_onCall_onlySid (cfg : CCfg) (sid : Sid) (s : CStream α) (c : CCall α) :
    COut.onlySid sid (s.onCall cfg sid c).2 := by
  unfold CStream.onCall
  split
  · split
    · exact onlySid_done ..
    · exact pumpSend_onlySid ..
  · split
    · exact onlySid_done ..
    · split
      · exact onlySid_done ..
      · exact onlySid_mk mem_single mem_single
  · split
    · exact onlySid_done ..
    · apply afterRead_onlySid
      exact resumeRead_onlySid ..
  · split
    · exact onlySid_done ..
    · split
      · exact onlySid_done ..
      · exact onlySid_empty sid
  · exact onlySid_done ..
  · exact ctxCancelled_onlySid ..

/-! ### endpoint level -/

theorem setAny_keeps_others (c : Cli α) (sid : Sid) (st' : CStream α) :
    ∀ e ∈ c.streams, e.1 ≠ sid → e ∈ (c.setAny sid st').streams := by
  intro e he hne
  apply List.mem_map.mpr
  refine ⟨e, he, ?_⟩
  have : (e.1 == sid) = false := by simpa using hne
  simp [this]

/-- a frame for a live stream, on a running channel, is handled by that stream only -/
theorem onFrame_running (cfg : CCfg) (c : Cli α) (sid : Sid) (f : S2C α) (st : CStream α)
    (hfin : c.finished = none) (hph : c.phase = .running) (hst : c.getStream sid = some st) :
    c.onFrame cfg sid f = (c.setAny sid (st.onFrame cfg sid f).1, (st.onFrame cfg sid f).2) := by
  unfold Cli.onFrame
  rw [hfin, hph, hst]
  rfl

/-- **C03 (client side), frames.** A frame for a live RPC on a running channel
    emits only for that RPC, does not end the channel, does not allocate, and
    leaves every other stream object untouched. -/
theorem client_frame_local (cfg : CCfg) (c : Cli α) (sid : Sid) (f : S2C α) (st : CStream α)
    (hfin : c.finished = none) (hph : c.phase = .running) (hst : c.getStream sid = some st) :
    COut.onlySid sid (c.onFrame cfg sid f).2 ∧ (c.onFrame cfg sid f).1.finished = none ∧
    (c.onFrame cfg sid f).1.lastStreamID = c.lastStreamID ∧
    ∀ e ∈ c.streams, e.1 ≠ sid → e ∈ (c.onFrame cfg sid f).1.streams := by
  rw [onFrame_running cfg c sid f st hfin hph hst]
  exact ⟨CStream_onFrame_onlySid .., hfin, rfl, setAny_keeps_others c sid _⟩

/-- **C03 (client side), calls.** An RPC's own calls (including cancellation)
    emit only for that RPC, never end the channel, never allocate, and leave
    every other stream object untouched. -/
theorem client_call_local (cfg : CCfg) (c : Cli α) (sid : Sid) (call : CCall α) :
    COut.onlySid sid (c.onCall cfg sid call).2 ∧ (c.onCall cfg sid call).1.finished = c.finished ∧
    (c.onCall cfg sid call).1.lastStreamID = c.lastStreamID ∧
    ∀ e ∈ c.streams, e.1 ≠ sid → e ∈ (c.onCall cfg sid call).1.streams := by
  unfold Cli.onCall
  split
  · exact ⟨onlySid_events .., rfl, rfl, fun e he _ => he⟩
  · rename_i st hst
    split; rename_i st' o h
    have ho : COut.onlySid sid o := by rw [snd_eq h]; exact CStream_onCall_onlySid ..
    split
    · split
      · exact ⟨onlySid_done .., rfl, rfl, setAny_keeps_others c sid _⟩
      · exact ⟨onlySid_mk mem_nil ho.2, rfl, rfl, setAny_keeps_others c sid _⟩
    · exact ⟨ho, rfl, rfl, setAny_keeps_others c sid _⟩

/-- frames for finished RPCs (id already allocated, stream no longer in the
    table) are discarded without any effect -/
theorem client_late_frame_ignored (cfg : CCfg) (c : Cli α) (sid : Sid) (f : S2C α)
    (hfin : c.finished = none) (hph : c.phase = .running) (hnt : c.getStream sid = none)
    (hc : c.streamCreated = true) (hle : sid ≤ c.lastStreamID) :
    c.onFrame cfg sid f = (c, {}) := by
  unfold Cli.onFrame
  rw [hfin, hph, hnt, hc]
  simp [hle]

/-- **C08 (client side), single step.** A successful `newStream` allocates
    `lastStreamID + 1` (the counter not having wrapped), emits the `new_stream`
    frame for it first, and everything it emits is tagged with the new id. -/
theorem client_newStream_ok (cfg : CCfg) (c : Cli α) (cs ss : Bool) (method : List Nat) (md : MD)
    (timeout : Option Nat) (cancelled : Bool) (sid : Sid)
    (h : (c.newStream cfg cs ss method md timeout cancelled).2.2 = some sid)
    (hlt : c.lastStreamID < IdRules.maxInt64) (h0 : 0 ≤ c.lastStreamID) :
    sid = c.lastStreamID + 1 ∧
    (c.newStream cfg cs ss method md timeout cancelled).2.1.frames.head? =
      some (sid, .newStream method md c.rev cfg.W) ∧
    (∀ f ∈ (c.newStream cfg cs ss method md timeout cancelled).2.1.frames, f.1 = sid) ∧
    COut.onlySid sid (c.newStream cfg cs ss method md timeout cancelled).2.1 := by
  unfold Cli.newStream at h ⊢
  split at h
  · cases h
  · rename_i hfin
    rw [if_neg hfin]
    rw [allocate_eq _ h0 hlt] at h ⊢
    dsimp only at h ⊢
    have key : ∀ (x : Sid) (o : COut α), COut.onlySid x o →
        (∀ f ∈ o.frames, f.1 = x) ∧ COut.onlySid x o := fun _ _ h => ⟨h.1, h⟩
    split at h
    · rename_i hcn
      rw [if_pos hcn]
      have hs : c.lastStreamID + 1 = sid := Option.some.inj h
      subst hs
      exact ⟨rfl, rfl, key _ _
        (onlySid_add (onlySid_mk mem_single mem_single) (ctxCancelled_onlySid ..))⟩
    · rename_i hcn
      rw [if_neg hcn]
      have hs : c.lastStreamID + 1 = sid := Option.some.inj h
      subst hs
      exact ⟨rfl, rfl, key _ _ (onlySid_mk mem_single mem_single)⟩

-- non-vacuity of the locality theorems: a live stream on a running channel exists,
-- and a frame for an already finished RPC is indeed dropped
example :
    let c := (Cli.run (α := Nat) {} (Cli.start {})
      [.frame (-1) (.settings 100 [1]), .new true true [1] [] none false, .new true true [1] [] none false]).1
    c.finished = none ∧ c.phase = .running ∧ (c.getStream 1).isSome = true ∧ ids c = [1, 2] ∧
    (c.onFrame {} 1 (.close (mkStatus 0 "") [])).2.dones.map (·.1) = [] ∧
    ((c.onFrame {} 1 (.close (mkStatus 0 "") [])).1.getStream 1).isSome = false := by decide

end Proofs.ClientInv

#print axioms Proofs.ClientInv.cinv_init
#print axioms Proofs.ClientInv.cinv_start
#print axioms Proofs.ClientInv.cinv_step
#print axioms Proofs.ClientInv.cinv_run
#print axioms Proofs.ClientInv.C08_client_ids_increasing
#print axioms Proofs.ClientInv.client_newStream_ok
#print axioms Proofs.ClientInv.cliBInv_step
#print axioms Proofs.ClientInv.cliUInv_step
#print axioms Proofs.ClientInv.C09_client_bounded
#print axioms Proofs.ClientInv.client_fc_never_unsupported
#print axioms Proofs.ClientInv.CStream_onFrame_onlySid
#print axioms Proofs.ClientInv.CStream_onCall_onlySid
#print axioms Proofs.ClientInv.client_frame_local
#print axioms Proofs.ClientInv.client_call_local
#print axioms Proofs.ClientInv.client_late_frame_ignored
