import TunnelModel.LFrame.Client
/-!
  C16 (caller side) and the C07/C02 single-outcome facts for the client half
  of a stream (`CStream`), same architecture as `Proofs/Lemmas/ServerShape.lean`.

  ## A. C16, caller side (`ss = false`: non-streaming response)

  For an arbitrary initial stream state with `ss = false` (no freshness or
  well-formedness assumption) and arbitrary lists of stream-level operations
  `COp` (any frame from any peer, any application call, any context end):

  * `C16_client_at_most_one`: the total number of response messages delivered
    to the caller (completions `(sid, "recv", Res.msg _)`) is ≤ 1;
  * `C16_client_delivered_then_done`: once one has been delivered,
    `readErr.isSome ∧ pread = none` (`Done`);
  * `C16_client_reads_fail_after_delivery`: after the delivery, whatever
    happens next, nothing more is delivered, the state stays `Done` and a
    `RecvMsg` returns the sticky error (`runOps_done`, `recv_when_done`: the
    same from any `Done` state, any `ss`);
  * `C16_second_response_fails`: the look-ahead read that finds a complete
    second message completes "recv" with `Internal`, delivers nothing, sets the
    sticky error, returns `some e`; `afterRead` then runs `cancelStream`: if
    `s.done = none` the terminal result becomes that `Internal` status and the
    frames are the read's window updates followed by exactly one cancel frame;
    if `s.done = some d` the result stays `d` and no frame is emitted.

  ## B. C07/C02, single outcome

  * `done_written_once`, `done_written_once_run`: no operation (`finish`,
    `cancelStream`, `ctxCancelled`, `onFrame`, `onCall`, runs of `COp`) changes
    a terminal result that is set.  No hypothesis.
  * `cancel_releases_all`: if `ctxDone = none`, after `ctxCancelled`
    `pread = none ∧ psend = none ∧ pheader = false ∧ done.isSome ∧ ctxDone = some e`.
    **This needs the extra hypothesis `s.done.isSome → s.pread = none`**, which
    is a consequence of the invariant `WF` (`WF.pread_none`;
    `cancel_releases_all_WF`, and `cancel_settled_WF` without the `ctxDone = none`
    hypothesis).  Counterexample without it (checked by `decide` at the end of
    the file): `done := some .eof`, `pread := some _`, `ctxDone := none` — the
    watcher's `cancelStream` loses the CAS, nobody wakes the read, it stays
    pending.  Such a state is unreachable: `run_AllWF`.
  * `cancel_sets_result` (`done = none`: result `mapFinishErr (some (.ctx e))`,
    i.e. `Canceled`/`DeadlineExceeded` by `mapFinishErr_ctx`, frames exactly
    `[(sid, .cancel)]`) and `cancel_keeps_result` (`done = some d`: stays `d`,
    no frame at all).  No `WF` needed.
  * `WF`: decidable invariant "the context is done iff the RPC has its terminal
    result, and then the receiver is closed, nothing is blocked, headers and
    done signal are published, the stream is out of the table".  `WF_fresh`,
    `finish_WF`, `cancelStream_WF`, `ctxCancelled_WF`, `onFrame_WF`, `onCall_WF`,
    `runOps_WF`; at the endpoint `newStream_AllWF`, `step_AllWF`, `run_AllWF`,
    `start_AllWF`: every stream object of every reachable `Cli` state is `WF`.
  * `close_frame_outcome`: as requested; "the queue is not flushed" is stated
    three ways: equal to what the woken read (`resumeRead` on `finPre`) left,
    a suffix of the old queue, and equal to the old queue if no read is pending.
    Moreover *no frame at all* is emitted.
  * `finished_stream_quiet`: `close`, `settings`, `unset`, context ends are
    exact no-ops `(s, {})` (no "nothing pending" hypothesis needed).  For
    `headers` the output is empty whenever `pheader = false`, but the *state*
    is unchanged only if `gotHeaders = true`: on a (non-`WF`, unreachable)
    finished stream with `gotHeaders = false` the frame still records the
    headers (second `decide` example at the end).  On `WF` streams
    `finished_stream_quiet_WF`: every frame has empty output, and every frame
    except a window update (which still adds to `win`) leaves the state alone.

  Nothing was weakened beyond the hypothesis of `cancel_releases_all` just
  described (which the task allowed as `WF`): there is no `_partial` theorem.

  Proof structure: every building block except "start a read" is a `Block`: it
  keeps `ss`, on `ss = false` delivers at most one message and is `Done` after
  a delivery, and does not touch the read side when no read is pending.
  `Block.seq` composes them (unlike the server, `finishStream` here wakes the
  pending read and can deliver the held-back message).  The definitions are
  first put in projection form (`ctxEnds_eq`, `finish_eq`, `cancelStream_eq`,
  `afterRead_eq`, `ctxCancelled_eq`) and their effect on the state is given as
  explicit record updates (`resumeRead_shape`, `finish_shape`,
  `cancelStream_shape`, `pumpSend_shape`).
-/
namespace Proofs.ClientShape
open TunnelModel.LFrame TunnelModel.Framing

variable {α : Type}

/-- a caller-call result that hands a response message to the caller -/
def isMsg : Res α → Bool
  | .msg _ => true
  | _ => false

/-- number of response messages delivered to the caller by one step's output -/
def delivered (o : COut α) : Nat := (o.dones.filter (fun d => isMsg d.2.2)).length

theorem delivered_add (a b : COut α) : delivered (a.add b) = delivered a + delivered b := by
  simp [delivered, COut.add, List.filter_append]

theorem delivered_of_dones_nil (o : COut α) (h : o.dones = []) : delivered o = 0 := by
  simp [delivered, h]

@[simp] theorem delivered_empty : delivered ({} : COut α) = 0 := rfl

@[simp] theorem delivered_mk_nil (fr : List (Sid × C2S α)) (ev : List String) :
    delivered ({ frames := fr, dones := [], events := ev } : COut α) = 0 := rfl

theorem delivered_single (fr : List (Sid × C2S α)) (ev : List String) (sid : Sid) (n : String) (r : Res α) :
    delivered ({ frames := fr, dones := [(sid, n, r)], events := ev } : COut α) = if isMsg r then 1 else 0 := by
  cases h : isMsg r <;> simp [delivered, h]

@[simp] theorem isMsg_toRes (e : SErr) : isMsg (e.toRes : Res α) = false := by
  cases e <;> rfl

@[simp] theorem isMsg_ctx (e : CtxErr) : isMsg (Res.ctx e : Res α) = false := rfl
@[simp] theorem isMsg_ok : isMsg (Res.ok : Res α) = false := rfl
@[simp] theorem isMsg_md (m : MD) : isMsg (Res.md m : Res α) = false := rfl
@[simp] theorem isMsg_status (c : Nat) : isMsg (Res.status c : Res α) = false := rfl
@[simp] theorem isMsg_other (t : String) : isMsg (Res.other t : Res α) = false := rfl
@[simp] theorem isMsg_msg (m : List α) : isMsg (Res.msg m : Res α) = true := rfl

/-! ### definitions in projection form -/

theorem ctxEnds_eq (sid : Sid) (s : CStream α) (e : CtxErr) (b : Bool) (h : s.ctxDone = none) :
    s.ctxEnds sid e b =
      ({ s with ctxDone := some e, psend := none, pheader := false },
       { dones := (match s.psend with | some _ => [(sid, "send", Res.ctx e)] | none => []) ++
                  (if s.pheader then
                     [(sid, "header", if s.gotHeaders then Res.md s.headers
                                      else if b then .other "RACE:ctx-or-nil-headers" else .ctx e)]
                   else []) }) := by
  unfold CStream.ctxEnds
  simp only [h]
  cases hp : s.psend <;> cases hh : s.pheader <;> cases s <;> simp_all [COut.add]

theorem ctxEnds_done (sid : Sid) (s : CStream α) (e : CtxErr) (b : Bool) (h : s.ctxDone.isSome = true) :
    s.ctxEnds sid e b = (s, {}) := by
  unfold CStream.ctxEnds
  rw [if_pos h]

theorem finish_done (sid : Sid) (s : CStream α) (err : Option SErr) (tr : MD) (h : s.done.isSome = true) :
    s.finish sid err tr = (s, {}, false) := by
  unfold CStream.finish
  rw [if_pos h]

/-- the state on which `finishStream` wakes the blocked read -/
def finPre (s : CStream α) (err : Option SErr) (tr : MD) : CStream α :=
  { s with done := some (mapFinishErr err), inTable := false, rcv := s.rcv.close, trailers := tr,
           gotHeaders := true, doneSignal := true, pheader := false }

theorem finish_eq (sid : Sid) (s : CStream α) (err : Option SErr) (tr : MD) (h : s.done = none) :
    s.finish sid err tr =
      ((((finPre s err tr).resumeRead sid 3).1.ctxEnds sid .canceled false).1,
       (({ dones := if s.pheader then [(sid, "header", Res.md s.headers)] else [] } : COut α).add
          ((finPre s err tr).resumeRead sid 3).2.1).add
          (((finPre s err tr).resumeRead sid 3).1.ctxEnds sid .canceled false).2,
       true) := by
  unfold CStream.finish
  simp only [h]
  cases hh : s.pheader <;> cases s <;> simp_all [finPre] <;> rfl

/-! ### `readLoop` -/

theorem readLoop_some (q : List (DFrame α)) : ∀ (rwin : Nat) (st : RState α),
    ∃ r, (readLoop rwin q st).2.2.2 = some r := by
  induction q with
  | nil => intro rwin st; exact ⟨_, rfl⟩
  | cons f q ih =>
    intro rwin st
    simp only [readLoop]
    split
    · rename_i st' _
      exact ih _ _
    · exact ⟨_, rfl⟩
    · exact ⟨_, rfl⟩

theorem readLoop_suffix (q : List (DFrame α)) : ∀ (rwin : Nat) (st : RState α),
    ∃ pre, q = pre ++ (readLoop rwin q st).2.1 := by
  induction q with
  | nil => intro rwin st; exact ⟨[], rfl⟩
  | cons f q ih =>
    intro rwin st
    simp only [readLoop]
    split
    · rename_i st' _
      obtain ⟨pre, h⟩ := ih (rwin + f.size) st'
      exact ⟨f :: pre, by rw [List.cons_append, ← h]⟩
    · exact ⟨[f], rfl⟩
    · exact ⟨[f], rfl⟩

/-! ### `resumeRead` -/

theorem resumeRead_none (sid : Sid) (fuel : Nat) (s : CStream α) (h : s.pread = none) :
    s.resumeRead sid fuel = (s, {}, none) := by
  cases fuel <;> simp [CStream.resumeRead, h]

/-- `resumeRead` only touches the receive window, the queue, the pending read
    and the sticky read error -/
theorem resumeRead_shape (sid : Sid) : ∀ (fuel : Nat) (s : CStream α),
    ∃ w q p' r', (s.resumeRead sid fuel).1 =
      { s with rcv := { s.rcv with rwin := w, queue := q }, pread := p', readErr := r' } := by
  intro fuel
  induction fuel with
  | zero => intro s; exact ⟨_, _, _, _, rfl⟩
  | succ n ih =>
    intro s
    rw [CStream.resumeRead]
    split
    · exact ⟨_, _, _, _, rfl⟩
    · rename_i p hp
      split
      rename_i rwin q credits out hrl
      dsimp only
      split
      · split
        · split
          · exact ⟨_, _, _, _, rfl⟩
          · exact ⟨_, _, _, _, rfl⟩
        · exact ⟨_, _, _, _, rfl⟩
      · split
        · exact ⟨_, _, _, _, rfl⟩
        · split
          · exact ⟨_, _, _, _, rfl⟩
          · obtain ⟨w, q', p', r', h⟩ := ih ({ s with
                rcv := { s.rcv with rwin := if s.fc then rwin else s.rcv.rwin, queue := q },
                pread := some { lookahead := some ‹_›, rst := none } })
            exact ⟨w, q', p', r', by rw [h]⟩
      · exact ⟨_, _, _, _, rfl⟩
      · exact ⟨_, _, _, _, rfl⟩

/-- "the response message has been handed over (or the read side has failed)":
    the sticky read error is set and no read is pending -/
def Done (s : CStream α) : Prop := s.readErr.isSome = true ∧ s.pread = none

theorem resumeRead_spec (sid : Sid) : ∀ (fuel : Nat) (s : CStream α),
    (s.resumeRead sid fuel).1.ss = s.ss ∧
    (s.ss = false → delivered (s.resumeRead sid fuel).2.1 ≤ 1 ∧
      (delivered (s.resumeRead sid fuel).2.1 = 1 → Done (s.resumeRead sid fuel).1)) ∧
    (∀ e, (s.resumeRead sid fuel).2.2 = some e →
      delivered (s.resumeRead sid fuel).2.1 = 0 ∧ (s.resumeRead sid fuel).1.pread = none ∧
      (s.resumeRead sid fuel).1.readErr = some e) := by
  intro fuel
  induction fuel with
  | zero => intro s; simp [CStream.resumeRead]
  | succ n ih =>
    intro s
    rw [CStream.resumeRead]
    split
    · simp
    · rename_i p hp
      split
      rename_i rwin q credits out hrl
      dsimp only
      split
      · split
        · split
          · simp [delivered_single, Done]
          · simp [delivered_single]
        · simp
      · split
        · simp [delivered_single]
        · split
          · rename_i hss
            simp [hss]
          · rename_i m _ _ hss
            have h := ih ({ s with
                rcv := { s.rcv with rwin := if s.fc then rwin else s.rcv.rwin, queue := q },
                pread := some { lookahead := some m, rst := none } })
            simp only [delivered_add, delivered_mk_nil, Nat.zero_add]
            exact h
      · simp [delivered_single]
      · simp

/-- the only frames a read emits are window updates, and none once the RPC
    has its terminal result -/
theorem resumeRead_frames (sid : Sid) : ∀ (fuel : Nat) (s : CStream α),
    ∃ cr : List Nat, (s.resumeRead sid fuel).2.1.frames =
      if s.fc && s.done.isNone then cr.map (fun n => (sid, C2S.windowUpdate n)) else [] := by
  intro fuel
  induction fuel with
  | zero => intro s; exact ⟨[], by simp [CStream.resumeRead]⟩
  | succ n ih =>
    intro s
    rw [CStream.resumeRead]
    split
    · exact ⟨[], by simp⟩
    · rename_i p hp
      split
      rename_i rwin q credits out hrl
      dsimp only
      split
      · split
        · split
          · exact ⟨credits, rfl⟩
          · exact ⟨credits, rfl⟩
        · exact ⟨credits, rfl⟩
      · split
        · exact ⟨credits, rfl⟩
        · split
          · exact ⟨credits, rfl⟩
          · rename_i m _ _ hss
            obtain ⟨cr, h⟩ := ih ({ s with
                rcv := { s.rcv with rwin := if s.fc then rwin else s.rcv.rwin, queue := q },
                pread := some { lookahead := some m, rst := none } })
            refine ⟨credits ++ cr, ?_⟩
            simp only [COut.add, h]
            split <;> simp
      · exact ⟨credits, rfl⟩
      · exact ⟨credits, rfl⟩

/-- a read only consumes a prefix of the queue -/
theorem resumeRead_queue (sid : Sid) : ∀ (fuel : Nat) (s : CStream α),
    ∃ pre, s.rcv.queue = pre ++ (s.resumeRead sid fuel).1.rcv.queue := by
  intro fuel
  induction fuel with
  | zero => intro s; exact ⟨[], by simp [CStream.resumeRead]⟩
  | succ n ih =>
    intro s
    rw [CStream.resumeRead]
    split
    · exact ⟨[], by simp⟩
    · rename_i p hp
      split
      rename_i rwin q credits out hrl
      obtain ⟨pre, hpre⟩ := readLoop_suffix s.rcv.queue s.rcv.rwin p.rst
      rw [hrl] at hpre
      dsimp only at hpre ⊢
      split
      · split
        · split
          · exact ⟨pre, hpre⟩
          · exact ⟨pre, hpre⟩
        · exact ⟨pre, hpre⟩
      · split
        · exact ⟨pre, hpre⟩
        · split
          · exact ⟨pre, hpre⟩
          · rename_i m _ _ hss
            obtain ⟨pre2, h⟩ := ih ({ s with
                rcv := { s.rcv with rwin := if s.fc then rwin else s.rcv.rwin, queue := q },
                pread := some { lookahead := some m, rst := none } })
            exact ⟨pre ++ pre2, by rw [List.append_assoc, ← h]; exact hpre⟩
      · exact ⟨pre, hpre⟩
      · exact ⟨pre, hpre⟩

/-- on a closed (or cancelled) receiver the look-ahead pass of a read always completes -/
theorem resumeRead_closed_la (sid : Sid) (fuel : Nat) (s : CStream α) (p : PRead α) (m : List α)
    (hp : s.pread = some p) (hl : p.lookahead = some m)
    (hc : (s.rcv.closed || s.rcv.cancelled) = true) :
    (s.resumeRead sid (fuel + 1)).1.pread = none := by
  rw [CStream.resumeRead]
  obtain ⟨r, hr⟩ := readLoop_some s.rcv.queue s.rcv.rwin p.rst
  simp only [hp, hr]
  cases r with
  | cont st' => simp only [hc, if_true, hl]; split <;> rfl
  | msg m2 => simp only [hl]
  | err e => rfl

/-- on a closed (or cancelled) receiver a read always completes (two passes suffice) -/
theorem resumeRead_closed (sid : Sid) (fuel : Nat) (s : CStream α)
    (hc : (s.rcv.closed || s.rcv.cancelled) = true) :
    (s.resumeRead sid (fuel + 2)).1.pread = none := by
  rw [CStream.resumeRead]
  split
  · assumption
  · rename_i p hp
    split
    rename_i rwin q credits out hrl
    obtain ⟨r, hr⟩ := readLoop_some s.rcv.queue s.rcv.rwin p.rst
    rw [hrl] at hr
    dsimp only at hr ⊢
    subst hr
    cases r with
    | cont st' => simp only [hc, if_true]; split <;> rfl
    | msg m2 =>
      dsimp only
      split
      · rfl
      · split
        · rfl
        · exact resumeRead_closed_la sid fuel _ _ m2 rfl rfl hc
    | err e => rfl

/-! ### building blocks: everything except starting a read -/

/-- the contract of a building block that may wake a pending read but never starts one:
    * it keeps `ss`;
    * on a stream with a non-streaming response it delivers at most one
      message, and if it delivers one the read side is `Done` afterwards;
    * if no read is pending it delivers nothing and leaves the read side alone. -/
structure Block (s : CStream α) (r : CStream α × COut α) : Prop where
  ss : r.1.ss = s.ss
  le_one : s.ss = false → delivered r.2 ≤ 1
  then_done : s.ss = false → delivered r.2 = 1 → Done r.1
  noread : s.pread = none → delivered r.2 = 0 ∧ r.1.pread = none ∧ r.1.readErr = s.readErr

theorem Block.of_quiet {s : CStream α} {r : CStream α × COut α} (hss : r.1.ss = s.ss)
    (hk : s.pread = none → r.1.pread = none ∧ r.1.readErr = s.readErr) (ho : delivered r.2 = 0) :
    Block s r :=
  ⟨hss, fun _ => by omega, fun _ h1 => by omega, fun hp => ⟨ho, hk hp⟩⟩

theorem Block.of_fields {s : CStream α} {r : CStream α × COut α} (hss : r.1.ss = s.ss)
    (hp : r.1.pread = s.pread) (he : r.1.readErr = s.readErr) (ho : delivered r.2 = 0) : Block s r :=
  Block.of_quiet hss (fun h => ⟨hp.trans h, he⟩) ho

theorem Block.id (s : CStream α) : Block s (s, {}) := Block.of_fields rfl rfl rfl rfl

/-- the contract only looks at `ss`, `pread`, `readErr` of the pre-state -/
theorem Block.pre {s s0 : CStream α} {r : CStream α × COut α} (h : Block s0 r)
    (hss : s0.ss = s.ss) (hp : s0.pread = s.pread) (he : s0.readErr = s.readErr) : Block s r :=
  ⟨h.ss.trans hss, fun hc => h.le_one (hss.trans hc), fun hc h1 => h.then_done (hss.trans hc) h1,
   fun hn => by
    have := h.noread (hp.trans hn)
    exact ⟨this.1, this.2.1, this.2.2.trans he⟩⟩

theorem Block.seq {s a b : CStream α} {o1 o2 : COut α} (h1 : Block s (a, o1)) (h2 : Block a (b, o2)) :
    Block s (b, o1.add o2) := by
  have hass : a.ss = s.ss := h1.ss
  refine ⟨h2.ss.trans hass, fun hc => ?_, fun hc hd => ?_, fun hn => ?_⟩
  · have ha := h1.le_one hc
    have hb := h2.le_one (hass.trans hc)
    show delivered (o1.add o2) ≤ 1
    rw [delivered_add]
    by_cases h : delivered o1 = 1
    · have := (h2.noread (h1.then_done hc h).2).1
      have h' : delivered o1 = 1 := h
      have this' : delivered o2 = 0 := this
      omega
    · have ha' : delivered o1 ≤ 1 := ha
      have hb' : delivered o2 ≤ 1 := hb
      omega
  · have hd' : delivered o1 + delivered o2 = 1 := by rw [← delivered_add]; exact hd
    have ha : delivered o1 ≤ 1 := h1.le_one hc
    by_cases h : delivered o1 = 1
    · have hda := h1.then_done hc h
      have := h2.noread hda.2
      exact ⟨by rw [this.2.2]; exact hda.1, this.2.1⟩
    · exact h2.then_done (hass.trans hc) (by show delivered o2 = 1; omega)
  · have ha := h1.noread hn
    have hb := h2.noread ha.2.1
    refine ⟨?_, hb.2.1, hb.2.2.trans ha.2.2⟩
    show delivered (o1.add o2) = 0
    rw [delivered_add]
    have ha' : delivered o1 = 0 := ha.1
    have hb' : delivered o2 = 0 := hb.1
    omega

theorem resumeRead_block (sid : Sid) (fuel : Nat) (s : CStream α) :
    Block s ((s.resumeRead sid fuel).1, (s.resumeRead sid fuel).2.1) := by
  have h := resumeRead_spec sid fuel s
  refine ⟨h.1, fun hc => (h.2.1 hc).1, fun hc => (h.2.1 hc).2, fun hn => ?_⟩
  rw [resumeRead_none sid fuel s hn]
  exact ⟨rfl, hn, rfl⟩

theorem ctxEnds_block (sid : Sid) (s : CStream α) (e : CtxErr) (b : Bool) : Block s (s.ctxEnds sid e b) := by
  cases h : s.ctxDone with
  | some c => rw [ctxEnds_done sid s e b (by simp [h])]; exact Block.id s
  | none =>
    rw [ctxEnds_eq sid s e b h]
    refine Block.of_fields rfl rfl rfl ?_
    simp only [delivered]
    cases s.psend <;> cases s.pheader <;> cases s.gotHeaders <;> cases b <;> simp

theorem finish_block (sid : Sid) (s : CStream α) (err : Option SErr) (tr : MD) :
    Block s ((s.finish sid err tr).1, (s.finish sid err tr).2.1) := by
  cases h : s.done with
  | some c => rw [finish_done sid s err tr (by simp [h])]; exact Block.id s
  | none =>
    rw [finish_eq sid s err tr h]
    have h0 : Block s (finPre s err tr,
        ({ dones := if s.pheader then [(sid, "header", Res.md s.headers)] else [] } : COut α)) := by
      refine Block.of_fields rfl rfl rfl ?_
      cases s.pheader <;> simp [delivered]
    exact (h0.seq (resumeRead_block sid 3 _)).seq (ctxEnds_block sid _ _ _)

theorem cancelStream_done (sid : Sid) (s : CStream α) (err : SErr) (h : s.done.isSome = true) :
    s.cancelStream sid err = (s, {}) := by
  unfold CStream.cancelStream
  rw [finish_done sid s _ _ h]
  rfl

theorem finish_won (sid : Sid) (s : CStream α) (err : Option SErr) (tr : MD) (h : s.done = none) :
    (s.finish sid err tr).2.2 = true := by
  rw [finish_eq sid s err tr h]

theorem cancelStream_eq (sid : Sid) (s : CStream α) (err : SErr) (h : s.done = none) :
    s.cancelStream sid err =
      ({ (s.finish sid (some err) []).1 with
           rcv := if (s.finish sid (some err) []).1.fc then (s.finish sid (some err) []).1.rcv.cancel
                  else (s.finish sid (some err) []).1.rcv.close },
       (s.finish sid (some err) []).2.1.add { frames := [(sid, .cancel)] }) := by
  unfold CStream.cancelStream
  have hw := finish_won sid s (some err) [] h
  simp only [hw]
  rfl

theorem cancelStream_block (sid : Sid) (s : CStream α) (err : SErr) : Block s (s.cancelStream sid err) := by
  cases h : s.done with
  | some c => rw [cancelStream_done sid s err (by simp [h])]; exact Block.id s
  | none =>
    rw [cancelStream_eq sid s err h]
    exact (finish_block sid s (some err) []).seq (Block.of_fields rfl rfl rfl rfl)

theorem afterRead_eq (sid : Sid) (r : CStream α × COut α × Option SErr) :
    CStream.afterRead sid r =
      match r.2.2 with
      | none => (r.1, r.2.1)
      | some e => ((r.1.cancelStream sid e).1, r.2.1.add (r.1.cancelStream sid e).2) := by
  obtain ⟨a, o, c⟩ := r
  cases c <;> rfl

/-- a data frame arriving / a read being (re)started: continue the pending
    read, then cancel the stream if the read failed with a `!ok` error -/
theorem afterRead_block (sid : Sid) (fuel : Nat) (s : CStream α) :
    Block s (CStream.afterRead sid (s.resumeRead sid fuel)) := by
  rw [afterRead_eq]
  split
  · exact resumeRead_block sid fuel s
  · exact (resumeRead_block sid fuel s).seq (cancelStream_block sid _ _)

theorem ctxCancelled_done (sid : Sid) (s : CStream α) (e : CtxErr) (h : s.ctxDone.isSome = true) :
    s.ctxCancelled sid e = (s, {}) := by
  unfold CStream.ctxCancelled
  rw [if_pos h]

theorem ctxCancelled_eq (sid : Sid) (s : CStream α) (e : CtxErr) (h : s.ctxDone = none) :
    s.ctxCancelled sid e =
      (((s.ctxEnds sid e s.done.isNone).1.cancelStream sid (.ctx e)).1,
       (s.ctxEnds sid e s.done.isNone).2.add ((s.ctxEnds sid e s.done.isNone).1.cancelStream sid (.ctx e)).2) := by
  unfold CStream.ctxCancelled
  simp only [h]
  rfl

theorem ctxCancelled_block (sid : Sid) (s : CStream α) (e : CtxErr) : Block s (s.ctxCancelled sid e) := by
  cases h : s.ctxDone with
  | some c => rw [ctxCancelled_done sid s e (by simp [h])]; exact Block.id s
  | none =>
    rw [ctxCancelled_eq sid s e h]
    exact (ctxEnds_block sid s e _).seq (cancelStream_block sid _ _)

theorem pumpSend_raw (cfg : CCfg) (sid : Sid) (s : CStream α) (snd : Snd α) :
    (s.pumpSend cfg sid snd).1.ss = s.ss ∧ (s.pumpSend cfg sid snd).1.pread = s.pread ∧
    (s.pumpSend cfg sid snd).1.readErr = s.readErr ∧ delivered (s.pumpSend cfg sid snd).2 = 0 := by
  unfold CStream.pumpSend
  repeat' split
  all_goals simp [delivered_single]

theorem pumpSend_block (cfg : CCfg) (sid : Sid) (s : CStream α) (snd : Snd α) :
    Block s (s.pumpSend cfg sid snd) :=
  have h := pumpSend_raw cfg sid s snd
  Block.of_fields h.1 h.2.1 h.2.2.1 h.2.2.2

/-- the data-frame branch of `acceptServerFrame` -/
def dataFrame (sid : Sid) (s : CStream α) (df : DFrame α) : CStream α × COut α :=
  if s.fc then
    match s.rcv.accept df with
    | (_, .dropped) => (s, {})
    | (_, .windowExceeded) =>
      ((s.finish sid (some (.status (mkStatus codeResourceExhausted "flow control window exceeded"))) []).1,
       (s.finish sid (some (.status (mkStatus codeResourceExhausted "flow control window exceeded"))) []).2.1)
    | (r, .ok) => CStream.afterRead sid (({ s with rcv := r } : CStream α).resumeRead sid 3)
  else
    if s.rcv.closed then (s, {})
    else if !s.rcv.queue.isEmpty then ({ s with unsupported := true }, {})
    else CStream.afterRead sid (({ s with rcv := { s.rcv with queue := [df] } } : CStream α).resumeRead sid 3)

theorem onFrame_msg (cfg : CCfg) (sid : Sid) (s : CStream α) (size : Nat) (d : List α) :
    s.onFrame cfg sid (.msg size d) = dataFrame sid s (.env size d) := rfl

theorem onFrame_more (cfg : CCfg) (sid : Sid) (s : CStream α) (d : List α) :
    s.onFrame cfg sid (.more d) = dataFrame sid s (.more d) := rfl

theorem onFrame_close (cfg : CCfg) (sid : Sid) (s : CStream α) (st : Status) (tr : MD) :
    s.onFrame cfg sid (.close st tr) = ((s.finish sid (statusErr st) tr).1, (s.finish sid (statusErr st) tr).2.1) := rfl

theorem onFrame_settings (cfg : CCfg) (sid : Sid) (s : CStream α) (w : Nat) (rv : List Int) :
    s.onFrame cfg sid (.settings w rv) =
      ((s.finish sid (some (.plain "protocol error: unexpected settings frame")) []).1,
       (s.finish sid (some (.plain "protocol error: unexpected settings frame")) []).2.1) := rfl

theorem onFrame_unset (cfg : CCfg) (sid : Sid) (s : CStream α) :
    s.onFrame cfg sid .unset =
      ((s.finish sid (some (.plain "protocol error: unrecognized frame type")) []).1,
       (s.finish sid (some (.plain "protocol error: unrecognized frame type")) []).2.1) := rfl

theorem dataFrame_block (sid : Sid) (s : CStream α) (df : DFrame α) : Block s (dataFrame sid s df) := by
  unfold dataFrame
  split
  · split
    · exact Block.id s
    · exact finish_block sid s _ _
    · exact (afterRead_block sid 3 _).pre rfl rfl rfl
  · split
    · exact Block.id s
    · split
      · exact Block.of_fields rfl rfl rfl rfl
      · exact (afterRead_block sid 3 _).pre rfl rfl rfl

theorem onFrame_block (cfg : CCfg) (sid : Sid) (s : CStream α) (f : S2C α) :
    Block s (s.onFrame cfg sid f) := by
  cases f with
  | settings w rv => rw [onFrame_settings]; exact finish_block sid s _ _
  | headers md =>
    simp only [CStream.onFrame]
    split
    · exact Block.id s
    · split
      · exact Block.of_fields rfl rfl rfl (by simp [delivered_single])
      · exact Block.of_fields rfl rfl rfl rfl
  | msg size d => rw [onFrame_msg]; exact dataFrame_block sid s _
  | more d => rw [onFrame_more]; exact dataFrame_block sid s _
  | close st tr => rw [onFrame_close]; exact finish_block sid s _ _
  | windowUpdate n =>
    simp only [CStream.onFrame]
    split
    · exact Block.id s
    · split
      · exact Block.of_fields rfl rfl rfl rfl
      · exact (pumpSend_block cfg sid _ _).pre rfl rfl rfl
  | unset => rw [onFrame_unset]; exact finish_block sid s _ _

/-! ### what every stream-level step satisfies -/

/-- the two-phase contract of a step from `s` with result `r`:
    * the step keeps `ss`;
    * on a stream with a non-streaming response the step delivers at most one
      message, and if it delivers one the read side is `Done` afterwards;
    * from a `Done` state the step delivers nothing and stays `Done`. -/
structure StepSpec (s : CStream α) (r : CStream α × COut α) : Prop where
  ss : r.1.ss = s.ss
  le_one : s.ss = false → delivered r.2 ≤ 1
  then_done : s.ss = false → delivered r.2 = 1 → Done r.1
  done_stays : Done s → delivered r.2 = 0 ∧ Done r.1

theorem Block.spec {s : CStream α} {r : CStream α × COut α} (h : Block s r) : StepSpec s r :=
  ⟨h.ss, h.le_one, h.then_done, fun hd => by
    have := h.noread hd.2
    exact ⟨this.1, by rw [this.2.2]; exact hd.1, this.2.1⟩⟩

theorem onFrame_spec (cfg : CCfg) (sid : Sid) (s : CStream α) (f : S2C α) :
    StepSpec s (s.onFrame cfg sid f) := (onFrame_block cfg sid s f).spec

theorem ctxCancelled_spec (sid : Sid) (s : CStream α) (e : CtxErr) :
    StepSpec s (s.ctxCancelled sid e) := (ctxCancelled_block sid s e).spec

theorem onCall_spec (cfg : CCfg) (sid : Sid) (s : CStream α) (c : CCall α) :
    StepSpec s (s.onCall cfg sid c) := by
  cases c with
  | send m =>
    simp only [CStream.onCall]
    split
    · exact Block.spec (Block.of_fields rfl rfl rfl (by simp [delivered_single]))
    · exact Block.spec ((pumpSend_block cfg sid _ _).pre rfl rfl rfl)
  | closeSend =>
    simp only [CStream.onCall]
    split
    · exact Block.spec (Block.of_fields rfl rfl rfl (by simp [delivered_single]))
    · split
      · exact Block.spec (Block.of_fields rfl rfl rfl (by simp [delivered_single]))
      · exact Block.spec (Block.of_fields rfl rfl rfl (by simp [delivered_single]))
  | recv =>
    simp only [CStream.onCall]
    split
    · exact Block.spec (Block.of_fields rfl rfl rfl (by simp [delivered_single]))
    · rename_i he
      have hnd : ¬ Done s := by intro hd; have := hd.1; rw [he] at this; exact absurd this (by simp)
      have hb := afterRead_block sid 3 ({ s with pread := some { lookahead := none, rst := none } } : CStream α)
      exact ⟨hb.ss, fun h => hb.le_one h, fun h h1 => hb.then_done h h1, fun hd => absurd hd hnd⟩
  | header =>
    simp only [CStream.onCall]
    split
    · exact Block.spec (Block.of_fields rfl rfl rfl (by simp [delivered_single]))
    · split
      · exact Block.spec (Block.of_fields rfl rfl rfl (by simp [delivered_single]))
      · exact Block.spec (Block.of_fields rfl rfl rfl rfl)
  | trailer =>
    simp only [CStream.onCall]
    exact Block.spec (Block.of_fields rfl rfl rfl (by simp [delivered_single]))
  | cancel => exact ctxCancelled_spec sid s _

/-! ### runs of stream-level operations -/

/-- everything that can happen to one stream object: a frame of any kind from
    any peer, a call by the application, the end of the stream context (cancel,
    deadline, channel close) -/
inductive COp (α : Type) where
  | frame (f : S2C α)
  | call (c : CCall α)
  | ctx (e : CtxErr)

def stepOp (cfg : CCfg) (sid : Sid) (s : CStream α) : COp α → CStream α × COut α
  | .frame f => s.onFrame cfg sid f
  | .call c => s.onCall cfg sid c
  | .ctx e => s.ctxCancelled sid e

/-- run a list of operations; the second component is the total number of
    response messages delivered to the caller -/
def runOps (cfg : CCfg) (sid : Sid) : CStream α → List (COp α) → CStream α × Nat
  | s, [] => (s, 0)
  | s, op :: ops =>
    let r := stepOp cfg sid s op
    let r2 := runOps cfg sid r.1 ops
    (r2.1, delivered r.2 + r2.2)

theorem stepOp_spec (cfg : CCfg) (sid : Sid) (s : CStream α) (op : COp α) :
    StepSpec s (stepOp cfg sid s op) := by
  cases op with
  | frame f => exact onFrame_spec cfg sid s f
  | call c => exact onCall_spec cfg sid s c
  | ctx e => exact ctxCancelled_spec sid s e

theorem runOps_append (cfg : CCfg) (sid : Sid) (ops1 ops2 : List (COp α)) : ∀ (s : CStream α),
    runOps cfg sid s (ops1 ++ ops2) =
      ((runOps cfg sid (runOps cfg sid s ops1).1 ops2).1,
       (runOps cfg sid s ops1).2 + (runOps cfg sid (runOps cfg sid s ops1).1 ops2).2) := by
  induction ops1 with
  | nil => intro s; simp [runOps]
  | cons op ops ih =>
    intro s
    simp only [List.cons_append, runOps, ih, Nat.add_assoc]

/-- once `Done`, always `Done`, and nothing is delivered any more (any `ss`) -/
theorem runOps_done (cfg : CCfg) (sid : Sid) (ops : List (COp α)) : ∀ (s : CStream α), Done s →
    (runOps cfg sid s ops).2 = 0 ∧ Done (runOps cfg sid s ops).1 := by
  induction ops with
  | nil => intro s h; exact ⟨rfl, h⟩
  | cons op ops ih =>
    intro s h
    have h1 := (stepOp_spec cfg sid s op).done_stays h
    have h2 := ih _ h1.2
    simp only [runOps]
    exact ⟨by omega, h2.2⟩

theorem runOps_ss (cfg : CCfg) (sid : Sid) (ops : List (COp α)) : ∀ (s : CStream α),
    (runOps cfg sid s ops).1.ss = s.ss := by
  induction ops with
  | nil => intro s; rfl
  | cons op ops ih =>
    intro s
    simp only [runOps]
    exact (ih _).trans (stepOp_spec cfg sid s op).ss

theorem at_most_one_aux (cfg : CCfg) (sid : Sid) (ops : List (COp α)) : ∀ (s0 : CStream α),
    s0.ss = false → (runOps cfg sid s0 ops).2 ≤ 1 := by
  induction ops with
  | nil => intro s h; simp [runOps]
  | cons op ops ih =>
    intro s h
    have hs := stepOp_spec cfg sid s op
    simp only [runOps]
    have hle := hs.le_one h
    by_cases h1 : delivered (stepOp cfg sid s op).2 = 1
    · have := (runOps_done cfg sid ops _ (hs.then_done h h1)).1
      omega
    · have := ih _ (hs.ss.trans h)
      omega

/-- **C16 (client), at most one response.**  On a stream whose method has a
    non-streaming response, whatever the peers send, whatever the application
    calls and whenever its context ends, at most one response message is ever
    delivered to the caller.  (No assumption on the initial state other than
    `ss = false`.) -/
theorem C16_client_at_most_one (cfg : CCfg) (sid : Sid) (s0 : CStream α) (h0 : s0.ss = false)
    (ops : List (COp α)) : (runOps cfg sid s0 ops).2 ≤ 1 :=
  at_most_one_aux cfg sid ops s0 h0

theorem delivered_then_done_aux (cfg : CCfg) (sid : Sid) (ops : List (COp α)) : ∀ (s0 : CStream α),
    s0.ss = false → (runOps cfg sid s0 ops).2 = 1 → Done (runOps cfg sid s0 ops).1 := by
  induction ops with
  | nil => intro s h h1; simp [runOps] at h1
  | cons op ops ih =>
    intro s h h1
    have hs := stepOp_spec cfg sid s op
    simp only [runOps] at h1 ⊢
    have hle := hs.le_one h
    by_cases h2 : delivered (stepOp cfg sid s op).2 = 1
    · exact (runOps_done cfg sid ops _ (hs.then_done h h2)).2
    · exact ih _ (hs.ss.trans h) (by omega)

/-- **C16 (client), delivery ends the response stream.**  Once the message has
    been delivered the read side is `Done`: the sticky read error is set and no
    read is pending. -/
theorem C16_client_delivered_then_done (cfg : CCfg) (sid : Sid) (s0 : CStream α) (h0 : s0.ss = false)
    (ops : List (COp α)) (h1 : (runOps cfg sid s0 ops).2 = 1) :
    (runOps cfg sid s0 ops).1.readErr.isSome = true ∧ (runOps cfg sid s0 ops).1.pread = none :=
  delivered_then_done_aux cfg sid ops s0 h0 h1

theorem delivered_eq_zero_iff (o : COut α) : delivered o = 0 ↔ ∀ d ∈ o.dones, isMsg d.2.2 = false := by
  simp [delivered, List.filter_eq_nil_iff]

/-- from a `Done` state a `RecvMsg` returns the sticky error, changes nothing
    and emits nothing else -/
theorem recv_when_done (cfg : CCfg) (sid : Sid) (s : CStream α) (hd : Done s) :
    ∃ e, s.readErr = some e ∧
      s.onCall cfg sid .recv = (s, { dones := [(sid, "recv", e.toRes)] }) := by
  obtain ⟨e, he⟩ := Option.isSome_iff_exists.mp hd.1
  exact ⟨e, he, by simp only [CStream.onCall, he]⟩

/-- **C16 (client), reads after the response fail.**  Once the (single)
    response message has been delivered in a run `ops1`, then after any further
    operations `ops2`: nothing more is delivered, the read side stays `Done`
    (sticky), and a `RecvMsg` issued then returns the sticky read error, not a
    message. -/
theorem C16_client_reads_fail_after_delivery (cfg : CCfg) (sid : Sid) (s0 : CStream α) (h0 : s0.ss = false)
    (ops1 ops2 : List (COp α)) (h1 : (runOps cfg sid s0 ops1).2 = 1) :
    let s := (runOps cfg sid (runOps cfg sid s0 ops1).1 ops2).1
    (runOps cfg sid (runOps cfg sid s0 ops1).1 ops2).2 = 0 ∧
    s.readErr.isSome = true ∧ s.pread = none ∧
    ∃ e, s.readErr = some e ∧ s.onCall cfg sid .recv = (s, { dones := [(sid, "recv", e.toRes)] }) := by
  have hd := delivered_then_done_aux cfg sid ops1 s0 h0 h1
  have h2 := runOps_done cfg sid ops2 _ hd
  exact ⟨h2.1, h2.2.1, h2.2.2, recv_when_done cfg sid _ h2.2⟩

/-! ### exact shape of `finishStream` / `cancelStream` -/

theorem ctxEnds_frames (sid : Sid) (s : CStream α) (e : CtxErr) (b : Bool) :
    (s.ctxEnds sid e b).2.frames = [] := by
  cases h : s.ctxDone with
  | some c => rw [ctxEnds_done sid s e b (by simp [h])]
  | none => rw [ctxEnds_eq sid s e b h]

/-- `finishStream` itself never puts a frame on the wire (the window updates of
    the read it wakes are suppressed because the RPC is done) -/
theorem finish_frames (sid : Sid) (s : CStream α) (err : Option SErr) (tr : MD) :
    (s.finish sid err tr).2.1.frames = [] := by
  cases h : s.done with
  | some c => rw [finish_done sid s err tr (by simp [h])]
  | none =>
    rw [finish_eq sid s err tr h]
    obtain ⟨cr, hcr⟩ := resumeRead_frames sid 3 (finPre s err tr)
    simp only [COut.add, ctxEnds_frames, hcr]
    simp [finPre]

/-- the state after a `finishStream` that wins: everything is settled -/
theorem finish_shape (sid : Sid) (s : CStream α) (err : Option SErr) (tr : MD) (h : s.done = none) :
    ∃ w q r' c ps, (s.finish sid err tr).1 =
      { s with done := some (mapFinishErr err), inTable := false, trailers := tr, gotHeaders := true,
               doneSignal := true,
               rcv := { rwin := w, queue := q, closed := true, cancelled := s.rcv.cancelled },
               pread := none, readErr := r', ctxDone := some c, psend := ps, pheader := false } ∧
      (s.ctxDone = none → ps = none ∧ c = .canceled) ∧
      (s.ctxDone.isSome = true → ps = s.psend ∧ some c = s.ctxDone) ∧
      (∃ pre, s.rcv.queue = pre ++ q) ∧
      (s.pread = none → q = s.rcv.queue ∧ w = s.rcv.rwin ∧ r' = s.readErr) := by
  rw [finish_eq sid s err tr h]
  have hcl : ((finPre s err tr).resumeRead sid 3).1.pread = none :=
    resumeRead_closed sid 1 _ (by simp [finPre, RcvQ.close])
  obtain ⟨pre, hpre⟩ := resumeRead_queue sid 3 (finPre s err tr)
  have hnr : s.pread = none → ((finPre s err tr).resumeRead sid 3).1 = finPre s err tr :=
    fun hn => by rw [resumeRead_none sid 3 (finPre s err tr) hn]
  obtain ⟨w, q, p', r', hs⟩ := resumeRead_shape sid 3 (finPre s err tr)
  rw [hs] at hcl hpre hnr ⊢
  dsimp only at hcl
  subst hcl
  cases hc : s.ctxDone with
  | none =>
    rw [ctxEnds_eq _ _ _ _ (by simp [finPre, hc])]
    refine ⟨w, q, r', .canceled, none, ?_, fun _ => ⟨rfl, rfl⟩, fun h => by simp at h, ⟨pre, hpre⟩, fun hn => ?_⟩
    · simp [finPre, RcvQ.close]
    · have := hnr hn
      exact ⟨congrArg (fun x => x.rcv.queue) this, congrArg (fun x => x.rcv.rwin) this,
        congrArg (fun x => x.readErr) this⟩
  | some c =>
    rw [ctxEnds_done _ _ _ _ (by simp [finPre, hc])]
    refine ⟨w, q, r', c, s.psend, ?_, fun h => by simp at h, fun _ => ⟨rfl, rfl⟩, ⟨pre, hpre⟩, fun hn => ?_⟩
    · simp [finPre, RcvQ.close, hc]
    · have := hnr hn
      exact ⟨congrArg (fun x => x.rcv.queue) this, congrArg (fun x => x.rcv.rwin) this,
        congrArg (fun x => x.readErr) this⟩

/-- a `cancelStream` that wins emits exactly the cancel frame -/
theorem cancelStream_frames (sid : Sid) (s : CStream α) (err : SErr) (h : s.done = none) :
    (s.cancelStream sid err).2.frames = [(sid, .cancel)] := by
  rw [cancelStream_eq sid s err h]
  simp [COut.add, finish_frames]

/-- the state after a `cancelStream` that wins -/
theorem cancelStream_shape (sid : Sid) (s : CStream α) (err : SErr) (h : s.done = none) :
    ∃ w q r' c ps, (s.cancelStream sid err).1 =
      { s with done := some (mapFinishErr (some err)), inTable := false, trailers := [], gotHeaders := true,
               doneSignal := true,
               rcv := { rwin := w, queue := if s.fc then [] else q, closed := true,
                        cancelled := s.fc || s.rcv.cancelled },
               pread := none, readErr := r', ctxDone := some c, psend := ps, pheader := false } ∧
      (s.ctxDone = none → ps = none ∧ c = .canceled) ∧
      (s.ctxDone.isSome = true → ps = s.psend ∧ some c = s.ctxDone) ∧
      (s.pread = none → r' = s.readErr) := by
  rw [cancelStream_eq sid s err h]
  obtain ⟨w, q, r', c, ps, hs, h1, h2, _, h4⟩ := finish_shape sid s (some err) [] h
  refine ⟨w, q, r', c, ps, ?_, h1, h2, fun hn => (h4 hn).2.2⟩
  rw [hs]
  cases s.fc <;> simp [RcvQ.cancel, RcvQ.close]

/-! ### a second response fails the RPC -/

/-- **C16 (client), a second response fails the RPC.**  If the eager look-ahead
    read of a non-server-stream method (first message `m` complete) finds a
    complete second message in the queue, the pending `RecvMsg` is completed
    with `Internal`, nothing is delivered, the sticky read error is set, and
    `RecvMsg` goes on to `cancelStream`: if the RPC had no terminal result yet
    it becomes that `Internal` status and exactly one cancel frame is emitted
    (after the window updates of the read); if it already had one, that result
    stays and nothing else happens. -/
theorem C16_second_response_fails (sid : Sid) (fuel : Nat) (s : CStream α) (p : PRead α) (m m2 : List α)
    (w : Nat) (q : List (DFrame α)) (cs' : List Nat)
    (hp : s.pread = some p) (hl : p.lookahead = some m)
    (hr : readLoop s.rcv.rwin s.rcv.queue p.rst = (w, q, cs', some (.msg m2))) :
    let e : SErr := .status (mkStatus codeInternal "Server sent multiple responses for non-server-stream method")
    let cf : List (Sid × C2S α) :=
      if s.fc && s.done.isNone then cs'.map (fun n => (sid, C2S.windowUpdate n)) else []
    let r := s.resumeRead sid (fuel + 1)
    let a := CStream.afterRead sid r
    -- the read itself
    (r.2.1.dones = [(sid, "recv", .status codeInternal)] ∧ delivered r.2.1 = 0 ∧ r.2.1.frames = cf ∧
     r.1.readErr = some e ∧ r.1.pread = none ∧ r.1.done = s.done ∧ r.2.2 = some e) ∧
    -- what `RecvMsg` does with it
    (a.1.readErr = some e ∧ a.1.pread = none ∧ delivered a.2 = 0 ∧
     (∃ rest, a.2.dones = (sid, "recv", .status codeInternal) :: rest)) ∧
    (s.done = none →
      a.1.done = some e ∧ a.2.frames = cf ++ [(sid, .cancel)] ∧
      a.1.inTable = false ∧ a.1.doneSignal = true ∧ a.1.rcv.closed = true) ∧
    (∀ d, s.done = some d → a = (r.1, r.2.1) ∧ a.1.done = some d ∧ a.2.frames = []) := by
  intro e cf r a
  have hr' : r = ({ s with rcv := { s.rcv with rwin := if s.fc then w else s.rcv.rwin, queue := q },
                           pread := none, readErr := some e },
                  { frames := cf, dones := [(sid, "recv", e.toRes)] }, some e) := by
    show s.resumeRead sid (fuel + 1) = _
    rw [CStream.resumeRead]
    simp only [hp, hr, hl]
    rfl
  have ha : a = ((r.1.cancelStream sid e).1, r.2.1.add (r.1.cancelStream sid e).2) := by
    show CStream.afterRead sid r = _
    rw [afterRead_eq, hr']
  have hb := cancelStream_block sid r.1 e
  have hnr : r.1.pread = none := by rw [hr']
  have hb' := hb.noread hnr
  refine ⟨?_, ?_, fun hd => ?_, fun d hd => ?_⟩
  · rw [hr']
    exact ⟨rfl, rfl, rfl, rfl, rfl, rfl, rfl⟩
  · rw [ha]
    refine ⟨?_, hb'.2.1, ?_, ⟨(r.1.cancelStream sid e).2.dones, ?_⟩⟩
    · show (r.1.cancelStream sid e).1.readErr = some e
      rw [hb'.2.2, hr']
    · show delivered (r.2.1.add (r.1.cancelStream sid e).2) = 0
      rw [delivered_add, hb'.1, hr']
      rfl
    · show (r.2.1.add (r.1.cancelStream sid e).2).dones = _
      rw [hr']
      rfl
  · have hd' : r.1.done = none := by rw [hr']; exact hd
    obtain ⟨w', q', r', c, ps, hs, -⟩ := cancelStream_shape sid r.1 e hd'
    have hf := cancelStream_frames sid r.1 e hd'
    rw [ha]
    dsimp only
    refine ⟨by rw [hs]; rfl, ?_, by rw [hs], by rw [hs], by rw [hs]⟩
    simp only [COut.add, hf]
    rw [hr']
  · have hd' : r.1.done.isSome = true := by rw [hr']; simp [hd]
    have hc := cancelStream_done sid r.1 e hd'
    have ha' : a = (r.1, r.2.1) := by
      rw [ha, hc]
      simp [COut.add]
    refine ⟨ha', ?_, ?_⟩
    · rw [ha', hr']; exact hd
    · rw [ha', hr']
      simp [cf, hd]

/-! ### C07/C02: the terminal result is written once -/

theorem resumeRead_done (sid : Sid) (fuel : Nat) (s : CStream α) :
    (s.resumeRead sid fuel).1.done = s.done := by
  obtain ⟨w, q, p', r', h⟩ := resumeRead_shape sid fuel s
  rw [h]

theorem finish_keeps_done (sid : Sid) (s : CStream α) (err : Option SErr) (tr : MD) (e : SErr)
    (h : s.done = some e) : (s.finish sid err tr).1.done = some e := by
  rw [finish_done sid s err tr (by simp [h])]; exact h

theorem cancelStream_keeps_done (sid : Sid) (s : CStream α) (err : SErr) (e : SErr)
    (h : s.done = some e) : (s.cancelStream sid err).1.done = some e := by
  rw [cancelStream_done sid s err (by simp [h])]; exact h

theorem ctxCancelled_keeps_done (sid : Sid) (s : CStream α) (c : CtxErr) (e : SErr)
    (h : s.done = some e) : (s.ctxCancelled sid c).1.done = some e := by
  cases hc : s.ctxDone with
  | some c' => rw [ctxCancelled_done sid s c (by simp [hc])]; exact h
  | none =>
    rw [ctxCancelled_eq sid s c hc]
    apply cancelStream_keeps_done
    rw [ctxEnds_eq sid s c _ hc]
    exact h

theorem afterRead_keeps_done (sid : Sid) (fuel : Nat) (s : CStream α) (e : SErr) (h : s.done = some e) :
    (CStream.afterRead sid (s.resumeRead sid fuel)).1.done = some e := by
  have hd : (s.resumeRead sid fuel).1.done = some e := (resumeRead_done sid fuel s).trans h
  rw [afterRead_eq]
  split
  · exact hd
  · exact cancelStream_keeps_done sid _ _ e hd

/-- `pumpSend` only touches the send window and the pending send, and never
    leaves a send pending once the context has ended -/
theorem pumpSend_shape (cfg : CCfg) (sid : Sid) (s : CStream α) (snd : Snd α) :
    ∃ w ps, (s.pumpSend cfg sid snd).1 = { s with win := w, psend := ps } ∧
      (s.ctxDone.isSome = true → ps = none) := by
  unfold CStream.pumpSend
  split
  · split
    dsimp only
    split
    · exact ⟨_, _, rfl, fun _ => rfl⟩
    · split
      · exact ⟨_, _, rfl, fun _ => rfl⟩
      · rename_i hc
        exact ⟨_, _, rfl, fun h => by simp [hc] at h⟩
  · exact ⟨_, _, rfl, fun _ => rfl⟩

theorem pumpSend_done (cfg : CCfg) (sid : Sid) (s : CStream α) (snd : Snd α) :
    (s.pumpSend cfg sid snd).1.done = s.done := by
  obtain ⟨w, ps, h, -⟩ := pumpSend_shape cfg sid s snd
  rw [h]

theorem dataFrame_keeps_done (sid : Sid) (s : CStream α) (df : DFrame α) (e : SErr) (h : s.done = some e) :
    (dataFrame sid s df).1.done = some e := by
  unfold dataFrame
  split
  · split
    · exact h
    · exact finish_keeps_done sid s _ _ e h
    · exact afterRead_keeps_done sid 3 _ e h
  · split
    · exact h
    · split
      · exact h
      · exact afterRead_keeps_done sid 3 _ e h

theorem onFrame_keeps_done (cfg : CCfg) (sid : Sid) (s : CStream α) (f : S2C α) (e : SErr)
    (h : s.done = some e) : (s.onFrame cfg sid f).1.done = some e := by
  cases f with
  | settings w rv => rw [onFrame_settings]; exact finish_keeps_done sid s _ _ e h
  | headers md =>
    simp only [CStream.onFrame]
    split
    · exact h
    · split <;> exact h
  | msg size d => rw [onFrame_msg]; exact dataFrame_keeps_done sid s _ e h
  | more d => rw [onFrame_more]; exact dataFrame_keeps_done sid s _ e h
  | close st tr => rw [onFrame_close]; exact finish_keeps_done sid s _ _ e h
  | windowUpdate n =>
    simp only [CStream.onFrame]
    split
    · exact h
    · split
      · exact h
      · rw [pumpSend_done]; exact h
  | unset => rw [onFrame_unset]; exact finish_keeps_done sid s _ _ e h

theorem onCall_keeps_done (cfg : CCfg) (sid : Sid) (s : CStream α) (c : CCall α) (e : SErr)
    (h : s.done = some e) : (s.onCall cfg sid c).1.done = some e := by
  cases c with
  | send m =>
    simp only [CStream.onCall]
    split
    · exact h
    · rw [pumpSend_done]; exact h
  | closeSend =>
    simp only [CStream.onCall]
    split
    · exact h
    · split <;> exact h
  | recv =>
    simp only [CStream.onCall]
    split
    · exact h
    · exact afterRead_keeps_done sid 3 _ e h
  | header =>
    simp only [CStream.onCall]
    split
    · exact h
    · split <;> exact h
  | trailer => exact h
  | cancel => exact ctxCancelled_keeps_done sid s _ e h

/-- **the terminal result is written once**: no stream-level operation changes
    a terminal result that is already set -/
theorem done_written_once (cfg : CCfg) (sid : Sid) (s : CStream α) (e : SErr) (h : s.done = some e) :
    (∀ err tr, (s.finish sid err tr).1.done = some e) ∧
    (∀ err, (s.cancelStream sid err).1.done = some e) ∧
    (∀ c, (s.ctxCancelled sid c).1.done = some e) ∧
    (∀ f, (s.onFrame cfg sid f).1.done = some e) ∧
    (∀ c, (s.onCall cfg sid c).1.done = some e) :=
  ⟨fun err tr => finish_keeps_done sid s err tr e h, fun err => cancelStream_keeps_done sid s err e h,
   fun c => ctxCancelled_keeps_done sid s c e h, fun f => onFrame_keeps_done cfg sid s f e h,
   fun c => onCall_keeps_done cfg sid s c e h⟩

theorem stepOp_keeps_done (cfg : CCfg) (sid : Sid) (s : CStream α) (op : COp α) (e : SErr)
    (h : s.done = some e) : (stepOp cfg sid s op).1.done = some e := by
  cases op with
  | frame f => exact onFrame_keeps_done cfg sid s f e h
  | call c => exact onCall_keeps_done cfg sid s c e h
  | ctx c => exact ctxCancelled_keeps_done sid s c e h

/-- ... over any run of operations -/
theorem done_written_once_run (cfg : CCfg) (sid : Sid) (ops : List (COp α)) : ∀ (s0 : CStream α) (e : SErr),
    s0.done = some e → (runOps cfg sid s0 ops).1.done = some e := by
  induction ops with
  | nil => intro s e h; exact h
  | cons op ops ih =>
    intro s e h
    simp only [runOps]
    exact ih _ e (stepOp_keeps_done cfg sid s op e h)

/-! ### the well-formedness invariant -/

/-- everything in `WF` except "no read is pending": insensitive to the fields a
    read touches (`rcv.rwin`, `rcv.queue`, `pread`, `readErr`) -/
def WFpre (s : CStream α) : Prop :=
  s.ctxDone.isSome = s.done.isSome ∧
  (s.done.isSome = true →
    s.rcv.closed = true ∧ s.psend.isNone = true ∧ s.pheader = false ∧
    s.gotHeaders = true ∧ s.doneSignal = true ∧ s.inTable = false)

/-- **well-formedness of a client stream**: the stream context is done exactly
    when the RPC has its terminal result (`finishStream` cancels the context,
    the context watcher finishes the stream), and then everything is settled:
    the receiver is closed, no call is blocked, the headers and the done signal
    are published, and the stream is out of the channel's table. -/
def WF (s : CStream α) : Prop :=
  s.ctxDone.isSome = s.done.isSome ∧
  (s.done.isSome = true →
    s.rcv.closed = true ∧ s.pread.isNone = true ∧ s.psend.isNone = true ∧ s.pheader = false ∧
    s.gotHeaders = true ∧ s.doneSignal = true ∧ s.inTable = false)

instance (s : CStream α) : Decidable (WF s) := by unfold WF; infer_instance

theorem WF.pre {s : CStream α} (h : WF s) : WFpre s :=
  ⟨h.1, fun hd => by have := h.2 hd; exact ⟨this.1, this.2.2.1, this.2.2.2.1, this.2.2.2.2⟩⟩

theorem WF.pread_none {s : CStream α} (h : WF s) (hd : s.done.isSome = true) : s.pread = none := by
  have := (h.2 hd).2.1
  cases hp : s.pread with
  | none => rfl
  | some p => rw [hp] at this; simp at this

theorem WF.of_open {s : CStream α} (hd : s.done = none) (hc : s.ctxDone = none) : WF s :=
  ⟨by simp [hd, hc], fun h => by rw [hd] at h; simp at h⟩

theorem WF.open_ctx {s : CStream α} (h : WF s) (hd : s.done = none) : s.ctxDone = none := by
  have := h.1
  rw [hd] at this
  cases hc : s.ctxDone with
  | none => rfl
  | some c => rw [hc] at this; simp at this

theorem WFpre.open_ctx {s : CStream α} (h : WFpre s) (hd : s.done = none) : s.ctxDone = none := by
  have := h.1
  rw [hd] at this
  cases hc : s.ctxDone with
  | none => rfl
  | some c => rw [hc] at this; simp at this

theorem WF.done_ctx {s : CStream α} (h : WF s) (hc : s.ctxDone = none) : s.done = none := by
  have := h.1
  rw [hc] at this
  cases hd : s.done with
  | none => rfl
  | some c => rw [hd] at this; simp at this

/-- a fresh stream, as built by `Cli.newStream` -/
theorem WF_fresh (cs ss fc : Bool) (W win : Nat) (dl : Option Nat) :
    WF ({ cs := cs, ss := ss, fc := fc, rcv := RcvQ.init W, win := win, deadline := dl } : CStream α) :=
  WF.of_open rfl rfl

theorem finish_WF (sid : Sid) (s : CStream α) (err : Option SErr) (tr : MD) (h : WF s) :
    WF (s.finish sid err tr).1 := by
  cases hd : s.done with
  | some c => rw [finish_done sid s err tr (by simp [hd])]; exact h
  | none =>
    obtain ⟨w, q, r', c, ps, hs, h1, -⟩ := finish_shape sid s err tr hd
    have hps := (h1 (h.open_ctx hd)).1
    subst hps
    rw [hs]
    simp [WF]

theorem cancelStream_WF (sid : Sid) (s : CStream α) (err : SErr) (h : WF s) :
    WF (s.cancelStream sid err).1 := by
  cases hd : s.done with
  | some c => rw [cancelStream_done sid s err (by simp [hd])]; exact h
  | none =>
    obtain ⟨w, q, r', c, ps, hs, h1, -⟩ := cancelStream_shape sid s err hd
    have hps := (h1 (h.open_ctx hd)).1
    subst hps
    rw [hs]
    simp [WF]

theorem ctxCancelled_WF (sid : Sid) (s : CStream α) (e : CtxErr) (h : WF s) :
    WF (s.ctxCancelled sid e).1 := by
  cases hc : s.ctxDone with
  | some c => rw [ctxCancelled_done sid s e (by simp [hc])]; exact h
  | none =>
    have hd := h.done_ctx hc
    rw [ctxCancelled_eq sid s e hc, ctxEnds_eq sid s e _ hc]
    obtain ⟨w, q, r', c, ps, hs, -, h2, -⟩ := cancelStream_shape sid
      ({ s with ctxDone := some e, psend := none, pheader := false } : CStream α) (.ctx e) hd
    have hps := (h2 rfl).1
    subst hps
    dsimp only
    rw [hs]
    simp [WF]

/-- continuing a read (and cancelling the stream if it fails) re-establishes
    `WF` from `WFpre`: on a finished stream the receiver is closed, so the read
    completes at once -/
theorem afterRead_WF (sid : Sid) (fuel : Nat) (s : CStream α) (h : WFpre s) :
    WF (CStream.afterRead sid (s.resumeRead sid (fuel + 2))).1 := by
  have hr : WF (s.resumeRead sid (fuel + 2)).1 := by
    have hcl : s.done.isSome = true → (s.resumeRead sid (fuel + 2)).1.pread = none := fun hd =>
      resumeRead_closed sid fuel s (by simp [(h.2 hd).1])
    obtain ⟨w, q, p', r', hs⟩ := resumeRead_shape sid (fuel + 2) s
    rw [hs] at hcl ⊢
    refine ⟨h.1, fun hd => ?_⟩
    have := h.2 hd
    have hp : p' = none := hcl hd
    subst hp
    exact ⟨this.1, rfl, this.2⟩
  rw [afterRead_eq]
  split
  · exact hr
  · exact cancelStream_WF sid _ _ hr

theorem pumpSend_WF (cfg : CCfg) (sid : Sid) (s : CStream α) (snd : Snd α) (h : WFpre s)
    (hp : s.done.isSome = true → s.pread.isNone = true) : WF (s.pumpSend cfg sid snd).1 := by
  obtain ⟨w, ps, hs, hps⟩ := pumpSend_shape cfg sid s snd
  rw [hs]
  refine ⟨h.1, fun hd => ?_⟩
  have := h.2 hd
  have hps' : ps = none := hps (by rw [h.1]; exact hd)
  subst hps'
  exact ⟨this.1, hp hd, rfl, this.2.2⟩

theorem accept_ok (r r' : RcvQ α) (f : DFrame α) (h : r.accept f = (r', .ok)) : r.closed = false := by
  unfold RcvQ.accept at h
  split at h
  · simp at h
  · rename_i hc
    simpa using hc

theorem WF.open_of_not_closed {s : CStream α} (h : WF s) (hc : s.rcv.closed = false) : s.done = none := by
  cases hd : s.done with
  | none => rfl
  | some d =>
    have := (h.2 (by simp [hd])).1
    rw [hc] at this
    simp at this

theorem WF.open_of_no_headers {s : CStream α} (h : WF s) (hc : s.gotHeaders = false) : s.done = none := by
  cases hd : s.done with
  | none => rfl
  | some d =>
    have := (h.2 (by simp [hd])).2.2.2.2.1
    rw [hc] at this
    simp at this

theorem dataFrame_WF (sid : Sid) (s : CStream α) (df : DFrame α) (h : WF s) : WF (dataFrame sid s df).1 := by
  unfold dataFrame
  split
  · split
    · exact h
    · exact finish_WF sid s _ _ h
    · rename_i r hacc
      have hd := h.open_of_not_closed (accept_ok _ _ _ hacc)
      exact afterRead_WF sid 1 _ (WF.of_open (s := { s with rcv := r }) hd (h.open_ctx hd)).pre
  · split
    · exact h
    · split
      · exact h
      · rename_i hcl _
        have hd := h.open_of_not_closed (by simpa using hcl)
        exact afterRead_WF sid 1 _
          (WF.of_open (s := { s with rcv := { s.rcv with queue := [df] } }) hd (h.open_ctx hd)).pre

theorem onFrame_WF (cfg : CCfg) (sid : Sid) (s : CStream α) (f : S2C α) (h : WF s) :
    WF (s.onFrame cfg sid f).1 := by
  cases f with
  | settings w rv => rw [onFrame_settings]; exact finish_WF sid s _ _ h
  | headers md =>
    simp only [CStream.onFrame]
    split
    · exact h
    · rename_i hg
      have hd := h.open_of_no_headers (by simpa using hg)
      split
      · exact WF.of_open (s := { s with gotHeaders := true, headers := md, pheader := false }) hd (h.open_ctx hd)
      · exact WF.of_open (s := { s with gotHeaders := true, headers := md }) hd (h.open_ctx hd)
  | msg size d => rw [onFrame_msg]; exact dataFrame_WF sid s _ h
  | more d => rw [onFrame_more]; exact dataFrame_WF sid s _ h
  | close st tr => rw [onFrame_close]; exact finish_WF sid s _ _ h
  | windowUpdate n =>
    simp only [CStream.onFrame]
    split
    · exact h
    · split
      · exact h
      · exact pumpSend_WF cfg sid _ _ h.pre (fun hd => (h.2 hd).2.1)
  | unset => rw [onFrame_unset]; exact finish_WF sid s _ _ h

theorem onCall_WF (cfg : CCfg) (sid : Sid) (s : CStream α) (c : CCall α) (h : WF s) :
    WF (s.onCall cfg sid c).1 := by
  cases c with
  | send m =>
    simp only [CStream.onCall]
    split
    · exact h
    · exact pumpSend_WF cfg sid _ _ h.pre (fun hd => (h.2 hd).2.1)
  | closeSend =>
    simp only [CStream.onCall]
    split
    · exact h
    · split <;> exact h
  | recv =>
    simp only [CStream.onCall]
    split
    · exact h
    · exact afterRead_WF sid 1 _ h.pre
  | header =>
    simp only [CStream.onCall]
    split
    · exact h
    · split
      · exact h
      · rename_i hc
        exact WF.of_open (s := { s with pheader := true }) (h.done_ctx hc) hc
  | trailer => exact h
  | cancel => exact ctxCancelled_WF sid s _ h

theorem stepOp_WF (cfg : CCfg) (sid : Sid) (s : CStream α) (op : COp α) (h : WF s) :
    WF (stepOp cfg sid s op).1 := by
  cases op with
  | frame f => exact onFrame_WF cfg sid s f h
  | call c => exact onCall_WF cfg sid s c h
  | ctx e => exact ctxCancelled_WF sid s e h

/-- `WF` is an invariant of every run of stream-level operations -/
theorem runOps_WF (cfg : CCfg) (sid : Sid) (ops : List (COp α)) : ∀ (s0 : CStream α),
    WF s0 → WF (runOps cfg sid s0 ops).1 := by
  induction ops with
  | nil => intro s h; exact h
  | cons op ops ih =>
    intro s h
    simp only [runOps]
    exact ih _ (stepOp_WF cfg sid s op h)

/-! ### `WF` at the endpoint: every stream object of a reachable client state is well-formed -/

def AllWF (c : Cli α) : Prop := ∀ x ∈ c.streams, WF x.2

theorem setAny_AllWF (c : Cli α) (sid : Sid) (st : CStream α) (h : AllWF c) (hst : WF st) :
    AllWF (c.setAny sid st) := by
  intro x hx
  simp only [Cli.setAny, List.mem_map] at hx
  obtain ⟨y, hy, rfl⟩ := hx
  split
  · exact hst
  · exact h y hy

theorem getAny_WF (c : Cli α) (sid : Sid) (st : CStream α) (h : AllWF c) (hg : c.getAny sid = some st) : WF st := by
  simp only [Cli.getAny, Option.map_eq_some_iff] at hg
  obtain ⟨x, hx, rfl⟩ := hg
  exact h x (List.mem_of_find?_eq_some hx)

theorem getStream_WF (c : Cli α) (sid : Sid) (st : CStream α) (h : AllWF c) (hg : c.getStream sid = some st) :
    WF st := by
  simp only [Cli.getStream, Option.map_eq_some_iff] at hg
  obtain ⟨x, hx, rfl⟩ := hg
  exact h x (List.mem_of_find?_eq_some hx)

theorem close_go_WF (l : List (Sid × CStream α)) (h : ∀ x ∈ l, WF x.2) :
    ∀ x ∈ (Cli.close.go l).1, WF x.2 := by
  induction l with
  | nil => intro x hx; simp [Cli.close.go] at hx
  | cons a l ih =>
    obtain ⟨sid, st⟩ := a
    intro x hx
    simp only [Cli.close.go, List.mem_cons] at hx
    rcases hx with rfl | hx
    · dsimp only
      split
      · exact ctxCancelled_WF sid st _ (h (sid, st) (by simp))
      · exact h (sid, st) (by simp)
    · exact ih (fun y hy => h y (by simp [hy])) x hx

theorem close_AllWF (c : Cli α) (err : Option String) (b : Bool) (h : AllWF c) : AllWF (c.close err b).1 := by
  unfold Cli.close
  split
  · exact h
  · exact close_go_WF c.streams h

theorem tick_go_WF (now : Nat) (l : List (Sid × CStream α)) (h : ∀ x ∈ l, WF x.2) :
    ∀ x ∈ (Cli.tick.go now l).1, WF x.2 := by
  induction l with
  | nil => intro x hx; simp [Cli.tick.go] at hx
  | cons a l ih =>
    obtain ⟨sid, st⟩ := a
    intro x hx
    simp only [Cli.tick.go, List.mem_cons] at hx
    rcases hx with rfl | hx
    · dsimp only
      split
      · split
        · exact ctxCancelled_WF sid st _ (h (sid, st) (by simp))
        · exact h (sid, st) (by simp)
      · exact h (sid, st) (by simp)
    · exact ih (fun y hy => h y (by simp [hy])) x hx

theorem tick_AllWF (c : Cli α) (d : Nat) (h : AllWF c) : AllWF (c.tick d).1 :=
  tick_go_WF (c.now + d) c.streams h

theorem append_AllWF (c : Cli α) (sid : Sid) (st : CStream α) (h : AllWF c) (hst : WF st) :
    AllWF ({ c with lastStreamID := sid, streamCreated := true, streams := c.streams ++ [(sid, st)] } : Cli α) := by
  intro x hx
  simp only [List.mem_append, List.mem_singleton] at hx
  rcases hx with hx | rfl
  · exact h x hx
  · exact hst

/-- the stream object created by `Cli.newStream` (cancelled at once if the
    caller's context is already done) is well-formed, and so stay all others -/
theorem newStream_AllWF (cfg : CCfg) (c : Cli α) (cs ss : Bool) (method : List Nat) (md : MD)
    (timeout : Option Nat) (cancelled : Bool) (h : AllWF c) :
    AllWF (c.newStream cfg cs ss method md timeout cancelled).1 := by
  unfold Cli.newStream
  split
  · exact h
  · split
    · exact h
    · rename_i sid _
      dsimp only
      split
      · exact setAny_AllWF _ _ _ (append_AllWF c sid _ h (WF_fresh _ _ _ _ _ _))
          (ctxCancelled_WF _ _ _ (WF_fresh _ _ _ _ _ _))
      · exact append_AllWF c sid _ h (WF_fresh _ _ _ _ _ _)

theorem step_AllWF (cfg : CCfg) (c : Cli α) (x : CStim α) (h : AllWF c) : AllWF (c.step cfg x).1 := by
  cases x with
  | frame sid f =>
    simp only [Cli.step, Cli.onFrame]
    split
    · exact h
    · split
      · unfold Cli.onSettingsPhase
        split
        · exact close_AllWF c _ _ h
        · split
          · split
            · exact close_AllWF c _ _ h
            · exact h
          · exact close_AllWF c _ _ h
      · split
        · rename_i st hst
          exact setAny_AllWF c sid _ h (onFrame_WF cfg sid st f (getStream_WF c sid st h hst))
        · split
          · exact h
          · exact close_AllWF c _ _ h
  | new cs ss m md t cn => exact newStream_AllWF cfg c cs ss m md t cn h
  | call sid call =>
    simp only [Cli.step, Cli.onCall]
    split
    · exact h
    · rename_i st hst
      have hw := onCall_WF cfg sid st call (getAny_WF c sid st h hst)
      split
      · split
        · refine setAny_AllWF c sid _ h ?_
          exact ⟨hw.1, fun hd => by have := hw.2 hd; exact ⟨this.1, this.2.1, rfl, this.2.2.2⟩⟩
        · exact setAny_AllWF c sid _ h hw
      · exact setAny_AllWF c sid _ h hw
  | tick d => exact tick_AllWF c d h
  | carrierEnds err =>
    simp only [Cli.step, Cli.carrierEnds]
    split <;> exact close_AllWF c _ _ h
  | close => exact close_AllWF c _ _ h

/-- **`WF` holds for every stream object in every reachable state of the client endpoint** -/
theorem run_AllWF (cfg : CCfg) (xs : List (CStim α)) : ∀ (c : Cli α), AllWF c → AllWF (Cli.run cfg c xs).1 := by
  induction xs with
  | nil => intro c h; exact h
  | cons x xs ih =>
    intro c h
    simp only [Cli.run]
    exact ih _ (step_AllWF cfg c x h)

theorem start_AllWF (cfg : CCfg) : AllWF (Cli.start cfg : Cli α) := by
  intro x hx
  simp [Cli.start] at hx

/-! ### C07/C02: the end of the context releases every blocked call -/

theorem mapFinishErr_ctx (e : CtxErr) :
    mapFinishErr (some (.ctx e)) =
      .status (match e with
        | .canceled => mkStatus codeCanceled "context canceled"
        | .deadline => mkStatus codeDeadlineExceeded "context deadline exceeded") := by
  cases e <;> rfl

theorem mapFinishErr_statusErr (st : Status) :
    mapFinishErr (statusErr st) = if st.code = 0 then .eof else .status st := by
  unfold statusErr
  split <;> rfl

/-- **after the stream's context ends nothing stays blocked**, and the RPC has
    its terminal result.  The hypothesis `hp` ("a finished RPC has no pending
    read") is part of `WF` (`WF.pread_none`); without it the statement is false,
    see the counterexample at the end of the file. -/
theorem cancel_releases_all (sid : Sid) (s : CStream α) (e : CtxErr) (hc : s.ctxDone = none)
    (hp : s.done.isSome = true → s.pread = none) :
    (s.ctxCancelled sid e).1.pread = none ∧ (s.ctxCancelled sid e).1.psend = none ∧
    (s.ctxCancelled sid e).1.pheader = false ∧ (s.ctxCancelled sid e).1.done.isSome = true ∧
    (s.ctxCancelled sid e).1.ctxDone = some e := by
  cases hd : s.done with
  | some d =>
    rw [ctxCancelled_eq sid s e hc, ctxEnds_eq sid s e _ hc]
    dsimp only
    rw [cancelStream_done sid _ _ (by simp [hd])]
    exact ⟨hp (by simp [hd]), rfl, rfl, by simp [hd], rfl⟩
  | none =>
    rw [ctxCancelled_eq sid s e hc, ctxEnds_eq sid s e _ hc]
    dsimp only
    obtain ⟨w, q, r', c, ps, hs, -, h2, -⟩ := cancelStream_shape sid
      ({ s with ctxDone := some e, psend := none, pheader := false } : CStream α) (.ctx e) hd
    have hps := (h2 rfl).1
    have hcc := (h2 rfl).2
    subst hps
    rw [hs]
    exact ⟨rfl, rfl, rfl, rfl, hcc⟩

/-- the same for a well-formed stream (every stream of a reachable client state, `run_AllWF`) -/
theorem cancel_releases_all_WF (sid : Sid) (s : CStream α) (e : CtxErr) (hwf : WF s) (hc : s.ctxDone = none) :
    (s.ctxCancelled sid e).1.pread = none ∧ (s.ctxCancelled sid e).1.psend = none ∧
    (s.ctxCancelled sid e).1.pheader = false ∧ (s.ctxCancelled sid e).1.done.isSome = true ∧
    (s.ctxCancelled sid e).1.ctxDone = some e :=
  cancel_releases_all sid s e hc hwf.pread_none

/-- on a well-formed stream the conclusion holds whether or not the context had ended before -/
theorem cancel_settled_WF (sid : Sid) (s : CStream α) (e : CtxErr) (hwf : WF s) :
    (s.ctxCancelled sid e).1.pread = none ∧ (s.ctxCancelled sid e).1.psend = none ∧
    (s.ctxCancelled sid e).1.pheader = false ∧ (s.ctxCancelled sid e).1.done.isSome = true ∧
    (s.ctxCancelled sid e).1.ctxDone.isSome = true := by
  cases hc : s.ctxDone with
  | none =>
    have := cancel_releases_all_WF sid s e hwf hc
    exact ⟨this.1, this.2.1, this.2.2.1, this.2.2.2.1, by rw [this.2.2.2.2]; rfl⟩
  | some c =>
    have hcs : s.ctxDone.isSome = true := by simp [hc]
    rw [ctxCancelled_done sid s e hcs]
    have hd : s.done.isSome = true := by rw [← hwf.1]; exact hcs
    have h := hwf.2 hd
    refine ⟨hwf.pread_none hd, ?_, h.2.2.2.1, hd, hcs⟩
    have := h.2.2.1
    cases hps : s.psend with
    | none => rfl
    | some x => rw [hps] at this; simp at this

/-- if the RPC had no terminal result when its context ended, the result is the
    context's status (`Canceled` resp. `DeadlineExceeded`, `mapFinishErr_ctx`)
    and exactly one frame, the cancel frame, is emitted -/
theorem cancel_sets_result (sid : Sid) (s : CStream α) (e : CtxErr) (hc : s.ctxDone = none)
    (hd : s.done = none) :
    (s.ctxCancelled sid e).1.done = some (mapFinishErr (some (.ctx e))) ∧
    (s.ctxCancelled sid e).2.frames = [(sid, .cancel)] ∧
    (s.ctxCancelled sid e).1.doneSignal = true ∧ (s.ctxCancelled sid e).1.inTable = false ∧
    (s.ctxCancelled sid e).1.rcv.closed = true := by
  rw [ctxCancelled_eq sid s e hc, ctxEnds_eq sid s e _ hc]
  dsimp only
  obtain ⟨w, q, r', c, ps, hs, -⟩ := cancelStream_shape sid
    ({ s with ctxDone := some e, psend := none, pheader := false } : CStream α) (.ctx e) hd
  have hf := cancelStream_frames sid
    ({ s with ctxDone := some e, psend := none, pheader := false } : CStream α) (.ctx e) hd
  refine ⟨by rw [hs], ?_, by rw [hs], by rw [hs], by rw [hs]⟩
  simp only [COut.add, hf, List.nil_append]

/-- if the RPC already had its terminal result, the end of the context keeps it
    and emits no frame at all (in particular no cancel frame) -/
theorem cancel_keeps_result (sid : Sid) (s : CStream α) (e : CtxErr) (d : SErr) (hd : s.done = some d) :
    (s.ctxCancelled sid e).1.done = some d ∧ (s.ctxCancelled sid e).2.frames = [] := by
  refine ⟨ctxCancelled_keeps_done sid s e d hd, ?_⟩
  cases hc : s.ctxDone with
  | some c => rw [ctxCancelled_done sid s e (by simp [hc])]
  | none =>
    rw [ctxCancelled_eq sid s e hc, ctxEnds_eq sid s e _ hc]
    dsimp only
    rw [cancelStream_done sid _ _ (by simp [hd])]
    rfl

/-! ### C07/C02: the close frame -/

theorem ctxEnds_rcv (sid : Sid) (s : CStream α) (e : CtxErr) (b : Bool) : (s.ctxEnds sid e b).1.rcv = s.rcv := by
  cases h : s.ctxDone with
  | some c => rw [ctxEnds_done sid s e b (by simp [h])]
  | none => rw [ctxEnds_eq sid s e b h]

/-- **the close frame decides the outcome** of an RPC that has none yet: the
    terminal result is the server's status (EOF for OK, `mapFinishErr_statusErr`),
    the trailers are the frame's, the done signal is raised, the stream leaves
    the table; the receive queue is *not* flushed (what the woken read did not
    consume stays readable), the receiver is closed but not cancelled, and no
    frame — in particular no cancel frame — is emitted. -/
theorem close_frame_outcome (cfg : CCfg) (sid : Sid) (s : CStream α) (st : Status) (tr : MD)
    (hd : s.done = none) :
    let r := s.onFrame cfg sid (.close st tr)
    r.1.done = some (mapFinishErr (statusErr st)) ∧ r.1.trailers = tr ∧ r.1.doneSignal = true ∧
    r.1.inTable = false ∧ r.1.rcv.closed = true ∧ r.1.rcv.cancelled = s.rcv.cancelled ∧
    r.1.rcv.queue = ((finPre s (statusErr st) tr).resumeRead sid 3).1.rcv.queue ∧
    (∃ pre, s.rcv.queue = pre ++ r.1.rcv.queue) ∧
    (s.pread = none → r.1.rcv.queue = s.rcv.queue) ∧
    r.2.frames = [] := by
  intro r
  have hr : r = ((s.finish sid (statusErr st) tr).1, (s.finish sid (statusErr st) tr).2.1) := rfl
  have hq : r.1.rcv.queue = ((finPre s (statusErr st) tr).resumeRead sid 3).1.rcv.queue := by
    rw [hr, finish_eq sid s _ _ hd]
    dsimp only
    rw [ctxEnds_rcv]
  obtain ⟨w, q, r', c, ps, hs, -, -, h3, h4⟩ := finish_shape sid s (statusErr st) tr hd
  have hf := finish_frames sid s (statusErr st) tr
  rw [hr] at hq ⊢
  dsimp only at hq ⊢
  refine ⟨by rw [hs], by rw [hs], by rw [hs], by rw [hs], by rw [hs], by rw [hs], hq, ?_, ?_, hf⟩
  · rw [hs]; exact h3
  · intro hn; rw [hs]; exact (h4 hn).1

/-! ### C07/C02: a finished stream is quiet -/

/-- **once the RPC has its terminal result and the context is done**, the frames
    `close`, `settings`, `unset` and further context ends are no-ops (same
    state, empty output), and so is `headers` when the headers are published
    (always the case on a well-formed stream); in any case `headers` emits
    nothing and completes no call when no `Header()` is blocked. -/
theorem finished_stream_quiet (cfg : CCfg) (sid : Sid) (s : CStream α)
    (hd : s.done.isSome = true) (hc : s.ctxDone.isSome = true) :
    (∀ st tr, s.onFrame cfg sid (.close st tr) = (s, {})) ∧
    (∀ w rv, s.onFrame cfg sid (.settings w rv) = (s, {})) ∧
    (s.onFrame cfg sid .unset = (s, {})) ∧
    (∀ e, s.ctxCancelled sid e = (s, {})) ∧
    (∀ md, s.gotHeaders = true → s.onFrame cfg sid (.headers md) = (s, {})) ∧
    (∀ md, s.pheader = false → (s.onFrame cfg sid (.headers md)).2 = {}) := by
  refine ⟨fun st tr => ?_, fun w rv => ?_, ?_, fun e => ctxCancelled_done sid s e hc, fun md hg => ?_,
    fun md hp => ?_⟩
  · rw [onFrame_close, finish_done sid s _ _ hd]
  · rw [onFrame_settings, finish_done sid s _ _ hd]
  · rw [onFrame_unset, finish_done sid s _ _ hd]
  · simp only [CStream.onFrame, hg, if_true]
  · simp only [CStream.onFrame, hp]
    split <;> simp

/-- on a well-formed finished stream *every* frame and every context end is
    quiet: nothing is emitted, no call completes, and the state does not change
    (except that a window update still adds to the send window) -/
theorem finished_stream_quiet_WF (cfg : CCfg) (sid : Sid) (s : CStream α) (hwf : WF s)
    (hd : s.done.isSome = true) :
    (∀ f, (s.onFrame cfg sid f).2 = {}) ∧
    (∀ f, (∀ n, f ≠ S2C.windowUpdate n) → s.onFrame cfg sid f = (s, {})) ∧
    (∀ e, s.ctxCancelled sid e = (s, {})) := by
  have hc : s.ctxDone.isSome = true := by rw [hwf.1]; exact hd
  have h := hwf.2 hd
  have hq := finished_stream_quiet cfg sid s hd hc
  have hdata : ∀ df, dataFrame sid s df = (s, {}) := by
    intro df
    unfold dataFrame
    simp [RcvQ.accept, h.1]
  have hps : s.psend = none := by
    have := h.2.2.1
    cases hps : s.psend with
    | none => rfl
    | some x => rw [hps] at this; simp at this
  have hall : ∀ f, (∀ n, f ≠ S2C.windowUpdate n) → s.onFrame cfg sid f = (s, {}) := by
    intro f hf
    cases f with
    | settings w rv => exact hq.2.1 w rv
    | headers md => exact hq.2.2.2.2.1 md h.2.2.2.2.1
    | msg size d => rw [onFrame_msg]; exact hdata _
    | more d => rw [onFrame_more]; exact hdata _
    | close st tr => exact hq.1 st tr
    | windowUpdate n => exact absurd rfl (hf n)
    | unset => exact hq.2.2.1
  refine ⟨fun f => ?_, hall, hq.2.2.2.1⟩
  cases f with
  | windowUpdate n =>
    simp only [CStream.onFrame, hps]
    split <;> rfl
  | settings w rv => rw [hall _ (by intro n; simp)]
  | headers md => rw [hall _ (by intro n; simp)]
  | msg size d => rw [hall _ (by intro n; simp)]
  | more d => rw [hall _ (by intro n; simp)]
  | close st tr => rw [hall _ (by intro n; simp)]
  | unset => rw [hall _ (by intro n; simp)]

/-! ### non-vacuity and counterexamples -/

-- the bound is attained: a response then the close frame (OK) delivers exactly one
-- message, and late responses / further reads / a cancel deliver nothing
example :
    let s : CStream Nat := { cs := false, ss := false, fc := true, rcv := RcvQ.init 10, win := 10 }
    (runOps {} 1 s [.call .recv, .frame (.msg 1 [7]), .frame (.close (mkStatus 0 "") [])]).2 = 1 ∧
    (runOps {} 1 s [.call .recv, .frame (.msg 1 [7]), .frame (.close (mkStatus 0 "") []), .call .recv,
                    .frame (.msg 1 [8]), .call .recv, .ctx .canceled]).2 = 1 := by
  decide

-- two responses: nothing is delivered, the RPC fails with Internal
example :
    let s : CStream Nat := { cs := false, ss := false, fc := true, rcv := RcvQ.init 10, win := 10 }
    let r := runOps {} 1 s [.call .recv, .frame (.msg 1 [7]), .frame (.msg 1 [8]), .call .recv]
    r.2 = 0 ∧ r.1.done = some (.status (mkStatus codeInternal
      "Server sent multiple responses for non-server-stream method")) := by
  decide

-- `cancel_releases_all` is false without `done.isSome → pread = none`:
-- a (non-`WF`) stream whose RPC is done but whose read is still pending keeps it pending
example :
    let s : CStream Nat := { cs := false, ss := false, fc := true, rcv := RcvQ.init 10, win := 10,
                             done := some .eof, pread := some { lookahead := none, rst := none } }
    s.ctxDone = none ∧ ¬ WF s ∧ (s.ctxCancelled 1 .canceled).1.pread.isSome = true := by
  decide

-- `headers` on a finished (non-`WF`) stream without published headers still records them
example :
    let s : CStream Nat := { cs := false, ss := false, fc := true, rcv := RcvQ.init 10, win := 10,
                             done := some .eof, ctxDone := some .canceled }
    ¬ WF s ∧ (s.onFrame {} 1 (.headers [("a", ["b"])])).1.headers = [("a", ["b"])] := by
  decide

-- `WF` is decidable and holds along a typical run
example :
    let s : CStream Nat := { cs := false, ss := false, fc := true, rcv := RcvQ.init 10, win := 10 }
    WF s ∧ WF (runOps {} 1 s [.call .recv, .frame (.msg 1 [7]), .ctx .deadline]).1 := by
  decide

end Proofs.ClientShape

#print axioms Proofs.ClientShape.C16_client_at_most_one
#print axioms Proofs.ClientShape.C16_client_delivered_then_done
#print axioms Proofs.ClientShape.C16_client_reads_fail_after_delivery
#print axioms Proofs.ClientShape.runOps_done
#print axioms Proofs.ClientShape.recv_when_done
#print axioms Proofs.ClientShape.C16_second_response_fails
#print axioms Proofs.ClientShape.done_written_once
#print axioms Proofs.ClientShape.done_written_once_run
#print axioms Proofs.ClientShape.cancel_releases_all
#print axioms Proofs.ClientShape.cancel_releases_all_WF
#print axioms Proofs.ClientShape.cancel_settled_WF
#print axioms Proofs.ClientShape.cancel_sets_result
#print axioms Proofs.ClientShape.cancel_keeps_result
#print axioms Proofs.ClientShape.close_frame_outcome
#print axioms Proofs.ClientShape.finished_stream_quiet
#print axioms Proofs.ClientShape.finished_stream_quiet_WF
#print axioms Proofs.ClientShape.runOps_WF
#print axioms Proofs.ClientShape.newStream_AllWF
#print axioms Proofs.ClientShape.run_AllWF
