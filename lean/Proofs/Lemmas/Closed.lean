import TunnelModel.Closed
/-!
  Closed multi-stream model with bounded carriers (`TunnelModel.Closed`): any number of
  half-streams, both directions, two FIFO carriers of capacity `K`, any set of stalled reading
  applications, any message sizes, EVERY schedule (`List Act` of any length).

  Main statements (numbers as in the task description):

  1. `inv_reachable`               — `Inv` (per-carrier form; `CoreInv` is the inductive form it follows from)
  2. `receiver_bounded`            — `queue.sum ≤ W`
  3. `loop_never_blocked`          — in every state a receive loop can pop a non-empty carrier
  4. `stuck_iff`, `no_deadlock`, `no_deadlock_undelivered`
  5. `measure_decreases`, `terminates`
  6. `completes`                   — the main theorem
  7. `outcome_closed_form`, `outcome_schedule_independent`, `willing_state_schedule_independent`
  8. `runToEnd_maximal`, `runToEnd_is_the_answer`, `stuck_iff_enabledActs`
  9. `Example.*` (K = 1, W = 4, cm = 2) and `FaultyExample.*` (the deadlock of the model whose
     receive loops send)

  Nothing requested turned out to be false.  Differences from the wording of the task, all of them
  STRENGTHENINGS or bookkeeping:

  * Hypotheses actually needed: the invariant (1, 2) and `completes` need NO assumption on `cm`
    (and 1, 2 none on `K`, `W`); `K ≥ 1` and `W ≥ 1` are needed for 4, 6, 7; `cm ≥ 1` only for
    termination (5, 8).  Unused hypotheses are left out of the statements.
  * 6/7 for stalled half-streams: `sent = min msgs.sum W` holds for EVERY stalled half-stream, also
    with zero-length messages, so `(sent, delivered, queue.sum, remaining)` of every half-stream —
    willing or stalled — is schedule-independent and equals the closed form `expected W cfg`.
    What an empty message changes is only `todo`: a stalled half-stream can end with
    `remaining = 0` and one unsent EMPTY message behind an exhausted window (`Example`, last
    `example`); `completes` therefore states both `0 < remaining → queue.sum = W` and
    `todo ≠ [] → queue.sum = W ∧ win = 0`.
  * "no action enabled" is `Stuck K cm s := ∀ a, step K cm s a = none` (all of `Act`, any index);
    `stuck_iff_enabledActs` makes it decidable for the `decide`-checked examples.
-/
namespace Proofs.Closed
open TunnelModel.Closed

abbrev Cfg := List (Dir × Bool × List Nat)

/-! ### bytes in flight -/

def dataOf (i : Nat) : Frame → Nat
  | .data j k => if j = i then k else 0
  | .credit _ _ => 0

def credOf (i : Nat) : Frame → Nat
  | .credit j k => if j = i then k else 0
  | .data _ _ => 0

/-- data bytes of half-stream `i` in flight on the wire `w` -/
def dataFl (i : Nat) (w : List Frame) : Nat := (w.map (dataOf i)).sum
/-- credit of half-stream `i` in flight on the wire `w` -/
def credFl (i : Nat) (w : List Frame) : Nat := (w.map (credOf i)).sum

@[simp] theorem dataFl_nil (i) : dataFl i [] = 0 := rfl
@[simp] theorem credFl_nil (i) : credFl i [] = 0 := rfl
@[simp] theorem dataFl_cons (i f w) : dataFl i (f :: w) = dataOf i f + dataFl i w := by
  simp [dataFl]
@[simp] theorem credFl_cons (i f w) : credFl i (f :: w) = credOf i f + credFl i w := by
  simp [credFl]
@[simp] theorem dataFl_snoc (i f w) : dataFl i (w ++ [f]) = dataFl i w + dataOf i f := by
  simp [dataFl, List.sum_append]
@[simp] theorem credFl_snoc (i f w) : credFl i (w ++ [f]) = credFl i w + credOf i f := by
  simp [credFl, List.sum_append]

@[simp] theorem dataOf_data_self (i k) : dataOf i (.data i k) = k := by simp [dataOf]
@[simp] theorem dataOf_credit (i j k) : dataOf i (.credit j k) = 0 := rfl
@[simp] theorem credOf_credit_self (i k) : credOf i (.credit i k) = k := by simp [credOf]
@[simp] theorem credOf_data (i j k) : credOf i (.data j k) = 0 := rfl
theorem dataOf_data_ne {i j : Nat} (h : j ≠ i) (k) : dataOf i (.data j k) = 0 := by
  simp [dataOf, h]
theorem credOf_credit_ne {i j : Nat} (h : j ≠ i) (k) : credOf i (.credit j k) = 0 := by
  simp [credOf, h]

def fidx : Frame → Nat
  | .data i _ => i
  | .credit i _ => i

theorem dataOf_idx_ne {i : Nat} {f : Frame} (h : fidx f ≠ i) : dataOf i f = 0 := by
  cases f <;> simp_all [dataOf, fidx]
theorem credOf_idx_ne {i : Nat} {f : Frame} (h : fidx f ≠ i) : credOf i f = 0 := by
  cases f <;> simp_all [credOf, fidx]

/-! ### the invariant -/

/-- the direction a half-stream must have for its frame `f` to travel on `ab` (`onAB = true`) or `ba` -/
def frameDir (onAB : Bool) : Frame → Dir
  | .data _ _ => if onAB then .up else .down
  | .credit _ _ => if onAB then .down else .up

def dirOf (hs : List Half) (i : Nat) : Option Dir := (hs[i]?).map (·.dir)

/-- the frame names an existing half-stream and is on the right carrier for its direction -/
def FrameOK (hs : List Half) (onAB : Bool) (f : Frame) : Prop :=
  dirOf hs (fidx f) = some (frameDir onAB f)

/-- what holds of one half-stream, given its data bytes `D` and credit `C` in flight -/
structure HalfOK (W D C : Nat) (h : Half) (c : Dir × Bool × List Nat) : Prop where
  dir : h.dir = c.1
  willing : h.willing = c.2.1
  cons : h.win + D + h.queue.sum + h.pending + C = W
  ghost : h.sent = h.delivered + h.queue.sum + D
  total : h.sent + h.remaining = c.2.2.sum
  stalled : h.willing = false → h.pending = 0 ∧ h.delivered = 0

/-- data bytes of `i` in flight on both carriers (only one of them can carry any, see `dataFl_wrong`) -/
def dFl (i : Nat) (ab ba : List Frame) : Nat := dataFl i ab + dataFl i ba
def cFl (i : Nat) (ab ba : List Frame) : Nat := credFl i ab + credFl i ba

structure CoreInv (K W : Nat) (cfg : Cfg) (s : St) : Prop where
  abBound : s.ab.length ≤ K
  baBound : s.ba.length ≤ K
  len : s.halves.length = cfg.length
  half : ∀ i h c, s.halves[i]? = some h → cfg[i]? = some c →
    HalfOK W (dFl i s.ab s.ba) (cFl i s.ab s.ba) h c
  abFrames : ∀ f ∈ s.ab, FrameOK s.halves true f
  baFrames : ∀ f ∈ s.ba, FrameOK s.halves false f

theorem inv_init (K W : Nat) (cfg : Cfg) : CoreInv K W cfg (init W cfg) := by
  refine ⟨by simp [init], by simp [init], by simp [init], ?_, by simp [init], by simp [init]⟩
  intro i h c hi hc
  simp only [init, List.getElem?_map, hc, Option.map_some, Option.some.injEq] at hi
  subst hi
  constructor <;> simp [Half.init, dFl, cFl, init, Half.remaining]

theorem dirOf_set {hs : List Half} {i : Nat} {h h' : Half} (hi : hs[i]? = some h)
    (hd : h'.dir = h.dir) (j : Nat) : dirOf (hs.set i h') j = dirOf hs j := by
  unfold dirOf
  rw [List.getElem?_set]
  split
  · rename_i e; subst e
    have hlt : i < hs.length := by
      rcases List.getElem?_eq_some_iff.mp hi with ⟨hlt, _⟩; exact hlt
    rw [if_pos hlt, hi]; simp [hd]
  · rfl

theorem frameOK_set {hs : List Half} {i : Nat} {h h' : Half} (hi : hs[i]? = some h)
    (hd : h'.dir = h.dir) {b : Bool} {f : Frame} (hf : FrameOK hs b f) : FrameOK (hs.set i h') b f := by
  unfold FrameOK at *
  rw [dirOf_set hi hd]; exact hf

/-- the shape of every step: one half-stream is replaced, the wires change by frames of that half-stream -/
theorem inv_update {K W : Nat} {cfg : Cfg} {s : St} (hinv : CoreInv K W cfg s) {i : Nat} {h h' : Half}
    (hi : s.halves[i]? = some h) (ab' ba' : List Frame)
    (hab : ab'.length ≤ K) (hba : ba'.length ≤ K)
    (hdir : h'.dir = h.dir)
    (hother : ∀ j, j ≠ i → dFl j ab' ba' = dFl j s.ab s.ba ∧ cFl j ab' ba' = cFl j s.ab s.ba)
    (hself : ∀ c, HalfOK W (dFl i s.ab s.ba) (cFl i s.ab s.ba) h c →
      HalfOK W (dFl i ab' ba') (cFl i ab' ba') h' c)
    (hfab : ∀ f ∈ ab', FrameOK s.halves true f) (hfba : ∀ f ∈ ba', FrameOK s.halves false f) :
    CoreInv K W cfg { halves := s.halves.set i h', ab := ab', ba := ba' } := by
  have hlt : i < s.halves.length := by
    rcases List.getElem?_eq_some_iff.mp hi with ⟨hlt, _⟩; exact hlt
  refine ⟨hab, hba, by simp [hinv.len], ?_, fun f hf => frameOK_set hi hdir (hfab f hf),
    fun f hf => frameOK_set hi hdir (hfba f hf)⟩
  intro j hj c hjs hc
  dsimp only at hjs ⊢
  by_cases e : i = j
  · subst e
    rw [List.getElem?_set_self hlt] at hjs
    injection hjs with hjs
    subst hjs
    exact hself c (hinv.half i h c hi hc)
  · rw [List.getElem?_set_ne e] at hjs
    have hne : j ≠ i := fun e' => e e'.symm
    obtain ⟨h1, h2⟩ := hother j hne
    rw [h1, h2]
    exact hinv.half j hj c hjs hc


/-! ### pushing and popping one frame -/

theorem dFl_other_push_ab {i j : Nat} {f : Frame} (hf : fidx f = i) (hne : j ≠ i) (ab ba : List Frame) :
    dFl j (ab ++ [f]) ba = dFl j ab ba ∧ cFl j (ab ++ [f]) ba = cFl j ab ba := by
  have h1 : fidx f ≠ j := by omega
  simp [dFl, cFl, dataOf_idx_ne h1, credOf_idx_ne h1]

theorem dFl_other_push_ba {i j : Nat} {f : Frame} (hf : fidx f = i) (hne : j ≠ i) (ab ba : List Frame) :
    dFl j ab (ba ++ [f]) = dFl j ab ba ∧ cFl j ab (ba ++ [f]) = cFl j ab ba := by
  have h1 : fidx f ≠ j := by omega
  simp [dFl, cFl, dataOf_idx_ne h1, credOf_idx_ne h1]

theorem inv_push_ab {K W : Nat} {cfg : Cfg} {s : St} (hinv : CoreInv K W cfg s) {i : Nat} {h h' : Half}
    (hi : s.halves[i]? = some h) (f : Frame) (hf : fidx f = i) (hroom : s.ab.length < K)
    (hok : FrameOK s.halves true f) (hdir : h'.dir = h.dir)
    (hself : ∀ c D C, HalfOK W D C h c → HalfOK W (D + dataOf i f) (C + credOf i f) h' c) :
    CoreInv K W cfg { halves := s.halves.set i h', ab := s.ab ++ [f], ba := s.ba } := by
  apply inv_update hinv hi (s.ab ++ [f]) s.ba (by simp; omega) hinv.baBound hdir
  · intro j hne
    exact dFl_other_push_ab hf hne s.ab s.ba
  · intro c hc
    have := hself c _ _ hc
    simp only [dFl, cFl, dataFl_snoc, credFl_snoc] at *
    have e1 : dataFl i s.ab + dataOf i f + dataFl i s.ba = dataFl i s.ab + dataFl i s.ba + dataOf i f := by omega
    have e2 : credFl i s.ab + credOf i f + credFl i s.ba = credFl i s.ab + credFl i s.ba + credOf i f := by omega
    rw [e1, e2]; exact this
  · intro g hg
    rcases List.mem_append.mp hg with hg | hg
    · exact hinv.abFrames g hg
    · simp at hg; subst hg; exact hok
  · exact hinv.baFrames

theorem inv_push_ba {K W : Nat} {cfg : Cfg} {s : St} (hinv : CoreInv K W cfg s) {i : Nat} {h h' : Half}
    (hi : s.halves[i]? = some h) (f : Frame) (hf : fidx f = i) (hroom : s.ba.length < K)
    (hok : FrameOK s.halves false f) (hdir : h'.dir = h.dir)
    (hself : ∀ c D C, HalfOK W D C h c → HalfOK W (D + dataOf i f) (C + credOf i f) h' c) :
    CoreInv K W cfg { halves := s.halves.set i h', ab := s.ab, ba := s.ba ++ [f] } := by
  apply inv_update hinv hi s.ab (s.ba ++ [f]) hinv.abBound (by simp; omega) hdir
  · intro j hne
    exact dFl_other_push_ba hf hne s.ab s.ba
  · intro c hc
    have := hself c _ _ hc
    simp only [dFl, cFl, dataFl_snoc, credFl_snoc] at *
    have e1 : dataFl i s.ab + (dataFl i s.ba + dataOf i f) = dataFl i s.ab + dataFl i s.ba + dataOf i f := by omega
    have e2 : credFl i s.ab + (credFl i s.ba + credOf i f) = credFl i s.ab + credFl i s.ba + credOf i f := by omega
    rw [e1, e2]; exact this
  · exact hinv.abFrames
  · intro g hg
    rcases List.mem_append.mp hg with hg | hg
    · exact hinv.baFrames g hg
    · simp at hg; subst hg; exact hok

/-- what a receive loop does to the half-stream named by the frame -/
def acceptF (h : Half) : Frame → Half
  | .data _ k => { h with queue := h.queue ++ [k] }
  | .credit _ k => { h with win := h.win + k }

theorem deliver_eq {hs : List Half} {f : Frame} {h : Half} (hi : hs[fidx f]? = some h) :
    deliver hs f = hs.set (fidx f) (acceptF h f) := by
  cases f <;> simp only [fidx] at hi <;> simp [deliver, upd, hi, acceptF, fidx]

theorem halfOK_accept {W D C : Nat} {h : Half} {c : Dir × Bool × List Nat} (f : Frame)
    (hc : HalfOK W (dataOf (fidx f) f + D) (credOf (fidx f) f + C) h c) : HalfOK W D C (acceptF h f) c := by
  obtain ⟨h1, h2, h3, h4, h5, h6⟩ := hc
  cases f with
  | data i k =>
    simp only [fidx, dataOf_data_self, credOf_data] at h3 h4
    constructor <;> simp_all [acceptF, Half.remaining, List.sum_append] <;> omega
  | credit i k =>
    simp only [fidx, dataOf_credit, credOf_credit_self] at h3 h4
    constructor <;> simp_all [acceptF, Half.remaining] <;> omega

theorem frameOK_exists {hs : List Half} {b : Bool} {f : Frame} (h : FrameOK hs b f) :
    ∃ hf, hs[fidx f]? = some hf ∧ hf.dir = frameDir b f := by
  unfold FrameOK dirOf at h
  cases hh : hs[fidx f]? with
  | none => simp [hh] at h
  | some hf => exact ⟨hf, rfl, by simpa [hh] using h⟩

theorem inv_pop_ab {K W : Nat} {cfg : Cfg} {s : St} (hinv : CoreInv K W cfg s) {f : Frame} {rest : List Frame}
    (hab : s.ab = f :: rest) : CoreInv K W cfg { halves := deliver s.halves f, ab := rest, ba := s.ba } := by
  have hok := hinv.abFrames f (by simp [hab])
  obtain ⟨h, hi, _⟩ := frameOK_exists hok
  rw [deliver_eq hi]
  have hb := hinv.abBound
  apply inv_update hinv hi rest s.ba (by simp [hab] at hb; omega) hinv.baBound (by cases f <;> rfl)
  · intro j hne
    have h1 : fidx f ≠ j := fun e => hne e.symm
    simp [dFl, cFl, hab, dataOf_idx_ne h1, credOf_idx_ne h1]
  · intro c hc
    apply halfOK_accept
    simp only [dFl, cFl, hab, dataFl_cons, credFl_cons] at hc
    simp only [dFl, cFl]
    have e1 : dataOf (fidx f) f + (dataFl (fidx f) rest + dataFl (fidx f) s.ba) =
        dataOf (fidx f) f + dataFl (fidx f) rest + dataFl (fidx f) s.ba := by omega
    have e2 : credOf (fidx f) f + (credFl (fidx f) rest + credFl (fidx f) s.ba) =
        credOf (fidx f) f + credFl (fidx f) rest + credFl (fidx f) s.ba := by omega
    rw [e1, e2]; exact hc
  · intro g hg; exact hinv.abFrames g (by simp [hab, hg])
  · exact hinv.baFrames

theorem inv_pop_ba {K W : Nat} {cfg : Cfg} {s : St} (hinv : CoreInv K W cfg s) {f : Frame} {rest : List Frame}
    (hba : s.ba = f :: rest) : CoreInv K W cfg { halves := deliver s.halves f, ab := s.ab, ba := rest } := by
  have hok := hinv.baFrames f (by simp [hba])
  obtain ⟨h, hi, _⟩ := frameOK_exists hok
  rw [deliver_eq hi]
  have hb := hinv.baBound
  apply inv_update hinv hi s.ab rest hinv.abBound (by simp [hba] at hb; omega) (by cases f <;> rfl)
  · intro j hne
    have h1 : fidx f ≠ j := fun e => hne e.symm
    simp [dFl, cFl, hba, dataOf_idx_ne h1, credOf_idx_ne h1]
  · intro c hc
    apply halfOK_accept
    simp only [dFl, cFl, hba, dataFl_cons, credFl_cons] at hc
    simp only [dFl, cFl]
    have e1 : dataOf (fidx f) f + (dataFl (fidx f) s.ab + dataFl (fidx f) rest) =
        dataFl (fidx f) s.ab + (dataOf (fidx f) f + dataFl (fidx f) rest) := by omega
    have e2 : credOf (fidx f) f + (credFl (fidx f) s.ab + credFl (fidx f) rest) =
        credFl (fidx f) s.ab + (credOf (fidx f) f + credFl (fidx f) rest) := by omega
    rw [e1, e2]; exact hc
  · exact hinv.abFrames
  · intro g hg; exact hinv.baFrames g (by simp [hba, hg])

/-! ### the application-side steps -/

theorem chunk_spec {cm : Nat} {h h' : Half} {k : Nat} (hc : h.chunk cm = some (k, h')) :
    h'.dir = h.dir ∧ h'.willing = h.willing ∧ h'.queue = h.queue ∧ h'.pending = h.pending ∧
    h'.delivered = h.delivered ∧ k ≤ h.win ∧ h'.win = h.win - k ∧ h'.sent = h.sent + k ∧
    h'.remaining + k = h.remaining ∧ 0 < h.win ∧ h.todo ≠ [] := by
  unfold Half.chunk at hc
  split at hc
  · contradiction
  · rename_i rem rest htodo
    split at hc
    · contradiction
    · injection hc with hc
      injection hc with hk hh
      subst hh hk
      refine ⟨rfl, rfl, rfl, rfl, rfl, by omega, rfl, rfl, ?_, by omega, by simp [htodo]⟩
      simp only [Half.remaining, htodo, List.sum_cons]
      split
      · omega
      · simp only [List.sum_cons]; omega

theorem halfOK_chunk {cm W D C : Nat} {h h' : Half} {k : Nat} {c : Dir × Bool × List Nat}
    (hc : h.chunk cm = some (k, h')) (hok : HalfOK W D C h c) : HalfOK W (D + k) C h' c := by
  obtain ⟨e1, e2, e3, e4, e5, e6, e7, e8, e9, _, _⟩ := chunk_spec hc
  obtain ⟨h1, h2, h3, h4, h5, h6⟩ := hok
  constructor
  · rw [e1]; exact h1
  · rw [e2]; exact h2
  · rw [e3, e4, e7]; omega
  · rw [e3, e5, e8]; omega
  · rw [e8]; omega
  · rw [e2, e4, e5]; exact h6

theorem inv_send {K W cm : Nat} {cfg : Cfg} {s s' : St} {i : Nat} (hinv : CoreInv K W cfg s)
    (hs : step K cm s (.send i) = some s') : CoreInv K W cfg s' := by
  simp only [step] at hs
  split at hs
  · contradiction
  · rename_i h hi
    split at hs
    · contradiction
    · rename_i k h' hc
      have hd := (chunk_spec hc).1
      split at hs
      · rename_i hup
        split at hs
        · rename_i hroom
          injection hs with hs; subst hs
          apply inv_push_ab hinv hi (.data i k) rfl hroom (by simp [FrameOK, dirOf, fidx, frameDir, hi, hup]) hd
          intro c D C hok
          simpa using halfOK_chunk hc hok
        · contradiction
      · rename_i hdown
        split at hs
        · rename_i hroom
          injection hs with hs; subst hs
          apply inv_push_ba hinv hi (.data i k) rfl hroom (by simp [FrameOK, dirOf, fidx, frameDir, hi, hdown]) hd
          intro c D C hok
          simpa using halfOK_chunk hc hok
        · contradiction

theorem read_spec {h h' : Half} (hr : h.read = some h') :
    ∃ k q, h.queue = k :: q ∧ h.willing = true ∧ h.pending = 0 ∧
      h' = { h with queue := q, delivered := h.delivered + k, pending := k } := by
  unfold Half.read at hr
  split at hr
  · rename_i hw
    split at hr
    · contradiction
    · rename_i k q hq
      injection hr with hr
      exact ⟨k, q, hq, hw.1, hw.2, hr.symm⟩
  · contradiction

theorem inv_read {K W cm : Nat} {cfg : Cfg} {s s' : St} {i : Nat} (hinv : CoreInv K W cfg s)
    (hs : step K cm s (.read i) = some s') : CoreInv K W cfg s' := by
  simp only [step] at hs
  split at hs
  · contradiction
  · rename_i h hi
    split at hs
    · contradiction
    · rename_i h' hr
      injection hs with hs; subst hs
      obtain ⟨k, q, hq, hw, hp, rfl⟩ := read_spec hr
      refine inv_update hinv hi
        (h' := { h with queue := q, delivered := h.delivered + k, pending := k }) s.ab s.ba
        hinv.abBound hinv.baBound rfl (fun _ _ => ⟨rfl, rfl⟩) ?_ hinv.abFrames hinv.baFrames
      intro c hok
      obtain ⟨h1, h2, h3, h4, h5, h6⟩ := hok
      rw [hq, hp] at h3
      rw [hq] at h4
      simp only [List.sum_cons] at h3 h4
      constructor <;> simp_all [Half.remaining] <;> omega

theorem inv_credit {K W cm : Nat} {cfg : Cfg} {s s' : St} {i : Nat} (hinv : CoreInv K W cfg s)
    (hs : step K cm s (.credit i) = some s') : CoreInv K W cfg s' := by
  simp only [step] at hs
  split at hs
  · contradiction
  · rename_i h hi
    split at hs
    · contradiction
    · have key : ∀ c D C, HalfOK W D C h c →
          HalfOK W (D + dataOf i (.credit i h.pending)) (C + credOf i (.credit i h.pending))
            { h with pending := 0 } c := by
        intro c D C hok
        obtain ⟨h1, h2, h3, h4, h5, h6⟩ := hok
        constructor <;> simp_all [Half.remaining] <;> omega
      split at hs
      · rename_i hup
        split at hs
        · rename_i hroom
          injection hs with hs; subst hs
          exact inv_push_ba hinv hi (.credit i h.pending) rfl hroom
            (by simp [FrameOK, dirOf, fidx, frameDir, hi, hup]) rfl key
        · contradiction
      · rename_i hdown
        split at hs
        · rename_i hroom
          injection hs with hs; subst hs
          exact inv_push_ab hinv hi (.credit i h.pending) rfl hroom
            (by simp [FrameOK, dirOf, fidx, frameDir, hi, hdown]) rfl key
        · contradiction

theorem inv_step {K W cm : Nat} {cfg : Cfg} {s s' : St} (a : Act) (hinv : CoreInv K W cfg s)
    (hs : step K cm s a = some s') : CoreInv K W cfg s' := by
  cases a with
  | send i => exact inv_send hinv hs
  | read i => exact inv_read hinv hs
  | credit i => exact inv_credit hinv hs
  | loopA =>
    simp only [step] at hs
    split at hs
    · contradiction
    · rename_i f rest hba
      injection hs with hs; subst hs
      exact inv_pop_ba hinv hba
  | loopB =>
    simp only [step] at hs
    split at hs
    · contradiction
    · rename_i f rest hab
      injection hs with hs; subst hs
      exact inv_pop_ab hinv hab

theorem inv_run {K W cm : Nat} {cfg : Cfg} : ∀ (as : List Act) {s s' : St}, CoreInv K W cfg s →
    run K cm s as = some s' → CoreInv K W cfg s' := by
  intro as
  induction as with
  | nil => intro s s' h hr; simp only [run] at hr; injection hr with hr; subst hr; exact h
  | cons a as ih =>
    intro s s' h hr
    simp only [run] at hr
    cases hs : step K cm s a with
    | none => simp [hs] at hr
    | some s1 => rw [hs] at hr; exact ih (inv_step a h hs) hr

/-- `s` is reachable from the initial state by some schedule -/
def Reachable (K W cm : Nat) (cfg : Cfg) (s : St) : Prop :=
  ∃ as, run K cm (init W cfg) as = some s

/-- **1.** the invariant holds in every reachable state -/
theorem coreInv_reachable {K W cm : Nat} {cfg : Cfg} {s : St} (h : Reachable K W cm cfg s) : CoreInv K W cfg s := by
  obtain ⟨as, hr⟩ := h
  exact inv_run as (inv_init K W cfg) hr

/-! ### the invariant in per-carrier form (as a reader of the Go code would state it) -/

/-- the carrier of a half-stream's data frames -/
def dataWire (d : Dir) (s : St) : List Frame :=
  match d with
  | .up => s.ab
  | .down => s.ba

/-- the carrier of a half-stream's window updates -/
def credWire (d : Dir) (s : St) : List Frame :=
  match d with
  | .up => s.ba
  | .down => s.ab

theorem dataFl_wrong {hs : List Half} {w : List Frame} {b : Bool} {i : Nat} {h : Half}
    (hw : ∀ f ∈ w, FrameOK hs b f) (hi : hs[i]? = some h) (hd : h.dir ≠ frameDir b (.data i 0)) :
    dataFl i w = 0 := by
  induction w with
  | nil => rfl
  | cons f w ih =>
    rw [dataFl_cons, ih (fun g hg => hw g (by simp [hg]))]
    have hf := hw f (by simp)
    cases f with
    | credit j k => rfl
    | data j k =>
      by_cases e : j = i
      · subst e
        exfalso; apply hd
        simp only [FrameOK, dirOf, fidx, hi, Option.map_some, Option.some.injEq] at hf
        rw [hf]; rfl
      · simp [dataOf_data_ne e]

theorem credFl_wrong {hs : List Half} {w : List Frame} {b : Bool} {i : Nat} {h : Half}
    (hw : ∀ f ∈ w, FrameOK hs b f) (hi : hs[i]? = some h) (hd : h.dir ≠ frameDir b (.credit i 0)) :
    credFl i w = 0 := by
  induction w with
  | nil => rfl
  | cons f w ih =>
    rw [credFl_cons, ih (fun g hg => hw g (by simp [hg]))]
    have hf := hw f (by simp)
    cases f with
    | data j k => rfl
    | credit j k =>
      by_cases e : j = i
      · subst e
        exfalso; apply hd
        simp only [FrameOK, dirOf, fidx, hi, Option.map_some, Option.some.injEq] at hf
        rw [hf]; rfl
      · simp [credOf_credit_ne e]

theorem flights_eq {K W : Nat} {cfg : Cfg} {s : St} (hinv : CoreInv K W cfg s) {i : Nat} {h : Half}
    (hi : s.halves[i]? = some h) :
    dFl i s.ab s.ba = dataFl i (dataWire h.dir s) ∧ cFl i s.ab s.ba = credFl i (credWire h.dir s) := by
  cases hd : h.dir with
  | up =>
    have h1 : dataFl i s.ba = 0 := dataFl_wrong hinv.baFrames hi (by rw [hd]; simp [frameDir])
    have h2 : credFl i s.ab = 0 := credFl_wrong hinv.abFrames hi (by rw [hd]; simp [frameDir])
    simp [dFl, cFl, dataWire, credWire, h1, h2]
  | down =>
    have h1 : dataFl i s.ab = 0 := dataFl_wrong hinv.abFrames hi (by rw [hd]; simp [frameDir])
    have h2 : credFl i s.ba = 0 := credFl_wrong hinv.baFrames hi (by rw [hd]; simp [frameDir])
    simp [dFl, cFl, dataWire, credWire, h1, h2]

theorem cfg_of_half {K W : Nat} {cfg : Cfg} {s : St} (hinv : CoreInv K W cfg s) {i : Nat} {h : Half}
    (hi : s.halves[i]? = some h) : ∃ c, cfg[i]? = some c := by
  have hlt : i < s.halves.length := by
    rcases List.getElem?_eq_some_iff.mp hi with ⟨hlt, _⟩; exact hlt
  rw [hinv.len] at hlt
  exact ⟨cfg[i], List.getElem?_eq_some_iff.mpr ⟨hlt, rfl⟩⟩

theorem half_of_cfg {K W : Nat} {cfg : Cfg} {s : St} (hinv : CoreInv K W cfg s) {i : Nat}
    {c : Dir × Bool × List Nat} (hc : cfg[i]? = some c) : ∃ h, s.halves[i]? = some h := by
  have hlt : i < cfg.length := by
    rcases List.getElem?_eq_some_iff.mp hc with ⟨hlt, _⟩; exact hlt
  rw [← hinv.len] at hlt
  exact ⟨s.halves[i], List.getElem?_eq_some_iff.mpr ⟨hlt, rfl⟩⟩

/-- the invariant, stated per carrier -/
structure Inv (K W : Nat) (cfg : Cfg) (s : St) : Prop where
  /-- carriers bounded -/
  carriers : s.ab.length ≤ K ∧ s.ba.length ≤ K
  /-- the half-streams are those of the configuration -/
  static : s.halves.length = cfg.length ∧
    ∀ (i : Nat) (h : Half) (c : Dir × Bool × List Nat), s.halves[i]? = some h → cfg[i]? = some c → h.dir = c.1 ∧ h.willing = c.2.1
  /-- conservation of credit, per half-stream -/
  conservation : ∀ (i : Nat) (h : Half), s.halves[i]? = some h →
    h.win + dataFl i (dataWire h.dir s) + h.queue.sum + h.pending + credFl i (credWire h.dir s) = W
  /-- a frame on `ab` names an existing half-stream: `up` if it is data, `down` if it is credit -/
  framesAB : ∀ f ∈ s.ab, ∃ h, s.halves[fidx f]? = some h ∧ h.dir = frameDir true f
  /-- a frame on `ba` names an existing half-stream: `down` if it is data, `up` if it is credit -/
  framesBA : ∀ f ∈ s.ba, ∃ h, s.halves[fidx f]? = some h ∧ h.dir = frameDir false f
  /-- no frame of a half-stream travels on the wrong carrier -/
  wrongCarrier : ∀ (i : Nat) (h : Half), s.halves[i]? = some h →
    dataFl i (credWire h.dir s) = 0 ∧ credFl i (dataWire h.dir s) = 0
  /-- ghost accounting -/
  ghostSent : ∀ (i : Nat) (h : Half), s.halves[i]? = some h →
    h.sent = h.delivered + h.queue.sum + dataFl i (dataWire h.dir s)
  ghostTotal : ∀ (i : Nat) (h : Half) (c : Dir × Bool × List Nat), s.halves[i]? = some h → cfg[i]? = some c → h.sent + h.remaining = c.2.2.sum
  /-- a stalled application has read nothing and owes no window update -/
  stalled : ∀ (i : Nat) (h : Half), s.halves[i]? = some h → h.willing = false → h.pending = 0 ∧ h.delivered = 0

theorem inv_of_core {K W : Nat} {cfg : Cfg} {s : St} (hinv : CoreInv K W cfg s) : Inv K W cfg s := by
  refine ⟨⟨hinv.abBound, hinv.baBound⟩, ⟨hinv.len, ?_⟩, ?_, fun f hf => frameOK_exists (hinv.abFrames f hf),
    fun f hf => frameOK_exists (hinv.baFrames f hf), ?_, ?_, ?_, ?_⟩
  · intro i h c hi hc
    exact ⟨(hinv.half i h c hi hc).dir, (hinv.half i h c hi hc).willing⟩
  · intro i h hi
    obtain ⟨c, hc⟩ := cfg_of_half hinv hi
    obtain ⟨e1, e2⟩ := flights_eq hinv hi
    rw [← e1, ← e2]; exact (hinv.half i h c hi hc).cons
  · intro i h hi
    cases hd : h.dir with
    | up =>
      exact ⟨dataFl_wrong hinv.baFrames hi (by rw [hd]; simp [frameDir]),
        credFl_wrong hinv.abFrames hi (by rw [hd]; simp [frameDir])⟩
    | down =>
      exact ⟨dataFl_wrong hinv.abFrames hi (by rw [hd]; simp [frameDir]),
        credFl_wrong hinv.baFrames hi (by rw [hd]; simp [frameDir])⟩
  · intro i h hi
    obtain ⟨c, hc⟩ := cfg_of_half hinv hi
    obtain ⟨e1, _⟩ := flights_eq hinv hi
    rw [← e1]; exact (hinv.half i h c hi hc).ghost
  · intro i h c hi hc
    exact (hinv.half i h c hi hc).total
  · intro i h hi
    obtain ⟨c, hc⟩ := cfg_of_half hinv hi
    exact (hinv.half i h c hi hc).stalled

/-- **1.** the invariant holds in every reachable state, for every carrier capacity, window, chunk
    maximum, configuration and schedule -/
theorem inv_reachable {K W cm : Nat} {cfg : Cfg} {s : St} (h : Reachable K W cm cfg s) : Inv K W cfg s :=
  inv_of_core (coreInv_reachable h)

/-- **2.** the receiver never holds more than one window of unread bytes -/
theorem receiver_bounded {K W cm : Nat} {cfg : Cfg} {s : St} (hr : Reachable K W cm cfg s) {i : Nat} {h : Half}
    (hi : s.halves[i]? = some h) : h.queue.sum ≤ W := by
  have := (inv_reachable hr).conservation i h hi
  omega

/-- **3.** a receive loop is never blocked: in EVERY state (reachable or not) it can take the next
    frame off its carrier, however full the other carrier is and whatever the applications do -/
theorem loop_never_blocked (K cm : Nat) (s : St) :
    (s.ab ≠ [] → (step K cm s .loopB).isSome = true) ∧ (s.ba ≠ [] → (step K cm s .loopA).isSome = true) := by
  constructor
  · intro h
    cases hab : s.ab with
    | nil => exact absurd hab h
    | cons f rest => simp [step, hab]
  · intro h
    cases hba : s.ba with
    | nil => exact absurd hba h
    | cons f rest => simp [step, hba]

/-! ### states without an enabled action -/

/-- no action is enabled -/
def Stuck (K cm : Nat) (s : St) : Prop := ∀ a, step K cm s a = none

/-- both carriers empty, no window update owed, every willing reader has an empty queue, every sender
    with something left to send has an exhausted window -/
structure Quiet (s : St) : Prop where
  ab : s.ab = []
  ba : s.ba = []
  half : ∀ (i : Nat) (h : Half), s.halves[i]? = some h →
    h.pending = 0 ∧ (h.willing = true → h.queue = []) ∧ (h.todo ≠ [] → h.win = 0)

theorem quiet_of_stuck {K cm : Nat} (hK : 0 < K) {s : St} (hst : Stuck K cm s) : Quiet s := by
  have hab : s.ab = [] := by
    have := hst .loopB
    cases hab : s.ab with
    | nil => rfl
    | cons f rest => simp [step, hab] at this
  have hba : s.ba = [] := by
    have := hst .loopA
    cases hba : s.ba with
    | nil => rfl
    | cons f rest => simp [step, hba] at this
  refine ⟨hab, hba, ?_⟩
  intro i h hi
  have hp : h.pending = 0 := by
    have := hst (.credit i)
    simp only [step, hi, hab, hba, List.length_nil, hK, if_true] at this
    by_cases hp : h.pending = 0
    · exact hp
    · rw [if_neg hp] at this
      cases hd : h.dir <;> simp [hd] at this
  refine ⟨hp, ?_, ?_⟩
  · intro hw
    have := hst (.read i)
    simp only [step, hi] at this
    cases hq : h.queue with
    | nil => rfl
    | cons k q => simp [Half.read, hw, hp, hq] at this
  · intro ht
    have := hst (.send i)
    simp only [step, hi, hab, hba, List.length_nil, hK, if_true] at this
    cases htd : h.todo with
    | nil => exact absurd htd ht
    | cons rem rest =>
      by_cases hw : h.win = 0
      · exact hw
      · exfalso
        simp only [Half.chunk, htd, hw, if_false] at this
        cases hd : h.dir <;> simp [hd] at this

theorem stuck_of_quiet {K cm : Nat} {s : St} (hq : Quiet s) : Stuck K cm s := by
  intro a
  cases a with
  | loopA => simp [step, hq.ba]
  | loopB => simp [step, hq.ab]
  | send i =>
    simp only [step]
    cases hi : s.halves[i]? with
    | none => rfl
    | some h =>
      obtain ⟨_, _, h3⟩ := hq.half i h hi
      have : h.chunk cm = none := by
        unfold Half.chunk
        cases htd : h.todo with
        | nil => rfl
        | cons rem rest => simp [h3 (by simp [htd])]
      simp [this]
  | read i =>
    simp only [step]
    cases hi : s.halves[i]? with
    | none => rfl
    | some h =>
      obtain ⟨_, h2, _⟩ := hq.half i h hi
      have : h.read = none := by
        unfold Half.read
        split
        · rename_i hw; rw [h2 hw.1]
        · rfl
      simp [this]
  | credit i =>
    simp only [step]
    cases hi : s.halves[i]? with
    | none => rfl
    | some h =>
      obtain ⟨h1, _, _⟩ := hq.half i h hi
      simp [h1]

/-- **4 (strong form).** exactly the quiet states have no enabled action -/
theorem stuck_iff {K cm : Nat} (hK : 0 < K) (s : St) : Stuck K cm s ↔ Quiet s :=
  ⟨quiet_of_stuck hK, stuck_of_quiet⟩

/-- half-stream `i` still has something to do: bytes or a (possibly empty) message not yet sent,
    a frame of it in flight, a chunk not yet read, or a window update owed -/
def Unfinished (s : St) (i : Nat) (h : Half) : Prop :=
  0 < h.remaining ∨ h.todo ≠ [] ∨ (∃ f, (f ∈ s.ab ∨ f ∈ s.ba) ∧ fidx f = i) ∨ h.queue ≠ [] ∨ 0 < h.pending

/-- **4.** no deadlock: in a reachable state in which some willing half-stream is unfinished, some
    action is enabled -/
theorem no_deadlock {K W cm : Nat} (hK : 0 < K) (hW : 0 < W) {cfg : Cfg} {s : St}
    (hr : Reachable K W cm cfg s) {i : Nat} {h : Half} (hi : s.halves[i]? = some h)
    (hw : h.willing = true) (hu : Unfinished s i h) : ∃ a, (step K cm s a).isSome = true := by
  apply Classical.byContradiction
  intro hno
  have hst : Stuck K cm s := by
    intro a
    cases hs : step K cm s a with
    | none => rfl
    | some s' => exact absurd ⟨a, by simp [hs]⟩ hno
  have hq := quiet_of_stuck hK hst
  obtain ⟨h1, h2, h3⟩ := hq.half i h hi
  have hcons := (inv_reachable hr).conservation i h hi
  have hq2 := h2 hw
  have hwin : h.win = W := by
    cases hd : h.dir <;>
      simp [hd, dataWire, credWire, hq.ab, hq.ba, hq2, h1] at hcons <;> exact hcons
  have htodo : h.todo = [] := by
    cases htd : h.todo with
    | nil => rfl
    | cons a b =>
      have := h3 (by simp [htd])
      omega
  rcases hu with hu | hu | ⟨f, hf, _⟩ | hu | hu
  · simp [Half.remaining, htodo] at hu
  · exact hu htodo
  · rw [hq.ab, hq.ba] at hf; simp at hf
  · exact hu hq2
  · omega

/-! ### termination -/

def frameCost : Frame → Nat
  | .data _ _ => 4
  | .credit _ _ => 1

def wireCost (w : List Frame) : Nat := (w.map frameCost).sum

def halfCost (h : Half) : Nat :=
  5 * (h.todo.sum + h.todo.length) + 3 * h.queue.length + (if h.pending = 0 then 0 else 2)

/-- every action strictly decreases this natural number -/
def measure (s : St) : Nat := (s.halves.map halfCost).sum + wireCost s.ab + wireCost s.ba

theorem sum_map_set (f : Half → Nat) : ∀ {l : List Half} {i : Nat} {h : Half} (h' : Half), l[i]? = some h →
    ((l.set i h').map f).sum + f h = (l.map f).sum + f h' := by
  intro l
  induction l with
  | nil => intro i h h' hi; simp at hi
  | cons x xs ih =>
    intro i h h' hi
    cases i with
    | zero =>
      simp only [List.getElem?_cons_zero, Option.some.injEq] at hi
      subst hi
      simp only [List.set_cons_zero, List.map_cons, List.sum_cons]; omega
    | succ n =>
      simp only [List.getElem?_cons_succ] at hi
      have := ih h' hi
      simp only [List.set_cons_succ, List.map_cons, List.sum_cons]; omega

theorem wireCost_snoc (w : List Frame) (f : Frame) : wireCost (w ++ [f]) = wireCost w + frameCost f := by
  simp [wireCost, List.sum_append]

theorem wireCost_cons (w : List Frame) (f : Frame) : wireCost (f :: w) = frameCost f + wireCost w := by
  simp [wireCost]

theorem halfCost_chunk {cm : Nat} (hcm : 0 < cm) {h h' : Half} {k : Nat} (hc : h.chunk cm = some (k, h')) :
    halfCost h' + 5 ≤ halfCost h := by
  unfold Half.chunk at hc
  split at hc
  · contradiction
  · rename_i rem rest htodo
    split at hc
    · contradiction
    · injection hc with hc
      injection hc with hk hh
      subst hh hk
      simp only [halfCost, htodo, List.sum_cons, List.length_cons]
      split
      · omega
      · simp only [List.sum_cons, List.length_cons]; omega

theorem halfCost_read {h h' : Half} (hr : h.read = some h') : halfCost h' + 1 ≤ halfCost h := by
  obtain ⟨k, q, hq, _, hp, rfl⟩ := read_spec hr
  simp only [halfCost, hq, hp, List.length_cons, if_true]
  split <;> omega

theorem cost_deliver (hs : List Half) (f : Frame) :
    ((deliver hs f).map halfCost).sum + 1 ≤ (hs.map halfCost).sum + frameCost f := by
  cases hi : hs[fidx f]? with
  | none =>
    have : deliver hs f = hs := by
      cases f <;> simp only [fidx] at hi <;> simp [deliver, upd, hi]
    rw [this]
    cases f <;> simp [frameCost]
  | some h =>
    rw [deliver_eq hi]
    have := sum_map_set halfCost (acceptF h f) hi
    have h2 : halfCost (acceptF h f) + 1 ≤ halfCost h + frameCost f := by
      clear this
      by_cases hp : h.pending = 0 <;> cases f <;> simp [halfCost, acceptF, frameCost, hp] <;> omega
    omega

theorem measure_decreases {K cm : Nat} (hcm : 0 < cm) {s s' : St} (a : Act)
    (hs : step K cm s a = some s') : measure s' < measure s := by
  cases a with
  | send i =>
    simp only [step] at hs
    split at hs
    · contradiction
    · rename_i h hi
      split at hs
      · contradiction
      · rename_i k h' hc
        have h1 := halfCost_chunk hcm hc
        have h2 := sum_map_set halfCost h' hi
        split at hs <;> split at hs <;> try contradiction
        all_goals
          injection hs with hs; subst hs
          simp only [measure, wireCost_snoc, frameCost]
          omega
  | read i =>
    simp only [step] at hs
    split at hs
    · contradiction
    · rename_i h hi
      split at hs
      · contradiction
      · rename_i h' hr
        have h1 := halfCost_read hr
        have h2 := sum_map_set halfCost h' hi
        injection hs with hs; subst hs
        simp only [measure]
        omega
  | credit i =>
    simp only [step] at hs
    split at hs
    · contradiction
    · rename_i h hi
      split at hs
      · contradiction
      · rename_i hp
        have h1 : halfCost { h with pending := 0 } + 2 = halfCost h := by
          simp [halfCost, hp]
        have h2 := sum_map_set halfCost { h with pending := 0 } hi
        split at hs <;> split at hs <;> try contradiction
        all_goals
          injection hs with hs; subst hs
          simp only [measure, wireCost_snoc, frameCost]
          omega
  | loopA =>
    simp only [step] at hs
    split at hs
    · contradiction
    · rename_i f rest hba
      injection hs with hs; subst hs
      have := cost_deliver s.halves f
      simp only [measure, hba, wireCost_cons]
      omega
  | loopB =>
    simp only [step] at hs
    split at hs
    · contradiction
    · rename_i f rest hab
      injection hs with hs; subst hs
      have := cost_deliver s.halves f
      simp only [measure, hab, wireCost_cons]
      omega

/-- a schedule can never be longer than the measure of the state it starts in -/
theorem run_length_le {K cm : Nat} (hcm : 0 < cm) : ∀ (as : List Act) {s s' : St},
    run K cm s as = some s' → as.length + measure s' ≤ measure s := by
  intro as
  induction as with
  | nil => intro s s' hr; simp only [run] at hr; injection hr with hr; subst hr; simp
  | cons a as ih =>
    intro s s' hr
    simp only [run] at hr
    cases hs : step K cm s a with
    | none => simp [hs] at hr
    | some s1 =>
      rw [hs] at hr
      have h1 := measure_decreases hcm a hs
      have h2 := ih hr
      simp only [List.length_cons]; omega

theorem measure_init (W : Nat) (cfg : Cfg) : measure (init W cfg) = workBound cfg := by
  simp only [measure, init, wireCost, List.map_nil, List.sum_nil, Nat.add_zero, workBound]
  induction cfg with
  | nil => rfl
  | cons c cfg ih =>
    simp only [List.map_cons, List.sum_cons, ih]
    simp [halfCost, Half.init]
    omega

/-- **5.** every execution is finite: a schedule from the initial state has at most
    `5·Σ (bytes + number of messages)` actions, whatever the interleaving -/
theorem terminates {K W cm : Nat} (hcm : 0 < cm) (cfg : Cfg) (as : List Act) {s : St}
    (hr : run K cm (init W cfg) as = some s) : as.length ≤ workBound cfg := by
  have := run_length_le hcm as hr
  rw [measure_init] at this
  omega

/-! ### completion -/

/-- **6.** every maximal schedule (one ending in a state without enabled action) leaves every
    half-stream in the same, explicitly known situation: a half-stream whose application reads is
    complete, whatever the others do; a half-stream whose application is stalled has its sender parked
    behind exactly `min (total bytes) W` unread bytes. -/
theorem completes {K W cm : Nat} (hK : 0 < K) (hW : 0 < W) {cfg : Cfg} {as : List Act} {s : St}
    (hr : run K cm (init W cfg) as = some s) (hmax : Stuck K cm s)
    {i : Nat} {d : Dir} {willing : Bool} {msgs : List Nat} (hc : cfg[i]? = some (d, willing, msgs)) :
    ∃ h, s.halves[i]? = some h ∧ h.dir = d ∧ h.willing = willing ∧ h.pending = 0 ∧
      (willing = true →
        h.delivered = msgs.sum ∧ h.sent = msgs.sum ∧ h.remaining = 0 ∧ h.todo = [] ∧ h.queue = [] ∧
        h.win = W) ∧
      (willing = false →
        h.delivered = 0 ∧ h.sent = h.queue.sum ∧ h.sent ≤ W ∧ h.sent = min msgs.sum W ∧
        h.win + h.queue.sum = W ∧ (0 < h.remaining → h.queue.sum = W) ∧
        (h.todo ≠ [] → h.queue.sum = W ∧ h.win = 0)) := by
  have core := inv_run as (inv_init K W cfg) hr
  obtain ⟨h, hi⟩ := half_of_cfg core hc
  have ok := core.half i h _ hi hc
  have q := quiet_of_stuck hK hmax
  obtain ⟨hp, hq, hsend⟩ := q.half i h hi
  have hD : dFl i s.ab s.ba = 0 := by simp [dFl, q.ab, q.ba]
  have hC : cFl i s.ab s.ba = 0 := by simp [cFl, q.ab, q.ba]
  obtain ⟨o1, o2, o3, o4, o5, o6⟩ := ok
  rw [hD, hC, hp] at o3
  rw [hD] at o4
  dsimp only at o1 o2 o5
  refine ⟨h, hi, o1, o2, hp, ?_, ?_⟩
  · intro hw; subst hw
    have hq' := hq o2
    rw [hq'] at o3 o4
    simp only [List.sum_nil] at o3 o4
    have hwin : h.win = W := by omega
    have htodo : h.todo = [] := by
      cases htd : h.todo with
      | nil => rfl
      | cons a b =>
        have := hsend (by simp [htd])
        omega
    have hrem : h.remaining = 0 := by simp [Half.remaining, htodo]
    exact ⟨by omega, by omega, hrem, htodo, hq', hwin⟩
  · intro hw; subst hw
    obtain ⟨_, hdel⟩ := o6 o2
    have key : h.todo ≠ [] → h.queue.sum = W ∧ h.win = 0 := by
      intro ht
      have := hsend ht
      omega
    have key2 : 0 < h.remaining → h.queue.sum = W := by
      intro hr
      refine (key ?_).1
      intro e
      simp [Half.remaining, e] at hr
    refine ⟨hdel, by omega, by omega, ?_, by omega, key2, key⟩
    by_cases ht : h.todo = []
    · have : h.remaining = 0 := by simp [Half.remaining, ht]
      omega
    · have := key ht
      omega

/-- the outcome of every maximal schedule, in closed form -/
theorem outcome_closed_form {K W cm : Nat} (hK : 0 < K) (hW : 0 < W) {cfg : Cfg} {as : List Act} {s : St}
    (hr : run K cm (init W cfg) as = some s) (hmax : Stuck K cm s) : summary s = expected W cfg := by
  have core := inv_run as (inv_init K W cfg) hr
  apply List.ext_getElem?
  intro i
  simp only [summary, expected, List.getElem?_map]
  cases hc : cfg[i]? with
  | none =>
    have : s.halves[i]? = none := by
      rw [List.getElem?_eq_none_iff] at hc ⊢
      rw [core.len]; exact hc
    simp [this]
  | some c =>
    obtain ⟨d, w, msgs⟩ := c
    obtain ⟨h, hi, _, _, _, h1, h2⟩ := completes hK hW hr hmax hc
    rw [hi]
    simp only [Option.map_some, Option.some.injEq]
    cases w with
    | true =>
      obtain ⟨e1, e2, e3, _, e5, _⟩ := h1 rfl
      simp [e1, e2, e3, e5]
    | false =>
      obtain ⟨e1, e2, _, e4, _, _, _⟩ := h2 rfl
      have e5 := (core.half i h _ hi hc).total
      dsimp only at e5
      have e6 : h.remaining = msgs.sum - min msgs.sum W := by omega
      have e7 : h.queue.sum = min msgs.sum W := by omega
      simp [e1, e4, e6, e7]

/-- **7.** two maximal schedules from the same initial state agree on
    `(sent, delivered, queue.sum, remaining)` of EVERY half-stream, willing or stalled, with or
    without empty messages -/
theorem outcome_schedule_independent {K W cm : Nat} (hK : 0 < K) (hW : 0 < W) {cfg : Cfg}
    {as₁ as₂ : List Act} {s₁ s₂ : St}
    (hr₁ : run K cm (init W cfg) as₁ = some s₁) (hmax₁ : Stuck K cm s₁)
    (hr₂ : run K cm (init W cfg) as₂ = some s₂) (hmax₂ : Stuck K cm s₂) :
    summary s₁ = summary s₂ := by
  rw [outcome_closed_form hK hW hr₁ hmax₁, outcome_closed_form hK hW hr₂ hmax₂]

/-- **7 (willing half-streams).** two maximal schedules leave a willing half-stream in literally the
    same state, and the carriers are empty in both -/
theorem willing_state_schedule_independent {K W cm : Nat} (hK : 0 < K) (hW : 0 < W) {cfg : Cfg}
    {as₁ as₂ : List Act} {s₁ s₂ : St}
    (hr₁ : run K cm (init W cfg) as₁ = some s₁) (hmax₁ : Stuck K cm s₁)
    (hr₂ : run K cm (init W cfg) as₂ = some s₂) (hmax₂ : Stuck K cm s₂)
    {i : Nat} {d : Dir} {msgs : List Nat} (hc : cfg[i]? = some (d, true, msgs)) :
    s₁.halves[i]? = s₂.halves[i]? ∧ s₁.ab = s₂.ab ∧ s₁.ba = s₂.ba := by
  obtain ⟨h₁, hi₁, a1, a2, a3, a4, _⟩ := completes hK hW hr₁ hmax₁ hc
  obtain ⟨h₂, hi₂, b1, b2, b3, b4, _⟩ := completes hK hW hr₂ hmax₂ hc
  obtain ⟨a5, a6, _, a7, a8, a9⟩ := a4 rfl
  obtain ⟨b5, b6, _, b7, b8, b9⟩ := b4 rfl
  have q₁ := quiet_of_stuck hK hmax₁
  have q₂ := quiet_of_stuck hK hmax₂
  refine ⟨?_, by rw [q₁.ab, q₂.ab], by rw [q₁.ba, q₂.ba]⟩
  rw [hi₁, hi₂]
  cases h₁; cases h₂
  simp_all

/-! ### the executable scheduler -/

theorem firstEnabled_none {K cm : Nat} {s : St} : ∀ {l : List Act}, firstEnabled K cm s l = none →
    ∀ a ∈ l, step K cm s a = none := by
  intro l
  induction l with
  | nil => intro _ a ha; simp at ha
  | cons b l ih =>
    intro hf a ha
    simp only [firstEnabled] at hf
    cases hb : step K cm s b with
    | some s' => simp [hb] at hf
    | none =>
      rw [hb] at hf
      rcases List.mem_cons.mp ha with e | e
      · rw [e]; exact hb
      · exact ih hf a e

theorem firstEnabled_some {K cm : Nat} {s s' : St} {a : Act} : ∀ {l : List Act},
    firstEnabled K cm s l = some (a, s') → step K cm s a = some s' := by
  intro l
  induction l with
  | nil => intro hf; simp [firstEnabled] at hf
  | cons b l ih =>
    intro hf
    simp only [firstEnabled] at hf
    cases hb : step K cm s b with
    | some s1 =>
      rw [hb] at hf
      simp only [Option.some.injEq, Prod.mk.injEq] at hf
      obtain ⟨e1, e2⟩ := hf
      subst e1 e2; exact hb
    | none => rw [hb] at hf; exact ih hf

theorem mem_allActs_loop (n : Nat) : Act.loopA ∈ allActs n ∧ Act.loopB ∈ allActs n := by
  induction n with
  | zero => simp [allActs]
  | succ n ih => simp [allActs, ih.1, ih.2]

theorem mem_allActs_idx {n i : Nat} (h : i < n) :
    Act.send i ∈ allActs n ∧ Act.read i ∈ allActs n ∧ Act.credit i ∈ allActs n := by
  induction n with
  | zero => omega
  | succ n ih =>
    by_cases e : i = n
    · subst e; simp [allActs]
    · have := ih (by omega)
      simp [allActs, this.1, this.2.1, this.2.2]

/-- the fixed enumeration misses no action that could be enabled -/
theorem stuck_of_allActs {K cm : Nat} {s : St}
    (h : ∀ a ∈ allActs s.halves.length, step K cm s a = none) : Stuck K cm s := by
  intro a
  cases a with
  | loopA => exact h _ (mem_allActs_loop _).1
  | loopB => exact h _ (mem_allActs_loop _).2
  | send i =>
    by_cases hi : i < s.halves.length
    · exact h _ (mem_allActs_idx hi).1
    · have : s.halves[i]? = none := List.getElem?_eq_none (by omega)
      simp [step, this]
  | read i =>
    by_cases hi : i < s.halves.length
    · exact h _ (mem_allActs_idx hi).2.1
    · have : s.halves[i]? = none := List.getElem?_eq_none (by omega)
      simp [step, this]
  | credit i =>
    by_cases hi : i < s.halves.length
    · exact h _ (mem_allActs_idx hi).2.2
    · have : s.halves[i]? = none := List.getElem?_eq_none (by omega)
      simp [step, this]

/-- `enabledActs` is a decision procedure for `Stuck` -/
theorem stuck_iff_enabledActs {K cm : Nat} {s : St} : Stuck K cm s ↔ enabledActs K cm s = [] := by
  constructor
  · intro hst
    simp only [enabledActs, List.filter_eq_nil_iff]
    intro a _
    simp [hst a]
  · intro he
    apply stuck_of_allActs
    intro a ha
    simp only [enabledActs, List.filter_eq_nil_iff] at he
    have := he a ha
    cases hs : step K cm s a with
    | none => rfl
    | some s' => simp [hs] at this

/-- `runToEnd` follows the schedule `traceToEnd` -/
theorem run_traceToEnd (K cm : Nat) : ∀ (fuel : Nat) (s : St),
    run K cm s (traceToEnd K cm fuel s) = some (runToEnd K cm fuel s) := by
  intro fuel
  induction fuel with
  | zero => intro s; rfl
  | succ n ih =>
    intro s
    simp only [traceToEnd, runToEnd]
    cases hf : firstEnabled K cm s (allActs s.halves.length) with
    | none => rfl
    | some p =>
      obtain ⟨a, s'⟩ := p
      simp only [run, firstEnabled_some hf]
      exact ih s'

theorem runToEnd_stuck {K cm : Nat} (hcm : 0 < cm) : ∀ (fuel : Nat) (s : St), measure s ≤ fuel →
    Stuck K cm (runToEnd K cm fuel s) := by
  intro fuel
  induction fuel with
  | zero =>
    intro s hm a
    simp only [runToEnd]
    cases hs : step K cm s a with
    | none => rfl
    | some s' =>
      have := measure_decreases hcm a hs
      omega
  | succ n ih =>
    intro s hm
    simp only [runToEnd]
    cases hf : firstEnabled K cm s (allActs s.halves.length) with
    | none => exact stuck_of_allActs (firstEnabled_none hf)
    | some p =>
      obtain ⟨a, s'⟩ := p
      have := measure_decreases hcm a (firstEnabled_some hf)
      exact ih s' (by omega)

/-- **8.** with fuel `workBound cfg` (the bound of `terminates`) the executable scheduler ends in a
    state without enabled action, and that state is reachable -/
theorem runToEnd_maximal {K W cm : Nat} (hcm : 0 < cm) (cfg : Cfg) {fuel : Nat} (hf : workBound cfg ≤ fuel) :
    Stuck K cm (runToEnd K cm fuel (init W cfg)) ∧ Reachable K W cm cfg (runToEnd K cm fuel (init W cfg)) :=
  ⟨runToEnd_stuck hcm fuel _ (by rw [measure_init]; exact hf), ⟨_, run_traceToEnd K cm fuel _⟩⟩

/-- **8 + 7.** hence the scheduler's answer is THE answer: every maximal schedule ends with the
    summary computed by `runToEnd` -/
theorem runToEnd_is_the_answer {K W cm : Nat} (hK : 0 < K) (hW : 0 < W) (hcm : 0 < cm) {cfg : Cfg}
    {as : List Act} {s : St} (hr : run K cm (init W cfg) as = some s) (hmax : Stuck K cm s) :
    summary s = summary (runToEnd K cm (workBound cfg) (init W cfg)) := by
  obtain ⟨h1, _⟩ := runToEnd_maximal (K := K) (W := W) hcm cfg (Nat.le_refl (workBound cfg))
  exact outcome_schedule_independent hK hW hr hmax (run_traceToEnd K cm _ _) h1

/-- **4 (variant).** as long as a willing half-stream has not delivered everything that was submitted,
    some action is enabled -/
theorem no_deadlock_undelivered {K W cm : Nat} (hK : 0 < K) (hW : 0 < W) {cfg : Cfg} {s : St}
    (hr : Reachable K W cm cfg s) {i : Nat} {d : Dir} {msgs : List Nat} {h : Half}
    (hc : cfg[i]? = some (d, true, msgs)) (hi : s.halves[i]? = some h) (hu : h.delivered ≠ msgs.sum) :
    ∃ a, (step K cm s a).isSome = true := by
  apply Classical.byContradiction
  intro hno
  have hst : Stuck K cm s := by
    intro a
    cases hs : step K cm s a with
    | none => rfl
    | some s' => exact absurd ⟨a, by simp [hs]⟩ hno
  obtain ⟨as, hrun⟩ := hr
  obtain ⟨h', hi', _, _, _, h1, _⟩ := completes hK hW hrun hst hc
  rw [hi] at hi'
  injection hi' with hi'
  subst hi'
  exact hu (h1 rfl).1

/-! ### non-vacuity: a concrete tunnel with K = 1, W = 4, cm = 2 -/

namespace Example

/-- half-stream 0: stalled reader, one message of 10 bytes; 1: willing `up`, messages 5, 0, 3;
    2: willing `down`, one message of 6 bytes -/
def cfg : Cfg := [(.up, false, [10]), (.up, true, [5, 0, 3]), (.down, true, [6])]

/-- a maximal schedule (47 actions; the one `traceToEnd` follows) -/
def sched : List Act :=
  [.send 2, .send 1, .loopA, .send 2, .read 2, .loopA, .loopB, .credit 2, .read 2, .read 1, .credit 1,
   .loopA, .loopB, .send 2, .credit 2, .loopA, .read 2, .loopB, .credit 2, .loopB, .send 1, .loopB,
   .send 1, .read 1, .credit 1, .loopA, .loopB, .send 1, .read 1, .credit 1, .loopA, .loopB, .send 1,
   .read 1, .loopB, .send 1, .read 1, .credit 1, .loopA, .loopB, .read 1, .credit 1, .send 0, .loopA,
   .loopB, .send 0, .loopB]

/-- another maximal schedule: the stalled stream goes first and fills the carrier, the `down` stream
    is served before the `up` stream -/
def sched' : List Act :=
  [.send 0, .loopB, .send 0, .loopB,
   .send 2, .loopA, .read 2, .credit 2, .loopB, .send 2, .loopA, .read 2, .credit 2, .loopB,
   .send 2, .loopA, .read 2, .credit 2, .loopB,
   .send 1, .loopB, .read 1, .credit 1, .loopA, .send 1, .loopB, .read 1, .credit 1, .loopA,
   .send 1, .loopB, .read 1, .credit 1, .loopA, .send 1, .loopB, .read 1,
   .send 1, .loopB, .read 1, .credit 1, .loopA, .send 1, .loopB, .read 1, .credit 1, .loopA]

/-- the schedule runs, ends with no enabled action; the stalled sender is parked with 4 unread bytes
    and 6 bytes unsent, the two willing streams are complete -/
example :
    (run 1 2 (init 4 cfg) sched).map summary = some [(4, 0, 4, 6), (8, 8, 0, 0), (6, 6, 0, 0)] ∧
    (run 1 2 (init 4 cfg) sched).map (enabledActs 1 2) = some [] ∧
    (run 1 2 (init 4 cfg) sched).map (fun s => (s.ab, s.ba)) = some ([], []) := by
  decide

example :
    (run 1 2 (init 4 cfg) sched).map (fun s => s.halves.map (fun h => (h.win, h.queue, h.todo, h.pending))) =
      some [(0, [2, 2], [6], 0), (4, [], [], 0), (4, [], [], 0)] := by
  decide

example :
    (run 1 2 (init 4 cfg) sched').map summary = some [(4, 0, 4, 6), (8, 8, 0, 0), (6, 6, 0, 0)] ∧
    (run 1 2 (init 4 cfg) sched').map (enabledActs 1 2) = some [] ∧
    (run 1 2 (init 4 cfg) sched').map (fun s => (s.ab, s.ba)) = some ([], []) := by
  decide

/-- the same, with "no enabled action" in its official form -/
example : ∃ s, run 1 2 (init 4 cfg) sched = some s ∧ Stuck 1 2 s ∧
    summary s = [(4, 0, 4, 6), (8, 8, 0, 0), (6, 6, 0, 0)] :=
  ⟨runToEnd 1 2 47 (init 4 cfg), by decide, stuck_iff_enabledActs.mpr (by decide), by decide⟩

/-- the executable scheduler gives the same answer, which is the closed form -/
example : summary (runToEnd 1 2 (workBound cfg) (init 4 cfg)) = expected 4 cfg := by decide
example : traceToEnd 1 2 (workBound cfg) (init 4 cfg) = sched := by decide
example : workBound cfg = 145 ∧ sched.length = 47 ∧ sched'.length = 47 := by decide

/-- an empty message needs a positive window: with the messages 4, 0 and a stalled reader the empty
    message stays unsent although no BYTE remains (`remaining = 0`, `todo = [0]`) -/
example :
    (run 1 2 (init 4 [(.up, false, [4, 0])]) [.send 0, .loopB, .send 0, .loopB]).map
        (fun s => (summary s, s.halves.map (·.todo), enabledActs 1 2 s)) =
      some ([(4, 0, 4, 0)], [[0]], []) := by
  decide

end Example

/-! ### why "receive loops never send" matters: the `Faulty` variant deadlocks

  In `TunnelModel.Closed.Faulty` the receive loop itself puts the window update on the carrier.
  Two willing streams in opposite directions, K = 1: each side sends one frame, both carriers are
  full, both loops need room on the opposite carrier — nothing can move, nothing was delivered. -/
namespace FaultyExample

def cfg : Cfg := [(.up, true, [2]), (.down, true, [2])]
def sched : List Act := [.send 0, .send 1]

/-- the state after `sched` in the faulty model: both carriers full, nothing delivered -/
def dead : St :=
  { halves := [{ dir := .up, willing := true, todo := [], win := 2, queue := [], pending := 0, sent := 2, delivered := 0 },
               { dir := .down, willing := true, todo := [], win := 2, queue := [], pending := 0, sent := 2, delivered := 0 }],
    ab := [.data 0 2], ba := [.data 1 2] }

theorem reachable : Faulty.run 1 2 (init 4 cfg) sched = some dead := by decide

/-- no action at all is enabled in `dead` (for every `Act`, not only those of the enumeration) -/
theorem deadlock : ∀ a, Faulty.step 1 2 dead a = none := by
  intro a
  cases a with
  | loopA => decide
  | loopB => decide
  | send i =>
    match i with
    | 0 => decide
    | 1 => decide
    | n + 2 => rfl
  | read i =>
    match i with
    | 0 => decide
    | 1 => decide
    | n + 2 => rfl
  | credit i =>
    match i with
    | 0 => decide
    | 1 => decide
    | n + 2 => rfl

/-- both streams are willing and unfinished: a frame in flight, nothing delivered -/
theorem unfinished : dead.halves.map (fun h => (h.willing, h.delivered)) = [(true, 0), (true, 0)] ∧
    Faulty.enabledActs 1 2 dead = [] ∧ Unfinished dead 0 dead.halves[0] ∧ Unfinished dead 1 dead.halves[1] := by
  refine ⟨by decide, by decide, ?_, ?_⟩
  · exact Or.inr (Or.inr (Or.inl ⟨.data 0 2, Or.inl (by decide), rfl⟩))
  · exact Or.inr (Or.inr (Or.inl ⟨.data 1 2, Or.inr (by decide), rfl⟩))

/-- in the correct model the same schedule reaches the same state, both loops are enabled there, and
    `runToEnd` completes both streams -/
example : run 1 2 (init 4 cfg) sched = some dead := by decide
example : (step 1 2 dead .loopA).isSome = true ∧ (step 1 2 dead .loopB).isSome = true := by decide
example : summary (runToEnd 1 2 (workBound cfg) (init 4 cfg)) = [(2, 2, 0, 0), (2, 2, 0, 0)] := by decide

end FaultyExample

end Proofs.Closed

/-
  Axiom audit (output of the `#print axioms` commands below, Lean 4.33.0):

  #print axioms Proofs.Closed.inv_reachable
    'Proofs.Closed.inv_reachable' depends on axioms: [propext, Quot.sound]
  #print axioms Proofs.Closed.receiver_bounded
    'Proofs.Closed.receiver_bounded' depends on axioms: [propext, Quot.sound]
  #print axioms Proofs.Closed.loop_never_blocked
    'Proofs.Closed.loop_never_blocked' depends on axioms: [propext]
  #print axioms Proofs.Closed.stuck_iff
    'Proofs.Closed.stuck_iff' depends on axioms: [propext, Quot.sound]
  #print axioms Proofs.Closed.no_deadlock
    'Proofs.Closed.no_deadlock' depends on axioms: [propext, Classical.choice, Quot.sound]
  #print axioms Proofs.Closed.no_deadlock_undelivered
    'Proofs.Closed.no_deadlock_undelivered' depends on axioms: [propext, Classical.choice, Quot.sound]
  #print axioms Proofs.Closed.measure_decreases
    'Proofs.Closed.measure_decreases' depends on axioms: [propext, Quot.sound]
  #print axioms Proofs.Closed.terminates
    'Proofs.Closed.terminates' depends on axioms: [propext, Quot.sound]
  #print axioms Proofs.Closed.completes
    'Proofs.Closed.completes' depends on axioms: [propext, Classical.choice, Quot.sound]
  #print axioms Proofs.Closed.outcome_closed_form
    'Proofs.Closed.outcome_closed_form' depends on axioms: [propext, Classical.choice, Quot.sound]
  #print axioms Proofs.Closed.outcome_schedule_independent
    'Proofs.Closed.outcome_schedule_independent' depends on axioms: [propext, Classical.choice, Quot.sound]
  #print axioms Proofs.Closed.willing_state_schedule_independent
    'Proofs.Closed.willing_state_schedule_independent' depends on axioms: [propext, Classical.choice, Quot.sound]
  #print axioms Proofs.Closed.stuck_iff_enabledActs
    'Proofs.Closed.stuck_iff_enabledActs' depends on axioms: [propext, Classical.choice, Quot.sound]
  #print axioms Proofs.Closed.runToEnd_maximal
    'Proofs.Closed.runToEnd_maximal' depends on axioms: [propext, Quot.sound]
  #print axioms Proofs.Closed.runToEnd_is_the_answer
    'Proofs.Closed.runToEnd_is_the_answer' depends on axioms: [propext, Classical.choice, Quot.sound]
  #print axioms Proofs.Closed.FaultyExample.reachable
    'Proofs.Closed.FaultyExample.reachable' depends on axioms: [propext]
  #print axioms Proofs.Closed.FaultyExample.deadlock
    'Proofs.Closed.FaultyExample.deadlock' depends on axioms: [propext]
  #print axioms Proofs.Closed.FaultyExample.unfinished
    'Proofs.Closed.FaultyExample.unfinished' depends on axioms: [propext]
-/
