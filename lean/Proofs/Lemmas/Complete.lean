import TunnelModel.LFrame.Trace
import Proofs.Lemmas.Framing
import Proofs.Lemmas.Delivery
import Proofs.Lemmas.Emission
import Proofs.Lemmas.ClientShape
import Proofs.Lemmas.Conformance
import Proofs.Props.C01

/-!
  # C01, the COMPLETENESS half

  "… what the receiver obtains is always a prefix of what was sent (`Proofs/Props/C01.lean`) and
   is COMPLETE whenever the receiver is told the stream ended OK."

  Both directions, at the level of one stream object per endpoint (`SStream.runEv` /
  `CStream.runEv` of `TunnelModel/LFrame/Trace.lean`), for EVERY pair of event histories: every
  interleaving, message size, window schedule, cancellation / deadline / tear-down point.  The
  carrier hypothesis is the FIFO one of `C01_*_prefix` with EQUALITY instead of prefix: all frames
  the sending stream emitted have been fed, in order, to the receiving stream.

  ## Main theorems (everything is proved; see the `#print` lines at the end of the file)

  * **`C01_response_complete` (R2)** — handler → caller.  `SFreshR s0`, `CFresh c0`,
    `SStream.legalSends`, `sNoCallAfterRet sevs` (the handler makes no call after it returned;
    implies `sReplyIsLast`: `sReplyIsLast_of_noCall`), `sAnyFailed souts = false` (every `SendMsg`
    of the handler returned nil), `legalRecvsC`, `c0.fc = true ∨ final unsupported = false` (so
    revision zero is covered as in `Delivery`), `fedFramesC cevs = emittedFramesS souts`, and
    `sawRecvEof couts = true` (some completion `(sid, "recv", .eof)`: `sawRecvEof_of_mem`).  Then
      `COut.deliveredMsgs couts = SEv.submitted sevs`.
    There is NO hypothesis "the handler returned OK": it is DERIVED from the caller's `io.EOF`
    (`client_eof_complete`: an `io.EOF` from `RecvMsg` means an OK close frame was fed;
    `ok_cause`: an OK close frame on the wire is only ever caused by `.call (.ret st)` with
    `st.code = 0`, by the unary `.call (.reply m)`, or by the window update that completes a blocked
    unary reply).  The form "the handler returned OK" is `closeOK_of_ret`.
  * **`C01_response_ok_partial` (R1)** — the caller is told OK: if the server stream emitted an OK
    close frame (e.g. `closeOK_of_ret`) and all its frames were fed, then
    `(CStream.runEv …).1.done = some .eof`, PROVIDED `cNoCancel cevs` (no `.ctx`, no `.call .cancel`:
    the caller did not end the RPC itself) and the two hypotheses discussed below.
  * **`C01_request_complete` (Q)** — caller → handler.  `c0.psend = none`, `c0.halfClosed = false`,
    `Fresh s0`, `CStream.legalSends`, `Conformance.legalCloseSend` (no `SendMsg` after `CloseSend`,
    `CloseSend` only when no send is in progress), `cAnyFailed couts = false`, `legalRecvsS`,
    `s0.fc = true ∨ final unsupported = false`, `fedFramesS sevs = emittedFramesC couts`,
    `sawRecvEofS souts = true` (a `RecvMsg` of the handler returned `io.EOF`).  Then
      `Out.deliveredMsgs souts = CEv.submitted cevs`.
    Again "the caller half-closed" is derived from the handler's `io.EOF`.
  * Per endpoint (each is the strongest statement about ONE stream object, used by the above):
    `client_eof_complete`, `server_closeOK_complete` (R); `server_eof_complete`,
    `client_halfClose_complete` (Q).

  ## What is FALSE as first formulated, what was added, and why (`_partial`)

  * **R1** with only "the caller did not cancel / its context did not end" is FALSE.  The two
    stream objects are independent open systems; two more things can make the caller end the RPC
    with an error although the handler returned OK and every frame arrived:
      - `noWinExceed ccfg sid c0 cevs` — the peer respects the window the caller has open (a
        decidable predicate threading the state like `legalRecvsC`): the sender's window is driven
        by the window updates IT receives, nothing ties it to the caller's `rcv.rwin`.
        Counterexample (`cExW`, `sevsW`, `cevsW`, `decide`d): window 1, a 3-byte message:
        `done = some (.status ResourceExhausted)`.
      - `hss : c0.ss = false → (SEv.submitted sevs).length ≤ 1` — the two method descriptors agree
        on "the response is not streamed".  Counterexample (`sevsM`, `cevsM`): the handler streams
        two messages, the caller's look-ahead read fails the RPC with `Internal`.
    Both are exactly the two ways `C01_response_prefix` can stop short for a reason visible only at
    the receiver; hence the name `C01_response_ok_partial`.  R2 needs neither (a caller that got
    `io.EOF` did not hit them).
  * **Freshness.**  `SFreshR` is the requested "psend = none, finishAfterSend = false, context
    live" plus `readErr = none ∧ halfClosed = none` (true of every stream `Srv.createStream` builds;
    `closed = false ∧ sentHeaders = false` are not needed).  They are used by the invariant `RH`
    ("the sticky read error / half-close error carry no status with code 0") behind `ok_cause`:
    a unary method whose decode callback fails returns that very error, and from an arbitrary
    initial state it could be a status with code 0, i.e. an OK close frame not caused by the
    handler.  Not weakened otherwise: no theorem about R2 / Q carries `_partial`.
  * The handler-side hypotheses of R2 are necessary (`decide`d in `Examples`): without
    `sNoCallAfterRet` a handler that sends after returning puts `headers, close, msg` on the wire and
    the caller reads `io.EOF` having missed the message; without `sAnyFailed = false` a handler
    that returns OK while its `SendMsg` is blocked (contract violation, the send is aborted with a
    reported error) closes the stream OK in the middle of a message — and the caller's `RecvMsg`
    returns `io.EOF` (the model, like the code, returns `loadDone()` when the receiver is closed and
    the queue is empty, whatever the reassembly state).

  ## Proof structure

  Receiver (client: `RR`, `PB`/`PreInv`, `QB`/`QInv`; server: `RRS`, `TQ`/`NE1`/`SQ`):
  `resumeRead_rr` / `resumeRead_rrs` describe one read pass EXACTLY in terms of `parse` and the
  accounting `Delivery.Acct` (three outcomes: `live`, `end` — queue dry on a closed receiver, the
  call returns the terminal result —, `err`).  Phase 1 (no OK close / no half-close accepted yet):
  no read can return `io.EOF` (`noeof_run`, `ne_run`); at its end `Delivery.crunEv_inv` /
  `runEv_inv` give the accounting with NOTHING dropped (the receiver was open).  Phase 2 (after the
  OK close / the half-close): `QInv` / `SQ` — the reads drain the queue, and a read that returns
  `io.EOF` has emptied it: the invariant asked for in the task ("`.eof` is returned only when the
  queue is empty and the stream is done").  Nothing is fed in phase 2 because the close frame is
  the last frame / no data frame follows the half-close frame (sender side).
  Sender: server `srv_main` = `Emission.Inv` (through `Emission.s_step_inv`) + `RH` + `Conformance.J`
  along the run, `ok_step` at the step that emits the OK close frame (`ok_cause`, `reply_ok`:
  the reply path closes OK only if its send completed), then `Conformance.S5_settled_run`; client
  `client_halfClose_complete` = `Emission.client_emits_chunkings_full` + `closing_inv` + C1 / C3 of
  `Conformance`.
-/

namespace Proofs.Complete
open TunnelModel TunnelModel.LFrame TunnelModel.Framing
open Proofs.Delivery

variable {α : Type}

/-! ## vocabulary -/

/-- the result `io.EOF` -/
def isEof : Res α → Bool
  | .eof => true
  | _ => false

/-- some `RecvMsg` completed with `io.EOF` in this list of completions -/
def eofIn (ds : List (Sid × String × Res α)) : Bool :=
  ds.any (fun d => d.2.1 == "recv" && isEof d.2.2)

theorem eofIn_append (a b : List (Sid × String × Res α)) : eofIn (a ++ b) = (eofIn a || eofIn b) := by
  simp [eofIn, List.any_append]

@[simp] theorem eofIn_nil : eofIn ([] : List (Sid × String × Res α)) = false := rfl

theorem isEof_toRes (e : SErr) : isEof (e.toRes : Res α) = true ↔ e = .eof := by
  cases e <;> simp [SErr.toRes, isEof]

theorem eofIn_recv (sid : Sid) (e : SErr) :
    eofIn [(sid, "recv", (e.toRes : Res α))] = true ↔ e = .eof := by
  simp [eofIn, isEof_toRes]

theorem eofIn_recv_ne (sid : Sid) (e : SErr) (h : e ≠ .eof) :
    eofIn [(sid, "recv", (e.toRes : Res α))] = false := by
  cases hx : eofIn [(sid, "recv", (e.toRes : Res α))]
  · rfl
  · exact absurd ((eofIn_recv sid e).mp hx) h

theorem eofIn_msg (sid : Sid) (n : String) (m : List α) : eofIn [(sid, n, Res.msg m)] = false := by
  simp [eofIn, isEof]

/-! ## `readLoop`: the error outcome -/

theorem readLoop_err (q : List (DFrame α)) : ∀ (w : Nat) (st : RState α) (w' : Nat)
    (q' : List (DFrame α)) (cs : List Nat) (e : PErr),
    readLoop w q st = (w', q', cs, some (.err e)) →
    ∃ taken, q = taken ++ q' ∧ parse st taken = ([], .error e) := by
  induction q with
  | nil =>
    intro w st w' q' cs e h
    simp [readLoop] at h
  | cons f q ih =>
    intro w st w' q' cs e h
    simp only [readLoop] at h
    split at h
    · rename_i st1 hps
      generalize hr : readLoop (w + f.size) q st1 = r at h
      obtain ⟨w2, q2, cs2, r2⟩ := r
      simp only [Prod.mk.injEq] at h
      obtain ⟨_, h2, _, h4⟩ := h
      subst h2 h4
      obtain ⟨taken, hq, hp⟩ := ih _ _ _ _ _ _ hr
      exact ⟨f :: taken, by rw [hq]; rfl, by simp only [parse, hps]; exact hp⟩
    · rename_i m hps
      simp at h
    · rename_i e' hps
      simp only [Prod.mk.injEq, Option.some.injEq, PStep.err.injEq] at h
      obtain ⟨_, h2, _, h4⟩ := h
      subst h2 h4
      exact ⟨[f], rfl, by simp [parse, hps]⟩

/-! ## the client's read loop, exactly

  `RR s r`: what `resumeRead` does, in three cases.  `live`: it delivered what
  `parse` says and is ready to go on; `end`: the queue ran dry on a closed (or
  cancelled) receiver and the read returned the terminal result
  `done.getD .eof` (after handing over the message held by the look-ahead, if
  the terminal result is `io.EOF`); `err`: the frames do not reassemble (or a
  second response arrived for a non-server-stream method). -/

/-- the data fed so far cannot come from a well-behaved sender -/
def BadData (ss : Bool) (la : Bool) (acc : List (DFrame α)) : Prop :=
  (∃ ms e, parse none acc = (ms, .error e)) ∨ ((ss = false ∨ la = true) ∧ 2 ≤ (parse none acc).1.length)

/-- the pending read holds a message in its look-ahead -/
def hasLA (pr : Option (PRead α)) : Bool :=
  match pr with
  | some p => p.lookahead.isSome
  | none => false

structure RR (s : CStream α) (r : CStream α × COut α × Option SErr) : Prop where
  done : r.1.done = s.done
  closed : r.1.rcv.closed = s.rcv.closed
  cancelled : r.1.rcv.cancelled = s.rcv.cancelled
  ss : r.1.ss = s.ss
  la : hasLA r.1.pread = true → (s.ss = false ∨ hasLA s.pread = true)
  cases :
    (r.1.readErr = s.readErr ∧ eofIn r.2.1.dones = false ∧ r.2.2 = none ∧
      ∀ acc del, Acct s.rcv.queue false s.pread acc del →
        Acct r.1.rcv.queue false r.1.pread acc (del ++ msgsOfDones r.2.1.dones)) ∨
    ((s.rcv.closed || s.rcv.cancelled) = true ∧ r.1.readErr = some (s.done.getD .eof) ∧ r.1.pread = none ∧
      r.1.rcv.queue = [] ∧ r.2.2 = none ∧
      (eofIn r.2.1.dones = true → s.done.getD .eof = .eof) ∧
      (s.done.getD .eof = .eof → ∀ acc del, Acct s.rcv.queue false s.pread acc del →
        (parse none acc).1 = del ++ msgsOfDones r.2.1.dones)) ∨
    (∃ e, e ≠ .eof ∧ r.1.readErr = some e ∧ r.1.pread = none ∧ eofIn r.2.1.dones = false ∧ r.2.2 = some e ∧
      ∀ acc del, Acct s.rcv.queue false s.pread acc del → BadData s.ss (hasLA s.pread) acc)

theorem RR.refl (s : CStream α) : RR s (s, {}, none) :=
  ⟨rfl, rfl, rfl, rfl, fun h => Or.inr h,
   Or.inl ⟨rfl, rfl, rfl, fun acc del h => by simpa using h⟩⟩

theorem cperrStatus_ne_eof (e : PErr) : cperrStatus e ≠ .eof := by
  cases e <;> simp [cperrStatus]

theorem Acct.eof_result {q : List (DFrame α)} {pr : Option (PRead α)} {acc : List (DFrame α)}
    {del : List (List α)} (h : Acct q false pr acc del) (hq : q = []) :
    (parse none acc).1 = del ++ held pr := by
  obtain ⟨consumed, rest, hf, hr, hp⟩ := h
  have := hr rfl
  subst this hq
  rw [hf]
  simp [hp]

theorem Acct.bad_err {q q' taken : List (DFrame α)} {p : PRead α} {acc : List (DFrame α)}
    {del : List (List α)} {e : PErr} (h : Acct q false (some p) acc del) (hq : q = taken ++ q')
    (hp : parse p.rst taken = ([], .error e)) (ss la : Bool) : BadData ss la acc := by
  obtain ⟨consumed, rest, hf, hr, hpc⟩ := h
  left
  have h1 : parse none (consumed ++ taken) = (del ++ held (some p), .error e) := by
    rw [parse_append_ok hpc, show rstOf (some p) = p.rst from rfl, hp]
    simp
  refine ⟨del ++ held (some p), e, ?_⟩
  rw [hf, hq, List.append_assoc, ← List.append_assoc consumed taken]
  exact parse_append_err h1 _

theorem Acct.bad_two {q q' taken : List (DFrame α)} {p : PRead α} {acc : List (DFrame α)}
    {del : List (List α)} {m m2 : List α} (h : Acct q false (some p) acc del) (hq : q = taken ++ q')
    (hl : p.lookahead = some m) (hp : parse p.rst taken = ([m2], .ok none)) (ss : Bool) :
    BadData ss true acc := by
  obtain ⟨consumed, rest, hf, hr, hpc⟩ := h
  right
  refine ⟨Or.inr rfl, ?_⟩
  have h1 : parse none (consumed ++ taken) = (del ++ [m] ++ [m2], .ok none) := by
    rw [parse_append_ok hpc, show rstOf (some p) = p.rst from rfl, hp]
    simp [held, hl]
  have h2 := parse_msgs_prefix none (consumed ++ taken) (q' ++ rest)
  rw [h1] at h2
  have h3 : acc = (consumed ++ taken) ++ (q' ++ rest) := by rw [hf, hq]; simp
  rw [h3]
  have := h2.length_le
  simp only [List.length_append, List.length_cons, List.length_nil] at this
  omega

theorem resumeRead_rr (sid : Sid) : ∀ (fuel : Nat) (s : CStream α), RR s (s.resumeRead sid fuel) := by
  intro fuel
  induction fuel with
  | zero => intro s; exact RR.refl s
  | succ fuel ih =>
    intro s
    unfold CStream.resumeRead
    split
    · exact RR.refl s
    · rename_i p hp
      generalize hr : readLoop s.rcv.rwin s.rcv.queue p.rst = r
      obtain ⟨rwin, q, credits, out⟩ := r
      dsimp -zeta only
      extract_lets cf rcv0 s1 failWith e
      have hq1 : s1.rcv.queue = q := rfl
      have hc1 : s1.rcv.closed = s.rcv.closed := rfl
      have hx1 : s1.rcv.cancelled = s.rcv.cancelled := rfl
      have hd1 : s1.done = s.done := rfl
      have hss1 : s1.ss = s.ss := rfl
      have hre1 : s1.readErr = s.readErr := rfl
      have he : e = s.done.getD .eof := rfl
      have hla : hasLA s.pread = p.lookahead.isSome := by rw [hp]; rfl
      obtain ⟨taken, hqt, hcont, hmsg, hne⟩ := readLoop_parse _ _ _ _ _ _ _ hr
      -- completing the call with an error
      have hfw : ∀ (e' : SErr) (b : Bool),
          (failWith s1 e' b).1.done = s.done ∧ (failWith s1 e' b).1.rcv.closed = s.rcv.closed ∧
          (failWith s1 e' b).1.rcv.cancelled = s.rcv.cancelled ∧ (failWith s1 e' b).1.ss = s.ss ∧
          (failWith s1 e' b).1.pread = none ∧ (failWith s1 e' b).1.readErr = some e' ∧
          (failWith s1 e' b).1.rcv.queue = q ∧
          (failWith s1 e' b).2.1.dones = [(sid, "recv", e'.toRes)] ∧
          (failWith s1 e' b).2.2 = (if b then none else some e') := by
        intro e' b
        exact ⟨rfl, rfl, rfl, rfl, rfl, rfl, rfl, rfl, rfl⟩
      clear_value s1 failWith cf e
      split
      · -- the queue ran dry
        rename_i st'
        obtain ⟨hq', hpt⟩ := hcont st' rfl
        split
        · rename_i hcl
          have hcl' : (s.rcv.closed || s.rcv.cancelled) = true := by rw [← hc1, ← hx1]; exact hcl
          split
          · -- the look-ahead found the end of the stream
            rename_i m hl
            refine ⟨hd1, hc1, hx1, hss1, (fun h => by cases h), Or.inr (Or.inl
              ⟨hcl', by rw [← he], rfl, by rw [hq1, hq'], rfl, (fun h => by
                rw [eofIn_msg] at h; cases h), fun _ acc del ha => ?_⟩)⟩
            rw [hp] at ha
            have := Acct.eof_result (ha.read_cont hr rfl) hq'
            simpa [held, hl, msgsOfDones] using this
          · -- the terminal result
            rename_i e _ _ hnot
            obtain ⟨f1, f2, f3, f4, f5, f6, f7, f8, f9⟩ := hfw e true
            refine ⟨f1, f2, f3, f4, (fun h => by rw [f5] at h; cases h), Or.inr (Or.inl
              ⟨hcl', by rw [f6, he], f5, by rw [f7, hq'], by rw [f9]; rfl, fun h => ?_, fun heof acc del ha => ?_⟩)⟩
            · rw [f8] at h
              rw [← he]
              exact (eofIn_recv sid e).mp h
            · rw [f8, msgsOfDones_toRes, List.append_nil]
              rw [hp] at ha
              have := Acct.eof_result (ha.read_cont hr rfl) hq'
              cases hl : p.lookahead with
              | none => simpa [held, hl] using this
              | some m => exact absurd (he.trans heof) (hnot m hl)
        · -- the read stays blocked
          refine ⟨hd1, hc1, hx1, hss1, fun h => Or.inr (by rw [hla]; exact h), Or.inl
            ⟨hre1, rfl, rfl, fun acc del ha => ?_⟩⟩
          rw [hp] at ha
          show Acct s1.rcv.queue false (some { lookahead := p.lookahead, rst := st' }) acc (del ++ [])
          rw [List.append_nil, hq1]
          exact ha.read_cont hr rfl
      · -- a complete message
        rename_i m
        have hpt := hmsg m rfl
        split
        · -- a second response
          rename_i m0 hl
          obtain ⟨f1, f2, f3, f4, f5, f6, f7, f8, f9⟩ := hfw
            (.status (mkStatus codeInternal "Server sent multiple responses for non-server-stream method")) false
          refine ⟨f1, f2, f3, f4, (fun h => by rw [f5] at h; cases h), Or.inr (Or.inr
            ⟨_, by simp, f6, f5, by rw [f8]; exact eofIn_recv_ne _ _ (by simp), by rw [f9]; rfl,
             fun acc del ha => ?_⟩)⟩
          rw [hp] at ha
          rw [hla, hl]
          exact Acct.bad_two ha hqt hl hpt _
        · rename_i hl
          split
          · -- delivered
            refine ⟨hd1, hc1, hx1, hss1, (fun h => by cases h), Or.inl
              ⟨hre1, eofIn_msg _ _ _, rfl, fun acc del ha => ?_⟩⟩
            rw [hp] at ha
            show Acct s1.rcv.queue false none acc (del ++ msgsOfDones [(sid, "recv", Res.msg m)])
            rw [hq1]
            exact (ha.read_msg hr rfl hl).1
          · -- the eager second read
            rename_i hss
            dsimp only
            have h2 := ih ({ s1 with pread := some { lookahead := some m, rst := none } } : CStream α)
            have hss' : s.ss = false := by rw [← hss1]; simpa using hss
            refine ⟨h2.done.trans hd1, h2.closed.trans hc1, h2.cancelled.trans hx1, h2.ss.trans hss1,
              fun _ => Or.inl hss', ?_⟩
            have hacc : ∀ acc del, Acct s.rcv.queue false s.pread acc del →
                Acct q false (some { lookahead := some m, rst := none }) acc del := by
              intro acc del ha
              rw [hp] at ha
              exact (ha.read_msg hr rfl hl).2
            have hdn : ∀ (o : COut α), (({ frames := cf } : COut α).add o).dones = o.dones := by
              intro o; simp [COut.add]
            rcases h2.cases with ⟨a1, a2, a3, a4⟩ | ⟨a1, a2, a3, a4, a5, a6, a7⟩ | ⟨e', a1, a2, a3, a4, a5, a6⟩
            · refine Or.inl ⟨a1.trans hre1, by rw [hdn]; exact a2, a3, fun acc del ha => ?_⟩
              rw [hdn]
              exact a4 acc del (by rw [hq1]; exact hacc acc del ha)
            · refine Or.inr (Or.inl ⟨by rw [← hc1, ← hx1]; exact a1, by rw [a2, hd1], a3, a4, a5,
                by rw [hdn]; intro h; rw [← hd1]; exact a6 h, fun heof acc del ha => ?_⟩)
              rw [hdn]
              exact a7 (by rw [hd1]; exact heof) acc del (by rw [hq1]; exact hacc acc del ha)
            · refine Or.inr (Or.inr ⟨e', a1, a2, a3, by rw [hdn]; exact a4, a5, fun acc del ha => ?_⟩)
              have := a6 acc del (by rw [hq1]; exact hacc acc del ha)
              rcases this with h | ⟨_, h⟩
              · exact Or.inl h
              · exact Or.inr ⟨Or.inl hss', h⟩
      · -- a reassembly error
        rename_i pe
        obtain ⟨taken', hqt', hpe⟩ := readLoop_err _ _ _ _ _ _ _ hr
        obtain ⟨f1, f2, f3, f4, f5, f6, f7, f8, f9⟩ := hfw (cperrStatus pe) false
        refine ⟨f1, f2, f3, f4, (fun h => by rw [f5] at h; cases h), Or.inr (Or.inr
          ⟨_, cperrStatus_ne_eof pe, f6, f5, by rw [f8]; exact eofIn_recv_ne _ _ (cperrStatus_ne_eof pe),
           by rw [f9]; rfl, fun acc del ha => ?_⟩)⟩
        rw [hp] at ha
        exact Acct.bad_err ha hqt' hpe _ _
      · exact absurd rfl hne

/-! ## phase 1 of a client run: as long as no close frame with an OK status has
   been accepted, no `RecvMsg` returns `io.EOF` -/

/-- the terminal result is not `io.EOF`, neither is the sticky read error; a
    closed or cancelled receiver means the RPC has its terminal result; a
    look-ahead exists only on a non-server-stream method -/
def PreInv0 (s : CStream α) : Prop :=
  s.done ≠ some .eof ∧ s.readErr ≠ some .eof ∧
  ((s.rcv.closed = true ∨ s.rcv.cancelled = true) → s.done.isSome = true) ∧
  (hasLA s.pread = true → s.ss = false)

/-- the contract of a client building block in phase 1 -/
structure PB (s : CStream α) (r : CStream α × COut α) : Prop where
  inv : PreInv0 s → PreInv0 r.1
  noeof : PreInv0 s → eofIn r.2.dones = false
  keep : ∀ d, s.done = some d → r.1.done = some d
  re : PreInv0 s → (s.readErr.isSome = true → s.done.isSome = true) →
    r.1.readErr.isSome = true → r.1.done.isSome = true

theorem PB.refl (s : CStream α) : PB s (s, {}) :=
  ⟨id, fun _ => rfl, fun _ h => h, fun _ h => h⟩

theorem PB.seq {s a b : CStream α} {o1 o2 : COut α} (h1 : PB s (a, o1)) (h2 : PB a (b, o2)) :
    PB s (b, o1.add o2) :=
  ⟨fun hi => h2.inv (h1.inv hi),
   fun hi => by
     show eofIn (o1.dones ++ o2.dones) = false
     rw [eofIn_append, h1.noeof hi, h2.noeof (h1.inv hi)]; rfl,
   fun d hd => h2.keep d (h1.keep d hd),
   fun hi hr => h2.re (h1.inv hi) (h1.re hi hr)⟩

/-- a block that only touches fields the invariant does not look at -/
theorem PB.of_fields {s : CStream α} {r : CStream α × COut α} (hd : r.1.done = s.done)
    (hre : r.1.readErr = s.readErr) (hc : r.1.rcv.closed = s.rcv.closed)
    (hx : r.1.rcv.cancelled = s.rcv.cancelled) (hp : r.1.pread = s.pread) (hss : r.1.ss = s.ss)
    (ho : eofIn r.2.dones = false) : PB s r :=
  ⟨fun ⟨h1, h2, h3, h4⟩ => ⟨by rw [hd]; exact h1, by rw [hre]; exact h2,
      by rw [hc, hx, hd]; exact h3, by rw [hp, hss]; exact h4⟩,
   fun _ => ho, fun d h => by rw [hd]; exact h,
   fun _ h => by rw [hre, hd]; exact h⟩

theorem getD_of_isSome {s : CStream α} (h : s.done.isSome = true) : s.done = some (s.done.getD .eof) := by
  cases hd : s.done with
  | none => rw [hd] at h; cases h
  | some d => rfl

/-- what a read pass does to the phase-1 invariant -/
theorem rr_pre {s : CStream α} {r : CStream α × COut α × Option SErr} (h : RR s r) (hi : PreInv0 s) :
    PreInv0 r.1 ∧ eofIn r.2.1.dones = false ∧
    (r.2.2 = none → (s.readErr.isSome = true → s.done.isSome = true) →
      r.1.readErr.isSome = true → r.1.done.isSome = true) ∧
    (∀ e, r.2.2 = some e → e ≠ .eof) := by
  obtain ⟨h1, h2, h3, h4⟩ := hi
  have hla : hasLA r.1.pread = true → r.1.ss = false := by
    intro hl
    rw [h.ss]
    rcases h.la hl with h' | h'
    · exact h'
    · exact h4 h'
  have hcl : (r.1.rcv.closed = true ∨ r.1.rcv.cancelled = true) → r.1.done.isSome = true := by
    rw [h.closed, h.cancelled, h.done]; exact h3
  rcases h.cases with ⟨a1, a2, a3, _⟩ | ⟨a1, a2, a3, a4, a5, a6, _⟩ | ⟨e, a1, a2, a3, a4, a5, _⟩
  · refine ⟨⟨by rw [h.done]; exact h1, by rw [a1]; exact h2, hcl, hla⟩, a2, fun _ hr => ?_, fun e he => ?_⟩
    · rw [a1, h.done]; exact hr
    · rw [a3] at he; cases he
  · have hds : s.done.isSome = true := h3 (by simpa [Bool.or_eq_true] using a1)
    have hne : s.done.getD .eof ≠ .eof := fun hh => h1 (by rw [getD_of_isSome hds, hh])
    refine ⟨⟨by rw [h.done]; exact h1, by rw [a2]; exact fun hh => hne (Option.some.inj hh), hcl, hla⟩, ?_,
      fun _ _ _ => by rw [h.done]; exact hds, fun e he => by rw [a5] at he; cases he⟩
    cases hx : eofIn r.2.1.dones with
    | false => rfl
    | true => exact absurd (a6 hx) hne
  · refine ⟨⟨by rw [h.done]; exact h1, by rw [a2]; exact fun hh => a1 (Option.some.inj hh), hcl, hla⟩, a4,
      (fun hn => by rw [a5] at hn; cases hn), fun e' he => ?_⟩
    rw [a5] at he
    cases he
    exact a1

theorem ctxEnds_pb (sid : Sid) (s : CStream α) (e : CtxErr) (b : Bool) : PB s (s.ctxEnds sid e b) := by
  cases hc : s.ctxDone with
  | some c => rw [ClientShape.ctxEnds_done sid s e b (by simp [hc])]; exact PB.refl s
  | none =>
    rw [ClientShape.ctxEnds_eq sid s e b hc]
    refine PB.of_fields rfl rfl rfl rfl rfl rfl ?_
    cases s.psend <;> cases s.pheader <;> simp [eofIn]

theorem mapFinishErr_ne_eof {err : Option SErr} (h : err ≠ none) (h' : err ≠ some .eof) :
    mapFinishErr err ≠ .eof := by
  cases err with
  | none => exact absurd rfl h
  | some e =>
    cases e with
    | eof => exact absurd rfl h'
    | ctx c => cases c <;> simp [mapFinishErr]
    | status st => simp [mapFinishErr]
    | plain t => simp [mapFinishErr]

theorem finish_pb (sid : Sid) (s : CStream α) (err : Option SErr) (tr : MD)
    (he : mapFinishErr err ≠ .eof) :
    PB s ((s.finish sid err tr).1, (s.finish sid err tr).2.1) ∧
    (s.finish sid err tr).1.done.isSome = true := by
  cases hd : s.done with
  | some d =>
    rw [ClientShape.finish_done sid s err tr (by simp [hd])]
    exact ⟨PB.refl s, by simp [hd]⟩
  | none =>
    rw [ClientShape.finish_eq sid s err tr hd]
    have hrr := resumeRead_rr sid 3 (ClientShape.finPre s err tr)
    have hpre : PreInv0 s → PreInv0 (ClientShape.finPre s err tr) := by
      intro ⟨_, h2, _, h4⟩
      exact ⟨fun hh => he (Option.some.inj hh), h2, fun _ => rfl, h4⟩
    have hdone : ((ClientShape.finPre s err tr).resumeRead sid 3).1.done = some (mapFinishErr err) := hrr.done
    have hb1 : PB s (((ClientShape.finPre s err tr).resumeRead sid 3).1,
        ({ dones := if s.pheader then [(sid, "header", Res.md s.headers)] else [] } : COut α).add
          ((ClientShape.finPre s err tr).resumeRead sid 3).2.1) := by
      refine ⟨fun hi => (rr_pre hrr (hpre hi)).1, fun hi => ?_, (fun d h => by rw [hd] at h; cases h),
        (fun _ _ _ => by rw [hdone]; rfl)⟩
      show eofIn (_ ++ _) = false
      rw [eofIn_append, (rr_pre hrr (hpre hi)).2.1]
      cases s.pheader <;> simp [eofIn]
    have hb2 := ctxEnds_pb sid ((ClientShape.finPre s err tr).resumeRead sid 3).1 .canceled false
    refine ⟨hb1.seq hb2, ?_⟩
    rw [hb2.keep _ hdone]; rfl

theorem cancelStream_pb (sid : Sid) (s : CStream α) (err : SErr) (he : err ≠ .eof) :
    PB s (s.cancelStream sid err) ∧ (s.cancelStream sid err).1.done.isSome = true := by
  have hm : mapFinishErr (some err) ≠ .eof := mapFinishErr_ne_eof (by simp) (by simpa using he)
  cases hd : s.done with
  | some d =>
    rw [ClientShape.cancelStream_done sid s err (by simp [hd])]
    exact ⟨PB.refl s, by simp [hd]⟩
  | none =>
    rw [ClientShape.cancelStream_eq sid s err hd]
    obtain ⟨hf, hfd⟩ := finish_pb sid s (some err) [] hm
    refine ⟨hf.seq ?_, hfd⟩
    refine ⟨fun ⟨h1, h2, h3, h4⟩ => ⟨h1, h2, fun _ => hfd, h4⟩, fun _ => rfl, fun d h => h, fun _ h => h⟩

theorem afterRead_pb (sid : Sid) (fuel : Nat) (s : CStream α) :
    PB s (CStream.afterRead sid (s.resumeRead sid fuel)) := by
  have hrr := resumeRead_rr sid fuel s
  rw [ClientShape.afterRead_eq]
  split
  · rename_i hn
    exact ⟨fun hi => (rr_pre hrr hi).1, fun hi => (rr_pre hrr hi).2.1, fun d h => by rw [hrr.done]; exact h,
      fun hi hr => (rr_pre hrr hi).2.2.1 hn hr⟩
  · rename_i e hs
    have hb := fun hi => cancelStream_pb sid (s.resumeRead sid fuel).1 e ((rr_pre hrr hi).2.2.2 e hs)
    refine ⟨fun hi => (hb hi).1.inv (rr_pre hrr hi).1, fun hi => ?_, fun d h => ?_, fun hi _ _ => (hb hi).2⟩
    · show eofIn (_ ++ _) = false
      rw [eofIn_append, (rr_pre hrr hi).2.1, (hb hi).1.noeof (rr_pre hrr hi).1]; rfl
    · rw [ClientShape.cancelStream_done sid _ e (by rw [hrr.done, h]; rfl), hrr.done]; exact h

theorem ctxCancelled_pb (sid : Sid) (s : CStream α) (e : CtxErr) : PB s (s.ctxCancelled sid e) := by
  cases hc : s.ctxDone with
  | some c => rw [ClientShape.ctxCancelled_done sid s e (by simp [hc])]; exact PB.refl s
  | none =>
    rw [ClientShape.ctxCancelled_eq sid s e hc]
    exact (ctxEnds_pb sid s e _).seq (cancelStream_pb sid _ (.ctx e) (by simp)).1

theorem PB.pre {s s0 : CStream α} {r : CStream α × COut α} (h : PB s0 r) (hd : s0.done = s.done)
    (hre : s0.readErr = s.readErr) (hc : s0.rcv.closed = s.rcv.closed)
    (hx : s0.rcv.cancelled = s.rcv.cancelled) (hla : hasLA s0.pread = true → hasLA s.pread = true)
    (hss : s0.ss = s.ss) : PB s r := by
  have hi : PreInv0 s → PreInv0 s0 := fun ⟨h1, h2, h3, h4⟩ =>
    ⟨by rw [hd]; exact h1, by rw [hre]; exact h2, by rw [hc, hx, hd]; exact h3,
     fun hl => by rw [hss]; exact h4 (hla hl)⟩
  exact ⟨fun h' => h.inv (hi h'), fun h' => h.noeof (hi h'), fun d h' => h.keep d (by rw [hd]; exact h'),
    fun h' hr => h.re (hi h') (by rw [hre, hd]; exact hr)⟩

theorem cpumpSend_noeof (cfg : CCfg) (sid : Sid) (s : CStream α) (snd : Snd α) :
    eofIn (s.pumpSend cfg sid snd).2.dones = false := by
  unfold CStream.pumpSend
  split
  · dsimp only
    split
    · simp [eofIn]
    · split <;> simp [eofIn]
  · simp [eofIn]

theorem cpumpSend_pb (cfg : CCfg) (sid : Sid) (s : CStream α) (snd : Snd α) :
    PB s (s.pumpSend cfg sid snd) := by
  obtain ⟨w, ps, h, -⟩ := ClientShape.pumpSend_shape cfg sid s snd
  refine PB.of_fields ?_ ?_ ?_ ?_ ?_ ?_ (cpumpSend_noeof cfg sid s snd) <;> rw [h]

/-- a close frame carrying an OK status -/
def isCloseOK : S2C α → Bool
  | .close st _ => st.code == 0
  | _ => false

def cevCloseOK : CEv α → Bool
  | .frame f => isCloseOK f
  | _ => false

theorem dataFrame_pb (sid : Sid) (s : CStream α) (df : DFrame α) :
    PB s (ClientShape.dataFrame sid s df) := by
  unfold ClientShape.dataFrame
  split
  · rcases accept_cases s.rcv df with ⟨_, ha⟩ | ⟨_, ha⟩ | ⟨_, ha⟩
    · rw [ha]; exact PB.refl s
    · rw [ha]; exact (finish_pb sid s _ [] (by simp [mapFinishErr])).1
    · rw [ha]
      exact (afterRead_pb sid 3 _).pre rfl rfl rfl rfl id rfl
  · split
    · exact PB.refl s
    · split
      · exact PB.of_fields rfl rfl rfl rfl rfl rfl rfl
      · exact (afterRead_pb sid 3 _).pre rfl rfl rfl rfl id rfl

theorem onFrame_pb (cfg : CCfg) (sid : Sid) (s : CStream α) (f : S2C α)
    (h : isCloseOK f = false ∨ s.done.isSome = true) : PB s (s.onFrame cfg sid f) := by
  cases f with
  | settings w rv => rw [ClientShape.onFrame_settings]; exact (finish_pb sid s _ [] (by simp [mapFinishErr])).1
  | headers md =>
    simp only [CStream.onFrame]
    split
    · exact PB.refl s
    · split
      · exact PB.of_fields rfl rfl rfl rfl rfl rfl (by simp [eofIn])
      · exact PB.of_fields rfl rfl rfl rfl rfl rfl rfl
  | msg size d => rw [ClientShape.onFrame_msg]; exact dataFrame_pb sid s _
  | more d => rw [ClientShape.onFrame_more]; exact dataFrame_pb sid s _
  | close st tr =>
    rw [ClientShape.onFrame_close]
    rcases h with h | h
    · have hc : st.code ≠ 0 := by simpa [isCloseOK] using h
      exact (finish_pb sid s _ tr (by simp [statusErr, hc, mapFinishErr])).1
    · rw [ClientShape.finish_done sid s _ tr h]; exact PB.refl s
  | windowUpdate n =>
    simp only [CStream.onFrame]
    split
    · exact PB.refl s
    · split
      · exact PB.of_fields rfl rfl rfl rfl rfl rfl rfl
      · exact (cpumpSend_pb cfg sid _ _).pre rfl rfl rfl rfl id rfl
  | unset => rw [ClientShape.onFrame_unset]; exact (finish_pb sid s _ [] (by simp [mapFinishErr])).1

theorem onCall_pb (cfg : CCfg) (sid : Sid) (s : CStream α) (c : CCall α) : PB s (s.onCall cfg sid c) := by
  cases c with
  | send m =>
    simp only [CStream.onCall]
    split
    · exact PB.of_fields rfl rfl rfl rfl rfl rfl (by simp [eofIn])
    · exact (cpumpSend_pb cfg sid _ _).pre rfl rfl rfl rfl id rfl
  | closeSend =>
    simp only [CStream.onCall]
    split
    · exact PB.of_fields rfl rfl rfl rfl rfl rfl (by simp [eofIn])
    · split
      · exact PB.of_fields rfl rfl rfl rfl rfl rfl (by simp [eofIn])
      · exact PB.of_fields rfl rfl rfl rfl rfl rfl (by simp [eofIn])
  | recv =>
    simp only [CStream.onCall]
    split
    · rename_i e he
      refine ⟨id, fun hi => ?_, fun _ h => h, fun _ h => h⟩
      exact eofIn_recv_ne sid e (fun hh => hi.2.1 (by rw [he, hh]))
    · exact (afterRead_pb sid 3 _).pre rfl rfl rfl rfl (fun h => by cases h) rfl
  | header =>
    simp only [CStream.onCall]
    split
    · exact PB.of_fields rfl rfl rfl rfl rfl rfl (by simp [eofIn])
    · split
      · exact PB.of_fields rfl rfl rfl rfl rfl rfl (by simp [eofIn])
      · exact PB.of_fields rfl rfl rfl rfl rfl rfl rfl
  | trailer => exact PB.of_fields rfl rfl rfl rfl rfl rfl (by simp [CStream.onCall, eofIn])
  | cancel => exact ctxCancelled_pb sid s .canceled

theorem stepEv_pb (cfg : CCfg) (sid : Sid) (s : CStream α) (e : CEv α)
    (h : cevCloseOK e = false ∨ s.done.isSome = true) : PB s (s.stepEv cfg sid e) := by
  cases e with
  | frame f => exact onFrame_pb cfg sid s f h
  | call c => exact onCall_pb cfg sid s c
  | ctx e => exact ctxCancelled_pb sid s e

/-- some `RecvMsg` of the run returned `io.EOF` -/
def sawRecvEof (outs : List (COut α)) : Bool := outs.any (fun o => eofIn o.dones)

theorem sawRecvEof_append (a b : List (COut α)) : sawRecvEof (a ++ b) = (sawRecvEof a || sawRecvEof b) := by
  simp [sawRecvEof, List.any_append]

theorem sawRecvEof_cons (o : COut α) (os : List (COut α)) :
    sawRecvEof (o :: os) = (eofIn o.dones || sawRecvEof os) := rfl

/-- the phase-1 invariant, with the part that holds between two steps only -/
def PreInv (s : CStream α) : Prop :=
  PreInv0 s ∧ (s.readErr.isSome = true → s.done.isSome = true)

theorem noeof_run (cfg : CCfg) (sid : Sid) (evs : List (CEv α)) : ∀ (s : CStream α), PreInv s →
    ((∀ e ∈ evs, cevCloseOK e = false) ∨ s.done.isSome = true) →
    PreInv (CStream.runEv cfg sid s evs).1 ∧ sawRecvEof (CStream.runEv cfg sid s evs).2 = false := by
  induction evs with
  | nil => intro s hi _; exact ⟨hi, rfl⟩
  | cons e es ih =>
    intro s hi hev
    have hb : PB s (s.stepEv cfg sid e) := stepEv_pb cfg sid s e (by
      rcases hev with h | h
      · exact Or.inl (h e (List.mem_cons_self ..))
      · exact Or.inr h)
    have hev' : (∀ e ∈ es, cevCloseOK e = false) ∨ (s.stepEv cfg sid e).1.done.isSome = true := by
      rcases hev with h | h
      · exact Or.inl (fun e' he' => h e' (List.mem_cons_of_mem _ he'))
      · right
        obtain ⟨d, hd⟩ := Option.isSome_iff_exists.mp h
        rw [hb.keep d hd]; rfl
    have := ih _ ⟨hb.inv hi.1, hb.re hi.1 hi.2⟩ hev'
    rw [crunEv_cons, sawRecvEof_cons, hb.noeof hi.1]
    exact ⟨this.1, by rw [this.2]; rfl⟩

theorem CFresh.preInv {s0 : CStream α} (h : CFresh s0) : PreInv s0 := by
  obtain ⟨_, hc, hx, he, hp, hd, _⟩ := h
  refine ⟨⟨by rw [hd]; simp, by rw [he]; simp, ?_, by rw [hp]; intro h; cases h⟩, by rw [he]; intro h; cases h⟩
  rw [hc, hx]; intro h; rcases h with h | h <;> cases h

/-! ## phase 2 of a client run: the stream ended OK and the caller drains the queue -/

/-- the RPC ended OK (`done = some .eof`): either the reads are still going
    through the queue (`acc`: the data accepted while the receiver was open),
    or a read has returned `io.EOF` and then EVERYTHING accepted has been
    delivered, or the reads have failed (and none returned `io.EOF`) -/
def QInv (s : CStream α) (acc : List (DFrame α)) (del : List (List α)) (saw : Bool) : Prop :=
  s.done = some .eof ∧ s.rcv.closed = true ∧ s.pread = none ∧
  ((s.readErr = none ∧ saw = false ∧ Acct s.rcv.queue false none acc del) ∨
   (s.readErr = some .eof ∧ (parse none acc).1 = del) ∨
   (saw = false ∧ ∃ e, s.readErr = some e ∧ e ≠ .eof))

/-- a read pass on a stream that ended OK, from the draining state -/
theorem rr_q {s : CStream α} {r : CStream α × COut α × Option SErr} (h : RR s r)
    (hd : s.done = some .eof) (hc : s.rcv.closed = true) (hre : s.readErr = none)
    (hp : r.1.pread = none) {acc : List (DFrame α)} {del : List (List α)}
    (ha : Acct s.rcv.queue false s.pread acc del) :
    QInv r.1 acc (del ++ msgsOfDones r.2.1.dones) (eofIn r.2.1.dones) := by
  refine ⟨h.done.trans hd, h.closed.trans hc, hp, ?_⟩
  rcases h.cases with ⟨a1, a2, a3, a4⟩ | ⟨a1, a2, a3, a4, a5, a6, a7⟩ | ⟨e, a1, a2, a3, a4, a5, a6⟩
  · refine Or.inl ⟨a1.trans hre, a2, ?_⟩
    have := a4 acc del ha
    rw [hp] at this
    exact this
  · have hg : s.done.getD .eof = .eof := by rw [hd]; rfl
    exact Or.inr (Or.inl ⟨by rw [a2, hg], a7 hg acc del ha⟩)
  · exact Or.inr (Or.inr ⟨a4, e, a2, a1⟩)

/-- the contract of a client step in phase 2 -/
def QB (s : CStream α) (r : CStream α × COut α) : Prop :=
  ∀ acc del saw, QInv s acc del saw → QInv r.1 acc (del ++ msgsOfDones r.2.dones) (saw || eofIn r.2.dones)

theorem QB.refl (s : CStream α) : QB s (s, {}) := by
  intro acc del saw h
  simpa using h

theorem QB.of_fields {s : CStream α} {r : CStream α × COut α} (hd : r.1.done = s.done)
    (hre : r.1.readErr = s.readErr) (hc : r.1.rcv = s.rcv) (hp : r.1.pread = s.pread)
    (hm : msgsOfDones r.2.dones = []) (ho : eofIn r.2.dones = false) : QB s r := by
  intro acc del saw h
  rw [hm, ho, List.append_nil, Bool.or_false]
  unfold QInv at *
  rw [hd, hre, hc, hp]
  exact h

theorem QB.seq {s a b : CStream α} {o1 o2 : COut α} (h1 : QB s (a, o1)) (h2 : QB a (b, o2)) :
    QB s (b, o1.add o2) := by
  intro acc del saw h
  have := h2 _ _ _ (h1 acc del saw h)
  show QInv b acc (del ++ msgsOfDones (o1.dones ++ o2.dones)) (saw || eofIn (o1.dones ++ o2.dones))
  rw [msgsOfDones_append, eofIn_append, ← List.append_assoc, ← Bool.or_assoc]
  exact this

theorem ctxEnds_qb (sid : Sid) (s : CStream α) (e : CtxErr) (b : Bool) : QB s (s.ctxEnds sid e b) := by
  cases hc : s.ctxDone with
  | some c => rw [ClientShape.ctxEnds_done sid s e b (by simp [hc])]; exact QB.refl s
  | none =>
    rw [ClientShape.ctxEnds_eq sid s e b hc]
    refine QB.of_fields rfl rfl rfl rfl ?_ ?_
    · cases s.psend <;> cases s.pheader <;> cases s.gotHeaders <;> cases b <;> simp [msgsOfDones]
    · cases s.psend <;> cases s.pheader <;> simp [eofIn]

theorem ctxCancelled_qb (sid : Sid) (s : CStream α) (e : CtxErr) : QB s (s.ctxCancelled sid e) := by
  intro acc del saw h
  cases hc : s.ctxDone with
  | some c => rw [ClientShape.ctxCancelled_done sid s e (by simp [hc])]; exact QB.refl s acc del saw h
  | none =>
    rw [ClientShape.ctxCancelled_eq sid s e hc]
    have hd : (s.ctxEnds sid e s.done.isNone).1.done.isSome = true := by
      rw [ClientShape.ctxEnds_eq sid s e _ hc]
      show s.done.isSome = true
      rw [h.1]; rfl
    rw [ClientShape.cancelStream_done sid _ (.ctx e) hd]
    exact (ctxEnds_qb sid s e _).seq (QB.refl _) acc del saw h

theorem cpumpSend_msgs (cfg : CCfg) (sid : Sid) (s : CStream α) (snd : Snd α) :
    msgsOfDones (s.pumpSend cfg sid snd).2.dones = [] := by
  unfold CStream.pumpSend
  split
  · dsimp only
    split
    · rfl
    · split <;> rfl
  · rfl

theorem cpumpSend_qb (cfg : CCfg) (sid : Sid) (s : CStream α) (snd : Snd α) :
    QB s (s.pumpSend cfg sid snd) := by
  obtain ⟨w, ps, h, -⟩ := ClientShape.pumpSend_shape cfg sid s snd
  refine QB.of_fields ?_ ?_ ?_ ?_ (cpumpSend_msgs cfg sid s snd) (cpumpSend_noeof cfg sid s snd) <;> rw [h]

theorem QB.pre {s s0 : CStream α} {r : CStream α × COut α} (h : QB s0 r) (hd : s0.done = s.done)
    (hre : s0.readErr = s.readErr) (hc : s0.rcv = s.rcv) (hp : s0.pread = s.pread) : QB s r := by
  intro acc del saw hq
  apply h
  unfold QInv at *
  rw [hd, hre, hc, hp]
  exact hq

theorem recv_qb (sid : Sid) (s : CStream α) (hre : s.readErr = none) :
    QB s (CStream.afterRead sid
      (({ s with pread := some { lookahead := none, rst := none } } : CStream α).resumeRead sid 3)) := by
  intro acc del saw h
  obtain ⟨hd, hc, hp, hcase⟩ := h
  have hlive : saw = false ∧ Acct s.rcv.queue false none acc del := by
    rcases hcase with ⟨_, h2, h3⟩ | ⟨h1, _⟩ | ⟨_, e, h1, _⟩
    · exact ⟨h2, h3⟩
    · rw [hre] at h1; cases h1
    · rw [hre] at h1; cases h1
  have hrr := resumeRead_rr sid 3 ({ s with pread := some { lookahead := none, rst := none } } : CStream α)
  have hpn : (({ s with pread := some { lookahead := none, rst := none } } : CStream α).resumeRead sid 3).1.pread
      = none := ClientShape.resumeRead_closed sid 1 _ (by simp [hc])
  have hq := rr_q hrr hd hc hre hpn (acc := acc) (del := del) (hlive.2.start rfl)
  rw [hlive.1, Bool.false_or, ClientShape.afterRead_eq]
  split
  · exact hq
  · rename_i e he
    rw [ClientShape.cancelStream_done sid _ e (by rw [hq.1]; rfl)]
    show QInv _ acc (del ++ msgsOfDones (_ ++ [])) (eofIn (_ ++ []))
    rw [List.append_nil]
    exact hq

theorem onCall_qb (cfg : CCfg) (sid : Sid) (s : CStream α) (c : CCall α) : QB s (s.onCall cfg sid c) := by
  cases c with
  | send m =>
    simp only [CStream.onCall]
    split
    · exact QB.of_fields rfl rfl rfl rfl rfl (by simp [eofIn])
    · exact (cpumpSend_qb cfg sid _ _).pre rfl rfl rfl rfl
  | closeSend =>
    simp only [CStream.onCall]
    split
    · exact QB.of_fields rfl rfl rfl rfl (msgsOfDones_toRes _ _ _) (by simp [eofIn])
    · split
      · exact QB.of_fields rfl rfl rfl rfl rfl (by simp [eofIn])
      · exact QB.of_fields rfl rfl rfl rfl rfl (by simp [eofIn])
  | recv =>
    simp only [CStream.onCall]
    split
    · rename_i e he
      intro acc del saw h
      obtain ⟨hd, hc, hp, hcase⟩ := h
      show QInv s acc (del ++ msgsOfDones [(sid, "recv", (e.toRes : Res α))]) (saw || eofIn [(sid, "recv", e.toRes)])
      rw [msgsOfDones_toRes, List.append_nil]
      refine ⟨hd, hc, hp, ?_⟩
      rcases hcase with ⟨h1, _⟩ | ⟨h1, h2⟩ | ⟨h0, e', h1, h2⟩
      · rw [he] at h1; cases h1
      · exact Or.inr (Or.inl ⟨h1, h2⟩)
      · refine Or.inr (Or.inr ⟨?_, e', h1, h2⟩)
        rw [he] at h1; cases h1
        rw [h0, eofIn_recv_ne sid e h2]; rfl
    · rename_i hre
      exact recv_qb sid s hre
  | header =>
    simp only [CStream.onCall]
    split
    · exact QB.of_fields rfl rfl rfl rfl rfl (by simp [eofIn])
    · split
      · exact QB.of_fields rfl rfl rfl rfl rfl (by simp [eofIn])
      · exact QB.of_fields rfl rfl rfl rfl rfl rfl
  | trailer => exact QB.of_fields rfl rfl rfl rfl rfl (by simp [CStream.onCall, eofIn])
  | cancel => exact ctxCancelled_qb sid s .canceled

/-- the event is a frame -/
def cevIsFrame : CEv α → Bool
  | .frame _ => true
  | _ => false

theorem stepEv_qb (cfg : CCfg) (sid : Sid) (s : CStream α) (e : CEv α) (h : cevIsFrame e = false) :
    QB s (s.stepEv cfg sid e) := by
  cases e with
  | frame f => cases h
  | call c => exact onCall_qb cfg sid s c
  | ctx e => exact ctxCancelled_qb sid s e

theorem post_run (cfg : CCfg) (sid : Sid) (evs : List (CEv α)) : ∀ (s : CStream α) (acc : List (DFrame α))
    (del : List (List α)) (saw : Bool), QInv s acc del saw → (∀ e ∈ evs, cevIsFrame e = false) →
    QInv (CStream.runEv cfg sid s evs).1 acc (del ++ COut.deliveredMsgs (CStream.runEv cfg sid s evs).2)
      (saw || sawRecvEof (CStream.runEv cfg sid s evs).2) := by
  induction evs with
  | nil =>
    intro s acc del saw h _
    simpa [CStream.runEv, COut.deliveredMsgs, sawRecvEof] using h
  | cons e es ih =>
    intro s acc del saw h hev
    have h1 := stepEv_qb cfg sid s e (hev e (List.mem_cons_self ..)) acc del saw h
    have h2 := ih _ _ _ _ h1 (fun e' he' => hev e' (List.mem_cons_of_mem _ he'))
    rw [crunEv_cons, cdeliveredMsgs_cons, sawRecvEof_cons, ← List.append_assoc, ← Bool.or_assoc]
    exact h2

/-- what `QInv` says at the end: a `RecvMsg` that returned `io.EOF` means everything was delivered -/
theorem QInv.complete {s : CStream α} {acc : List (DFrame α)} {del : List (List α)}
    (h : QInv s acc del true) : (parse none acc).1 = del := by
  rcases h.2.2.2 with ⟨_, h2, _⟩ | ⟨_, h2⟩ | ⟨h2, _⟩
  · cases h2
  · exact h2
  · cases h2

/-- the close frame with an OK status arrives on a stream that has no terminal result yet -/
theorem close_step (cfg : CCfg) (sid : Sid) (s : CStream α) (st : Status) (tr : MD) (hst : st.code = 0)
    (hd : s.done = none) (hre : s.readErr = none) {acc : List (DFrame α)} {del : List (List α)}
    (ha : Acct s.rcv.queue false s.pread acc del) :
    QInv (s.onFrame cfg sid (.close st tr)).1 acc
      (del ++ msgsOfDones (s.onFrame cfg sid (.close st tr)).2.dones)
      (eofIn (s.onFrame cfg sid (.close st tr)).2.dones) := by
  rw [ClientShape.onFrame_close, ClientShape.finish_eq sid s _ tr hd]
  have hse : statusErr st = none := by simp [statusErr, hst]
  rw [hse]
  have hrr := resumeRead_rr sid 3 (ClientShape.finPre s none tr)
  have hpn : ((ClientShape.finPre s none tr).resumeRead sid 3).1.pread = none :=
    ClientShape.resumeRead_closed sid 1 _ (by simp [ClientShape.finPre, RcvQ.close])
  have hq := rr_q hrr (s := ClientShape.finPre s none tr) rfl rfl hre hpn (acc := acc) (del := del) ha
  have h1 : QB ((ClientShape.finPre s none tr).resumeRead sid 3).1
      (((ClientShape.finPre s none tr).resumeRead sid 3).1.ctxEnds sid .canceled false) := ctxEnds_qb sid _ _ _
  have h2 := h1 _ _ _ hq
  dsimp only
  have hm : ∀ (ds : List (Sid × String × Res α)),
      msgsOfDones ((if s.pheader then [(sid, "header", Res.md s.headers)] else []) ++ ds) = msgsOfDones ds := by
    intro ds; cases s.pheader <;> simp [msgsOfDones]
  have he : ∀ (ds : List (Sid × String × Res α)),
      eofIn ((if s.pheader then [(sid, "header", Res.md s.headers)] else []) ++ ds) = eofIn ds := by
    intro ds; cases s.pheader <;> simp [eofIn]
  simp only [COut.add, List.append_assoc, hm, he]
  rw [msgsOfDones_append, eofIn_append, ← List.append_assoc]
  exact h2

/-! ## the client, end to end -/

theorem filterMap_eq_append_singleton {β γ : Type} (f : β → Option γ) : ∀ (l : List β) (a : List γ) (x : γ),
    l.filterMap f = a ++ [x] →
    ∃ pre y post, l = pre ++ y :: post ∧ f y = some x ∧ pre.filterMap f = a ∧ ∀ z ∈ post, f z = none := by
  intro l
  induction l with
  | nil => intro a x h; simp at h
  | cons z l ih =>
    intro a x h
    cases hz : f z with
    | none =>
      rw [List.filterMap_cons_none hz] at h
      obtain ⟨pre, y, post, h1, h2, h3, h4⟩ := ih a x h
      exact ⟨z :: pre, y, post, by rw [h1]; rfl, h2, by rw [List.filterMap_cons_none hz]; exact h3, h4⟩
    | some w =>
      rw [List.filterMap_cons_some hz] at h
      cases a with
      | nil =>
        simp only [List.nil_append, List.cons.injEq] at h
        refine ⟨[], z, l, rfl, by rw [hz, h.1], rfl, ?_⟩
        exact fun z' hz' => List.filterMap_eq_nil_iff.mp h.2 z' hz'
      | cons w' a' =>
        simp only [List.cons_append, List.cons.injEq] at h
        obtain ⟨pre, y, post, h1, h2, h3, h4⟩ := ih a' x h.2
        exact ⟨z :: pre, y, post, by rw [h1]; rfl, h2, by rw [List.filterMap_cons_some hz, h3, h.1], h4⟩

/-- the frames fed to a client stream end with `c`: the events split there -/
theorem fedFramesC_split (cevs : List (CEv α)) (body : List (S2C α)) (c : S2C α)
    (h : C01.fedFramesC cevs = body ++ [c]) :
    ∃ pre post, cevs = pre ++ .frame c :: post ∧ C01.fedFramesC pre = body ∧
      ∀ e ∈ post, cevIsFrame e = false := by
  obtain ⟨pre, y, post, h1, h2, h3, h4⟩ := filterMap_eq_append_singleton _ cevs body c h
  refine ⟨pre, post, ?_, h3, fun e he => ?_⟩
  · cases y with
    | frame f => simp only [Option.some.injEq] at h2; rw [h1, h2]
    | call c => cases h2
    | ctx e => cases h2
  · have := h4 e he
    cases e with
    | frame f => cases this
    | call c => rfl
    | ctx e => rfl

theorem legalRecvsC_append (cfg : CCfg) (sid : Sid) (pre post : List (CEv α)) : ∀ (s : CStream α),
    legalRecvsC cfg sid s (pre ++ post) =
      (legalRecvsC cfg sid s pre && legalRecvsC cfg sid (CStream.runEv cfg sid s pre).1 post) := by
  induction pre with
  | nil => intro s; rfl
  | cons e es ih =>
    intro s
    simp only [List.cons_append, legalRecvsC, ih, crunEv_cons, Bool.and_assoc]

theorem cdeliveredMsgs_append (a b : List (COut α)) :
    COut.deliveredMsgs (a ++ b) = COut.deliveredMsgs a ++ COut.deliveredMsgs b := by
  simp [COut.deliveredMsgs]

theorem cfedData_append (a b : List (CEv α)) : CEv.fedData (a ++ b) = CEv.fedData a ++ CEv.fedData b := by
  simp [CEv.fedData]

theorem cfedData_noframes (evs : List (CEv α)) (h : ∀ e ∈ evs, cevIsFrame e = false) : CEv.fedData evs = [] := by
  induction evs with
  | nil => rfl
  | cons e es ih =>
    rw [cfedData_cons, ih (fun e' he' => h e' (List.mem_cons_of_mem _ he'))]
    have := h e (List.mem_cons_self ..)
    cases e with
    | frame f => cases this
    | call c => rfl
    | ctx e => rfl

/-- **Client completeness.**  A freshly created client stream is fed frames
    ending with the frame `c`, no frame before `c` being a close frame with an
    OK status; some `RecvMsg` of the caller returned `io.EOF`.  Then `c` IS a
    close frame with an OK status, and the caller has obtained ALL complete
    messages of the data frames fed (in order, once). -/
theorem client_eof_complete (cfg : CCfg) (sid : Sid) (c0 : CStream α) (h0 : CFresh c0)
    (cevs : List (CEv α)) (hl : legalRecvsC cfg sid c0 cevs = true)
    (hfu : c0.fc = true ∨ (CStream.runEv cfg sid c0 cevs).1.unsupported = false)
    (body : List (S2C α)) (c : S2C α) (hfed : C01.fedFramesC cevs = body ++ [c])
    (hbody : ∀ f ∈ body, isCloseOK f = false)
    (heof : sawRecvEof (CStream.runEv cfg sid c0 cevs).2 = true) :
    isCloseOK c = true ∧
    COut.deliveredMsgs (CStream.runEv cfg sid c0 cevs).2 = (parse none (CEv.fedData cevs)).1 := by
  obtain ⟨pre, post, hsplit, hpre, hpost⟩ := fedFramesC_split cevs body c hfed
  subst hsplit
  rw [legalRecvsC_append, Bool.and_eq_true] at hl
  obtain ⟨hl1, hl2⟩ := hl
  rw [Emission.c_runEv_append] at hfu heof ⊢
  dsimp only at hfu heof ⊢
  -- phase 1
  have hpreOK : ∀ e ∈ pre, cevCloseOK e = false := by
    intro e he
    cases e with
    | frame f =>
      apply hbody
      rw [← hpre]
      exact List.mem_filterMap.mpr ⟨_, he, rfl⟩
    | call c => rfl
    | ctx e => rfl
  obtain ⟨hinv1, hsaw1⟩ := noeof_run cfg sid pre c0 (CFresh.preInv h0) (Or.inl hpreOK)
  rw [sawRecvEof_append, hsaw1, Bool.false_or] at heof
  -- the close frame must be OK and arrive on an open stream
  have hcase : isCloseOK c = true ∧ (CStream.runEv cfg sid c0 pre).1.done = none := by
    cases hd : (CStream.runEv cfg sid c0 pre).1.done with
    | some d =>
      have := (noeof_run cfg sid (.frame c :: post) _ hinv1 (Or.inr (by rw [hd]; rfl))).2
      rw [this] at heof; cases heof
    | none =>
      cases hc : isCloseOK c with
      | true => exact ⟨rfl, rfl⟩
      | false =>
        have := (noeof_run cfg sid (.frame c :: post) _ hinv1 (Or.inl (by
          intro e he
          rcases List.mem_cons.mp he with rfl | he
          · exact hc
          · have := hpost e he
            cases e with
            | frame f => cases this
            | call c => rfl
            | ctx e => rfl))).2
        rw [this] at heof; cases heof
  obtain ⟨hcok, hd1⟩ := hcase
  refine ⟨hcok, ?_⟩
  cases c with
  | close st tr =>
    have hst : st.code = 0 := by simpa [isCloseOK] using hcok
    -- the accounting at the end of phase 1
    have hfu1 : c0.fc = true ∨ (CStream.runEv cfg sid c0 pre).1.unsupported = false := by
      rcases hfu with h | h
      · exact Or.inl h
      · right
        cases hu : (CStream.runEv cfg sid c0 pre).1.unsupported with
        | false => rfl
        | true =>
          rw [crunEv_unsupported cfg sid _ _ hl2 hu] at h; cases h
    have hci := crunEv_inv cfg sid pre c0 [] [] h0.inv hl1 hfu1
    simp only [List.nil_append] at hci
    have hre1 : (CStream.runEv cfg sid c0 pre).1.readErr = none := by
      cases hr : (CStream.runEv cfg sid c0 pre).1.readErr with
      | none => rfl
      | some e =>
        have := hinv1.2 (by rw [hr]; rfl)
        rw [hd1] at this; cases this
    have hcl1 : (CStream.runEv cfg sid c0 pre).1.rcv.closed = false := by
      cases hc : (CStream.runEv cfg sid c0 pre).1.rcv.closed with
      | false => rfl
      | true =>
        have := hinv1.1.2.2.1 (Or.inl hc)
        rw [hd1] at this; cases this
    have hacct : Acct (CStream.runEv cfg sid c0 pre).1.rcv.queue false (CStream.runEv cfg sid c0 pre).1.pread
        (CEv.fedData pre) (COut.deliveredMsgs (CStream.runEv cfg sid c0 pre).2) := by
      have h2 := hci.2
      rw [hre1, hcl1] at h2
      rcases h2 with ⟨_, hb, _⟩ | ⟨_, ha⟩
      · cases hb
      · exact ha
    -- the close frame, then phase 2
    rw [crunEv_cons] at heof ⊢
    dsimp only at heof ⊢
    have hq := close_step cfg sid _ st tr hst hd1 hre1 hacct
    have hq2 := post_run cfg sid post _ _ _ _ hq hpost
    rw [sawRecvEof_cons] at heof
    replace heof : (eofIn (CStream.onFrame cfg sid (CStream.runEv cfg sid c0 pre).1 (.close st tr)).2.dones ||
      sawRecvEof (CStream.runEv cfg sid
        (CStream.onFrame cfg sid (CStream.runEv cfg sid c0 pre).1 (.close st tr)).1 post).2) = true := heof
    rw [heof] at hq2
    have hfin := hq2.complete
    rw [cdeliveredMsgs_append, cdeliveredMsgs_cons, cfedData_append, cfedData_cons,
      cfedData_noframes post hpost]
    show _ = (parse none (CEv.fedData pre ++ ([] ++ []))).1
    rw [List.append_nil, List.append_nil, hfin, List.append_assoc]
    rfl
  | settings w rv => cases hcok
  | headers md => cases hcok
  | msg n d => cases hcok
  | more d => cases hcok
  | windowUpdate n => cases hcok
  | unset => cases hcok

/-! ## the server: a close frame with an OK status is only ever caused by the
   handler returning OK (or its unary reply completing) -/

/-- the error carries no status with code 0 -/
def nz (e : SErr) : Prop := ∀ st, e = .status st → st.code ≠ 0

def nzo (o : Option SErr) : Prop := ∀ e, o = some e → nz e

theorem nz_eof : nz .eof := fun _ h => by cases h
theorem nz_ctx (c : CtxErr) : nz (.ctx c) := fun _ h => by cases h
theorem nz_plain (t : String) : nz (.plain t) := fun _ h => by cases h
theorem nz_status {st : Status} (h : st.code ≠ 0) : nz (.status st) := fun _ h' => by cases h'; exact h
theorem nz_perr (mn : String) (e : PErr) : nz (perrStatus mn e) := by
  cases e <;> exact nz_status (by simp [mkStatus, codeInvalidArgument])
theorem nz_flow : nz errFlowControl := nz_status (by decide)
theorem nzo_none : nzo none := fun _ h => by cases h
theorem nzo_some {e : SErr} (h : nz e) : nzo (some e) := fun _ h' => by cases h'; exact h

theorem wire_nz {e : SErr} (h : nz e) : (SErr.wireStatus (some e)).code ≠ 0 := by
  cases e with
  | eof => decide
  | ctx c => cases c <;> decide
  | status st => exact h st rfl
  | plain t => simp [SErr.wireStatus, mkStatus, codeUnknown]

/-- the sticky read error and the half-close error carry no OK status -/
def RH (s : SStream α) : Prop := nzo s.readErr ∧ nzo s.halfClosed

def isUnset : S2C α → Bool
  | .unset => true
  | _ => false

/-- no close frame with an OK status among the frames -/
def NoOK (o : Out α) : Prop := ∀ f ∈ o.frames, isCloseOK f.2 = false
/-- no frame of unknown kind among the frames -/
def NoUnset (o : Out α) : Prop := ∀ f ∈ o.frames, isUnset f.2 = false
/-- no completion with status code 0 -/
def DNZ (o : Out α) : Prop := ∀ d ∈ o.dones, ∀ c, d.2.2 = Res.status c → c ≠ 0

theorem NoOK.add {a b : Out α} (ha : NoOK a) (hb : NoOK b) : NoOK (a.add b) := by
  intro f hf
  rcases List.mem_append.mp hf with h | h
  · exact ha f h
  · exact hb f h

theorem NoUnset.add {a b : Out α} (ha : NoUnset a) (hb : NoUnset b) : NoUnset (a.add b) := by
  intro f hf
  rcases List.mem_append.mp hf with h | h
  · exact ha f h
  · exact hb f h

theorem DNZ.add {a b : Out α} (ha : DNZ a) (hb : DNZ b) : DNZ (a.add b) := by
  intro d hd
  rcases List.mem_append.mp hd with h | h
  · exact ha d h
  · exact hb d h

theorem NoOK.of_nil {o : Out α} (h : o.frames = []) : NoOK o := by
  intro f hf; rw [h] at hf; cases hf
theorem NoUnset.of_nil {o : Out α} (h : o.frames = []) : NoUnset o := by
  intro f hf; rw [h] at hf; cases hf
theorem DNZ.of_nil {o : Out α} (h : o.dones = []) : DNZ o := by
  intro d hd; rw [h] at hd; cases hd

/-- the contract of a server building block: `SB0` for the blocks through
    which the handler's OK return goes, `SB` for all the others -/
structure SB0 (s s' : SStream α) (o : Out α) : Prop where
  rh : RH s → RH s'
  nun : NoUnset o
  dnz : RH s → DNZ o

structure SB (s s' : SStream α) (o : Out α) : Prop extends SB0 s s' o where
  nok : RH s → NoOK o

theorem SB0.refl (s : SStream α) : SB0 s s {} :=
  ⟨id, NoUnset.of_nil rfl, fun _ => DNZ.of_nil rfl⟩
theorem SB.refl (s : SStream α) : SB s s {} := ⟨SB0.refl s, fun _ => NoOK.of_nil rfl⟩

theorem SB0.seq {s a b : SStream α} {o1 o2 : Out α} (h1 : SB0 s a o1) (h2 : SB0 a b o2) : SB0 s b (o1.add o2) :=
  ⟨fun h => h2.rh (h1.rh h), h1.nun.add h2.nun, fun h => (h1.dnz h).add (h2.dnz (h1.rh h))⟩

theorem SB.seq {s a b : SStream α} {o1 o2 : Out α} (h1 : SB s a o1) (h2 : SB a b o2) : SB s b (o1.add o2) :=
  ⟨h1.toSB0.seq h2.toSB0, fun h => (h1.nok h).add (h2.nok (h1.rh h))⟩

/-- a block that does not touch `readErr` / `halfClosed` -/
theorem SB.of_fields {s s' : SStream α} {o : Out α} (hr : s'.readErr = s.readErr)
    (hh : s'.halfClosed = s.halfClosed) (hok : NoOK o) (hun : NoUnset o) (hd : DNZ o) : SB s s' o :=
  ⟨⟨fun h => by unfold RH at *; rw [hr, hh]; exact h, hun, fun _ => hd⟩, fun _ => hok⟩

theorem SB0.pre {s s0 s' : SStream α} {o : Out α} (h : SB0 s0 s' o) (hr : s0.readErr = s.readErr)
    (hh : s0.halfClosed = s.halfClosed) : SB0 s s' o := by
  have hi : RH s → RH s0 := fun h' => by unfold RH at *; rw [hr, hh]; exact h'
  exact ⟨fun h' => h.rh (hi h'), h.nun, fun h' => h.dnz (hi h')⟩

theorem SB.pre {s s0 s' : SStream α} {o : Out α} (h : SB s0 s' o) (hr : s0.readErr = s.readErr)
    (hh : s0.halfClosed = s.halfClosed) : SB s s' o := by
  have hi : RH s → RH s0 := fun h' => by unfold RH at *; rw [hr, hh]; exact h'
  exact ⟨h.toSB0.pre hr hh, fun h' => h.nok (hi h')⟩

theorem SB0.of_pair {s0 : SStream α} {p : SStream α × Out α} {a : SStream α} {o : Out α} (h : p = (a, o))
    (hp : SB0 s0 p.1 p.2) : SB0 s0 a o := by
  rw [h] at hp; exact hp

theorem SB.of_pair {s0 : SStream α} {p : SStream α × Out α} {a : SStream α} {o : Out α} (h : p = (a, o))
    (hp : SB s0 p.1 p.2) : SB s0 a o := by
  rw [h] at hp; exact hp

/-! ### `finishCore`, `cancelCtx`, `finish` -/

theorem finishCore_fields (sid : Sid) (s : SStream α) (err : Option SErr) :
    (s.finishCore sid err).1.readErr = s.readErr ∧
    ((s.finishCore sid err).1.halfClosed = s.halfClosed ∨
      (s.finishCore sid err).1.halfClosed = some (err.getD .eof)) ∧
    (s.finishCore sid err).2.dones = [] := by
  simp only [SStream.finishCore, SStream.halfClose]
  split <;> split <;> simp_all

theorem finishCore_frames_mem (sid : Sid) (s : SStream α) (err : Option SErr) :
    ∀ f ∈ (s.finishCore sid err).2.frames,
      (∃ md, f.2 = S2C.headers md) ∨ (∃ tr, f.2 = S2C.close (SErr.wireStatus err) tr) := by
  intro f hf
  cases hc : s.closed <;> cases hh : s.halfClosed.isSome <;> cases hs : s.sentHeaders <;>
    simp [SStream.finishCore, SStream.halfClose, hc, hh, hs] at hf
  all_goals
    first
    | (rcases hf with rfl | rfl
       · exact Or.inl ⟨_, rfl⟩
       · exact Or.inr ⟨_, rfl⟩)
    | (subst hf; exact Or.inr ⟨_, rfl⟩)

theorem finishCore_sb0 (sid : Sid) (s : SStream α) (err : Option SErr) (he : nzo err) :
    SB0 s (s.finishCore sid err).1 (s.finishCore sid err).2 := by
  obtain ⟨h1, h2, h3⟩ := finishCore_fields sid s err
  refine ⟨fun ⟨a, b⟩ => ⟨by rw [h1]; exact a, ?_⟩, fun f hf => ?_, fun _ => DNZ.of_nil h3⟩
  · rcases h2 with h2 | h2
    · rw [h2]; exact b
    · rw [h2]
      cases err with
      | none => exact nzo_some nz_eof
      | some e => exact nzo_some (he e rfl)
  · rcases finishCore_frames_mem sid s err f hf with ⟨md, h⟩ | ⟨tr, h⟩ <;> rw [h] <;> rfl

theorem finishCore_sb (sid : Sid) (s : SStream α) (e : SErr) (he : nz e) :
    SB s (s.finishCore sid (some e)).1 (s.finishCore sid (some e)).2 := by
  refine ⟨finishCore_sb0 sid s _ (nzo_some he), fun _ f hf => ?_⟩
  rcases finishCore_frames_mem sid s _ f hf with ⟨md, h⟩ | ⟨tr, h⟩
  · rw [h]; rfl
  · rw [h]
    have := wire_nz he
    simpa [isCloseOK] using this

theorem DNZ.single_ctx (sid : Sid) (n : String) (e : CtxErr) :
    DNZ ({ dones := [(sid, n, Res.ctx e)] } : Out α) := by
  intro d hd c hc
  simp only [List.mem_singleton] at hd
  subst hd
  cases hc

theorem ccSend_sb (sid : Sid) (s : SStream α) (e : CtxErr) :
    SB s (Emission.ccSend sid s e).1 (Emission.ccSend sid s e).2 := by
  unfold Emission.ccSend
  split
  · dsimp only
    split
    · exact (finishCore_sb sid _ (.ctx e) (nz_ctx e)).pre rfl rfl
    · exact SB.of_fields rfl rfl (NoOK.of_nil rfl) (NoUnset.of_nil rfl) (DNZ.single_ctx _ _ _)
  · exact SB.refl s

theorem ccRead_sb (sid : Sid) (s : SStream α) (e : CtxErr) :
    SB s (Emission.ccRead sid s e).1 (Emission.ccRead sid s e).2 := by
  unfold Emission.ccRead
  have hset : ∀ (x : SStream α), x.readErr = some (.ctx e) → x.halfClosed = s.halfClosed → RH s → RH x := by
    intro x h1 h2 ⟨_, hb⟩
    exact ⟨by rw [h1]; exact nzo_some (nz_ctx e), by rw [h2]; exact hb⟩
  split
  · dsimp only
    split
    · have hf := finishCore_sb sid
        ({ s with pread := none, readErr := some (.ctx e), hstatus := .returned } : SStream α) (.ctx e) (nz_ctx e)
      have h1 : SB s ({ s with pread := none, readErr := some (.ctx e), hstatus := .returned } : SStream α)
          ({ dones := [(sid, "decode", Res.ctx e)] } : Out α) :=
        ⟨⟨hset _ rfl rfl, NoUnset.of_nil rfl, fun _ => DNZ.single_ctx _ _ _⟩, fun _ => NoOK.of_nil rfl⟩
      exact h1.seq hf
    · exact ⟨⟨hset _ rfl rfl, NoUnset.of_nil rfl, fun _ => DNZ.single_ctx _ _ _⟩, fun _ => NoOK.of_nil rfl⟩
  · exact SB.refl s

theorem cancelCtx_sb (sid : Sid) (s : SStream α) (e : CtxErr) :
    SB s (s.cancelCtx sid e).1 (s.cancelCtx sid e).2 := by
  by_cases h : s.ctxDone.isSome = true
  · unfold SStream.cancelCtx; rw [if_pos h]; exact SB.refl s
  · rw [Emission.s_cancelCtx_eq sid s e h]
    have h0 : SB s ({ s with ctxDone := some e, rcv := if s.fc then s.rcv.cancel else s.rcv.close } : SStream α)
        ({ events := [s!"ctxdone {sid} {if e == .canceled then "canceled" else "deadline"}"] } : Out α) :=
      SB.of_fields rfl rfl (NoOK.of_nil rfl) (NoUnset.of_nil rfl) (DNZ.of_nil rfl)
    exact (h0.seq (ccSend_sb sid _ e)).seq (ccRead_sb sid _ e)

/-- the error `finishStream` puts on the wire when it races with the handler -/
def raceErr (racing : Bool) (err : Option SErr) : Option SErr :=
  match racing, err with
  | true, some (.status st) => if st.code == codeUnknown then err else some (.status { st with alt := [codeUnknown] })
  | _, _ => err

theorem finish_eq (sid : Sid) (s : SStream α) (err : Option SErr) (b : Bool) :
    s.finish sid err b =
      (((s.finishCore sid (raceErr (b && s.ctxDone.isNone &&
          ((s.hstatus == .decoding && s.pread.isSome) || (s.finishAfterSend && s.psend.isSome))) err)).1.cancelCtx
          sid .canceled).1,
       ((s.finishCore sid (raceErr (b && s.ctxDone.isNone &&
          ((s.hstatus == .decoding && s.pread.isSome) || (s.finishAfterSend && s.psend.isSome))) err)).1.cancelCtx
          sid .canceled).2.add
        (s.finishCore sid (raceErr (b && s.ctxDone.isNone &&
          ((s.hstatus == .decoding && s.pread.isSome) || (s.finishAfterSend && s.psend.isSome))) err)).2) := rfl

theorem raceErr_none (r : Bool) : raceErr r none = none := by
  cases r <;> rfl

theorem raceErr_false (err : Option SErr) : raceErr false err = err := rfl

theorem raceErr_some (r : Bool) (e : SErr) (h : nz e) : ∃ e', raceErr r (some e) = some e' ∧ nz e' := by
  cases r with
  | false => exact ⟨e, rfl, h⟩
  | true =>
    cases e with
    | status st =>
      simp only [raceErr]
      split
      · exact ⟨_, rfl, h⟩
      · exact ⟨_, rfl, nz_status (h st rfl)⟩
    | eof => exact ⟨_, rfl, h⟩
    | ctx c => exact ⟨_, rfl, h⟩
    | plain t => exact ⟨_, rfl, h⟩

theorem raceErr_nzo (r : Bool) (err : Option SErr) (h : nzo err) : nzo (raceErr r err) := by
  cases err with
  | none => rw [raceErr_none]; exact nzo_none
  | some e =>
    obtain ⟨e', h1, h2⟩ := raceErr_some r e (h e rfl)
    rw [h1]; exact nzo_some h2

theorem SB0.swap {s a b : SStream α} {o1 o2 : Out α} (h1 : SB0 s a o1) (h2 : SB0 a b o2) : SB0 s b (o2.add o1) :=
  ⟨fun h => h2.rh (h1.rh h), h2.nun.add h1.nun, fun h => (h2.dnz (h1.rh h)).add (h1.dnz h)⟩

theorem SB.swap {s a b : SStream α} {o1 o2 : Out α} (h1 : SB s a o1) (h2 : SB a b o2) : SB s b (o2.add o1) :=
  ⟨h1.toSB0.swap h2.toSB0, fun h => (h2.nok (h1.rh h)).add (h1.nok h)⟩

theorem finish_sb0 (sid : Sid) (s : SStream α) (err : Option SErr) (b : Bool) (he : nzo err) :
    SB0 s (s.finish sid err b).1 (s.finish sid err b).2 := by
  rw [finish_eq]
  exact (finishCore_sb0 sid s _ (raceErr_nzo _ err he)).swap (cancelCtx_sb sid _ _).toSB0

theorem finish_sb (sid : Sid) (s : SStream α) (e : SErr) (b : Bool) (he : nz e) :
    SB s (s.finish sid (some e) b).1 (s.finish sid (some e) b).2 := by
  rw [finish_eq]
  obtain ⟨e', h1, h2⟩ := raceErr_some (b && s.ctxDone.isNone &&
    ((s.hstatus == .decoding && s.pread.isSome) || (s.finishAfterSend && s.psend.isSome))) e he
  rw [h1]
  exact (finishCore_sb sid s e' h2).swap (cancelCtx_sb sid _ _)

/-! ### the send side -/

theorem isData_of_good (f : DFrame α) (h : f ≠ .other) : Conformance.S.isData (dframeToS2C f) = true := by
  cases f with
  | env n d => rfl
  | more d => rfl
  | other => exact absurd rfl h

theorem map_frames_data (sid : Sid) (fs : List (DFrame α)) (hg : ∀ g ∈ fs, g ≠ .other)
    (f : Sid × S2C α) (hf : f ∈ fs.map (fun g => (sid, dframeToS2C g))) : Conformance.S.isData f.2 = true := by
  obtain ⟨g, hg', rfl⟩ := List.mem_map.mp hf
  exact isData_of_good g (hg g hg')

/-- the pump only emits data frames, and reports `ok` or a context error -/
theorem pumpSend_out (cfg : SCfg) (sid : Sid) (s : SStream α) (snd : Snd α) :
    (∀ f ∈ (s.pumpSend cfg sid snd).2.frames, Conformance.S.isData f.2 = true) ∧
    ((s.pumpSend cfg sid snd).2.dones = [] ∨ (s.pumpSend cfg sid snd).2.dones = [(sid, "send", Res.ok)] ∨
      ∃ e, (s.pumpSend cfg sid snd).2.dones = [(sid, "send", Res.ctx e)]) ∧
    ((s.pumpSend cfg sid snd).2.dones = [] ↔ (s.pumpSend cfg sid snd).1.psend.isSome = true) := by
  by_cases hfc : s.fc = true
  · simp only [SStream.pumpSend, hfc, if_true, pump]
    have hg := Emission.pumpFuel_good cfg.chunkMax (snd.rem.length + 1) s.win snd
    rcases hpf : pumpFuel cfg.chunkMax (snd.rem.length + 1) s.win snd with ⟨fs, w, _ | snd'⟩
    · rw [hpf] at hg; simp only at hg ⊢
      exact ⟨map_frames_data sid fs (fun g h => (hg g h).1), by simp, by simp⟩
    · rw [hpf] at hg; simp only at hg ⊢
      cases hc : s.ctxDone with
      | none => exact ⟨map_frames_data sid fs (fun g h => (hg g h).1), by simp, by simp⟩
      | some e => exact ⟨map_frames_data sid fs (fun g h => (hg g h).1), by simp, by simp⟩
  · have hfc' : s.fc = false := by simpa using hfc
    simp only [SStream.pumpSend, hfc', Bool.false_eq_true, if_false]
    have hg := Emission.sendAllFuel_good cfg.chunkMax (snd.rem.length + 1) snd
    exact ⟨map_frames_data sid _ (fun g h => (hg g h).1), by simp, by simp⟩

theorem isData_notOK {f : S2C α} (h : Conformance.S.isData f = true) : isCloseOK f = false ∧ isUnset f = false := by
  cases f <;> first | exact ⟨rfl, rfl⟩ | cases h

theorem pumpSend_sb (cfg : SCfg) (sid : Sid) (s : SStream α) (snd : Snd α) :
    SB s (s.pumpSend cfg sid snd).1 (s.pumpSend cfg sid snd).2 := by
  obtain ⟨w, ps, hs, _⟩ := Conformance.pumpSend_shape' cfg sid s snd
  obtain ⟨h1, h2, _⟩ := pumpSend_out cfg sid s snd
  refine SB.of_fields (by rw [hs]) (by rw [hs]) (fun f hf => (isData_notOK (h1 f hf)).1)
    (fun f hf => (isData_notOK (h1 f hf)).2) ?_
  intro d hd c hc
  rcases h2 with h2 | h2 | ⟨e, h2⟩ <;> rw [h2] at hd
  · cases hd
  · simp only [List.mem_singleton] at hd; subst hd; cases hc
  · simp only [List.mem_singleton] at hd; subst hd; cases hc

/-! ### the read side -/

theorem credit_wu (sid : Sid) (s : SStream α) (credits : List Nat) :
    ∀ f ∈ s.creditFrames sid credits, Conformance.S.isWindowUpdate f.2 = true := by
  intro f hf
  unfold SStream.creditFrames at hf
  split at hf
  · obtain ⟨n, _, rfl⟩ := List.mem_map.mp hf
    rfl
  · cases hf

theorem wu_notOK {f : S2C α} (h : Conformance.S.isWindowUpdate f = true) : isCloseOK f = false ∧ isUnset f = false := by
  cases f <;> first | exact ⟨rfl, rfl⟩ | cases h

theorem SB.leaf {s s' : SStream α} {o : Out α} (hh : s'.halfClosed = s.halfClosed)
    (hr : RH s → nzo s'.readErr) (hf : ∀ f ∈ o.frames, Conformance.S.isWindowUpdate f.2 = true)
    (hd : RH s → DNZ o) : SB s s' o :=
  ⟨⟨fun h => ⟨hr h, by rw [hh]; exact h.2⟩, fun f h => (wu_notOK (hf f h)).2, hd⟩,
   fun _ f h => (wu_notOK (hf f h)).1⟩

theorem DNZ.toRes {e : SErr} (h : nz e) (fr : List (Sid × S2C α)) (sid : Sid) (n : String) :
    DNZ ({ frames := fr, dones := [(sid, n, e.toRes)] } : Out α) := by
  intro d hd c hc
  simp only [List.mem_singleton] at hd
  subst hd
  cases e with
  | status st => simp only [SErr.toRes, Res.status.injEq] at hc; rw [← hc]; exact h st rfl
  | eof => cases hc
  | ctx x => cases hc
  | plain t => cases hc

theorem DNZ.msg (fr : List (Sid × S2C α)) (sid : Sid) (n : String) (m : List α) :
    DNZ ({ frames := fr, dones := [(sid, n, Res.msg m)] } : Out α) := by
  intro d hd c hc
  simp only [List.mem_singleton] at hd
  subst hd
  cases hc

theorem resumeRead_sb (sid : Sid) (mn : String) : ∀ (fuel : Nat) (s : SStream α),
    SB s (s.resumeRead sid mn fuel).1 (s.resumeRead sid mn fuel).2 := by
  intro fuel
  induction fuel with
  | zero => intro s; exact SB.refl s
  | succ n ih =>
    intro s
    rw [SStream.resumeRead]
    split
    · exact SB.refl s
    · rename_i p hp
      split
      rename_i rwin q credits out hrl
      dsimp only
      have hnz : RH s → nz (match s.ctxDone, s.halfClosed with
          | some c, _ => SErr.ctx c
          | none, some h => h
          | none, none => SErr.ctx CtxErr.canceled) := by
        intro h
        split
        · exact nz_ctx _
        · rename_i h' heq; exact h.2 _ heq
        · exact nz_ctx _
      have hnz2 : nz (.status (mkStatus codeInvalidArgument "Already received request for non-client-stream method")) :=
        nz_status (by decide)
      split
      · split
        · split
          · exact SB.leaf rfl (fun _ => nzo_some nz_eof) (credit_wu sid s credits) (fun _ => DNZ.msg _ _ _ _)
          · exact SB.leaf rfl (fun h => nzo_some (hnz h)) (credit_wu sid s credits)
              (fun h => DNZ.toRes (hnz h) _ _ _)
        · exact SB.leaf rfl (fun h => h.1) (credit_wu sid s credits) (fun _ => DNZ.of_nil rfl)
      · split
        · simp only [Bool.false_eq_true, ↓reduceIte]
          refine SB.seq ?_ (finish_sb sid _ _ _ hnz2)
          exact SB.leaf rfl (fun _ => nzo_some hnz2) (credit_wu sid s credits) (fun _ => DNZ.toRes hnz2 _ _ _)
        · split
          · exact SB.leaf rfl (fun h => h.1) (credit_wu sid s credits) (fun _ => DNZ.msg _ _ _ _)
          · refine SB.seq ?_ (ih _)
            exact SB.leaf rfl (fun h => h.1) (credit_wu sid s credits) (fun _ => DNZ.of_nil rfl)
      · simp only [Bool.false_eq_true, ↓reduceIte]
        refine SB.seq ?_ (finish_sb sid _ _ _ (nz_perr mn _))
        exact SB.leaf rfl (fun _ => nzo_some (nz_perr mn _)) (credit_wu sid s credits)
          (fun _ => DNZ.toRes (nz_perr mn _) _ _ _)
      · exact SB.leaf rfl (fun h => h.1) (credit_wu sid s credits) (fun _ => DNZ.of_nil rfl)

theorem finish_nun (sid : Sid) (s : SStream α) (err : Option SErr) (b : Bool) : NoUnset (s.finish sid err b).2 := by
  rw [finish_eq]
  refine (cancelCtx_sb sid _ _).nun.add (fun f hf => ?_)
  rcases finishCore_frames_mem sid s _ f hf with ⟨md, h⟩ | ⟨tr, h⟩ <;> rw [h] <;> rfl

theorem SB.post {s0 s s' : SStream α} {o : Out α} (h : SB s0 s o) (hr : s'.readErr = s.readErr)
    (hh : s'.halfClosed = s.halfClosed) : SB s0 s' o :=
  ⟨⟨fun h0 => by have := h.rh h0; unfold RH at *; rw [hr, hh]; exact this, h.nun, h.dnz⟩, h.nok⟩

/-- the error with which a unary handler returns when its decode callback fails -/
theorem decodeErr_nz (s : SStream α) (o : Out α) (a : Sid) (b : String) (r : Res α)
    (hfind : o.dones.find? (fun d => d.2.1 == "decode") = some (a, b, r)) (hrh : RH s) (hd : DNZ o) :
    nz (match (generalizing := false) r with
      | .eof => SErr.eof
      | .ctx e => .ctx e
      | .status c => s.readErr.getD (.status (mkStatus c ""))
      | _ => s.readErr.getD (.plain "?")) := by
  have hmem := List.mem_of_find?_eq_some hfind
  have hget : ∀ (d : SErr), nz d → nz (s.readErr.getD d) := by
    intro d hdn
    cases hr : s.readErr with
    | none => exact hdn
    | some e => exact hrh.1 e hr
  cases r with
  | eof => exact nz_eof
  | ctx e => exact nz_ctx e
  | status c => exact hget _ (nz_status (hd _ hmem c rfl))
  | ok => exact hget _ (nz_plain _)
  | msg m => exact hget _ (nz_plain _)
  | md m => exact hget _ (nz_plain _)
  | other t => exact hget _ (nz_plain _)

theorem afterDecode_sb (sid : Sid) (s0 s : SStream α) (o : Out α) (h : SB s0 s o) :
    SB s0 (s.afterDecode sid o).1 (s.afterDecode sid o).2 := by
  unfold SStream.afterDecode
  split
  · split
    · exact h.post rfl rfl
    · rename_i a b r hnm hfind
      dsimp only
      have hnz := fun h0 => decodeErr_nz s o a b r hfind (h.rh h0) (h.dnz h0)
      have hpre : RH s0 → RH ({ s with hstatus := .returned } : SStream α) := fun h0 => h.rh h0
      exact ⟨⟨fun h0 => (finish_sb sid _ _ _ (hnz h0)).rh (hpre h0), h.nun.add (finish_nun sid _ _ _),
        fun h0 => (h.dnz h0).add ((finish_sb sid _ _ _ (hnz h0)).dnz (hpre h0))⟩,
        fun h0 => (h.nok h0).add ((finish_sb sid _ _ _ (hnz h0)).nok (hpre h0))⟩
    · exact h
  · exact h

theorem readAndSettle_sb (sid : Sid) (s : SStream α) :
    SB s (s.readAndSettle sid).1 (s.readAndSettle sid).2 := by
  unfold SStream.readAndSettle
  exact afterDecode_sb sid s _ _ (resumeRead_sb sid "" 3 s)

theorem startRecv_sb (sid : Sid) (s : SStream α) : SB s (s.startRecv sid).1 (s.startRecv sid).2 := by
  unfold SStream.startRecv
  dsimp only
  split
  · rename_i e he
    refine afterDecode_sb sid s s _ ⟨⟨id, NoUnset.of_nil rfl, fun h => ?_⟩, fun _ => NoOK.of_nil rfl⟩
    exact DNZ.toRes (h.1 e he) _ _ _
  · split
    · rename_i c hc
      refine afterDecode_sb sid s _ _ ⟨⟨fun h => ⟨nzo_some (nz_ctx c), h.2⟩, NoUnset.of_nil rfl, fun _ => ?_⟩,
        fun _ => NoOK.of_nil rfl⟩
      exact DNZ.single_ctx _ _ _
    · exact (readAndSettle_sb sid _).pre rfl rfl

/-! ### the unary reply: `SendMsg(resp)` then `finishStream(err)` -/

/-- the error of the reply's own send, as `afterSend` reads it off the completions -/
def sendErr (o : Out α) : Option SErr :=
  match o.dones.find? (fun d => d.2.1 == "send") with
  | some (_, _, .ctx e) => some (.ctx e)
  | some (_, _, .status c) => some (.status (mkStatus c ""))
  | _ => none

theorem afterSend_eq (sid : Sid) (s : SStream α) (o : Out α) :
    s.afterSend sid o =
      if s.finishAfterSend && s.psend.isNone then
        ((({ s with finishAfterSend := false, hstatus := .returned } : SStream α).finish sid (sendErr o)).1,
         ({ o with dones := o.dones.filter (fun d => d.2.1 != "send") } : Out α).add
           (({ s with finishAfterSend := false, hstatus := .returned } : SStream α).finish sid (sendErr o)).2)
      else (s, o) := rfl

theorem sendErr_nzo (o : Out α) (hd : DNZ o) : nzo (sendErr o) := by
  unfold sendErr
  split
  · exact nzo_some (nz_ctx _)
  · rename_i a b c hfind
    exact nzo_some (nz_status (hd _ (List.mem_of_find?_eq_some hfind) c rfl))
  · exact nzo_none

theorem afterSend_sb0 (sid : Sid) (s0 s : SStream α) (o : Out α) (h : SB s0 s o) :
    SB0 s0 (s.afterSend sid o).1 (s.afterSend sid o).2 := by
  rw [afterSend_eq]
  split
  · have hpre : RH s0 → RH ({ s with finishAfterSend := false, hstatus := .returned } : SStream α) :=
      fun h0 => h.rh h0
    have hf := fun h0 => finish_sb0 sid ({ s with finishAfterSend := false, hstatus := .returned } : SStream α)
      (sendErr o) false (sendErr_nzo o (h.dnz h0))
    refine ⟨fun h0 => (hf h0).rh (hpre h0), NoUnset.add (fun f hf' => h.nun f hf') (finish_nun sid _ _ _),
      fun h0 => DNZ.add (fun d hd => h.dnz h0 d (List.mem_filter.mp hd).1) ((hf h0).dnz (hpre h0))⟩
  · exact h.toSB0

theorem afterSend_sb (sid : Sid) (s0 s : SStream α) (o : Out α) (h : SB s0 s o)
    (hn : (s.finishAfterSend && s.psend.isNone) = false) :
    SB s0 (s.afterSend sid o).1 (s.afterSend sid o).2 := by
  rw [afterSend_eq, hn]
  exact h

theorem sendFailedIn_ok (sid : Sid) : sendFailedIn [(sid, "send", (Res.ok : Res α))] = false := by
  simp [sendFailedIn]

/-- if the step of a unary reply's send (the `.reply` call itself, or a window
    update that resumes it) puts a close frame with an OK status on the wire,
    then the send has completed, successfully -/
theorem reply_ok (sid : Sid) (s : SStream α) (o : Out α) (hrh : RH s) (hnok : NoOK o)
    (hd : o.dones = [] ∨ o.dones = [(sid, "send", Res.ok)] ∨ ∃ e, o.dones = [(sid, "send", Res.ctx e)])
    (hps : o.dones = [] ↔ s.psend.isSome = true)
    (hok : ∃ f ∈ (s.afterSend sid o).2.frames, isCloseOK f.2 = true) :
    s.psend = none ∧ s.finishAfterSend = true ∧ sendFailedIn o.dones = false := by
  obtain ⟨f, hf, hfok⟩ := hok
  rw [afterSend_eq] at hf
  split at hf
  · rename_i hc
    simp only [Bool.and_eq_true, Option.isNone_iff_eq_none] at hc
    refine ⟨hc.2, hc.1, ?_⟩
    rcases hd with hd | hd | ⟨e, hd⟩
    · have := hps.mp hd
      rw [hc.2] at this; cases this
    · rw [hd]; exact sendFailedIn_ok sid
    · exfalso
      have he : sendErr o = some (.ctx e) := by
        unfold sendErr
        rw [hd]
        simp
      rw [he] at hf
      have hfin := (finish_sb sid ({ s with finishAfterSend := false, hstatus := .returned } : SStream α)
        (.ctx e) false (nz_ctx e)).nok hrh
      rcases List.mem_append.mp hf with hf | hf
      · rw [hnok f hf] at hfok; cases hfok
      · rw [hfin f hf] at hfok; cases hfok
  · rw [hnok f hf] at hfok; cases hfok

/-! ### frames and calls -/

theorem SB.pre_rh {s s0 s' : SStream α} {o : Out α} (h : SB s0 s' o) (hi : RH s → RH s0) : SB s s' o :=
  ⟨⟨fun h' => h.rh (hi h'), h.nun, fun h' => h.dnz (hi h')⟩, fun h' => h.nok (hi h')⟩

theorem halfClose_rh (s : SStream α) (e : SErr) (he : nz e) (h : RH s) : RH (s.halfClose e) := by
  unfold SStream.halfClose
  split
  · exact h
  · exact ⟨h.1, nzo_some he⟩

theorem dataFrame_sb (sid : Sid) (s : SStream α) (df : DFrame α) (r : SStream α × Out α)
    (hr : r =
      (if s.fc then
        match s.rcv.accept df with
        | (_, .dropped) => (s, {})
        | (_, .windowExceeded) => s.finish sid (some errFlowControl) true
        | (r, .ok) => ({ s with rcv := r } : SStream α).readAndSettle sid
      else
        if s.rcv.closed then (s, {})
        else if !s.rcv.queue.isEmpty then ({ s with unsupported := true }, {})
        else ({ s with rcv := { s.rcv with queue := [df] } } : SStream α).readAndSettle sid)) :
    SB s r.1 r.2 := by
  subst hr
  split
  · split
    · exact SB.refl s
    · exact finish_sb sid s _ _ nz_flow
    · exact (readAndSettle_sb sid _).pre (by rfl) (by rfl)
  · split
    · exact SB.refl s
    · split
      · exact SB.of_fields rfl rfl (NoOK.of_nil rfl) (NoUnset.of_nil rfl) (DNZ.of_nil rfl)
      · exact (readAndSettle_sb sid _).pre (by rfl) (by rfl)

theorem pumpSend_fas (cfg : SCfg) (sid : Sid) (s : SStream α) (snd : Snd α) :
    (s.pumpSend cfg sid snd).1.finishAfterSend = s.finishAfterSend := by
  obtain ⟨w, ps, hs, _⟩ := Conformance.pumpSend_shape' cfg sid s snd
  rw [hs]

/-- every frame keeps `RH`, emits no frame of unknown kind ... -/
theorem onFrame_sb0 (cfg : SCfg) (sid : Sid) (s : SStream α) (f : C2S α) :
    SB0 s (s.onFrame cfg sid f).1 (s.onFrame cfg sid f).2 := by
  cases f with
  | newStream m md rev win => exact SB0.refl s
  | msg size d => exact (dataFrame_sb sid s (.env size d) _ rfl).toSB0
  | more d => exact (dataFrame_sb sid s (.more d) _ rfl).toSB0
  | halfClose =>
    simp only [SStream.onFrame]
    split
    · exact SB0.refl s
    · exact ((readAndSettle_sb sid _).pre_rh (halfClose_rh s .eof nz_eof)).toSB0
  | cancel => exact (finish_sb sid s _ _ (nz_ctx _)).toSB0
  | windowUpdate n =>
    simp only [SStream.onFrame]
    split
    · exact SB0.refl s
    · split
      · exact ⟨fun h => h, NoUnset.of_nil rfl, fun _ => DNZ.of_nil rfl⟩
      · exact afterSend_sb0 sid s _ _ ((pumpSend_sb cfg sid _ _).pre (by rfl) (by rfl))
  | unset => exact (finish_sb sid s _ _ (nz_plain _)).toSB0

/-- ... and no close frame with an OK status, except a window update that
    resumes the blocked send of a unary reply -/
theorem onFrame_nok (cfg : SCfg) (sid : Sid) (s : SStream α) (f : C2S α) (hrh : RH s)
    (h : (∃ n, f = .windowUpdate n) → s.finishAfterSend = false ∨ s.psend = none) :
    NoOK (s.onFrame cfg sid f).2 := by
  cases f with
  | newStream m md rev win => exact NoOK.of_nil rfl
  | msg size d => exact (dataFrame_sb sid s (.env size d) _ rfl).nok hrh
  | more d => exact (dataFrame_sb sid s (.more d) _ rfl).nok hrh
  | halfClose =>
    simp only [SStream.onFrame]
    split
    · exact NoOK.of_nil rfl
    · exact ((readAndSettle_sb sid _).pre_rh (halfClose_rh s .eof nz_eof)).nok hrh
  | cancel => exact (finish_sb sid s _ _ (nz_ctx _)).nok hrh
  | windowUpdate n =>
    simp only [SStream.onFrame]
    split
    · exact NoOK.of_nil rfl
    · split
      · exact NoOK.of_nil rfl
      · rename_i snd hsnd
        rcases h ⟨n, rfl⟩ with h | h
        · refine (afterSend_sb sid s _ _ ((pumpSend_sb cfg sid _ _).pre (by rfl) (by rfl)) ?_).nok hrh
          rw [pumpSend_fas]
          show (s.finishAfterSend && _) = false
          rw [h]; rfl
        · exfalso
          have : s.psend = some snd := hsnd
          rw [h] at this; cases this
  | unset => exact (finish_sb sid s _ _ (nz_plain _)).nok hrh

theorem hdrStage_sb (sid : Sid) (s : SStream α) :
    SB s (Emission.hdrStage sid s).1 ({ frames := (Emission.hdrStage sid s).2 } : Out α) := by
  unfold Emission.hdrStage
  split
  · exact SB.refl s
  · refine SB.of_fields rfl rfl ?_ ?_ (DNZ.of_nil rfl)
    · intro f hf; simp only [List.mem_singleton] at hf; subst hf; rfl
    · intro f hf; simp only [List.mem_singleton] at hf; subst hf; rfl

theorem onCall_sb0 (cfg : SCfg) (sid : Sid) (s : SStream α) (c : HCall α) :
    SB0 s (s.onCall cfg sid c).1 (s.onCall cfg sid c).2 ∧
    ((∀ st, c ≠ .ret st) → (∀ m, c ≠ .reply m) → RH s → NoOK (s.onCall cfg sid c).2) := by
  have hsb : ∀ {s' : SStream α} {o : Out α}, SB s s' o → SB0 s s' o ∧ ((∀ st, c ≠ .ret st) → (∀ m, c ≠ .reply m) →
      RH s → NoOK o) := fun h => ⟨h.toSB0, fun _ _ hr => h.nok hr⟩
  cases c with
  | recv => exact hsb (startRecv_sb sid s)
  | send m =>
    rw [Emission.s_send_eq]
    dsimp only
    split
    · have hh := hdrStage_sb sid s
      refine hsb ⟨⟨hh.rh, fun f hf => hh.nun f hf, fun _ => ?_⟩, fun h0 f hf => hh.nok h0 f hf⟩
      intro d hd c hc
      simp only [List.mem_singleton] at hd
      subst hd
      simp only [Res.status.injEq] at hc
      rw [← hc]; decide
    · exact hsb ((hdrStage_sb sid s).seq ((pumpSend_sb cfg sid _ _).pre (by rfl) (by rfl)))
  | setHeader md =>
    simp only [SStream.onCall]
    split
    · exact hsb (SB.of_fields rfl rfl (NoOK.of_nil rfl) (NoUnset.of_nil rfl)
        (by intro d hd c hc; simp only [List.mem_singleton] at hd; subst hd; cases hc))
    · exact hsb (SB.of_fields rfl rfl (NoOK.of_nil rfl) (NoUnset.of_nil rfl)
        (by intro d hd c hc; simp only [List.mem_singleton] at hd; subst hd; cases hc))
  | sendHeader md =>
    simp only [SStream.onCall]
    split
    · exact hsb (SB.of_fields rfl rfl (NoOK.of_nil rfl) (NoUnset.of_nil rfl)
        (by intro d hd c hc; simp only [List.mem_singleton] at hd; subst hd; cases hc))
    · exact hsb (SB.of_fields rfl rfl
        (by intro f hf; simp only [List.mem_singleton] at hf; subst hf; rfl)
        (by intro f hf; simp only [List.mem_singleton] at hf; subst hf; rfl)
        (by intro d hd c hc; simp only [List.mem_singleton] at hd; subst hd; cases hc))
  | setTrailer md =>
    simp only [SStream.onCall]
    split
    · exact hsb (SB.of_fields rfl rfl (NoOK.of_nil rfl) (NoUnset.of_nil rfl)
        (by intro d hd c hc; simp only [List.mem_singleton] at hd; subst hd; cases hc))
    · exact hsb (SB.of_fields rfl rfl (NoOK.of_nil rfl) (NoUnset.of_nil rfl)
        (by intro d hd c hc; simp only [List.mem_singleton] at hd; subst hd; cases hc))
  | ret st =>
    refine ⟨?_, fun h _ => absurd rfl (h st)⟩
    simp only [SStream.onCall]
    have he : nzo (if st.code = 0 then none else some (SErr.status st)) := by
      split
      · exact nzo_none
      · rename_i hc; exact nzo_some (nz_status hc)
    exact ((finish_sb0 sid _ _ _ he).pre (by rfl) (by rfl)).seq
      (SB.of_fields (o := { events := [s!"returned {sid}"] }) rfl rfl (NoOK.of_nil rfl) (NoUnset.of_nil rfl)
        (DNZ.of_nil rfl)).toSB0
  | reply m =>
    refine ⟨?_, fun _ h => absurd rfl (h m)⟩
    rw [Emission.s_reply_eq]
    dsimp only
    exact afterSend_sb0 sid s _ _ ((hdrStage_sb sid s).seq ((pumpSend_sb cfg sid _ _).pre (by rfl) (by rfl)))

/-! ### one step of a server stream -/

theorem stepEv_sb0 (cfg : SCfg) (sid : Sid) (s : SStream α) (e : SEv α) :
    SB0 s (s.stepEv cfg sid e).1 (s.stepEv cfg sid e).2 := by
  cases e with
  | frame f => exact onFrame_sb0 cfg sid s f
  | call c => exact (onCall_sb0 cfg sid s c).1
  | ctx e => exact (cancelCtx_sb sid s e).toSB0

/-- **the cause of an OK close frame**: the handler returned, or its unary
    reply was issued, or a window update resumed the blocked unary reply -/
theorem ok_cause (cfg : SCfg) (sid : Sid) (s : SStream α) (e : SEv α) (hrh : RH s)
    (hok : ∃ f ∈ (s.stepEv cfg sid e).2.frames, isCloseOK f.2 = true) :
    (∃ st, e = .call (.ret st)) ∨ (∃ m, e = .call (.reply m)) ∨
    (∃ n snd, e = .frame (.windowUpdate n) ∧ s.finishAfterSend = true ∧ s.psend = some snd) := by
  obtain ⟨f, hf, hfok⟩ := hok
  cases e with
  | frame fr =>
    by_cases hcond : ∃ n snd, fr = .windowUpdate n ∧ s.finishAfterSend = true ∧ s.psend = some snd
    · obtain ⟨n, snd, h1, h2, h3⟩ := hcond
      exact Or.inr (Or.inr ⟨n, snd, by rw [h1], h2, h3⟩)
    · exfalso
      have := onFrame_nok cfg sid s fr hrh (fun ⟨n, hn⟩ => by
        cases hfa : s.finishAfterSend with
        | false => exact Or.inl rfl
        | true =>
          cases hps : s.psend with
          | none => exact Or.inr rfl
          | some snd => exact absurd ⟨n, snd, hn, hfa, hps⟩ hcond) f hf
      rw [this] at hfok; cases hfok
  | call c =>
    cases c with
    | ret st => exact Or.inl ⟨st, rfl⟩
    | reply m => exact Or.inr (Or.inl ⟨m, rfl⟩)
    | recv =>
      have := (onCall_sb0 cfg sid s .recv).2 (fun _ h => by cases h) (fun _ h => by cases h) hrh f hf
      rw [this] at hfok; cases hfok
    | send m =>
      have := (onCall_sb0 cfg sid s (.send m)).2 (fun _ h => by cases h) (fun _ h => by cases h) hrh f hf
      rw [this] at hfok; cases hfok
    | setHeader md =>
      have := (onCall_sb0 cfg sid s (.setHeader md)).2 (fun _ h => by cases h) (fun _ h => by cases h) hrh f hf
      rw [this] at hfok; cases hfok
    | sendHeader md =>
      have := (onCall_sb0 cfg sid s (.sendHeader md)).2 (fun _ h => by cases h) (fun _ h => by cases h) hrh f hf
      rw [this] at hfok; cases hfok
    | setTrailer md =>
      have := (onCall_sb0 cfg sid s (.setTrailer md)).2 (fun _ h => by cases h) (fun _ h => by cases h) hrh f hf
      rw [this] at hfok; cases hfok
  | ctx c =>
    have := (cancelCtx_sb sid s c).nok hrh f hf
    rw [this] at hfok; cases hfok

theorem isClose_of_ok {f : S2C α} (h : isCloseOK f = true) : Conformance.S.isClose f = true := by
  cases f <;> first | rfl | cases h

/-- with at most one close frame, a list that ends with a close frame and
    contains an OK close frame ends with that OK close frame -/
theorem last_is_ok {ks : List (S2C α)} (he : Conformance.EndsWithClose ks)
    (h1 : Conformance.cnt Conformance.S.isClose ks ≤ 1) (hok : ∃ f ∈ ks, isCloseOK f = true) :
    ∃ body c, ks = body ++ [c] ∧ isCloseOK c = true := by
  obtain ⟨f, hf, hfok⟩ := hok
  obtain ⟨a, b, hab⟩ := List.append_of_mem hf
  have hb := he.nothing_after h1 a f b hab (isClose_of_ok hfok)
  subst hb
  exact ⟨a, f, hab, hfok⟩

theorem kinds_mem {o : Out α} {f : Sid × S2C α} (h : f ∈ o.frames) : f.2 ∈ Conformance.kinds o :=
  List.mem_map.mpr ⟨f, h, rfl⟩

theorem mem_kinds {o : Out α} {k : S2C α} (h : k ∈ Conformance.kinds o) : ∃ f ∈ o.frames, f.2 = k := by
  obtain ⟨f, hf, rfl⟩ := List.mem_map.mp h
  exact ⟨f, hf, rfl⟩

/-- a step that emits a close frame starts from a stream that is not closed,
    and emits exactly one -/
theorem step_close_open (cfg : SCfg) (sid : Sid) (s : SStream α) (e : SEv α)
    (hok : ∃ f ∈ (s.stepEv cfg sid e).2.frames, isCloseOK f.2 = true) :
    s.closed = false ∧ Conformance.cnt Conformance.S.isClose (Conformance.kinds (s.stepEv cfg sid e).2) ≤ 1 := by
  obtain ⟨f, hf, hfok⟩ := hok
  have hcls := (Conformance.stepEv_step cfg sid s e).cls
  have hpos := Conformance.cnt_pos_of_any Conformance.S.isClose _
    (List.any_eq_true.mpr ⟨f.2, kinds_mem hf, isClose_of_ok hfok⟩)
  have := Conformance.toNat_le_one (s.stepEv cfg sid e).1.closed
  refine ⟨?_, by omega⟩
  cases hc : s.closed with
  | false => rfl
  | true => rw [hc] at hcls; simp only [Bool.toNat_true] at hcls; omega

/-- the handler returns and an OK close frame goes out -/
theorem ok_ret (cfg : SCfg) (sid : Sid) (s : SStream α) (st : Status) (hJ : Conformance.J s)
    (hcl : s.closed = false) :
    Conformance.Settled (s.onCall cfg sid (.ret st)).1 ∧
    Conformance.EndsWithClose (Conformance.kinds (s.onCall cfg sid (.ret st)).2) := by
  refine ⟨Conformance.ret_settles_J cfg sid s st hJ, ?_⟩
  simp only [SStream.onCall, Conformance.kinds_add]
  have := Conformance.finish_ends sid ({ s with hstatus := .returned } : SStream α)
    (if st.code = 0 then none else some (.status st)) false hcl
  simpa [Conformance.kinds] using this

/-- the send of the unary reply advances (the `.reply` call, or a window
    update) and an OK close frame goes out: the send completed successfully,
    i.e. its frames complete the message for the reader -/
theorem ok_reply_step (cfg : SCfg) (hcm : 0 < cfg.chunkMax) (sid : Sid) (s1 : SStream α) (snd : Snd α)
    (o0 : Out α) (ho0 : NoOK o0) (ho0d : o0.dones = []) (ho0data : Emission.sdata o0 = [])
    (hrh : RH s1) (hJ : Conformance.J s1) (hcl : s1.closed = false)
    (hok : ∃ f ∈ ((s1.pumpSend cfg sid snd).1.afterSend sid (o0.add (s1.pumpSend cfg sid snd).2)).2.frames,
      isCloseOK f.2 = true) :
    Conformance.Settled ((s1.pumpSend cfg sid snd).1.afterSend sid (o0.add (s1.pumpSend cfg sid snd).2)).1 ∧
    Conformance.EndsWithClose
      (Conformance.kinds ((s1.pumpSend cfg sid snd).1.afterSend sid (o0.add (s1.pumpSend cfg sid snd).2)).2) ∧
    (∀ m st, Proofs.Framing.Linked m snd st →
      parse st (Emission.sdata
        ((s1.pumpSend cfg sid snd).1.afterSend sid (o0.add (s1.pumpSend cfg sid snd).2)).2) = ([m], .ok none)) := by
  obtain ⟨hp1, hp2, hp3⟩ := pumpSend_out cfg sid s1 snd
  obtain ⟨w, ps, hshape, _⟩ := Conformance.pumpSend_shape' cfg sid s1 snd
  have hnok : NoOK (o0.add (s1.pumpSend cfg sid snd).2) :=
    ho0.add (fun f hf => (isData_notOK (hp1 f hf)).1)
  have hdn : (o0.add (s1.pumpSend cfg sid snd).2).dones = (s1.pumpSend cfg sid snd).2.dones := by
    show o0.dones ++ _ = _
    rw [ho0d]; rfl
  obtain ⟨hps, hfa, hnf⟩ := reply_ok sid (s1.pumpSend cfg sid snd).1 (o0.add (s1.pumpSend cfg sid snd).2)
    ((pumpSend_sb cfg sid s1 snd).rh hrh) hnok (by rw [hdn]; exact hp2) (by rw [hdn]; exact hp3) hok
  have hcond : ((s1.pumpSend cfg sid snd).1.finishAfterSend && (s1.pumpSend cfg sid snd).1.psend.isNone) = true := by
    rw [hfa, hps]; rfl
  have hdata := (Emission.s_afterSend_spec sid (s1.pumpSend cfg sid snd).1
    (o0.add (s1.pumpSend cfg sid snd).2)).2.1
  rw [afterSend_eq, if_pos hcond] at hdata ⊢
  dsimp only at hdata ⊢
  have hJ' : Conformance.J ({ (s1.pumpSend cfg sid snd).1 with finishAfterSend := false, hstatus := .returned } :
      SStream α) := (Conformance.pumpSend_J cfg sid s1 snd hJ).of_fields rfl rfl rfl
  have hcl' : ({ (s1.pumpSend cfg sid snd).1 with finishAfterSend := false, hstatus := .returned } :
      SStream α).closed = false := by
    show (s1.pumpSend cfg sid snd).1.closed = false
    rw [hshape]; exact hcl
  refine ⟨Conformance.finish_settles_J sid _ _ _ hJ', ?_, fun m st hl => ?_⟩
  · rw [Conformance.kinds_add]
    exact (Conformance.finish_ends sid _ _ _ hcl').prepend _
  · rw [hdata, Emission.sdata_add, ho0data, List.nil_append]
    have hprog := (Emission.s_pumpSend_spec cfg hcm sid s1 snd).1
    rw [hdn] at hnf
    rcases hprog m st hl with ⟨h1, _⟩ | ⟨st', snd', _, _, h3⟩
    · exact h1
    · exfalso
      rcases h3 with h3 | ⟨_, h3⟩
      · rw [hps] at h3; cases h3
      · rw [hnf] at h3; cases h3

/-! ### runs of a server stream -/

/-- the handler returns: `.ret`, or the unary `.reply` -/
def sIsRet : SEv α → Bool
  | .call (.ret _) => true
  | .call (.reply _) => true
  | _ => false

/-- **the handler makes no call after it returned** (grpc-go: the `ServerStream`
    must not be used after the handler returns) -/
def sNoCallAfterRet : List (SEv α) → Bool
  | [] => true
  | e :: es => (!sIsRet e || es.all (fun e' => !Conformance.SEv.isCall e')) && sNoCallAfterRet es

theorem Out.empty_add (o : Out α) : ({} : Out α).add o = o := by
  cases o; rfl

theorem submitted_nocalls (evs : List (SEv α)) (h : ∀ e ∈ evs, Conformance.SEv.isCall e = false) :
    SEv.submitted evs = [] := by
  induction evs with
  | nil => rfl
  | cons e es ih =>
    rw [Emission.s_submitted_cons, ih (fun e' he' => h e' (List.mem_cons_of_mem _ he'))]
    have := h e (List.mem_cons_self ..)
    cases e with
    | frame f => rfl
    | call c => cases this
    | ctx c => rfl

theorem emittedData_of_sframes_nil (outs : List (Out α)) (h : Conformance.sframes outs = []) :
    Out.emittedData outs = [] := by
  rw [C01.emittedData_eq_S]
  show (Conformance.sframes outs).filterMap dataOfS2C = []
  rw [h]; rfl

theorem hdrStage_J (sid : Sid) (s : SStream α) (h : Conformance.J s) : Conformance.J (Emission.hdrStage sid s).1 := by
  unfold Emission.hdrStage
  split
  · exact h
  · exact h.of_fields rfl rfl rfl

theorem hdrStage_closed (sid : Sid) (s : SStream α) : (Emission.hdrStage sid s).1.closed = s.closed := by
  unfold Emission.hdrStage
  split <;> rfl

theorem onFrame_wu_eq (cfg : SCfg) (sid : Sid) (s : SStream α) (n : Nat) (snd : Snd α)
    (hps : s.psend = some snd) (hc : (!s.fc || decide (n = 0)) = false) :
    s.onFrame cfg sid (.windowUpdate n) =
      ((({ s with win := wrap32 (s.win + n) } : SStream α).pumpSend cfg sid snd).1.afterSend sid
        (({ s with win := wrap32 (s.win + n) } : SStream α).pumpSend cfg sid snd).2) := by
  simp only [SStream.onFrame, hc, hps]
  rfl

theorem onFrame_wu_noop (cfg : SCfg) (sid : Sid) (s : SStream α) (n : Nat)
    (hc : (!s.fc || decide (n = 0)) = true) :
    s.onFrame cfg sid (.windowUpdate n) = (s, {}) := by
  simp only [SStream.onFrame, hc]
  rfl

/-- what an OK-closing step gives: everything submitted is on the wire, the
    stream is settled, the frames of the step end with the close frame, and no
    handler call follows -/
theorem ok_step (cfg : SCfg) (hcm : 0 < cfg.chunkMax) (sid : Sid) (s : SStream α) (replied : Bool)
    (E : List (DFrame α)) (S : List (List α)) (e : SEv α) (es : List (SEv α))
    (hinv : Emission.Inv s.psend replied E S) (hF : s.finishAfterSend = true → replied = true)
    (hrh : RH s) (hJ : Conformance.J s)
    (hsend : Emission.sIsSend e = true → s.psend = none)
    (hnc1 : (!sIsRet e || es.all (fun e' => !Conformance.SEv.isCall e')) = true)
    (hrep : replied = true → ∀ e' ∈ e :: es, Conformance.SEv.isCall e' = false)
    (hnf1 : sendFailedIn (s.stepEv cfg sid e).2.dones = false)
    (hok : ∃ f ∈ (s.stepEv cfg sid e).2.frames, isCloseOK f.2 = true) :
    parse none (E ++ Emission.sdata (s.stepEv cfg sid e).2) = (S ++ Emission.ssub e, .ok none) ∧
    Conformance.Settled (s.stepEv cfg sid e).1 ∧
    Conformance.EndsWithClose (Conformance.kinds (s.stepEv cfg sid e).2) ∧
    (∀ e' ∈ es, Conformance.SEv.isCall e' = false) := by
  obtain ⟨hcl, _⟩ := step_close_open cfg sid s e hok
  have hcall : Conformance.SEv.isCall e = true → replied = false := by
    intro hc
    cases hr : replied with
    | false => rfl
    | true => rw [hrep hr e (List.mem_cons_self ..)] at hc; cases hc
  have hesret : sIsRet e = true → ∀ e' ∈ es, Conformance.SEv.isCall e' = false := by
    intro hr e' he'
    rw [hr] at hnc1
    simp only [Bool.not_true, Bool.false_or, List.all_eq_true, Bool.not_eq_eq_eq_not, Bool.not_true] at hnc1
    exact hnc1 e' he'
  rcases ok_cause cfg sid s e hrh hok with ⟨st, rfl⟩ | ⟨m, rfl⟩ | ⟨n, snd, rfl, hfa, hps⟩
  · -- the handler returns
    have hr := hcall rfl
    obtain ⟨hset, hends⟩ := ok_ret cfg sid s st hJ hcl
    have hq := Emission.s_onCall_quiet cfg sid s (.ret st) (fun m h => by cases h) (fun m h => by cases h)
    have hps : s.psend = none := by
      rcases hq.2.2 with h | ⟨_, h⟩
      · rw [← h]; exact hset.2.1
      · have h' : (sendFailedIn (s.onCall cfg sid (.ret st)).2.dones || s.finishAfterSend) = true := h
        rw [show sendFailedIn (s.onCall cfg sid (.ret st)).2.dones = false from hnf1, Bool.false_or] at h'
        rw [hF h'] at hr; cases hr
    refine ⟨?_, hset, hends, hesret rfl⟩
    show parse none (E ++ Emission.sdata (s.onCall cfg sid (.ret st)).2) = (S ++ [], _)
    rw [hq.1, List.append_nil, List.append_nil]
    exact hinv.idle hps hr
  · -- the unary reply goes out at once
    have hr := hcall rfl
    have hps : s.psend = none := hsend rfl
    have hidle := hinv.idle hps hr
    obtain ⟨hp, hf, hd⟩ := Emission.hdrStage_fields sid s
    have hhs := hdrStage_sb sid s
    have hok' := hok
    simp only [SStream.stepEv] at hok' ⊢
    rw [Emission.s_reply_eq] at hok' ⊢
    dsimp only at hok' ⊢
    obtain ⟨h1, h2, h3⟩ := ok_reply_step cfg hcm sid
      ({ (Emission.hdrStage sid s).1 with numSent := (Emission.hdrStage sid s).1.numSent + 1, finishAfterSend := true } : SStream α)
      (Snd.start m) ({ frames := (Emission.hdrStage sid s).2 } : Out α)
      (hhs.nok hrh) rfl (hd []) (hhs.rh hrh) ((hdrStage_J sid s hJ).of_fields rfl rfl rfl)
      ((hdrStage_closed sid s).trans hcl) hok'
    refine ⟨?_, h1, h2, hesret rfl⟩
    rw [Emission.parse_append_ok none none E _ S hidle, h3 m none (Proofs.Framing.linked_start m)]
    rfl
  · -- a window update completes the blocked unary reply
    have hr : replied = true := hF hfa
    have hes : ∀ e' ∈ es, Conformance.SEv.isCall e' = false :=
      fun e' he' => hrep hr e' (List.mem_cons_of_mem _ he')
    obtain ⟨ms, m, st, hS, hpE, hl⟩ := hinv.busy snd hps
    have hok' := hok
    simp only [SStream.stepEv] at hok' ⊢
    cases hc : (!s.fc || decide (n = 0)) with
    | true =>
      rw [onFrame_wu_noop cfg sid s n hc] at hok'
      obtain ⟨f, hf, _⟩ := hok'
      cases hf
    | false =>
      rw [onFrame_wu_eq cfg sid s n snd hps hc] at hok' ⊢
      rw [← Out.empty_add (({ s with win := wrap32 (s.win + n) } : SStream α).pumpSend cfg sid snd).2] at hok' ⊢
      obtain ⟨h1, h2, h3⟩ := ok_reply_step cfg hcm sid ({ s with win := wrap32 (s.win + n) } : SStream α) snd {}
        (NoOK.of_nil rfl) rfl rfl hrh (hJ.of_fields rfl rfl rfl) hcl hok'
      refine ⟨?_, h1, h2, hes⟩
      rw [Emission.parse_append_ok none st E _ ms hpE, h3 m st hl, hS]
      show (ms ++ [m], _) = (ms ++ [m] ++ [], _)
      rw [List.append_nil]

theorem sIsSend_isCall {e : SEv α} (h : Emission.sIsSend e = true) : Conformance.SEv.isCall e = true := by
  cases e with
  | frame f => cases h
  | call c => rfl
  | ctx c => cases h

theorem sIsReply_isRet {e : SEv α} (h : Emission.sIsReply e = true) : sIsRet e = true := by
  cases e with
  | frame f => cases h
  | call c => cases c <;> first | rfl | cases h
  | ctx c => cases h

theorem srv_main (cfg : SCfg) (hcm : 0 < cfg.chunkMax) (sid : Sid) : ∀ (evs : List (SEv α)) (s : SStream α)
    (replied : Bool) (E : List (DFrame α)) (S : List (List α)),
    Emission.Inv s.psend replied E S → (s.finishAfterSend = true → replied = true) → RH s → Conformance.J s →
    SStream.legalSends cfg sid s false evs = true → sNoCallAfterRet evs = true →
    (replied = true → ∀ e ∈ evs, Conformance.SEv.isCall e = false) →
    Emission.sAnyFailed (SStream.runEv cfg sid s evs).2 = false →
    (∃ f ∈ Conformance.sframes (SStream.runEv cfg sid s evs).2, isCloseOK f = true) →
    parse none (E ++ Out.emittedData (SStream.runEv cfg sid s evs).2) = (S ++ SEv.submitted evs, .ok none) ∧
    ∃ body c, Conformance.sframes (SStream.runEv cfg sid s evs).2 = body ++ [c] ∧ isCloseOK c = true := by
  intro evs
  induction evs with
  | nil =>
    intro s replied E S _ _ _ _ _ _ _ _ hok
    obtain ⟨f, hf, _⟩ := hok
    cases hf
  | cons e es ih =>
    intro s replied E S hinv hF hrh hJ hl hnc hrep hnf hok
    rw [Emission.s_legalSends_cons] at hl
    simp only [Bool.and_eq_true] at hl
    obtain ⟨hsendok, hl'⟩ := hl
    rw [Conformance.runEv_cons] at hnf hok ⊢
    simp only [Emission.sAnyFailed, List.any_cons, Bool.or_eq_false_iff] at hnf
    obtain ⟨hnf1, hnf2⟩ := hnf
    simp only [sNoCallAfterRet, Bool.and_eq_true] at hnc
    obtain ⟨hnc1, hnc2⟩ := hnc
    have hsend : Emission.sIsSend e = true → s.psend = none ∧ replied = false := by
      intro hs
      rw [hs] at hsendok
      simp only [Bool.not_true, Bool.false_or, Bool.and_eq_true, Option.isNone_iff_eq_none] at hsendok
      refine ⟨hsendok.1, ?_⟩
      cases hr : replied with
      | false => rfl
      | true =>
        have := hrep hr e (List.mem_cons_self ..)
        rw [sIsSend_isCall hs] at this; cases this
    have hstep := Emission.s_step_inv cfg hcm sid s replied E S e hinv hF hsend
    rw [hnf1, Bool.or_false] at hstep
    rw [hnf1, Bool.or_false] at hl'
    have hrep' : (replied || Emission.sIsReply e) = true → ∀ e' ∈ es, Conformance.SEv.isCall e' = false := by
      intro hh e' he'
      cases hr : replied with
      | true => exact hrep hr e' (List.mem_cons_of_mem _ he')
      | false =>
        rw [hr, Bool.false_or] at hh
        rw [sIsReply_isRet hh] at hnc1
        simp only [Bool.not_true, Bool.false_or, List.all_eq_true, Bool.not_eq_eq_eq_not, Bool.not_true] at hnc1
        exact hnc1 e' he'
    rw [Emission.s_emittedData_eq, List.flatMap_cons, ← Emission.s_emittedData_eq, Emission.s_submitted_cons,
      Conformance.sframes_cons]
    rw [Conformance.sframes_cons] at hok
    obtain ⟨f, hf, hfok⟩ := hok
    rcases List.mem_append.mp hf with hf | hf
    · -- this step emits the OK close frame
      obtain ⟨f', hf', hff'⟩ := mem_kinds hf
      have hok' : ∃ f ∈ (s.stepEv cfg sid e).2.frames, isCloseOK f.2 = true := ⟨f', hf', by rw [hff']; exact hfok⟩
      obtain ⟨h1, h2, h3, h4⟩ := ok_step cfg hcm sid s replied E S e es hinv hF hrh hJ (fun hs => (hsend hs).1)
        hnc1 hrep hnf1 hok'
      have hrun := Conformance.S5_settled_run cfg sid es _ h2 h4
      rw [emittedData_of_sframes_nil _ hrun.1, submitted_nocalls es h4, hrun.1, List.append_nil, List.append_nil,
        List.append_nil]
      exact ⟨h1, last_is_ok h3 (step_close_open cfg sid s e hok').2 ⟨f, hf, hfok⟩⟩
    · -- a later step does
      have := ih _ _ _ _ hstep.1 hstep.2 ((stepEv_sb0 cfg sid s e).rh hrh) (Conformance.stepEv_J cfg sid s e hJ)
        hl' hnc2 hrep' hnf2 ⟨f, hf, hfok⟩
      obtain ⟨hp, body, c, hb, hc⟩ := this
      refine ⟨?_, Conformance.kinds (s.stepEv cfg sid e).2 ++ body, c, by rw [hb, List.append_assoc], hc⟩
      rw [← List.append_assoc, ← List.append_assoc]
      exact hp

/-- a freshly created server stream, as far as the response direction goes
    (what `Srv.createStream` builds satisfies all of it) -/
def SFreshR (s0 : SStream α) : Prop :=
  s0.psend = none ∧ s0.finishAfterSend = false ∧ s0.ctxDone = none ∧ s0.readErr = none ∧ s0.halfClosed = none

/-- **Server completeness (emission).**  If a server stream has put a close
    frame with an OK status on the wire — and the handler kept its contract: one
    send at a time, none after a failed one, no call after it returned, and no
    send of it failed — then that close frame is the LAST frame the stream ever
    emitted, it is the only close frame, and the data frames before it are
    exactly the chunkings of ALL the messages the handler submitted. -/
theorem server_closeOK_complete (cfg : SCfg) (hcm : 0 < cfg.chunkMax) (sid : Sid) (s0 : SStream α)
    (h0 : SFreshR s0) (sevs : List (SEv α))
    (hl : SStream.legalSends cfg sid s0 false sevs = true) (hnc : sNoCallAfterRet sevs = true)
    (hnf : Emission.sAnyFailed (SStream.runEv cfg sid s0 sevs).2 = false)
    (hok : ∃ f ∈ Conformance.sframes (SStream.runEv cfg sid s0 sevs).2, isCloseOK f = true) :
    parse none (Out.emittedData (SStream.runEv cfg sid s0 sevs).2) = (SEv.submitted sevs, .ok none) ∧
    ∃ body c, Conformance.sframes (SStream.runEv cfg sid s0 sevs).2 = body ++ [c] ∧ isCloseOK c = true ∧
      ∀ f ∈ body, Conformance.S.isClose f = false := by
  obtain ⟨hp, hf, hc, hr, hh⟩ := h0
  have hinv : Emission.Inv s0.psend false ([] : List (DFrame α)) [] := hp ▸ Emission.Inv.init
  have hrh : RH s0 := ⟨by rw [hr]; exact nzo_none, by rw [hh]; exact nzo_none⟩
  obtain ⟨h1, body, c, h2, h3⟩ := srv_main cfg hcm sid sevs s0 false [] [] hinv
    (fun h => by rw [hf] at h; cases h) hrh (Conformance.J.of_open hc) hl hnc (fun h => by cases h) hnf hok
  simp only [List.nil_append] at h1
  refine ⟨h1, body, c, h2, h3, fun f hfb => ?_⟩
  have hone := Conformance.S2_at_most_one_close cfg sid s0 sevs
  rw [← Conformance.cnt_def, h2, Conformance.cnt_append, Conformance.cnt_cons, isClose_of_ok h3] at hone
  cases hx : Conformance.S.isClose f with
  | false => rfl
  | true =>
    have := Conformance.cnt_pos_of_any Conformance.S.isClose body (List.any_eq_true.mpr ⟨f, hfb, hx⟩)
    simp only [if_true, Conformance.cnt_nil] at hone
    omega

/-- the handler returning OK on a stream that is not closed yet puts the OK close frame on the wire -/
theorem ret_emits_closeOK (cfg : SCfg) (sid : Sid) (s : SStream α) (st : Status) (hcl : s.closed = false)
    (hst : st.code = 0) :
    ∃ f ∈ Conformance.kinds (s.onCall cfg sid (.ret st)).2, isCloseOK f = true := by
  rw [Conformance.ret_frames cfg sid s st hcl]
  refine ⟨S2C.close (SErr.wireStatus (if st.code = 0 then none else some (.status st))) s.trailers, by simp, ?_⟩
  simp [hst, isCloseOK, SErr.wireStatus, mkStatus, codeOK]

theorem sawRecvEof_of_mem {outs : List (COut α)} {o : COut α} {sid : Sid} (ho : o ∈ outs)
    (hd : (sid, "recv", Res.eof) ∈ o.dones) : sawRecvEof outs = true := by
  refine List.any_eq_true.mpr ⟨o, ho, List.any_eq_true.mpr ⟨_, hd, ?_⟩⟩
  simp [isEof]

/-- **C01, response direction, COMPLETENESS.**  Handler → caller over a FIFO
    carrier that has delivered every frame of the stream: if a `RecvMsg` of the
    caller returned `io.EOF`, the caller has obtained EXACTLY the messages the
    handler submitted, in order, each once. -/
theorem C01_response_complete (ccfg : CCfg) (scfg : SCfg) (hcm : 0 < scfg.chunkMax) (sid : Sid)
    (c0 : CStream α) (s0 : SStream α) (hs0 : SFreshR s0) (hc0 : CFresh c0)
    (cevs : List (CEv α)) (sevs : List (SEv α))
    (hsend : SStream.legalSends scfg sid s0 false sevs = true)
    (hnc : sNoCallAfterRet sevs = true)
    (hnf : Emission.sAnyFailed (SStream.runEv scfg sid s0 sevs).2 = false)
    (hrecv : legalRecvsC ccfg sid c0 cevs = true)
    (hfu : c0.fc = true ∨ (CStream.runEv ccfg sid c0 cevs).1.unsupported = false)
    (hfifo : C01.fedFramesC cevs = C01.emittedFramesS (SStream.runEv scfg sid s0 sevs).2)
    (heof : sawRecvEof (CStream.runEv ccfg sid c0 cevs).2 = true) :
    COut.deliveredMsgs (CStream.runEv ccfg sid c0 cevs).2 = SEv.submitted sevs := by
  -- the caller was fed an OK close frame
  have hcl : ∃ f ∈ C01.fedFramesC cevs, isCloseOK f = true := by
    apply Classical.byContradiction
    intro hno
    have hall : ∀ e ∈ cevs, cevCloseOK e = false := by
      intro e he
      cases e with
      | frame f =>
        cases hx : isCloseOK f with
        | false => exact hx
        | true => exact absurd ⟨f, List.mem_filterMap.mpr ⟨_, he, rfl⟩, hx⟩ hno
      | call c => rfl
      | ctx c => rfl
    have := (noeof_run ccfg sid cevs c0 (CFresh.preInv hc0) (Or.inl hall)).2
    rw [this] at heof; cases heof
  rw [hfifo] at hcl
  obtain ⟨hparse, body, c, hshape, hcok, hbody⟩ := server_closeOK_complete scfg hcm sid s0 hs0 sevs hsend hnc hnf hcl
  have hfed : C01.fedFramesC cevs = body ++ [c] := hfifo.trans hshape
  have hbody' : ∀ f ∈ body, isCloseOK f = false := by
    intro f hf
    cases hx : isCloseOK f with
    | false => rfl
    | true => have := hbody f hf; rw [isClose_of_ok hx] at this; cases this
  obtain ⟨_, hdel⟩ := client_eof_complete ccfg sid c0 hc0 cevs hrecv hfu body c hfed hbody' heof
  rw [hdel, C01.fedData_eq_C, hfifo, ← C01.emittedData_eq_S, hparse]

/-! ## R1: the caller's terminal result is OK -/

/-- the data can come from a well-behaved sender: it reassembles without
    error, to at most one message if the response is not streamed -/
def GoodData (ss : Bool) (D : List (DFrame α)) : Prop :=
  (∃ ms st, parse none D = (ms, .ok st)) ∧ (ss = false → (parse none D).1.length ≤ 1)

theorem GoodData.prefix {ss : Bool} {D D' : List (DFrame α)} (h : GoodData ss (D ++ D')) : GoodData ss D := by
  obtain ⟨⟨ms, st, hp⟩, hl⟩ := h
  constructor
  · rcases hx : parse none D with ⟨ms', r⟩
    cases r with
    | ok st' => exact ⟨ms', st', rfl⟩
    | error e => rw [parse_append_err hx] at hp; cases hp
  · intro hss
    have := (parse_msgs_prefix none D D').length_le
    have := hl hss
    omega

theorem GoodData.not_bad {ss la : Bool} {D : List (DFrame α)} (h : GoodData ss D) (hla : la = true → ss = false) :
    ¬ BadData ss la D := by
  obtain ⟨⟨ms, st, hp⟩, hl⟩ := h
  rintro (⟨ms', e, he⟩ | ⟨hc, h2⟩)
  · rw [hp] at he; cases he
  · have hss : ss = false := by
      rcases hc with hc | hc
      · exact hc
      · exact hla hc
    have := hl hss
    omega

/-- a read pass that finds good data does not end the RPC -/
theorem rr_stays_open (sid : Sid) {s : CStream α} {r : CStream α × COut α × Option SErr} (h : RR s r)
    (hd : s.done = none) (hla : hasLA s.pread = true → s.ss = false)
    {acc : List (DFrame α)} {del : List (List α)} (ha : Acct s.rcv.queue false s.pread acc del)
    (hg : GoodData s.ss acc) : (CStream.afterRead sid r).1.done = none := by
  rw [ClientShape.afterRead_eq]
  rcases h.cases with ⟨_, _, a3, _⟩ | ⟨_, _, _, _, a5, _, _⟩ | ⟨e, _, _, _, _, _, a6⟩
  · simp only [a3]; exact h.done.trans hd
  · simp only [a5]; exact h.done.trans hd
  · exact absurd (a6 acc del ha) (hg.not_bad hla)

theorem accept_cases' (r : RcvQ α) (f : DFrame α) :
    (r.closed = true ∧ r.accept f = (r, .dropped)) ∨
    (r.closed = false ∧ f.size > r.rwin ∧ r.accept f = (r, .windowExceeded)) ∨
    (r.closed = false ∧
      r.accept f = ({ r with rwin := r.rwin - f.size, queue := r.queue ++ [f] }, .ok)) := by
  unfold RcvQ.accept
  cases hc : r.closed with
  | true => exact Or.inl ⟨rfl, by simp⟩
  | false =>
    by_cases hw : f.size > r.rwin
    · exact Or.inr (Or.inl ⟨rfl, hw, by simp [hw]⟩)
    · exact Or.inr (Or.inr ⟨rfl, by simp [hw]⟩)

/-- the peer respects the caller's receive window at this event -/
def winOK (s : CStream α) : CEv α → Bool
  | .frame f =>
    match dataOfS2C f with
    | some df => !s.fc || s.rcv.closed || decide (df.size ≤ s.rcv.rwin)
    | none => true
  | _ => true

/-- **the peer respects the caller's receive window** along the run (flow
    control: no data frame larger than the window the caller has open at that
    moment).  Thread the state, as `legalRecvsC`. -/
def noWinExceed (cfg : CCfg) (sid : Sid) : CStream α → List (CEv α) → Bool
  | _, [] => true
  | s, e :: es => winOK s e && noWinExceed cfg sid (s.stepEv cfg sid e).1 es

/-- the event does not end the RPC by itself: not a close / settings / unknown
    frame, not the caller's cancel, not a context end -/
def evQuiet : CEv α → Bool
  | .frame (.close _ _) => false
  | .frame (.settings _ _) => false
  | .frame .unset => false
  | .frame _ => true
  | .call .cancel => false
  | .call _ => true
  | .ctx _ => false

theorem acct_of_open {s : CStream α} {fed : List (DFrame α)} {del : List (List α)} (hci : CInv s fed del)
    (hpi : PreInv s) (hd : s.done = none) :
    s.readErr = none ∧ s.rcv.closed = false ∧ Acct s.rcv.queue false s.pread fed del := by
  have hre : s.readErr = none := by
    cases hr : s.readErr with
    | none => rfl
    | some e => have := hpi.2 (by rw [hr]; rfl); rw [hd] at this; cases this
  have hcl : s.rcv.closed = false := by
    cases hc : s.rcv.closed with
    | false => rfl
    | true => have := hpi.1.2.2.1 (Or.inl hc); rw [hd] at this; cases this
  refine ⟨hre, hcl, ?_⟩
  have h2 := hci.2
  rw [hre, hcl] at h2
  rcases h2 with ⟨_, hb, _⟩ | ⟨_, ha⟩
  · cases hb
  · exact ha

theorem dataFrame_stays_open (sid : Sid) (s : CStream α) (df : DFrame α) {fed : List (DFrame α)}
    {del : List (List α)} (hci : CInv s fed del) (hpi : PreInv s) (hd : s.done = none)
    (hw : (!s.fc || s.rcv.closed || decide (df.size ≤ s.rcv.rwin)) = true)
    (hg : GoodData s.ss (fed ++ [df])) : (ClientShape.dataFrame sid s df).1.done = none := by
  obtain ⟨hre, hcl, ha⟩ := acct_of_open hci hpi hd
  unfold ClientShape.dataFrame
  split
  · rename_i hfc
    rcases accept_cases' s.rcv df with ⟨_, hacc⟩ | ⟨_, hbig, hacc⟩ | ⟨_, hacc⟩
    · rw [hacc]; exact hd
    · exfalso
      rw [hfc, hcl] at hw
      simp only [Bool.not_true, Bool.false_or, decide_eq_true_eq] at hw
      omega
    · rw [hacc]
      exact rr_stays_open sid (resumeRead_rr sid 3 _) hd hpi.1.2.2.2 (acc := fed ++ [df]) (del := del)
        (ha.feed df) hg
  · split
    · exact hd
    · split
      · exact hd
      · rename_i hq
        have hq' : s.rcv.queue = [] := by simpa using hq
        rw [hq'] at ha
        exact rr_stays_open sid (resumeRead_rr sid 3 _) hd hpi.1.2.2.2 (acc := fed ++ [df]) (del := del)
          (ha.feed df) hg

theorem step_stays_open (cfg : CCfg) (sid : Sid) (s : CStream α) (e : CEv α) {fed : List (DFrame α)}
    {del : List (List α)} (hci : CInv s fed del) (hpi : PreInv s) (hd : s.done = none)
    (hk : cevOK s e = true) (hq : evQuiet e = true) (hw : winOK s e = true)
    (hg : GoodData s.ss (fed ++ cevData e)) : (s.stepEv cfg sid e).1.done = none := by
  cases e with
  | frame f =>
    cases f with
    | settings w rv => cases hq
    | close st tr => cases hq
    | unset => cases hq
    | headers md =>
      simp only [CStream.stepEv, CStream.onFrame]
      split
      · exact hd
      · split <;> exact hd
    | windowUpdate n =>
      simp only [CStream.stepEv, CStream.onFrame]
      split
      · exact hd
      · split
        · exact hd
        · rw [ClientShape.pumpSend_done]; exact hd
    | msg size d =>
      show (s.onFrame cfg sid (.msg size d)).1.done = none
      rw [ClientShape.onFrame_msg]
      exact dataFrame_stays_open sid s _ hci hpi hd hw hg
    | more d =>
      show (s.onFrame cfg sid (.more d)).1.done = none
      rw [ClientShape.onFrame_more]
      exact dataFrame_stays_open sid s _ hci hpi hd hw hg
  | call c =>
    cases c with
    | cancel => cases hq
    | send m =>
      simp only [CStream.stepEv, CStream.onCall]
      split
      · exact hd
      · rw [ClientShape.pumpSend_done]; exact hd
    | closeSend =>
      simp only [CStream.stepEv, CStream.onCall]
      split
      · exact hd
      · split <;> exact hd
    | recv =>
      obtain ⟨hre, hcl, ha⟩ := acct_of_open hci hpi hd
      simp only [CStream.stepEv, CStream.onCall, hre]
      have hg' : GoodData s.ss fed := by simpa [cevData] using hg
      exact rr_stays_open sid (resumeRead_rr sid 3 _) hd (fun h => by cases h) (acc := fed) (del := del)
        (ha.start hk) hg'
    | header =>
      simp only [CStream.stepEv, CStream.onCall]
      split
      · exact hd
      · split <;> exact hd
    | trailer => exact hd
  | ctx c => cases hq

theorem evQuiet_notOK {e : CEv α} (h : evQuiet e = true) : cevCloseOK e = false := by
  cases e with
  | frame f => cases f <;> first | rfl | cases h
  | call c => rfl
  | ctx c => rfl

theorem stays_open (cfg : CCfg) (sid : Sid) (evs : List (CEv α)) : ∀ (s : CStream α) (fed : List (DFrame α))
    (del : List (List α)), CInv s fed del → PreInv s → s.done = none → legalRecvsC cfg sid s evs = true →
    (s.fc = true ∨ (CStream.runEv cfg sid s evs).1.unsupported = false) →
    (∀ e ∈ evs, evQuiet e = true) → noWinExceed cfg sid s evs = true →
    GoodData s.ss (fed ++ CEv.fedData evs) →
    (CStream.runEv cfg sid s evs).1.done = none ∧
    CInv (CStream.runEv cfg sid s evs).1 (fed ++ CEv.fedData evs)
      (del ++ COut.deliveredMsgs (CStream.runEv cfg sid s evs).2) ∧
    PreInv (CStream.runEv cfg sid s evs).1 := by
  induction evs with
  | nil =>
    intro s fed del hci hpi hd _ _ _ _ _
    simp only [CStream.runEv, CEv.fedData, COut.deliveredMsgs, List.filterMap_nil, List.flatMap_nil,
      List.append_nil]
    exact ⟨hd, hci, hpi⟩
  | cons e es ih =>
    intro s fed del hci hpi hd hl hfu hq hw hg
    obtain ⟨hk, hl'⟩ := legalRecvsC_cons cfg sid s e es hl
    simp only [noWinExceed, Bool.and_eq_true] at hw
    obtain ⟨hw1, hw2⟩ := hw
    have hq1 := hq e (List.mem_cons_self ..)
    rw [cfedData_cons, ← List.append_assoc] at hg
    have hd' := step_stays_open cfg sid s e hci hpi hd hk hq1 hw1 hg.prefix
    have hb := stepEv_pb cfg sid s e (Or.inl (evQuiet_notOK hq1))
    have hpi' : PreInv (s.stepEv cfg sid e).1 := ⟨hb.inv hpi.1, hb.re hpi.1 hpi.2⟩
    have hs := cstepEv_spec cfg sid s e hk
    rw [crunEv_cons] at hfu ⊢
    dsimp only at hfu ⊢
    rw [cfedData_cons, cdeliveredMsgs_cons, ← List.append_assoc, ← List.append_assoc]
    have hss : (s.stepEv cfg sid e).1.ss = s.ss := by
      cases e with
      | frame f => exact (ClientShape.onFrame_block cfg sid s f).ss
      | call c => exact (ClientShape.onCall_spec cfg sid s c).ss
      | ctx c => exact (ClientShape.ctxCancelled_block sid s c).ss
    rcases hs.inv fed del hci with ⟨hfc, hu⟩ | hci'
    · exfalso
      have := crunEv_unsupported cfg sid es _ hl' hu
      rcases hfu with h | h
      · rw [hfc] at h; cases h
      · rw [this] at h; cases h
    · refine ih _ _ _ hci' hpi' hd' hl' ?_ (fun e' he' => hq e' (List.mem_cons_of_mem _ he')) hw2
        (by rw [hss]; exact hg)
      rcases hfu with h | h
      · exact Or.inl (hs.fc.trans h)
      · exact Or.inr h

theorem filterMap_eq_append_cons {β γ : Type} (f : β → Option γ) : ∀ (l : List β) (a : List γ) (x : γ)
    (b : List γ), l.filterMap f = a ++ x :: b →
    ∃ pre y post, l = pre ++ y :: post ∧ f y = some x ∧ pre.filterMap f = a ∧ post.filterMap f = b := by
  intro l
  induction l with
  | nil => intro a x b h; simp at h
  | cons z l ih =>
    intro a x b h
    cases hz : f z with
    | none =>
      rw [List.filterMap_cons_none hz] at h
      obtain ⟨pre, y, post, h1, h2, h3, h4⟩ := ih a x b h
      exact ⟨z :: pre, y, post, by rw [h1]; rfl, h2, by rw [List.filterMap_cons_none hz]; exact h3, h4⟩
    | some w =>
      rw [List.filterMap_cons_some hz] at h
      cases a with
      | nil =>
        simp only [List.nil_append, List.cons.injEq] at h
        exact ⟨[], z, l, rfl, by rw [hz, h.1], rfl, h.2⟩
      | cons w' a' =>
        simp only [List.cons_append, List.cons.injEq] at h
        obtain ⟨pre, y, post, h1, h2, h3, h4⟩ := ih a' x b h.2
        exact ⟨z :: pre, y, post, by rw [h1]; rfl, h2, by rw [List.filterMap_cons_some hz, h3, h.1], h4⟩

theorem crun_keeps_done (cfg : CCfg) (sid : Sid) (evs : List (CEv α)) : ∀ (s : CStream α) (d : SErr),
    s.done = some d → (CStream.runEv cfg sid s evs).1.done = some d := by
  induction evs with
  | nil => intro s d h; exact h
  | cons e es ih =>
    intro s d h
    rw [crunEv_cons]
    apply ih
    cases e with
    | frame f => exact ClientShape.onFrame_keeps_done cfg sid s f d h
    | call c => exact ClientShape.onCall_keeps_done cfg sid s c d h
    | ctx c => exact ClientShape.ctxCancelled_keeps_done sid s c d h

/-- a server stream never emits a frame of unknown kind -/
theorem srv_no_unset (cfg : SCfg) (sid : Sid) (evs : List (SEv α)) : ∀ (s : SStream α),
    ∀ f ∈ Conformance.sframes (SStream.runEv cfg sid s evs).2, isUnset f = false := by
  induction evs with
  | nil => intro s f hf; cases hf
  | cons e es ih =>
    intro s f hf
    rw [Conformance.runEv_cons, Conformance.sframes_cons] at hf
    rcases List.mem_append.mp hf with hf | hf
    · obtain ⟨f', hf', rfl⟩ := mem_kinds hf
      exact (stepEv_sb0 cfg sid s e).nun f' hf'
    · exact ih _ f hf

theorem noWinExceed_append (cfg : CCfg) (sid : Sid) (pre post : List (CEv α)) : ∀ (s : CStream α),
    noWinExceed cfg sid s (pre ++ post) =
      (noWinExceed cfg sid s pre && noWinExceed cfg sid (CStream.runEv cfg sid s pre).1 post) := by
  induction pre with
  | nil => intro s; rfl
  | cons e es ih =>
    intro s
    simp only [List.cons_append, noWinExceed, ih, crunEv_cons, Bool.and_assoc]

/-- the caller does not end the RPC itself: it does not cancel, and its context does not end -/
def cNoCancel (evs : List (CEv α)) : Bool :=
  evs.all (fun e => match e with
    | .ctx _ => false
    | .call .cancel => false
    | _ => true)

/-- **C01/C02, response direction: the caller is told OK.**  If the server
    stream put a close frame with an OK status on the wire and all its frames
    were fed to the caller's stream in order, then — unless the caller ended the
    RPC itself (cancel / context end), or the flow-control window was violated,
    or a non-server-stream method got more than one response — the caller's
    terminal result is `io.EOF`, i.e. OK. -/
theorem C01_response_ok_partial (ccfg : CCfg) (scfg : SCfg) (hcm : 0 < scfg.chunkMax) (sid : Sid)
    (c0 : CStream α) (s0 : SStream α) (hs0 : s0.psend = none) (hs0f : s0.finishAfterSend = false)
    (hc0 : CFresh c0) (cevs : List (CEv α)) (sevs : List (SEv α))
    (hsend : SStream.legalSends scfg sid s0 false sevs = true)
    (hreply : Emission.sReplyIsLast sevs = true)
    (hok : ∃ f ∈ C01.emittedFramesS (SStream.runEv scfg sid s0 sevs).2, isCloseOK f = true)
    (hrecv : legalRecvsC ccfg sid c0 cevs = true)
    (hfu : c0.fc = true ∨ (CStream.runEv ccfg sid c0 cevs).1.unsupported = false)
    (hfifo : C01.fedFramesC cevs = C01.emittedFramesS (SStream.runEv scfg sid s0 sevs).2)
    (hnocancel : cNoCancel cevs = true)
    (hwin : noWinExceed ccfg sid c0 cevs = true)
    (hss : c0.ss = false → (SEv.submitted sevs).length ≤ 1) :
    (CStream.runEv ccfg sid c0 cevs).1.done = some .eof := by
  obtain ⟨c, hc, hcok⟩ := hok
  obtain ⟨a, b, hab⟩ := List.append_of_mem hc
  -- the frames before the close frame
  have hone := Conformance.S2_at_most_one_close scfg sid s0 sevs
  have hset := Conformance.S4_no_settings scfg sid s0 sevs
  have huns := srv_no_unset scfg sid sevs s0
  have hfr : Conformance.sframes (SStream.runEv scfg sid s0 sevs).2 = a ++ c :: b := hab
  rw [← Conformance.cnt_def, hfr, Conformance.cnt_append, Conformance.cnt_cons, isClose_of_ok hcok] at hone
  have ha : ∀ f ∈ a, Conformance.S.isClose f = false ∧ Conformance.S.isSettings f = false ∧ isUnset f = false := by
    intro f hf
    have hmem : f ∈ Conformance.sframes (SStream.runEv scfg sid s0 sevs).2 := by rw [hfr]; simp [hf]
    refine ⟨?_, ?_, huns f hmem⟩
    · cases hx : Conformance.S.isClose f with
      | false => rfl
      | true =>
        have := Conformance.cnt_pos_of_any Conformance.S.isClose a (List.any_eq_true.mpr ⟨f, hf, hx⟩)
        simp only [if_true] at hone
        omega
    · have := List.all_eq_true.mp hset f hmem
      simpa using this
  -- split the caller's events at the close frame
  obtain ⟨pre, y, post, hsplit, hy, hpre, _⟩ := filterMap_eq_append_cons _ cevs a c b (hfifo.trans hab)
  have hyc : y = .frame c := by
    cases y with
    | frame f => simp only [Option.some.injEq] at hy; rw [hy]
    | call c => cases hy
    | ctx e => cases hy
  subst hyc hsplit
  replace hpre : C01.fedFramesC pre = a := hpre
  rw [legalRecvsC_append, Bool.and_eq_true] at hrecv
  obtain ⟨hl1, hl2⟩ := hrecv
  rw [Emission.c_runEv_append] at hfu ⊢
  dsimp only at hfu ⊢
  have hquiet : ∀ e ∈ pre, evQuiet e = true := by
    intro e he
    have hnc := List.all_eq_true.mp hnocancel e (by simp [he])
    cases e with
    | frame f =>
      have hfa : f ∈ a := by rw [← hpre]; exact List.mem_filterMap.mpr ⟨_, he, rfl⟩
      obtain ⟨h1, h2, h3⟩ := ha f hfa
      cases f with
      | close st tr => cases h1
      | settings w rv => cases h2
      | unset => cases h3
      | _ => rfl
    | call c => cases c <;> first | rfl | cases hnc
    | ctx e => cases hnc
  -- the data before the close frame is good
  obtain ⟨ms, st, hparse, hms⟩ := Emission.server_emits_chunkings_partial scfg hcm sid s0 hs0 hs0f sevs hsend hreply
  have hgood : GoodData c0.ss (CEv.fedData pre) := by
    have hdata : Out.emittedData (SStream.runEv scfg sid s0 sevs).2 =
        CEv.fedData pre ++ (c :: b).filterMap dataOfS2C := by
      rw [C01.emittedData_eq_S]
      show (Conformance.sframes (SStream.runEv scfg sid s0 sevs).2).filterMap dataOfS2C = _
      rw [hfr, List.filterMap_append, C01.fedData_eq_C, hpre]
    apply GoodData.prefix (D' := (c :: b).filterMap dataOfS2C)
    rw [← hdata]
    refine ⟨⟨ms, st, hparse⟩, fun h => ?_⟩
    rw [hparse]
    show ms.length ≤ 1
    have := hms.length_le
    have := hss h
    omega
  -- phase 1: the RPC stays open
  have hwin1 : noWinExceed ccfg sid c0 pre = true := by
    rw [noWinExceed_append, Bool.and_eq_true] at hwin
    exact hwin.1
  have hfu1 : c0.fc = true ∨ (CStream.runEv ccfg sid c0 pre).1.unsupported = false := by
    rcases hfu with h | h
    · exact Or.inl h
    · right
      cases hu : (CStream.runEv ccfg sid c0 pre).1.unsupported with
      | false => rfl
      | true => rw [crunEv_unsupported ccfg sid _ _ hl2 hu] at h; cases h
  obtain ⟨hd1, _, _⟩ := stays_open ccfg sid pre c0 [] [] hc0.inv (CFresh.preInv hc0) hc0.2.2.2.2.2.1 hl1 hfu1
    hquiet hwin1 (by simpa using hgood)
  -- the close frame
  cases c with
  | close st tr =>
    have hst : st.code = 0 := by simpa [isCloseOK] using hcok
    rw [crunEv_cons]
    apply crun_keeps_done
    have := (ClientShape.close_frame_outcome ccfg sid _ st tr hd1).1
    rw [show statusErr st = none by simp [statusErr, hst]] at this
    exact this
  | settings w rv => cases hcok
  | headers md => cases hcok
  | msg n d => cases hcok
  | more d => cases hcok
  | windowUpdate n => cases hcok
  | unset => cases hcok

/-- the form "the handler returned OK": if the handler returns with an OK status
    on a stream that was not finished before, the OK close frame is on the wire
    (hypothesis `hok` of `C01_response_ok_partial`; in `C01_response_complete`
    it is not even needed: the caller's `io.EOF` implies it) -/
theorem closeOK_of_ret (cfg : SCfg) (sid : Sid) (s0 : SStream α) (pre post : List (SEv α)) (st : Status)
    (hcl : (SStream.runEv cfg sid s0 pre).1.closed = false) (hst : st.code = 0) :
    ∃ f ∈ C01.emittedFramesS (SStream.runEv cfg sid s0 (pre ++ .call (.ret st) :: post)).2, isCloseOK f = true := by
  obtain ⟨f, hf, hfok⟩ := ret_emits_closeOK cfg sid _ st hcl hst
  refine ⟨f, ?_, hfok⟩
  show f ∈ Conformance.sframes (SStream.runEv cfg sid s0 (pre ++ .call (.ret st) :: post)).2
  rw [Conformance.runEv_append, Conformance.sframes_append, Conformance.runEv_cons, Conformance.sframes_cons]
  exact List.mem_append_right _ (List.mem_append_left _ hf)

theorem sReplyIsLast_of_noCall : ∀ (evs : List (SEv α)), sNoCallAfterRet evs = true →
    Emission.sReplyIsLast evs = true := by
  intro evs
  induction evs with
  | nil => intro _; rfl
  | cons e es ih =>
    intro h
    simp only [sNoCallAfterRet, Bool.and_eq_true] at h
    simp only [Emission.sReplyIsLast, Bool.and_eq_true]
    refine ⟨?_, ih h.2⟩
    cases hr : Emission.sIsReply e with
    | false => rfl
    | true =>
      have h1 := h.1
      rw [sIsReply_isRet hr] at h1
      simp only [Bool.not_true, Bool.false_or, List.all_eq_true, Bool.not_eq_eq_eq_not, Bool.not_true] at h1
      simp only [Bool.not_true, Bool.false_or, List.all_eq_true, Bool.not_eq_eq_eq_not, Bool.not_true]
      intro e' he'
      cases hs : Emission.sIsSend e' with
      | false => rfl
      | true => have := h1 e' he'; rw [sIsSend_isCall hs] at this; cases this

/-! # Q: the request direction (caller → handler)

  ## the server's read side, exactly -/

theorem eofIn_ctx (sid : Sid) (n : String) (c : CtxErr) : eofIn [(sid, n, (Res.ctx c : Res α))] = false := by
  simp [eofIn, isEof]

theorem finishCore_noeof (sid : Sid) (s : SStream α) (err : Option SErr) :
    eofIn (s.finishCore sid err).2.dones = false := by
  rw [(finishCore_fields sid s err).2.2]; rfl

theorem dccSend_facts (sid : Sid) (s : SStream α) (e : CtxErr) :
    eofIn (Delivery.ccSend sid s e).2.dones = false := by
  unfold Delivery.ccSend
  split
  · dsimp only
    split
    · exact finishCore_noeof _ _ _
    · exact eofIn_ctx _ _ _
  · rfl

theorem dccRead_facts (sid : Sid) (s : SStream α) (e : CtxErr) :
    eofIn (Delivery.ccRead sid s e).2.dones = false ∧
    ((Delivery.ccRead sid s e).1.readErr = s.readErr ∨ (Delivery.ccRead sid s e).1.readErr = some (.ctx e)) := by
  unfold Delivery.ccRead
  split
  · dsimp only
    split
    · refine ⟨?_, Or.inr ?_⟩
      · show eofIn (_ ++ _) = false
        rw [eofIn_append, finishCore_noeof, eofIn_ctx]; rfl
      · exact (Delivery.finishCore_keeps sid _ _).readErr
    · exact ⟨eofIn_ctx _ _ _, Or.inr rfl⟩
  · exact ⟨rfl, Or.inl rfl⟩

/-- what the end of the context does to the read side -/
theorem cancelCtx_facts (sid : Sid) (s : SStream α) (e : CtxErr) :
    (s.cancelCtx sid e).1.ctxDone.isSome = true ∧
    ((s.cancelCtx sid e).1.readErr = s.readErr ∨ ∃ c, (s.cancelCtx sid e).1.readErr = some (.ctx c)) ∧
    eofIn (s.cancelCtx sid e).2.dones = false := by
  rw [Delivery.cancelCtx_fst, Delivery.cancelCtx_dones]
  split
  · rename_i h
    exact ⟨h, Or.inl rfl, rfl⟩
  · have h1 := Delivery.ccSend_keeps sid
      ({ s with ctxDone := some e, rcv := if s.fc then s.rcv.cancel else s.rcv.close } : SStream α) e
    have h2 := Delivery.ccRead_fields sid (Delivery.ccSend sid
      ({ s with ctxDone := some e, rcv := if s.fc then s.rcv.cancel else s.rcv.close } : SStream α) e).1 e
    have h3 := dccRead_facts sid (Delivery.ccSend sid
      ({ s with ctxDone := some e, rcv := if s.fc then s.rcv.cancel else s.rcv.close } : SStream α) e).1 e
    refine ⟨by rw [h2.2.1, h1.ctxDone]; rfl, ?_, ?_⟩
    · rcases h3.2 with h | h
      · exact Or.inl (h.trans h1.readErr)
      · exact Or.inr ⟨e, h⟩
    · rw [eofIn_append, dccSend_facts, h3.1]; rfl

/-- ... and `finishStream` -/
theorem finish_facts (sid : Sid) (s : SStream α) (err : Option SErr) (b : Bool) :
    (s.finish sid err b).1.ctxDone.isSome = true ∧
    ((s.finish sid err b).1.readErr = s.readErr ∨ ∃ c, (s.finish sid err b).1.readErr = some (.ctx c)) ∧
    eofIn (s.finish sid err b).2.dones = false := by
  rw [finish_eq]
  obtain ⟨h1, h2, h3⟩ := cancelCtx_facts sid (s.finishCore sid (raceErr (b && s.ctxDone.isNone &&
    ((s.hstatus == .decoding && s.pread.isSome) || (s.finishAfterSend && s.psend.isSome))) err)).1 .canceled
  refine ⟨h1, ?_, ?_⟩
  · rw [(finishCore_fields sid s _).1] at h2; exact h2
  · show eofIn (_ ++ _) = false
    rw [eofIn_append, h3, finishCore_noeof]; rfl

/-- the error a read returns when `dequeue` fails (receiver closed or cancelled, queue empty) -/
def deqErr (s : SStream α) : SErr :=
  match s.ctxDone, s.halfClosed with
  | some c, _ => .ctx c
  | none, some h => h
  | none, none => .ctx .canceled

theorem eofIn_toRes_imp (sid : Sid) (n : String) (e : SErr)
    (h : eofIn [(sid, n, (e.toRes : Res α))] = true) : e = .eof := by
  simp only [eofIn, List.any_cons, List.any_nil, Bool.or_false, Bool.and_eq_true] at h
  exact (isEof_toRes e).mp h.2

/-- what one `resumeRead` of the server does: `live` / `end` / `err` as on the client; the
    `err` case includes the `finishStream` that `RecvMsg` performs -/
def RRS (s : SStream α) (r : SStream α × Out α) : Prop :=
  (r.1.ctxDone = s.ctxDone ∧ r.1.halfClosed = s.halfClosed ∧ r.1.rcv.closed = s.rcv.closed ∧
    r.1.rcv.cancelled = s.rcv.cancelled ∧ r.1.readErr = s.readErr ∧ r.1.cs = s.cs ∧
    eofIn r.2.dones = false ∧
    ∀ acc del, Acct s.rcv.queue false s.pread acc del →
      Acct r.1.rcv.queue false r.1.pread acc (del ++ msgsOfDones r.2.dones)) ∨
  ((s.rcv.closed || s.rcv.cancelled) = true ∧ r.1.ctxDone = s.ctxDone ∧ r.1.halfClosed = s.halfClosed ∧
    r.1.rcv.closed = s.rcv.closed ∧ r.1.rcv.cancelled = s.rcv.cancelled ∧ r.1.cs = s.cs ∧
    r.1.readErr = some (deqErr s) ∧ r.1.pread = none ∧
    (eofIn r.2.dones = true → deqErr s = .eof) ∧
    (deqErr s = .eof → ∀ acc del, Acct s.rcv.queue false s.pread acc del →
      (parse none acc).1 = del ++ msgsOfDones r.2.dones)) ∨
  (r.1.ctxDone.isSome = true ∧ r.1.pread = none ∧ (∃ e, e ≠ .eof ∧ r.1.readErr = some e) ∧ r.1.cs = s.cs ∧
    eofIn r.2.dones = false)

theorem RRS.refl (s : SStream α) : RRS s (s, {}) :=
  Or.inl ⟨rfl, rfl, rfl, rfl, rfl, rfl, rfl, fun acc del h => by simpa using h⟩

/-- `failWith … false`: the call fails and `RecvMsg` finishes the stream -/
theorem failFinish_rrs (sid : Sid) (s s2 : SStream α) (fr : List (Sid × S2C α)) (n : String) (e : SErr)
    (he : e ≠ .eof) (hre : s2.readErr = some e) (hp : s2.pread = none) (hcs : s2.cs = s.cs) :
    RRS s ((s2.finish sid (some e)).1,
      ({ frames := fr, dones := [(sid, n, e.toRes)] } : Out α).add (s2.finish sid (some e)).2) := by
  obtain ⟨h1, h2, h3⟩ := finish_facts sid s2 (some e) false
  have hq := ServerShape.finish_quiet sid s2 (some e) false
  refine Or.inr (Or.inr ⟨h1, (hq.keep hp).1, ?_, hq.cs.trans hcs, ?_⟩)
  · rcases h2 with h | ⟨c, h⟩
    · exact ⟨e, he, h.trans hre⟩
    · exact ⟨.ctx c, by simp, h⟩
  · show eofIn (_ ++ _) = false
    rw [eofIn_append, h3, Bool.or_false]
    cases hx : eofIn [(sid, n, (e.toRes : Res α))] with
    | false => rfl
    | true => exact absurd (eofIn_toRes_imp sid n e hx) he

theorem perrStatus_ne_eof (mn : String) (e : PErr) : perrStatus mn e ≠ .eof := by
  cases e <;> simp [perrStatus]

theorem resumeRead_rrs (sid : Sid) (mn : String) : ∀ (fuel : Nat) (s : SStream α),
    RRS s (s.resumeRead sid mn fuel) := by
  intro fuel
  induction fuel with
  | zero => intro s; exact RRS.refl s
  | succ n ih =>
    intro s
    rw [SStream.resumeRead]
    split
    · exact RRS.refl s
    · rename_i p hp
      split
      rename_i rwin q credits out hrl
      obtain ⟨taken, hqt, hcont, hmsg, hne⟩ := readLoop_parse _ _ _ _ _ _ _ hrl
      dsimp only
      split
      · -- the queue ran dry
        rename_i st'
        obtain ⟨hq', hpt⟩ := hcont st' rfl
        split
        · rename_i hcl
          have hcl' : (s.rcv.closed || s.rcv.cancelled) = true := hcl
          split
          · -- the look-ahead found the end of the request stream
            rename_i m hl he
            refine Or.inr (Or.inl ⟨hcl', rfl, rfl, rfl, rfl, rfl, ?_, rfl, ?_, fun _ acc del ha => ?_⟩)
            · show some SErr.eof = some (deqErr s)
              rw [← he]; rfl
            · intro h; rw [eofIn_msg] at h; cases h
            · rw [hp] at ha
              have := Acct.eof_result (ha.read_cont hrl rfl) hq'
              simpa [held, hl, msgsOfDones] using this
          · rename_i hnot
            refine Or.inr (Or.inl ⟨hcl', rfl, rfl, rfl, rfl, rfl, rfl, rfl, ?_, fun heof acc del ha => ?_⟩)
            · intro h
              exact eofIn_toRes_imp _ _ _ h
            · show _ = del ++ msgsOfDones [(sid, _, SErr.toRes _)]
              rw [msgsOfDones_toRes, List.append_nil]
              rw [hp] at ha
              have := Acct.eof_result (ha.read_cont hrl rfl) hq'
              cases hl : p.lookahead with
              | none => simpa [held, hl] using this
              | some m => exact (hnot m hl heof).elim
        · -- the read stays blocked
          refine Or.inl ⟨rfl, rfl, rfl, rfl, rfl, rfl, rfl, fun acc del ha => ?_⟩
          rw [hp] at ha
          show Acct q false (some { lookahead := p.lookahead, rst := st' }) acc (del ++ [])
          rw [List.append_nil]
          exact ha.read_cont hrl rfl
      · -- a complete message
        rename_i m
        have hpt := hmsg m rfl
        split
        · -- a second request
          simp only [Bool.false_eq_true, ↓reduceIte]
          exact failFinish_rrs sid s _ _ _ _ (by simp) rfl rfl rfl
        · rename_i hl
          split
          · -- delivered
            refine Or.inl ⟨rfl, rfl, rfl, rfl, rfl, rfl, eofIn_msg _ _ _, fun acc del ha => ?_⟩
            rw [hp] at ha
            exact (ha.read_msg hrl rfl hl).1
          · -- the eager second read
            have h2 := ih ({ s with
              rcv := { s.rcv with rwin := if s.fc then rwin else s.rcv.rwin, queue := q },
              pread := some { lookahead := some m, rst := none } } : SStream α)
            have hacc : ∀ acc del, Acct s.rcv.queue false s.pread acc del →
                Acct q false (some { lookahead := some m, rst := none }) acc del := by
              intro acc del ha
              rw [hp] at ha
              exact (ha.read_msg hrl rfl hl).2
            have hdn : ∀ (o : Out α), (({ frames := s.creditFrames sid credits } : Out α).add o).dones = o.dones := by
              intro o; simp [Out.add]
            rcases h2 with ⟨a1, a2, a3, a4, a5, a6, a7, a8⟩ | ⟨a1, a2, a3, a4, a5, a6, a7, a8, a9, a10⟩ |
              ⟨a1, a2, a3, a4, a5⟩
            · refine Or.inl ⟨a1, a2, a3, a4, a5, a6, by rw [hdn]; exact a7, fun acc del ha => ?_⟩
              rw [hdn]
              exact a8 acc del (hacc acc del ha)
            · refine Or.inr (Or.inl ⟨a1, a2, a3, a4, a5, a6, a7, a8, by rw [hdn]; exact a9,
                fun heof acc del ha => ?_⟩)
              rw [hdn]
              exact a10 heof acc del (hacc acc del ha)
            · exact Or.inr (Or.inr ⟨a1, a2, a3, a4, by rw [hdn]; exact a5⟩)
      · -- a reassembly error
        simp only [Bool.false_eq_true, ↓reduceIte]
        exact failFinish_rrs sid s _ _ _ _ (perrStatus_ne_eof mn _) rfl rfl rfl
      · exact absurd rfl hne

/-! ## the invariant of a server run, request direction -/

/-- no `RecvMsg` can return `io.EOF` from here: the sticky read error is not
    `io.EOF`, and the context has ended or the request stream is not half-closed
    OK; the receiver is closed (or a read has failed) only if the context has
    ended or the stream is half-closed -/
def NE1 (s : SStream α) : Prop :=
  s.readErr ≠ some .eof ∧ (s.ctxDone.isSome = true ∨ s.halfClosed ≠ some .eof) ∧
  ((s.readErr.isSome = true ∨ s.rcv.closed = true ∨ s.rcv.cancelled = true) →
    (s.ctxDone.isSome = true ∨ s.halfClosed.isSome = true))

/-- the invariant: (1) the reads have reached the end of the half-closed
    request stream (`Done`) and everything accepted was delivered; or (2) the
    request stream is half-closed OK, the context is live and the reads are
    draining the queue; or (3) no read has returned `io.EOF` and none can -/
def SQ (s : SStream α) (acc : List (DFrame α)) (del : List (List α)) (saw : Bool) : Prop :=
  (ServerShape.Done s ∧ (parse none acc).1 = del) ∨
  (saw = false ∧ s.ctxDone = none ∧ s.halfClosed = some .eof ∧ s.rcv.closed = true ∧ s.readErr = none ∧
    Acct s.rcv.queue false s.pread acc del) ∨
  (saw = false ∧ NE1 s)

/-- the contract of a server building block -/
structure TQ (s s' : SStream α) (o : Out α) : Prop where
  ne : NE1 s → NE1 s' ∧ eofIn o.dones = false
  sq : ∀ acc del saw, SQ s acc del saw → SQ s' acc (del ++ msgsOfDones o.dones) (saw || eofIn o.dones)

theorem TQ.refl (s : SStream α) : TQ s s {} :=
  ⟨fun h => ⟨h, rfl⟩, fun acc del saw h => by simpa using h⟩

theorem TQ.seq {s a b : SStream α} {o1 o2 : Out α} (h1 : TQ s a o1) (h2 : TQ a b o2) : TQ s b (o1.add o2) := by
  refine ⟨fun h => ?_, fun acc del saw h => ?_⟩
  · obtain ⟨ha, e1⟩ := h1.ne h
    obtain ⟨hb, e2⟩ := h2.ne ha
    refine ⟨hb, ?_⟩
    show eofIn (_ ++ _) = false
    rw [eofIn_append, e1, e2]; rfl
  · have := h2.sq _ _ _ (h1.sq acc del saw h)
    show SQ b acc (del ++ msgsOfDones (o1.dones ++ o2.dones)) (saw || eofIn (o1.dones ++ o2.dones))
    rw [msgsOfDones_append, eofIn_append, ← List.append_assoc, ← Bool.or_assoc]
    exact this

theorem TQ.swap {s a b : SStream α} {o1 o2 : Out α} (h1 : TQ s a o1) (h2 : TQ a b o2)
    (hm1 : msgsOfDones o1.dones = []) (hm2 : msgsOfDones o2.dones = []) : TQ s b (o2.add o1) := by
  have h := h1.seq h2
  refine ⟨fun hn => ?_, fun acc del saw hq => ?_⟩
  · obtain ⟨hb, e⟩ := h.ne hn
    refine ⟨hb, ?_⟩
    have e' : eofIn (o1.dones ++ o2.dones) = false := e
    show eofIn (o2.dones ++ o1.dones) = false
    rw [eofIn_append] at e' ⊢
    rw [Bool.or_comm]; exact e'
  · have := h.sq acc del saw hq
    have e1 : msgsOfDones (o1.add o2).dones = msgsOfDones (o2.add o1).dones := by
      show msgsOfDones (_ ++ _) = msgsOfDones (_ ++ _)
      rw [msgsOfDones_append, msgsOfDones_append, hm1, hm2]
    have e2 : eofIn (o1.add o2).dones = eofIn (o2.add o1).dones := by
      show eofIn (_ ++ _) = eofIn (_ ++ _)
      rw [eofIn_append, eofIn_append, Bool.or_comm]
    rw [← e1, ← e2]; exact this

theorem msgs_of_delivered {o : Out α} (h : ServerShape.delivered o = 0) : msgsOfDones o.dones = [] := by
  have := (ServerShape.delivered_eq_zero_iff o).mp h
  simp only [msgsOfDones, List.filterMap_eq_nil_iff]
  intro d hd
  have hm := this d hd
  cases hr : d.2.2 <;> simp_all [ServerShape.isMsg]

/-- a block that does not touch the read side, the context, the half-close state and the receiver -/
theorem TQ.of_fields {s s' : SStream α} {o : Out α} (hr : s'.readErr = s.readErr) (hp : s'.pread = s.pread)
    (hc : s'.ctxDone = s.ctxDone) (hh : s'.halfClosed = s.halfClosed) (hq : s'.rcv = s.rcv)
    (hm : msgsOfDones o.dones = []) (he : eofIn o.dones = false) : TQ s s' o := by
  have hne : NE1 s → NE1 s' := fun h => by unfold NE1 at *; rw [hr, hc, hh, hq]; exact h
  refine ⟨fun h => ⟨hne h, he⟩, fun acc del saw h => ?_⟩
  rw [hm, he, List.append_nil, Bool.or_false]
  rcases h with ⟨hd, hpa⟩ | ⟨h1, h2, h3, h4, h5, h6⟩ | ⟨h1, h2⟩
  · exact Or.inl ⟨⟨by rw [hr]; exact hd.1, by rw [hp]; exact hd.2⟩, hpa⟩
  · exact Or.inr (Or.inl ⟨h1, by rw [hc]; exact h2, by rw [hh]; exact h3, by rw [hq]; exact h4,
      by rw [hr]; exact h5, by rw [hq, hp]; exact h6⟩)
  · exact Or.inr (Or.inr ⟨h1, hne h2⟩)

/-- a block that ends the context (`finishStream`, the context watcher) -/
theorem TQ.of_fin {s s' : SStream α} {o : Out α} (hc : s'.ctxDone.isSome = true)
    (hr : s'.readErr = s.readErr ∨ ∃ c, s'.readErr = some (.ctx c)) (he : eofIn o.dones = false)
    (hm : msgsOfDones o.dones = []) (hq : ServerShape.Quiet s s') : TQ s s' o := by
  have hne : s.readErr ≠ some .eof → NE1 s' := by
    intro h
    refine ⟨?_, Or.inl hc, fun _ => Or.inl hc⟩
    rcases hr with hr | ⟨c, hr⟩
    · rw [hr]; exact h
    · rw [hr]; simp
  refine ⟨fun h => ⟨hne h.1, he⟩, fun acc del saw h => ?_⟩
  rw [hm, he, List.append_nil, Bool.or_false]
  rcases h with ⟨hd, hpa⟩ | ⟨h1, _, _, _, h5, _⟩ | ⟨h1, h2⟩
  · exact Or.inl ⟨hq.done hd, hpa⟩
  · exact Or.inr (Or.inr ⟨h1, hne (by rw [h5]; simp)⟩)
  · exact Or.inr (Or.inr ⟨h1, hne h2.1⟩)

theorem cancelCtx_tq (sid : Sid) (s : SStream α) (e : CtxErr) : TQ s (s.cancelCtx sid e).1 (s.cancelCtx sid e).2 := by
  obtain ⟨h1, h2, h3⟩ := cancelCtx_facts sid s e
  exact TQ.of_fin h1 h2 h3 (Delivery.cancelCtx_msgs sid s e) (ServerShape.cancelCtx_quiet sid s e)

theorem finish_tq (sid : Sid) (s : SStream α) (err : Option SErr) (b : Bool) :
    TQ s (s.finish sid err b).1 (s.finish sid err b).2 := by
  obtain ⟨h1, h2, h3⟩ := finish_facts sid s err b
  exact TQ.of_fin h1 h2 h3 (Delivery.finish_msgs sid s err b) (ServerShape.finish_quiet sid s err b)

theorem TQ.pre {s s0 s' : SStream α} {o : Out α} (h : TQ s0 s' o) (hr : s0.readErr = s.readErr)
    (hp : s0.pread = s.pread) (hc : s0.ctxDone = s.ctxDone) (hh : s0.halfClosed = s.halfClosed)
    (hq : s0.rcv = s.rcv) : TQ s s' o := by
  have h0 : TQ s s0 {} := TQ.of_fields hr hp hc hh hq rfl rfl
  have := h0.seq h
  rw [Out.empty_add] at this
  exact this

theorem TQ.post {s s1 s' : SStream α} {o : Out α} (h : TQ s s1 o) (hr : s'.readErr = s1.readErr)
    (hp : s'.pread = s1.pread) (hc : s'.ctxDone = s1.ctxDone) (hh : s'.halfClosed = s1.halfClosed)
    (hq : s'.rcv = s1.rcv) : TQ s s' o := by
  have h0 : TQ s1 s' {} := TQ.of_fields hr hp hc hh hq rfl rfl
  have := h.seq h0
  have e : o.add {} = o := by cases o; simp [Out.add]
  rw [e] at this
  exact this

theorem deqErr_ne_eof {s : SStream α} (h : s.ctxDone.isSome = true ∨ s.halfClosed ≠ some .eof) :
    deqErr s ≠ .eof := by
  unfold deqErr
  cases hc : s.ctxDone with
  | some c => simp
  | none =>
    rw [hc] at h
    cases hh : s.halfClosed with
    | none => simp
    | some x =>
      rcases h with h | h
      · cases h
      · rw [hh] at h
        simp only
        exact fun hx => h (by rw [hx])

theorem deqErr_eof {s : SStream α} (hc : s.ctxDone = none) (hh : s.halfClosed = some .eof) : deqErr s = .eof := by
  unfold deqErr
  rw [hc, hh]

theorem rrs_tq {s : SStream α} {r : SStream α × Out α} (h : RRS s r)
    (hnone : s.pread = none → r = (s, {})) : TQ s r.1 r.2 := by
  have hne : NE1 s → NE1 r.1 ∧ eofIn r.2.dones = false := by
    intro ⟨n1, n2, n3⟩
    rcases h with ⟨a1, a2, a3, a4, a5, _, a7, _⟩ | ⟨a0, a1, a2, a3, a4, _, a6, _, a8, _⟩ | ⟨a1, _, ⟨e, a2, a3⟩, _, a5⟩
    · exact ⟨⟨by rw [a5]; exact n1, by rw [a1, a2]; exact n2, by rw [a5, a3, a4, a1, a2]; exact n3⟩, a7⟩
    · have hd := deqErr_ne_eof n2
      refine ⟨⟨by rw [a6]; exact fun hh => hd (Option.some.inj hh), by rw [a1, a2]; exact n2, fun _ => ?_⟩, ?_⟩
      · rw [a1, a2]
        apply n3
        simp only [Bool.or_eq_true] at a0
        rcases a0 with h | h
        · exact Or.inr (Or.inl h)
        · exact Or.inr (Or.inr h)
      · cases hx : eofIn r.2.dones with
        | false => rfl
        | true => exact absurd (a8 hx) hd
    · exact ⟨⟨by rw [a3]; exact fun hh => a2 (Option.some.inj hh), Or.inl a1, fun _ => Or.inl a1⟩, a5⟩
  refine ⟨hne, fun acc del saw hq => ?_⟩
  rcases hq with ⟨hd, hpa⟩ | ⟨h1, h2, h3, h4, h5, h6⟩ | ⟨h1, h2⟩
  · rw [hnone hd.2]
    exact Or.inl ⟨hd, by simpa using hpa⟩
  · rw [h1, Bool.false_or]
    rcases h with ⟨a1, a2, a3, a4, a5, _, a7, a8⟩ | ⟨_, a1, a2, a3, a4, _, a6, a7, _, a9⟩ | ⟨a1, _, ⟨e, a2, a3⟩, _, a5⟩
    · exact Or.inr (Or.inl ⟨a7, a1.trans h2, a2.trans h3, a3.trans h4, a5.trans h5, a8 acc del h6⟩)
    · have hde := deqErr_eof h2 h3
      exact Or.inl ⟨⟨by rw [a6]; rfl, a7⟩, a9 hde acc del h6⟩
    · exact Or.inr (Or.inr ⟨a5, by rw [a3]; exact fun hh => a2 (Option.some.inj hh), Or.inl a1, fun _ => Or.inl a1⟩)
  · obtain ⟨hn, he⟩ := hne h2
    rw [he, Bool.or_false]
    exact Or.inr (Or.inr ⟨h1, hn⟩)

theorem resumeRead_tq (sid : Sid) (mn : String) (fuel : Nat) (s : SStream α) :
    TQ s (s.resumeRead sid mn fuel).1 (s.resumeRead sid mn fuel).2 :=
  rrs_tq (resumeRead_rrs sid mn fuel s) (fun h => ServerShape.resumeRead_none sid mn fuel s h)

theorem spumpSend_tq (cfg : SCfg) (sid : Sid) (s : SStream α) (snd : Snd α) :
    TQ s (s.pumpSend cfg sid snd).1 (s.pumpSend cfg sid snd).2 := by
  obtain ⟨w, ps, hs, _⟩ := Conformance.pumpSend_shape' cfg sid s snd
  obtain ⟨_, h2, _⟩ := pumpSend_out cfg sid s snd
  refine TQ.of_fields (by rw [hs]) (by rw [hs]) (by rw [hs]) (by rw [hs]) (by rw [hs])
    (Delivery.pumpSend_msgs cfg sid s snd) ?_
  rcases h2 with h2 | h2 | ⟨e, h2⟩ <;> rw [h2] <;> simp [eofIn]

theorem afterSend_tq (sid : Sid) (s0 s : SStream α) (o : Out α) (h : TQ s0 s o)
    (hm : msgsOfDones o.dones = []) : TQ s0 (s.afterSend sid o).1 (s.afterSend sid o).2 := by
  rw [afterSend_eq]
  split
  · have hf := finish_tq sid ({ s with finishAfterSend := false, hstatus := .returned } : SStream α) (sendErr o) false
    have h1 : TQ s0 ({ s with finishAfterSend := false, hstatus := .returned } : SStream α) o :=
      h.post rfl rfl rfl rfl rfl
    have h2 := h1.seq hf
    -- the filter only removes "send" completions
    have hfl : ∀ (p : Sid × String × Res α → Bool), msgsOfDones (o.dones.filter p) = [] :=
      fun p => msgsOfDones_filter _ p hm
    refine ⟨fun hn => ?_, fun acc del saw hq => ?_⟩
    · obtain ⟨ha, e⟩ := h2.ne hn
      refine ⟨ha, ?_⟩
      have e' : eofIn (o.dones ++ _) = false := e
      rw [eofIn_append, Bool.or_eq_false_iff] at e'
      show eofIn (o.dones.filter _ ++ _) = false
      rw [eofIn_append, e'.2, Bool.or_false]
      cases hx : eofIn (o.dones.filter fun d => d.2.1 != "send") with
      | false => rfl
      | true =>
        obtain ⟨d, hd, hdd⟩ := List.any_eq_true.mp hx
        have : eofIn o.dones = true := List.any_eq_true.mpr ⟨d, (List.mem_filter.mp hd).1, hdd⟩
        rw [e'.1] at this; cases this
    · have := h2.sq acc del saw hq
      have e1 : msgsOfDones (o.add (({ s with finishAfterSend := false, hstatus := .returned } : SStream α).finish
          sid (sendErr o) false).2).dones = msgsOfDones (({ o with dones := o.dones.filter fun d => d.2.1 != "send" } :
          Out α).add (({ s with finishAfterSend := false, hstatus := .returned } : SStream α).finish
          sid (sendErr o) false).2).dones := by
        show msgsOfDones (_ ++ _) = msgsOfDones (_ ++ _)
        rw [msgsOfDones_append, msgsOfDones_append, hm, hfl]
      have e2 : eofIn (o.add (({ s with finishAfterSend := false, hstatus := .returned } : SStream α).finish
          sid (sendErr o) false).2).dones = eofIn (({ o with dones := o.dones.filter fun d => d.2.1 != "send" } :
          Out α).add (({ s with finishAfterSend := false, hstatus := .returned } : SStream α).finish
          sid (sendErr o) false).2).dones := by
        show eofIn (_ ++ _) = eofIn (_ ++ _)
        rw [eofIn_append, eofIn_append]
        congr 1
        -- "recv" completions survive the filter
        simp only [eofIn, List.any_filter]
        congr 1
        funext d
        cases hd : (d.2.1 == "recv")
        · simp
        · have : d.2.1 = "recv" := by simpa using hd
          simp [this]
      rw [← e1, ← e2]; exact this
  · exact h

theorem afterDecode_tq (sid : Sid) (s0 s : SStream α) (o : Out α) (h : TQ s0 s o) :
    TQ s0 (s.afterDecode sid o).1 (s.afterDecode sid o).2 := by
  unfold SStream.afterDecode
  split
  · split
    · exact h.post rfl rfl rfl rfl rfl
    · dsimp only
      exact (h.post (s' := ({ s with hstatus := .returned } : SStream α)) rfl rfl rfl rfl rfl).seq
        (finish_tq sid _ _ _)
    · exact h
  · exact h

theorem readAndSettle_tq (sid : Sid) (s : SStream α) : TQ s (s.readAndSettle sid).1 (s.readAndSettle sid).2 := by
  unfold SStream.readAndSettle
  exact afterDecode_tq sid s _ _ (resumeRead_tq sid "" 3 s)

theorem startRecv_tq (sid : Sid) (s : SStream α) (hk : recvOK s.pread = true) :
    TQ s (s.startRecv sid).1 (s.startRecv sid).2 := by
  unfold SStream.startRecv
  dsimp only
  split
  · rename_i e he
    refine afterDecode_tq sid s s _ ⟨fun hn => ⟨hn, ?_⟩, fun acc del saw hq => ?_⟩
    · cases hx : eofIn [(sid, if (s.hstatus == HStatus.decoding) = true then "decode" else "recv", (e.toRes : Res α))] with
      | false => rfl
      | true => exact absurd (by rw [he, eofIn_toRes_imp _ _ _ hx]) hn.1
    · show SQ s acc (del ++ msgsOfDones [(sid, _, SErr.toRes e)]) _
      rw [msgsOfDones_toRes, List.append_nil]
      rcases hq with ⟨hd, hpa⟩ | ⟨_, _, _, _, h5, _⟩ | ⟨h1, h2⟩
      · exact Or.inl ⟨hd, hpa⟩
      · rw [he] at h5; cases h5
      · refine Or.inr (Or.inr ⟨?_, h2⟩)
        rw [h1, Bool.false_or]
        cases hx : eofIn [(sid, if (s.hstatus == HStatus.decoding) = true then "decode" else "recv", (e.toRes : Res α))] with
        | false => rfl
        | true => exact absurd (by rw [he, eofIn_toRes_imp _ _ _ hx]) h2.1
  · rename_i he
    split
    · rename_i c hc
      have hn' : NE1 ({ s with readErr := some (.ctx c) } : SStream α) :=
        ⟨by simp, Or.inl (by show s.ctxDone.isSome = true; rw [hc]; rfl),
         fun _ => Or.inl (by show s.ctxDone.isSome = true; rw [hc]; rfl)⟩
      refine afterDecode_tq sid s _ _ ⟨fun _ => ⟨hn', eofIn_ctx _ _ _⟩, fun acc del saw hq => ?_⟩
      show SQ _ acc (del ++ []) (saw || eofIn [(sid, _, Res.ctx c)])
      rw [List.append_nil, eofIn_ctx, Bool.or_false]
      rcases hq with ⟨hd, _⟩ | ⟨_, h2, _⟩ | ⟨h1, _⟩
      · have := hd.1; rw [he] at this; cases this
      · rw [hc] at h2; cases h2
      · exact Or.inr (Or.inr ⟨h1, hn'⟩)
    · rename_i hc
      have h0 : TQ s ({ s with pread := some { lookahead := none, rst := none } } : SStream α) {} := by
        refine ⟨fun hn => ⟨hn, rfl⟩, fun acc del saw hq => ?_⟩
        show SQ _ acc (del ++ []) (saw || false)
        rw [List.append_nil, Bool.or_false]
        rcases hq with ⟨hd, _⟩ | ⟨h1, h2, h3, h4, h5, h6⟩ | ⟨h1, h2⟩
        · have := hd.1; rw [he] at this; cases this
        · exact Or.inr (Or.inl ⟨h1, h2, h3, h4, h5, h6.start hk⟩)
        · exact Or.inr (Or.inr ⟨h1, h2⟩)
      have := h0.seq (readAndSettle_tq sid _)
      rw [Out.empty_add] at this
      exact this

/-- the pre-state differs in the receiver's queue / window only, and the receiver is open -/
theorem TQ.pre_open {s s0 s' : SStream α} {o : Out α} (h : TQ s0 s' o) (hr : s0.readErr = s.readErr)
    (hp : s0.pread = s.pread) (hc : s0.ctxDone = s.ctxDone) (hh : s0.halfClosed = s.halfClosed)
    (hcl : s0.rcv.closed = s.rcv.closed) (hx : s0.rcv.cancelled = s.rcv.cancelled)
    (hopen : s.rcv.closed = false) : TQ s s' o := by
  have hne : NE1 s → NE1 s0 := fun hn => by unfold NE1 at *; rw [hr, hc, hh, hcl, hx]; exact hn
  have h0 : TQ s s0 {} := by
    refine ⟨fun hn => ⟨hne hn, rfl⟩, fun acc del saw hq => ?_⟩
    show SQ _ acc (del ++ []) (saw || false)
    rw [List.append_nil, Bool.or_false]
    rcases hq with ⟨hd, hpa⟩ | ⟨_, _, _, h4, _, _⟩ | ⟨h1, h2⟩
    · exact Or.inl ⟨⟨by rw [hr]; exact hd.1, by rw [hp]; exact hd.2⟩, hpa⟩
    · rw [hopen] at h4; cases h4
    · exact Or.inr (Or.inr ⟨h1, hne h2⟩)
  have := h0.seq h
  rw [Out.empty_add] at this
  exact this

theorem sdataFrame_tq (sid : Sid) (s : SStream α) (df : DFrame α) (r : SStream α × Out α)
    (hr : r =
      (if s.fc then
        match s.rcv.accept df with
        | (_, .dropped) => (s, {})
        | (_, .windowExceeded) => s.finish sid (some errFlowControl) true
        | (r, .ok) => ({ s with rcv := r } : SStream α).readAndSettle sid
      else
        if s.rcv.closed then (s, {})
        else if !s.rcv.queue.isEmpty then ({ s with unsupported := true }, {})
        else ({ s with rcv := { s.rcv with queue := [df] } } : SStream α).readAndSettle sid)) :
    TQ s r.1 r.2 := by
  subst hr
  split
  · rcases accept_cases s.rcv df with ⟨_, ha⟩ | ⟨_, ha⟩ | ⟨hc, ha⟩
    · rw [ha]; exact TQ.refl s
    · rw [ha]; exact finish_tq sid s _ _
    · rw [ha]
      exact (readAndSettle_tq sid _).pre_open rfl rfl rfl rfl rfl rfl hc
  · split
    · exact TQ.refl s
    · rename_i hc
      have hc' : s.rcv.closed = false := by simpa using hc
      split
      · exact TQ.of_fields rfl rfl rfl rfl rfl rfl rfl
      · exact (readAndSettle_tq sid _).pre_open rfl rfl rfl rfl rfl rfl hc'

/-- the half-close frame on a stream whose request side cannot return `io.EOF` any more -/
theorem halfCloseFrame_ne (cfg : SCfg) (sid : Sid) (s : SStream α) (hn : NE1 s)
    (h : s.ctxDone.isSome = true ∨ s.halfClosed.isSome = true) :
    NE1 (s.onFrame cfg sid .halfClose).1 ∧ eofIn (s.onFrame cfg sid .halfClose).2.dones = false := by
  simp only [SStream.onFrame]
  split
  · exact ⟨hn, rfl⟩
  · rename_i hh
    have hc : s.ctxDone.isSome = true := by
      rcases h with h | h
      · exact h
      · exact absurd h hh
    have hs : s.halfClose .eof = { s with halfClosed := some .eof, rcv := s.rcv.close } := by
      simp [SStream.halfClose, hh]
    rw [hs]
    exact (readAndSettle_tq sid _).ne ⟨hn.1, Or.inl hc, fun _ => Or.inl hc⟩

def c2sIsHalfClose : C2S α → Bool
  | .halfClose => true
  | _ => false

theorem onFrame_tq (cfg : SCfg) (sid : Sid) (s : SStream α) (f : C2S α) (hf : c2sIsHalfClose f = false) :
    TQ s (s.onFrame cfg sid f).1 (s.onFrame cfg sid f).2 := by
  cases f with
  | newStream m md rev win => exact TQ.refl s
  | msg size d => exact sdataFrame_tq sid s (.env size d) _ rfl
  | more d => exact sdataFrame_tq sid s (.more d) _ rfl
  | halfClose => cases hf
  | cancel => exact finish_tq sid s _ _
  | windowUpdate n =>
    simp only [SStream.onFrame]
    split
    · exact TQ.refl s
    · split
      · exact TQ.of_fields rfl rfl rfl rfl rfl rfl rfl
      · exact afterSend_tq sid s _ _ ((spumpSend_tq cfg sid _ _).pre (by rfl) (by rfl) (by rfl) (by rfl) (by rfl))
          (Delivery.pumpSend_msgs cfg sid _ _)
  | unset => exact finish_tq sid s _ _

theorem hdrStage_tq (sid : Sid) (s : SStream α) :
    TQ s (Emission.hdrStage sid s).1 ({ frames := (Emission.hdrStage sid s).2 } : Out α) := by
  unfold Emission.hdrStage
  split
  · exact TQ.refl s
  · exact TQ.of_fields rfl rfl rfl rfl rfl rfl rfl

theorem onCall_tq (cfg : SCfg) (sid : Sid) (s : SStream α) (c : HCall α) (hk : callOK s c = true) :
    TQ s (s.onCall cfg sid c).1 (s.onCall cfg sid c).2 := by
  cases c with
  | recv => exact startRecv_tq sid s hk
  | send m =>
    rw [Emission.s_send_eq]
    dsimp only
    split
    · have hh := hdrStage_tq sid s
      refine ⟨fun hn => ⟨(hh.ne hn).1, by simp [eofIn]⟩, fun acc del saw hq => ?_⟩
      have := hh.sq acc del saw hq
      simpa [msgsOfDones, eofIn] using this
    · exact (hdrStage_tq sid s).seq ((spumpSend_tq cfg sid _ _).pre (by rfl) (by rfl) (by rfl) (by rfl) (by rfl))
  | setHeader md =>
    simp only [SStream.onCall]
    split
    · exact TQ.of_fields rfl rfl rfl rfl rfl rfl (by simp [eofIn])
    · exact TQ.of_fields rfl rfl rfl rfl rfl rfl (by simp [eofIn])
  | sendHeader md =>
    simp only [SStream.onCall]
    split
    · exact TQ.of_fields rfl rfl rfl rfl rfl rfl (by simp [eofIn])
    · exact TQ.of_fields rfl rfl rfl rfl rfl rfl (by simp [eofIn])
  | setTrailer md =>
    simp only [SStream.onCall]
    split
    · exact TQ.of_fields rfl rfl rfl rfl rfl rfl (by simp [eofIn])
    · exact TQ.of_fields rfl rfl rfl rfl rfl rfl (by simp [eofIn])
  | ret st =>
    simp only [SStream.onCall]
    exact ((finish_tq sid _ _ _).pre (by rfl) (by rfl) (by rfl) (by rfl) (by rfl)).seq
      (TQ.of_fields (o := { events := [s!"returned {sid}"] }) rfl rfl rfl rfl rfl rfl rfl)
  | reply m =>
    rw [Emission.s_reply_eq]
    dsimp only
    refine afterSend_tq sid s _ _
      ((hdrStage_tq sid s).seq ((spumpSend_tq cfg sid _ _).pre (by rfl) (by rfl) (by rfl) (by rfl) (by rfl))) ?_
    show msgsOfDones ([] ++ _) = []
    exact Delivery.pumpSend_msgs cfg sid _ _

/-! ## the server, end to end (request direction) -/

def sevIsHalfClose : SEv α → Bool
  | .frame f => c2sIsHalfClose f
  | _ => false

/-- some `RecvMsg` of the handler returned `io.EOF` -/
def sawRecvEofS (outs : List (Out α)) : Bool := outs.any (fun o => eofIn o.dones)

theorem sawRecvEofS_cons (o : Out α) (os : List (Out α)) :
    sawRecvEofS (o :: os) = (eofIn o.dones || sawRecvEofS os) := rfl

theorem sawRecvEofS_append (a b : List (Out α)) : sawRecvEofS (a ++ b) = (sawRecvEofS a || sawRecvEofS b) := by
  simp [sawRecvEofS, List.any_append]

theorem stepEv_tq (cfg : SCfg) (sid : Sid) (s : SStream α) (e : SEv α) (hk : sevOK s e = true)
    (hf : sevIsHalfClose e = false) : TQ s (s.stepEv cfg sid e).1 (s.stepEv cfg sid e).2 := by
  cases e with
  | frame f => exact onFrame_tq cfg sid s f hf
  | call c => exact onCall_tq cfg sid s c hk
  | ctx c => exact cancelCtx_tq sid s c

theorem ne_run (cfg : SCfg) (sid : Sid) (evs : List (SEv α)) : ∀ (s : SStream α), NE1 s →
    legalRecvsS cfg sid s evs = true → (∀ e ∈ evs, sevIsHalfClose e = false) →
    NE1 (SStream.runEv cfg sid s evs).1 ∧ sawRecvEofS (SStream.runEv cfg sid s evs).2 = false := by
  induction evs with
  | nil => intro s h _ _; exact ⟨h, rfl⟩
  | cons e es ih =>
    intro s hn hl hev
    obtain ⟨hk, hl'⟩ := legalRecvsS_cons cfg sid s e es hl
    obtain ⟨h1, h2⟩ := (stepEv_tq cfg sid s e hk (hev e (List.mem_cons_self ..))).ne hn
    have := ih _ h1 hl' (fun e' he' => hev e' (List.mem_cons_of_mem _ he'))
    rw [Delivery.runEv_cons, sawRecvEofS_cons, h2]
    exact ⟨this.1, by rw [this.2]; rfl⟩

theorem sq_run (cfg : SCfg) (sid : Sid) (evs : List (SEv α)) : ∀ (s : SStream α) (acc : List (DFrame α))
    (del : List (List α)) (saw : Bool), SQ s acc del saw → legalRecvsS cfg sid s evs = true →
    (∀ e ∈ evs, sevIsHalfClose e = false) →
    SQ (SStream.runEv cfg sid s evs).1 acc (del ++ Out.deliveredMsgs (SStream.runEv cfg sid s evs).2)
      (saw || sawRecvEofS (SStream.runEv cfg sid s evs).2) := by
  induction evs with
  | nil =>
    intro s acc del saw h _ _
    simpa [SStream.runEv, Out.deliveredMsgs, sawRecvEofS] using h
  | cons e es ih =>
    intro s acc del saw h hl hev
    obtain ⟨hk, hl'⟩ := legalRecvsS_cons cfg sid s e es hl
    have h1 := (stepEv_tq cfg sid s e hk (hev e (List.mem_cons_self ..))).sq acc del saw h
    have h2 := ih _ _ _ _ h1 hl' (fun e' he' => hev e' (List.mem_cons_of_mem _ he'))
    rw [Delivery.runEv_cons, deliveredMsgs_cons, sawRecvEofS_cons, ← List.append_assoc, ← Bool.or_assoc]
    exact h2

theorem legalRecvsS_append (cfg : SCfg) (sid : Sid) (pre post : List (SEv α)) : ∀ (s : SStream α),
    legalRecvsS cfg sid s (pre ++ post) =
      (legalRecvsS cfg sid s pre && legalRecvsS cfg sid (SStream.runEv cfg sid s pre).1 post) := by
  induction pre with
  | nil => intro s; rfl
  | cons e es ih =>
    intro s
    simp only [List.cons_append, legalRecvsS, ih, Delivery.runEv_cons, Bool.and_assoc]

theorem Fresh.ne1 {s0 : SStream α} (h : Fresh s0) : NE1 s0 := by
  obtain ⟨_, hc, hx, he, hh, _, _⟩ := h
  refine ⟨by rw [he]; simp, Or.inr (by rw [hh]; simp), ?_⟩
  rw [he, hc, hx]
  intro h
  rcases h with h | h | h <;> cases h

/-- the half-close frame arrives on a stream with a live context that is not half-closed yet -/
theorem halfClose_switch (cfg : SCfg) (sid : Sid) (s1 : SStream α) (hctx : s1.ctxDone = none)
    (hhc : s1.halfClosed = none) (hre : s1.readErr = none) {acc : List (DFrame α)} {del : List (List α)}
    (hacct : Acct s1.rcv.queue false s1.pread acc del) :
    SQ (s1.stepEv cfg sid (.frame .halfClose)).1 acc
      (del ++ msgsOfDones (s1.stepEv cfg sid (.frame .halfClose)).2.dones)
      (false || eofIn (s1.stepEv cfg sid (.frame .halfClose)).2.dones) := by
  have hstep : s1.stepEv cfg sid (.frame .halfClose) =
      (({ s1 with halfClosed := some .eof, rcv := s1.rcv.close } : SStream α).readAndSettle sid) := by
    simp [SStream.stepEv, SStream.onFrame, SStream.halfClose, hhc]
  have hq0 : SQ ({ s1 with halfClosed := some .eof, rcv := s1.rcv.close } : SStream α) acc del false :=
    Or.inr (Or.inl ⟨rfl, hctx, rfl, rfl, hre, hacct⟩)
  rw [hstep]
  exact (readAndSettle_tq sid _).sq _ _ _ hq0

/-- **Server completeness (delivery).**  A freshly created server stream is fed
    frames `a ++ halfClose :: b` with no half-close frame in `a` or `b` and no
    data frame in `b`; some `RecvMsg` of the handler returned `io.EOF`.  Then the
    handler has obtained ALL complete messages of the data frames fed. -/
theorem server_eof_complete (cfg : SCfg) (sid : Sid) (s0 : SStream α) (h0 : Fresh s0)
    (sevs : List (SEv α)) (hl : legalRecvsS cfg sid s0 sevs = true)
    (hfu : s0.fc = true ∨ (SStream.runEv cfg sid s0 sevs).1.unsupported = false)
    (a b : List (C2S α)) (hfed : C01.fedFramesS sevs = a ++ C2S.halfClose :: b)
    (ha : ∀ f ∈ a, c2sIsHalfClose f = false)
    (hb : ∀ f ∈ b, c2sIsHalfClose f = false ∧ dataOfC2S f = none)
    (heof : sawRecvEofS (SStream.runEv cfg sid s0 sevs).2 = true) :
    Out.deliveredMsgs (SStream.runEv cfg sid s0 sevs).2 = (parse none (SEv.fedData sevs)).1 := by
  obtain ⟨pre, y, post, hsplit, hy, hpre, hpost⟩ := filterMap_eq_append_cons _ sevs a _ b hfed
  have hyc : y = .frame .halfClose := by
    cases y with
    | frame f => simp only [Option.some.injEq] at hy; rw [hy]
    | call c => cases hy
    | ctx e => cases hy
  subst hyc
  replace hpre : C01.fedFramesS pre = a := hpre
  replace hpost : C01.fedFramesS post = b := hpost
  -- the data fed
  have hdata : SEv.fedData sevs = SEv.fedData pre := by
    rw [C01.fedData_eq_S, hfed, C01.fedData_eq_S, hpre, List.filterMap_append, List.filterMap_cons_none rfl]
    have : b.filterMap dataOfC2S = [] := List.filterMap_eq_nil_iff.mpr (fun f hf => (hb f hf).2)
    rw [this, List.append_nil]
  rw [hdata]
  subst hsplit
  rw [legalRecvsS_append, Bool.and_eq_true] at hl
  obtain ⟨hl1, hl2⟩ := hl
  rw [Emission.s_runEv_append] at hfu heof ⊢
  dsimp only at hfu heof ⊢
  have hpreNo : ∀ e ∈ pre, sevIsHalfClose e = false := by
    intro e he
    cases e with
    | frame f => exact ha f (by rw [← hpre]; exact List.mem_filterMap.mpr ⟨_, he, rfl⟩)
    | call c => rfl
    | ctx c => rfl
  have hpostNo : ∀ e ∈ post, sevIsHalfClose e = false := by
    intro e he
    cases e with
    | frame f => exact (hb f (by rw [← hpost]; exact List.mem_filterMap.mpr ⟨_, he, rfl⟩)).1
    | call c => rfl
    | ctx c => rfl
  -- phase 1
  obtain ⟨hn1, hsaw1⟩ := ne_run cfg sid pre s0 (Fresh.ne1 h0) hl1 hpreNo
  rw [sawRecvEofS_append, hsaw1, Bool.false_or, Delivery.runEv_cons, sawRecvEofS_cons] at heof
  obtain ⟨hk2, hl3⟩ := legalRecvsS_cons cfg sid _ _ post hl2
  -- the context is live and the stream not half-closed when the half-close frame arrives
  have hopen : (SStream.runEv cfg sid s0 pre).1.ctxDone = none ∧ (SStream.runEv cfg sid s0 pre).1.halfClosed = none := by
    cases hc : (SStream.runEv cfg sid s0 pre).1.ctxDone with
    | some c =>
      exfalso
      obtain ⟨h1, h2⟩ := halfCloseFrame_ne cfg sid _ hn1 (Or.inl (by rw [hc]; rfl))
      have := (ne_run cfg sid post _ h1 hl3 hpostNo).2
      have h2' : eofIn ((SStream.runEv cfg sid s0 pre).1.stepEv cfg sid (.frame .halfClose)).2.dones = false := h2
      rw [h2', Bool.false_or] at heof
      rw [show sawRecvEofS (SStream.runEv cfg sid
        ((SStream.runEv cfg sid s0 pre).1.stepEv cfg sid (.frame .halfClose)).1 post).2 = false from this] at heof
      cases heof
    | none =>
      cases hh : (SStream.runEv cfg sid s0 pre).1.halfClosed with
      | none => exact ⟨rfl, rfl⟩
      | some x =>
        exfalso
        obtain ⟨h1, h2⟩ := halfCloseFrame_ne cfg sid _ hn1 (Or.inr (by rw [hh]; rfl))
        have := (ne_run cfg sid post _ h1 hl3 hpostNo).2
        have h2' : eofIn ((SStream.runEv cfg sid s0 pre).1.stepEv cfg sid (.frame .halfClose)).2.dones = false := h2
        rw [h2', Bool.false_or] at heof
        rw [show sawRecvEofS (SStream.runEv cfg sid
          ((SStream.runEv cfg sid s0 pre).1.stepEv cfg sid (.frame .halfClose)).1 post).2 = false from this] at heof
        cases heof
  obtain ⟨hctx, hhc⟩ := hopen
  have hfacts : (SStream.runEv cfg sid s0 pre).1.readErr = none ∧ (SStream.runEv cfg sid s0 pre).1.rcv.closed = false := by
    have h3 := hn1.2.2
    constructor
    · cases hr : (SStream.runEv cfg sid s0 pre).1.readErr with
      | none => rfl
      | some e =>
        rcases h3 (Or.inl (by rw [hr]; rfl)) with h | h
        · rw [hctx] at h; cases h
        · rw [hhc] at h; cases h
    · cases hc : (SStream.runEv cfg sid s0 pre).1.rcv.closed with
      | false => rfl
      | true =>
        rcases h3 (Or.inr (Or.inl hc)) with h | h
        · rw [hctx] at h; cases h
        · rw [hhc] at h; cases h
  obtain ⟨hre, hcl⟩ := hfacts
  -- the accounting at the end of phase 1
  have hfu1 : s0.fc = true ∨ (SStream.runEv cfg sid s0 pre).1.unsupported = false := by
    rcases hfu with h | h
    · exact Or.inl h
    · right
      cases hu : (SStream.runEv cfg sid s0 pre).1.unsupported with
      | false => rfl
      | true => rw [Delivery.runEv_unsupported cfg sid _ _ hl2 hu] at h; cases h
  have hsi := Delivery.runEv_inv cfg sid pre s0 [] [] h0.inv hl1 hfu1
  simp only [List.nil_append] at hsi
  have hacct : Acct (SStream.runEv cfg sid s0 pre).1.rcv.queue false (SStream.runEv cfg sid s0 pre).1.pread
      (SEv.fedData pre) (Out.deliveredMsgs (SStream.runEv cfg sid s0 pre).2) := by
    unfold SInv at hsi
    rw [hre, hctx, hcl] at hsi
    rcases hsi with ⟨_, hb', _⟩ | ⟨_, hacc⟩
    · cases hb'
    · exact hacc
  -- the half-close frame, then phase 2
  have hq1 := halfClose_switch cfg sid _ hctx hhc hre hacct
  have hq2 := sq_run cfg sid post _ _ _ _ hq1 hl3 hpostNo
  rw [Bool.false_or, heof] at hq2
  rcases hq2 with ⟨_, hfin⟩ | ⟨hx, _⟩ | ⟨hx, _⟩
  · rw [hfin, Delivery.runEv_cons]
    simp only [Out.deliveredMsgs, List.flatMap_append, List.flatMap_cons, List.append_assoc]
  · cases hx
  · cases hx

/-! ## the client's emission, request direction -/

/-- once `CloseSend` has been called no send is in progress: at the end of a run
    that obeys `legalCloseSend`, a half-closed stream has no pending send -/
theorem closing_inv (cfg : CCfg) (sid : Sid) (evs : List (CEv α)) : ∀ (s : CStream α) (closing : Bool),
    (closing = true → s.psend = none) → (s.halfClosed = true → closing = true) →
    Conformance.legalCloseSend cfg sid s closing evs = true →
    (CStream.runEv cfg sid s evs).1.halfClosed = true → (CStream.runEv cfg sid s evs).1.psend = none := by
  induction evs with
  | nil => intro s closing h1 h2 _ hh; exact h1 (h2 hh)
  | cons e es ih =>
    intro s closing h1 h2 hl
    rw [Conformance.legalCloseSend_cons, Bool.and_eq_true] at hl
    obtain ⟨hok, hrest⟩ := hl
    have hf := Conformance.stepEv_facts cfg sid s e
    rw [crunEv_cons]
    refine ih _ _ (fun hc => ?_) (fun hh => ?_) hrest
    · -- closing' → no send pending
      cases hcs : Conformance.CEv.isCloseSend e with
      | true =>
        have hps : s.psend = none := by
          cases e with
          | call c => cases c <;> simp_all [Conformance.CEv.isCloseSend]
          | frame f => cases hcs
          | ctx c => cases hcs
        have hns : Conformance.CEv.isSend e = false := by
          cases e with
          | call c => cases c <;> first | rfl | cases hcs
          | frame f => rfl
          | ctx c => rfl
        exact (hf.nodata hns hps).2
      | false =>
        rw [hcs, Bool.or_false] at hc
        have hns : Conformance.CEv.isSend e = false := by
          cases e with
          | call c =>
            cases c with
            | send m => simp [hc] at hok
            | _ => rfl
          | frame f => rfl
          | ctx c => rfl
        exact (hf.nodata hns (h1 hc)).2
    · -- half-closed → closing'
      cases hcs : Conformance.CEv.isCloseSend e with
      | true => simp
      | false =>
        rw [(hf.noHC hcs).2] at hh
        rw [h2 hh]; rfl

theorem isHalfClose_eq {f : C2S α} (h : Conformance.C.isHalfClose f = true) : f = .halfClose := by
  cases f <;> first | rfl | cases h

theorem c2sIsHalfClose_eq (f : C2S α) : c2sIsHalfClose f = Conformance.C.isHalfClose f := by
  cases f <;> rfl

theorem dataOf_notData {f : C2S α} (h : Conformance.C.isData f = false) : dataOfC2S f = none := by
  cases f <;> first | rfl | cases h

/-- **Client completeness (emission).**  If a client stream has put its
    half-close frame on the wire — and the caller kept its contract: one send at
    a time, none after a failed one, none after `CloseSend`, `CloseSend` only
    when no send is in progress, and no send of it failed — then the data frames
    it emitted are exactly the chunkings of ALL the messages submitted, there is
    only one half-close frame, and no data frame follows it. -/
theorem client_halfClose_complete (cfg : CCfg) (hcm : 0 < cfg.chunkMax) (sid : Sid) (c0 : CStream α)
    (hp : c0.psend = none) (hh : c0.halfClosed = false) (cevs : List (CEv α))
    (hl : CStream.legalSends cfg sid c0 false cevs = true)
    (hcs : Conformance.legalCloseSend cfg sid c0 false cevs = true)
    (hnf : Emission.cAnyFailed (CStream.runEv cfg sid c0 cevs).2 = false)
    (hhc : ∃ f ∈ Conformance.cframes (CStream.runEv cfg sid c0 cevs).2, Conformance.C.isHalfClose f = true) :
    parse none (COut.emittedData (CStream.runEv cfg sid c0 cevs).2) = (CEv.submitted cevs, .ok none) ∧
    ∃ a b, Conformance.cframes (CStream.runEv cfg sid c0 cevs).2 = a ++ C2S.halfClose :: b ∧
      (∀ f ∈ a, c2sIsHalfClose f = false) ∧ (∀ f ∈ b, c2sIsHalfClose f = false ∧ dataOfC2S f = none) := by
  obtain ⟨f, hf, hfh⟩ := hhc
  obtain ⟨a, b, hab⟩ := List.append_of_mem hf
  have hfe := isHalfClose_eq hfh
  subst hfe
  have hone := Conformance.C1_at_most_one_halfClose cfg sid c0 cevs
  have hflag := Conformance.C1_halfClose_iff_flag cfg sid c0 hh cevs
  rw [← Conformance.cnt_def, hab, Conformance.cnt_append, Conformance.cnt_cons] at hone hflag
  simp only [Conformance.C.isHalfClose, if_true] at hone hflag
  have hnohc : ∀ (l : List (C2S α)), Conformance.cnt Conformance.C.isHalfClose l = 0 →
      ∀ g ∈ l, c2sIsHalfClose g = false := by
    intro l hl0 g hg
    rw [c2sIsHalfClose_eq]
    cases hx : Conformance.C.isHalfClose g with
    | false => rfl
    | true =>
      have := Conformance.cnt_pos_of_any Conformance.C.isHalfClose l (List.any_eq_true.mpr ⟨g, hg, hx⟩)
      omega
  -- the stream ends half-closed, hence with no send pending
  have hfin : (CStream.runEv cfg sid c0 cevs).1.halfClosed = true := by
    cases hx : (CStream.runEv cfg sid c0 cevs).1.halfClosed with
    | true => rfl
    | false => rw [hx] at hflag; simp at hflag
  have hps := closing_inv cfg sid cevs c0 false (fun h => by cases h) (fun h => by rw [hh] at h; cases h) hcs hfin
  obtain ⟨ms, st, hparse, _, hfull⟩ := Emission.client_emits_chunkings_full cfg hcm sid c0 hp cevs hl
  obtain ⟨h1, h2⟩ := hfull hps hnf
  refine ⟨by rw [hparse, h1, h2], a, b, hab, hnohc a (by omega), fun g hg => ⟨hnohc b (by omega) g hg, ?_⟩⟩
  exact dataOf_notData (Conformance.C3_no_data_after_halfClose cfg sid c0 hh cevs hcs a _ b hab rfl g hg)

/-- **C01, request direction, COMPLETENESS.**  Caller → handler over a FIFO
    carrier that has delivered every frame of the stream: if a `RecvMsg` of the
    handler returned `io.EOF`, the handler has obtained EXACTLY the messages the
    caller submitted, in order, each once. -/
theorem C01_request_complete (ccfg : CCfg) (scfg : SCfg) (hcm : 0 < ccfg.chunkMax) (sid : Sid)
    (c0 : CStream α) (s0 : SStream α) (hc0 : c0.psend = none) (hc0h : c0.halfClosed = false) (hs0 : Fresh s0)
    (cevs : List (CEv α)) (sevs : List (SEv α))
    (hsend : CStream.legalSends ccfg sid c0 false cevs = true)
    (hcs : Conformance.legalCloseSend ccfg sid c0 false cevs = true)
    (hnf : Emission.cAnyFailed (CStream.runEv ccfg sid c0 cevs).2 = false)
    (hrecv : legalRecvsS scfg sid s0 sevs = true)
    (hfu : s0.fc = true ∨ (SStream.runEv scfg sid s0 sevs).1.unsupported = false)
    (hfifo : C01.fedFramesS sevs = C01.emittedFramesC (CStream.runEv ccfg sid c0 cevs).2)
    (heof : sawRecvEofS (SStream.runEv scfg sid s0 sevs).2 = true) :
    Out.deliveredMsgs (SStream.runEv scfg sid s0 sevs).2 = CEv.submitted cevs := by
  -- the handler's stream was fed a half-close frame
  have hhc : ∃ f ∈ C01.fedFramesS sevs, c2sIsHalfClose f = true := by
    apply Classical.byContradiction
    intro hno
    have hall : ∀ e ∈ sevs, sevIsHalfClose e = false := by
      intro e he
      cases e with
      | frame f =>
        cases hx : c2sIsHalfClose f with
        | false => exact hx
        | true => exact absurd ⟨f, List.mem_filterMap.mpr ⟨_, he, rfl⟩, hx⟩ hno
      | call c => rfl
      | ctx c => rfl
    have := (ne_run scfg sid sevs s0 (Fresh.ne1 hs0) hrecv hall).2
    rw [this] at heof; cases heof
  rw [hfifo] at hhc
  obtain ⟨f, hf, hfh⟩ := hhc
  obtain ⟨hparse, a, b, hshape, ha, hb⟩ := client_halfClose_complete ccfg hcm sid c0 hc0 hc0h cevs hsend hcs hnf
    ⟨f, hf, by rw [← c2sIsHalfClose_eq]; exact hfh⟩
  have hfed : C01.fedFramesS sevs = a ++ C2S.halfClose :: b := hfifo.trans hshape
  rw [server_eof_complete scfg sid s0 hs0 sevs hrecv hfu a b hfed ha hb heof, C01.fedData_eq_S, hfifo,
    ← C01.emittedData_eq_C, hparse]

/-! ## Examples: the hypotheses are satisfiable; the added hypotheses of R1 are needed -/

section Examples

/-- a server-streaming method on the server, fresh -/
def sExA : SStream Nat :=
  { cs := false, ss := true, unary := false, fc := true, rcv := RcvQ.init 10, win := 10, hstatus := .running }
/-- ... and on the client -/
def cExA : CStream Nat := { cs := false, ss := true, fc := true, rcv := RcvQ.init 10, win := 10 }

example : SFreshR sExA := ⟨rfl, rfl, rfl, rfl, rfl⟩
example : CFresh cExA := ⟨rfl, rfl, rfl, rfl, rfl, rfl, rfl⟩

/-- two messages, the first in two chunks (`chunkMax = 2`), then the handler returns OK -/
def sevsA : List (SEv Nat) := [.call (.send [1, 2, 3]), .call (.send [4]), .call (.ret (mkStatus 0 ""))]
/-- the caller reads three times; the third read returns `io.EOF` -/
def cevsA : List (CEv Nat) :=
  [.frame (.headers []), .call .recv, .frame (.msg 3 [1, 2]), .frame (.more [3]), .frame (.msg 1 [4]), .call .recv,
   .frame (.close (mkStatus 0 "") []), .call .recv]

-- every frame the server stream emitted is fed to the caller's stream, in order
example : C01.fedFramesC cevsA = C01.emittedFramesS (SStream.runEv { chunkMax := 2 } 1 sExA sevsA).2 := by rfl

-- all hypotheses of `C01_response_complete` and `C01_response_ok_partial` hold, and so do the conclusions
example :
    SStream.legalSends { chunkMax := 2 } 1 sExA false sevsA = true ∧ sNoCallAfterRet sevsA = true ∧
    Emission.sReplyIsLast sevsA = true ∧
    Emission.sAnyFailed (SStream.runEv { chunkMax := 2 } 1 sExA sevsA).2 = false ∧
    legalRecvsC {} 1 cExA cevsA = true ∧ noWinExceed {} 1 cExA cevsA = true ∧ cNoCancel cevsA = true ∧
    sawRecvEof (CStream.runEv {} 1 cExA cevsA).2 = true ∧
    COut.deliveredMsgs (CStream.runEv {} 1 cExA cevsA).2 = [[1, 2, 3], [4]] ∧
    SEv.submitted sevsA = [[1, 2, 3], [4]] ∧
    (CStream.runEv {} 1 cExA cevsA).1.done = some .eof := by
  decide

-- the theorem, instantiated on this run
example : COut.deliveredMsgs (CStream.runEv {} 1 cExA cevsA).2 = SEv.submitted sevsA :=
  C01_response_complete {} { chunkMax := 2 } (by decide) 1 cExA sExA ⟨rfl, rfl, rfl, rfl, rfl⟩
    ⟨rfl, rfl, rfl, rfl, rfl, rfl, rfl⟩ cevsA sevsA (by decide) (by decide) (by decide) (by decide)
    (Or.inl rfl) (by rfl) (by decide)

/-- a unary method on the server: `createStream` has started the decode read -/
def sExU : SStream Nat :=
  { cs := false, ss := false, unary := true, fc := true, rcv := RcvQ.init 10, win := 10, hstatus := .decoding,
    pread := some { lookahead := none, rst := none } }
def cExU : CStream Nat := { cs := false, ss := false, fc := true, rcv := RcvQ.init 10, win := 10 }

example : SFreshR sExU := ⟨rfl, rfl, rfl, rfl, rfl⟩

/-- the request arrives, the unary handler replies (three bytes, two chunks) -/
def sevsU : List (SEv Nat) := [.frame (.msg 2 [7, 8]), .frame .halfClose, .call (.reply [1, 2, 3])]
/-- the caller: `Invoke` = send, close-send, receive; the first read (with its
    eager look-ahead) returns the reply when the close frame arrives, a second read returns `io.EOF` -/
def cevsU : List (CEv Nat) :=
  [.call (.send [7, 8]), .call .closeSend, .call .recv, .frame (.windowUpdate 2), .frame (.headers []),
   .frame (.msg 3 [1, 2]), .frame (.more [3]), .frame (.close (mkStatus 0 "") []), .call .recv]

example : C01.fedFramesC cevsU = C01.emittedFramesS (SStream.runEv { chunkMax := 2 } 1 sExU sevsU).2 := by rfl

example :
    SStream.legalSends { chunkMax := 2 } 1 sExU false sevsU = true ∧ sNoCallAfterRet sevsU = true ∧
    Emission.sAnyFailed (SStream.runEv { chunkMax := 2 } 1 sExU sevsU).2 = false ∧
    legalRecvsC {} 1 cExU cevsU = true ∧ noWinExceed {} 1 cExU cevsU = true ∧ cNoCancel cevsU = true ∧
    sawRecvEof (CStream.runEv {} 1 cExU cevsU).2 = true ∧
    COut.deliveredMsgs (CStream.runEv {} 1 cExU cevsU).2 = [[1, 2, 3]] ∧ SEv.submitted sevsU = [[1, 2, 3]] ∧
    (CStream.runEv {} 1 cExU cevsU).1.done = some .eof := by
  decide

/-- the same reply blocked on a send window of 2 bytes and completed by a window update -/
def sevsU2 : List (SEv Nat) :=
  [.frame (.msg 2 [7, 8]), .frame .halfClose, .call (.reply [1, 2, 3]), .frame (.windowUpdate 2)]

example : C01.fedFramesC cevsU =
    C01.emittedFramesS (SStream.runEv { chunkMax := 2 } 1 ({ sExU with win := 2 } : SStream Nat) sevsU2).2 := by rfl

example : COut.deliveredMsgs (CStream.runEv {} 1 cExU cevsU).2 = SEv.submitted sevsU2 :=
  C01_response_complete {} { chunkMax := 2 } (by decide) 1 cExU ({ sExU with win := 2 } : SStream Nat)
    ⟨rfl, rfl, rfl, rfl, rfl⟩ ⟨rfl, rfl, rfl, rfl, rfl, rfl, rfl⟩ cevsU sevsU2 (by decide) (by decide) (by decide)
    (by decide) (Or.inl rfl) (by rfl) (by decide)

-- COUNTEREXAMPLE to R1 without `noWinExceed`: the two endpoints' stream objects are independent
-- open systems, the sender's window (10) need not be what the caller advertised (1); the caller
-- ends the RPC with ResourceExhausted although the handler returned OK and every frame arrived
def cExW : CStream Nat := { cs := false, ss := true, fc := true, rcv := RcvQ.init 1, win := 10 }
def sevsW : List (SEv Nat) := [.call (.send [1, 2, 3]), .call (.ret (mkStatus 0 ""))]
def cevsW : List (CEv Nat) := [.frame (.headers []), .frame (.msg 3 [1, 2, 3]), .frame (.close (mkStatus 0 "") [])]

example : C01.fedFramesC cevsW = C01.emittedFramesS (SStream.runEv {} 1 sExA sevsW).2 := by rfl
example :
    SStream.legalSends {} 1 sExA false sevsW = true ∧ Emission.sReplyIsLast sevsW = true ∧
    legalRecvsC {} 1 cExW cevsW = true ∧ cNoCancel cevsW = true ∧
    noWinExceed {} 1 cExW cevsW = false ∧
    (CStream.runEv {} 1 cExW cevsW).1.done = some (.status (mkStatus 8 "flow control window exceeded")) := by
  decide

-- COUNTEREXAMPLE to R1 without `hss`: the caller's method descriptor says "one response"
-- (`ss = false`), the handler streams two: the look-ahead read fails the RPC with Internal
def sevsM : List (SEv Nat) := [.call (.send [1]), .call (.send [2]), .call (.ret (mkStatus 0 ""))]
def cevsM : List (CEv Nat) :=
  [.call .recv, .frame (.headers []), .frame (.msg 1 [1]), .frame (.msg 1 [2]), .frame (.close (mkStatus 0 "") [])]

example : C01.fedFramesC cevsM = C01.emittedFramesS (SStream.runEv {} 1 sExA sevsM).2 := by rfl
example :
    SStream.legalSends {} 1 sExA false sevsM = true ∧ Emission.sReplyIsLast sevsM = true ∧
    legalRecvsC {} 1 cExU cevsM = true ∧ cNoCancel cevsM = true ∧ noWinExceed {} 1 cExU cevsM = true ∧
    (SEv.submitted sevsM).length = 2 ∧
    (CStream.runEv {} 1 cExU cevsM).1.done =
      some (.status (mkStatus 13 "Server sent multiple responses for non-server-stream method")) := by
  decide

-- WHY `sNoCallAfterRet`: a handler that sends after it returned OK: the wire carries
-- `headers, close(OK), msg`; the caller reads `io.EOF` and has missed the message
def sevsN : List (SEv Nat) := [.call (.ret (mkStatus 0 "")), .call (.send [1])]
def cevsN : List (CEv Nat) :=
  [.frame (.headers []), .frame (.close (mkStatus 0 "") []), .frame (.msg 1 [1]), .call .recv]

example : C01.fedFramesC cevsN = C01.emittedFramesS (SStream.runEv {} 1 sExA sevsN).2 := by rfl
example :
    SStream.legalSends {} 1 sExA false sevsN = true ∧ sNoCallAfterRet sevsN = false ∧
    Emission.sAnyFailed (SStream.runEv {} 1 sExA sevsN).2 = false ∧ legalRecvsC {} 1 cExA cevsN = true ∧
    sawRecvEof (CStream.runEv {} 1 cExA cevsN).2 = true ∧
    COut.deliveredMsgs (CStream.runEv {} 1 cExA cevsN).2 = [] ∧ SEv.submitted sevsN = [[1]] := by
  decide

-- WHY `sAnyFailed = false`: the handler returns OK while its `SendMsg` is blocked on a window of 1
-- (the send is aborted, which is reported); the stream is closed OK in the middle of the message
-- and the caller's pending `RecvMsg` returns `io.EOF`
def sevsF : List (SEv Nat) := [.call (.send [1, 2, 3]), .call (.ret (mkStatus 0 ""))]
def cevsF : List (CEv Nat) :=
  [.call .recv, .frame (.headers []), .frame (.msg 3 [1]), .frame (.close (mkStatus 0 "") [])]

example : C01.fedFramesC cevsF =
    C01.emittedFramesS (SStream.runEv {} 1 ({ sExA with win := 1 } : SStream Nat) sevsF).2 := by rfl
example :
    SStream.legalSends {} 1 ({ sExA with win := 1 } : SStream Nat) false sevsF = true ∧
    sNoCallAfterRet sevsF = true ∧
    Emission.sAnyFailed (SStream.runEv {} 1 ({ sExA with win := 1 } : SStream Nat) sevsF).2 = true ∧
    legalRecvsC {} 1 cExA cevsF = true ∧ sawRecvEof (CStream.runEv {} 1 cExA cevsF).2 = true ∧
    COut.deliveredMsgs (CStream.runEv {} 1 cExA cevsF).2 = [] ∧ SEv.submitted sevsF = [[1, 2, 3]] := by
  decide

/-! ### the request direction -/

def cExQ : CStream Nat := { cs := true, ss := true, fc := true, rcv := RcvQ.init 10, win := 10 }
def sExQ : SStream Nat :=
  { cs := true, ss := true, unary := false, fc := true, rcv := RcvQ.init 10, win := 10, hstatus := .running }

/-- the caller sends two messages (the first in two chunks, `chunkMax = 2`) and half-closes -/
def cevsQ : List (CEv Nat) := [.call (.send [1, 2, 3]), .call (.send [4]), .call .closeSend]
/-- the handler reads three times; the third read returns `io.EOF` -/
def sevsQ : List (SEv Nat) :=
  [.call .recv, .frame (.msg 3 [1, 2]), .frame (.more [3]), .frame (.msg 1 [4]), .call .recv, .frame .halfClose,
   .call .recv]

example : C01.fedFramesS sevsQ = C01.emittedFramesC (CStream.runEv { chunkMax := 2 } 1 cExQ cevsQ).2 := by rfl

example :
    CStream.legalSends { chunkMax := 2 } 1 cExQ false cevsQ = true ∧
    Conformance.legalCloseSend { chunkMax := 2 } 1 cExQ false cevsQ = true ∧
    Emission.cAnyFailed (CStream.runEv { chunkMax := 2 } 1 cExQ cevsQ).2 = false ∧
    legalRecvsS {} 1 sExQ sevsQ = true ∧ sawRecvEofS (SStream.runEv {} 1 sExQ sevsQ).2 = true ∧
    Out.deliveredMsgs (SStream.runEv {} 1 sExQ sevsQ).2 = [[1, 2, 3], [4]] ∧
    CEv.submitted cevsQ = [[1, 2, 3], [4]] := by
  decide

example : Out.deliveredMsgs (SStream.runEv {} 1 sExQ sevsQ).2 = CEv.submitted cevsQ :=
  C01_request_complete { chunkMax := 2 } {} (by decide) 1 cExQ sExQ rfl rfl
    ⟨rfl, rfl, rfl, rfl, rfl, rfl, Or.inl rfl⟩ cevsQ sevsQ (by decide) (by decide) (by decide) (by decide)
    (Or.inl rfl) (by rfl) (by decide)

-- the same over revision zero (no flow control): the model never gives up on this run
example :
    let s : SStream Nat := { sExQ with fc := false }
    let c : CStream Nat := { cExQ with fc := false }
    (SStream.runEv {} 1 s sevsQ).1.unsupported = false ∧ legalRecvsS {} 1 s sevsQ = true ∧
    sawRecvEofS (SStream.runEv {} 1 s sevsQ).2 = true ∧
    CStream.legalSends { chunkMax := 2 } 1 c false cevsQ = true ∧
    Out.deliveredMsgs (SStream.runEv {} 1 s sevsQ).2 = CEv.submitted cevsQ := by
  decide

end Examples

end Proofs.Complete

#print axioms Proofs.Complete.C01_response_complete
#print axioms Proofs.Complete.C01_response_ok_partial
#print axioms Proofs.Complete.client_eof_complete
#print axioms Proofs.Complete.server_closeOK_complete
#print axioms Proofs.Complete.closeOK_of_ret
#print axioms Proofs.Complete.C01_request_complete
#print axioms Proofs.Complete.server_eof_complete
#print axioms Proofs.Complete.client_halfClose_complete
#print axioms Proofs.Complete.ok_cause
