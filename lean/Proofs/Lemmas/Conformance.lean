import TunnelModel.LFrame.Trace
import Proofs.Lemmas.ClientShape
import Proofs.Lemmas.ServerShape
/-!
  C13 (protocol conformance), the NON-DATA clauses: the frames a stream endpoint emits always
  follow the documented protocol, whatever the peer sends, whatever the application calls (legal
  or not, unless a hypothesis says otherwise) and whenever the context ends.  (The message-framing
  clause — envelope + continuations — is proved elsewhere.)

  ## Definitions

  * frame kinds: `S.isHeaders`, `S.isClose`, `S.isData` (`.msg`/`.more`), `S.isSettings`,
    `S.isWindowUpdate` on `S2C`; `C.isNewStream`, `C.isData`, `C.isHalfClose`, `C.isCancel`,
    `C.isWindowUpdate` on `C2S`;
  * `sframes outs` / `cframes outs`: the frames emitted by a list of step outputs, flattened, in
    order, without the stream ids (`outs.flatMap (·.frames.map (·.2))`);
  * `SFresh s0 := sentHeaders = false ∧ closed = false ∧ psend = none` (what `Srv.createStream`
    builds: `S6_accepted`); `CFresh s0 := halfClosed = false ∧ done = none ∧ psend = none ∧
    numSent = 0` (what `Cli.newStream` builds: `newStream_fresh`);
  * `SEv.isCall`: the event is a handler call; `Settled s := closed ∧ psend = none ∧
    ctxDone.isSome ∧ pread = none`;
  * `legalCloseSend cfg sid s closing evs : Bool`: the caller's contract for the end of the request
    stream, threading the state like `legalSends`: no `.call (.send _)` after a `.call .closeSend`,
    and `.call .closeSend` only when `psend = none`.

  ## Server stream — `fs := sframes (SStream.runEv cfg sid s0 evs).2`, ANY `evs`

  * S1 `S1_at_most_one_headers` (any `s0`): `(fs.filter S.isHeaders).length ≤ 1`;
       `S1_headers_iff_flag` (`s0.sentHeaders = false`): that number is the final `sentHeaders.toNat`
       (ghost reading: the flag is set iff a headers frame was emitted).
  * S2 `S2_at_most_one_close` (any `s0`): `(fs.filter S.isClose).length ≤ 1`;
       `S2_close_iff_flag` / `S2_exactly_one_close` (`s0.closed = false`): the number is the final
       `closed.toNat`; exactly one if the final state is closed.
  * S3 `S3_headers_before_data` (`SFresh s0`): `fs = pre ++ f :: post → S.isData f →
       ∃ h ∈ pre, S.isHeaders h`.
  * S4 `S4_no_settings` (any `s0`): a stream never emits a settings frame; at the endpoint
       `S4_start` (`Srv.start cfg` emits exactly `[(-1, .settings cfg.W cfg.revs)]` iff
       `cfg.sendSettings`), `S4_step_no_settings`, `S4_run_no_settings` (no `Srv.step` / `Srv.run`
       emits one).
  * S5 `S5_settled_step` / `S5_settled_run`: on a `Settled` stream every `.frame f` and `.ctx e`
       emits no frame and keeps it settled; `ret_settles`: `.call (.ret st)` from
       `psend = none ∧ pread = none` gives a settled stream; `ret_frames`: what the return emits.
       `S5_close_is_last` (any `s0`; `psend = none ∧ pread = none` when the handler returns; no call
       afterwards): the run emits exactly the frames of `pre` and of the return, the stream is
       settled, and if it was not closed before, the last frame of the run is the close frame with
       the handler's status; `S5_ret_nothing_after_close`: `fs = a ++ f :: b → S.isClose f → b = []`;
       `S5_ret_after_close_silent`: if it was closed before, the return and the rest emit nothing.
       `S5_close_is_last_reachable` (`s0.ctxDone = none`): the same with NO hypothesis on what is
       blocked when the handler returns — via the invariant `J` ("context ended ⇒ nothing blocked",
       `runEv_J`) and `finish_settles_J`.
       `S5_reply_nothing_after_close`: the `.reply` path of a unary handler (stream not closed and
       `pread = none` at the reply, no call afterwards): nothing follows the close frame, whether
       the reply completes at once, blocks on the window and is completed by window updates, or is
       aborted (`reply_step`, `reply_pending_step`, `reply_pending_run`).
  * S6 `S6_rejected`: a `new_stream` with a fresh id refused because of shutdown / unsupported
       revision / malformed method / unknown method emits exactly `[(sid, .close (mkStatus code msg) [])]`
       and leaves `streams` unchanged; `S6_accepted`: an accepted one emits NO frame in that step
       and appends one stream object built from an `SFresh` one; `S6_newStream_frame`: this is what
       `Srv.step` does with the frame.
  * S7 `S7_no_window_update` (`s0.fc = false`): no window update.

  ## Client stream — `fs := cframes (CStream.runEv cfg sid s0 evs).2`, ANY `evs`

  * C1 `C1_at_most_one_halfClose`, `C1_at_most_one_cancel` (any `s0`); `C1_halfClose_iff_flag`.
  * C2 `C2_no_newStream` (any `s0`).
  * C3 `C3_no_data_after_halfClose` (`s0.halfClosed = false`, `legalCloseSend`):
       `fs = pre ++ f :: post → C.isHalfClose f → ∀ g ∈ post, C.isData g = false`;
       `C3_no_data_after_halfClose_legal`: the same with `CFresh s0` and `legalSends`.
  * C4 `C4_no_window_update` (`s0.fc = false`).

  ## What differs from the statements as asked — nothing is weakened, there is no `_partial` theorem

  * S1, S2 (≤ 1), S4, C1, C2 need no hypothesis on the initial state; S7/C4 only `fc = false`;
    C3 only `halfClosed = false`.
  * S5 does not need `SStream.legalSends`.  The contract used is "no handler call after the
    return" plus either "no call of the handler is blocked when it returns" (`S5_close_is_last`,
    any initial state) or nothing more at all (`S5_close_is_last_reachable`, stream created with a
    live context).  The hypotheses that remain are necessary — `decide`d at the end of the file:
    a handler that keeps sending after the client cancelled emits `headers, msg, close, msg`; a
    unary handler that replies after the client cancelled emits `headers, close, msg` (hence
    "not closed at the reply" in `S5_reply_nothing_after_close`).
  * S3 needs `psend = none` of the initial state (an unreachable state with a send in progress and
    no headers sent emits data on a window update: `decide`d at the end).
  * C3 does not need `CStream.legalSends`; it does need "`CloseSend` only when no send is in
    progress": with a send blocked on the window, `send, closeSend, windowUpdate` emits
    `msg, halfclose, more` although `legalSends` holds (`decide`d at the end).
  * S6: the two remaining outcomes of `createStream` (id already in the table / not above
    `lastSeen`) are not rejections of the stream but protocol errors that end the tunnel
    (`serveReturns`); they are outside S6.

  Architecture (as `ServerShape` / `ClientShape`): a per-block contract (`SStep`, resp. `CBlock` /
  `CStep` / `CEvFacts`) with exact accounting of headers / close / half-close frames against the
  state flags, proved for every building block of the model and composed by `seq`; then induction
  over the event list (`runEv_step`, `crunEv_step`, `C3_aux`).
-/
namespace Proofs.Conformance
open TunnelModel TunnelModel.LFrame TunnelModel.Framing

variable {α : Type}

/-! ### frame kinds -/

namespace S
def isHeaders : S2C α → Bool | .headers _ => true | _ => false
def isClose : S2C α → Bool | .close _ _ => true | _ => false
def isData : S2C α → Bool | .msg _ _ => true | .more _ => true | _ => false
def isSettings : S2C α → Bool | .settings _ _ => true | _ => false
def isWindowUpdate : S2C α → Bool | .windowUpdate _ => true | _ => false
end S

namespace C
def isNewStream : C2S α → Bool | .newStream .. => true | _ => false
def isData : C2S α → Bool | .msg _ _ => true | .more _ => true | _ => false
def isHalfClose : C2S α → Bool | .halfClose => true | _ => false
def isCancel : C2S α → Bool | .cancel => true | _ => false
def isWindowUpdate : C2S α → Bool | .windowUpdate _ => true | _ => false
end C

/-- the frames emitted by a run of a server stream / endpoint, flattened, in order -/
def sframes (outs : List (Out α)) : List (S2C α) := outs.flatMap (fun o => o.frames.map (·.2))

/-- the frames emitted by a run of a client stream / endpoint, flattened, in order -/
def cframes (outs : List (COut α)) : List (C2S α) := outs.flatMap (fun o => o.frames.map (·.2))

/-- number of elements satisfying `p` -/
def cnt {β : Type} (p : β → Bool) (l : List β) : Nat := (l.filter p).length

theorem cnt_def {β : Type} (p : β → Bool) (l : List β) : cnt p l = (l.filter p).length := rfl

@[simp] theorem cnt_nil {β : Type} (p : β → Bool) : cnt p [] = 0 := rfl

theorem cnt_append {β : Type} (p : β → Bool) (l1 l2 : List β) : cnt p (l1 ++ l2) = cnt p l1 + cnt p l2 := by
  simp [cnt, List.filter_append]

theorem cnt_cons {β : Type} (p : β → Bool) (a : β) (l : List β) :
    cnt p (a :: l) = (if p a then 1 else 0) + cnt p l := by
  simp only [cnt, List.filter_cons]
  split <;> simp <;> omega

theorem cnt_eq_zero {β : Type} (p : β → Bool) (l : List β) (h : ∀ f ∈ l, p f = false) : cnt p l = 0 := by
  induction l with
  | nil => rfl
  | cons a l ih =>
    rw [cnt_cons, ih (fun f hf => h f (List.mem_cons_of_mem _ hf)), h a (List.mem_cons_self ..)]
    rfl

theorem cnt_pos_of_any {β : Type} (p : β → Bool) (l : List β) (h : l.any p = true) : 0 < cnt p l := by
  induction l with
  | nil => simp at h
  | cons a l ih =>
    rw [cnt_cons]
    cases hp : p a with
    | true => simp only [if_true]; omega
    | false =>
      simp only [List.any_cons, hp, Bool.false_or] at h
      have := ih h
      simp only [Bool.false_eq_true, if_false]; omega

theorem any_of_cnt_pos {β : Type} (p : β → Bool) (l : List β) (h : 0 < cnt p l) : l.any p = true := by
  cases ha : l.any p with
  | true => rfl
  | false =>
    have : cnt p l = 0 := cnt_eq_zero p l (fun f hf => by
      cases hp : p f with
      | false => rfl
      | true =>
        have : l.any p = true := List.any_eq_true.mpr ⟨f, hf, hp⟩
        rw [ha] at this; cases this)
    omega

/-! ## Server -/

/-- the frames of one step's output, without the stream ids -/
def kinds (o : Out α) : List (S2C α) := o.frames.map (·.2)

theorem kinds_add (a b : Out α) : kinds (a.add b) = kinds a ++ kinds b := by
  simp [kinds, Out.add]

@[simp] theorem kinds_empty : kinds ({} : Out α) = [] := rfl

theorem kinds_of_frames_nil (o : Out α) (h : o.frames = []) : kinds o = [] := by
  simp [kinds, h]

/-- a send is in progress only after the headers went out -/
def Inv (s : SStream α) : Prop := s.psend.isSome = true → s.sentHeaders = true

/-- "headers precede data": `b` = the headers have been sent before this list starts -/
def hdrFirst : Bool → List (S2C α) → Bool
  | _, [] => true
  | b, f :: fs => (!S.isData f || b) && hdrFirst (b || S.isHeaders f) fs

theorem hdrFirst_true : ∀ (l : List (S2C α)), hdrFirst true l = true
  | [] => rfl
  | f :: fs => by simp [hdrFirst, hdrFirst_true fs]

theorem hdrFirst_append : ∀ (b : Bool) (l1 l2 : List (S2C α)),
    hdrFirst b (l1 ++ l2) = (hdrFirst b l1 && hdrFirst (b || l1.any S.isHeaders) l2)
  | b, [], l2 => by simp [hdrFirst]
  | b, f :: fs, l2 => by
    simp only [List.cons_append, hdrFirst, hdrFirst_append _ fs l2, List.any_cons, Bool.and_assoc, Bool.or_assoc]

theorem hdrFirst_nodata : ∀ (b : Bool) (l : List (S2C α)), (∀ f ∈ l, S.isData f = false) → hdrFirst b l = true
  | _, [], _ => rfl
  | b, f :: fs, h => by
    simp only [hdrFirst, h f (List.mem_cons_self ..), Bool.not_false, Bool.true_or, Bool.true_and]
    exact hdrFirst_nodata _ fs (fun g hg => h g (List.mem_cons_of_mem _ hg))

/-- the meaning of `hdrFirst false` -/
theorem hdrFirst_spec : ∀ (b : Bool) (fs : List (S2C α)), hdrFirst b fs = true →
    ∀ pre f post, fs = pre ++ f :: post → S.isData f = true → b = true ∨ ∃ h ∈ pre, S.isHeaders h = true
  | b, [], _, pre, f, post, h, _ => by cases pre <;> cases h
  | b, g :: gs, hf, pre, f, post, h, hd => by
    simp only [hdrFirst, Bool.and_eq_true, Bool.or_eq_true, Bool.not_eq_true'] at hf
    cases pre with
    | nil =>
      simp only [List.nil_append, List.cons.injEq] at h
      obtain ⟨rfl, rfl⟩ := h
      rcases hf.1 with h1 | h1
      · rw [hd] at h1; cases h1
      · exact Or.inl h1
    | cons p pre =>
      simp only [List.cons_append, List.cons.injEq] at h
      obtain ⟨rfl, rfl⟩ := h
      rcases hdrFirst_spec _ _ hf.2 pre f post rfl hd with h1 | ⟨x, hx, hx'⟩
      · simp only [Bool.or_eq_true] at h1
        rcases h1 with h1 | h1
        · exact Or.inl h1
        · exact Or.inr ⟨g, List.mem_cons_self .., h1⟩
      · exact Or.inr ⟨x, List.mem_cons_of_mem _ hx, hx'⟩

/-! ### the per-step contract of the write side of a server stream -/

/-- What a building block that takes the stream from `s` to `s'` and emits the
    frames `ks` guarantees:
    * exact accounting of headers and close frames against the flags
      `sentHeaders` / `closed` (which therefore never go back to `false`);
    * `Inv` is preserved and under `Inv` no data frame comes before the headers;
    * no settings frame, and no window update on a stream without flow control. -/
structure SStep (s s' : SStream α) (ks : List (S2C α)) : Prop where
  fc : s'.fc = s.fc
  hdr : cnt S.isHeaders ks + s.sentHeaders.toNat = s'.sentHeaders.toNat
  cls : cnt S.isClose ks + s.closed.toNat = s'.closed.toNat
  inv : Inv s → Inv s'
  first : Inv s → hdrFirst s.sentHeaders ks = true
  noSet : ∀ f ∈ ks, S.isSettings f = false
  noWU : s.fc = false → ∀ f ∈ ks, S.isWindowUpdate f = false

theorem toNat_le_one (b : Bool) : b.toNat ≤ 1 := by cases b <;> decide

/-- the flag after a block is the flag before or'ed with "a headers frame was emitted" -/
theorem sh_after {b b' : Bool} {ks : List (S2C α)} (h : cnt S.isHeaders ks + b.toNat = b'.toNat) :
    b' = (b || ks.any S.isHeaders) := by
  have hb' := toNat_le_one b'
  cases b with
  | true =>
    cases b' with
    | true => rfl
    | false => simp at h
  | false =>
    cases ha : ks.any S.isHeaders with
    | true =>
      have := cnt_pos_of_any _ _ ha
      cases b' with
      | true => rfl
      | false => simp at h; omega
    | false =>
      cases b' with
      | false => rfl
      | true =>
        have : 0 < cnt S.isHeaders ks := by simp at h; omega
        have := any_of_cnt_pos _ _ this
        rw [ha] at this; cases this

theorem SStep.seq {s a b : SStream α} {k1 k2 : List (S2C α)} (h1 : SStep s a k1) (h2 : SStep a b k2) :
    SStep s b (k1 ++ k2) := by
  refine ⟨h2.fc.trans h1.fc, ?_, ?_, fun hi => h2.inv (h1.inv hi), fun hi => ?_, fun f hf => ?_, fun hfc f hf => ?_⟩
  · rw [cnt_append]; have := h1.hdr; have := h2.hdr; omega
  · rw [cnt_append]; have := h1.cls; have := h2.cls; omega
  · rw [hdrFirst_append, h1.first hi, ← sh_after h1.hdr, h2.first (h1.inv hi)]; rfl
  · rcases List.mem_append.mp hf with h | h
    · exact h1.noSet f h
    · exact h2.noSet f h
  · rcases List.mem_append.mp hf with h | h
    · exact h1.noWU hfc f h
    · exact h2.noWU (h1.fc.trans hfc) f h

/-- the leaf case: the block emits neither headers nor close frames and leaves the flags alone -/
theorem SStep.leaf {s s' : SStream α} {ks : List (S2C α)}
    (hfc : s'.fc = s.fc) (hsh : s'.sentHeaders = s.sentHeaders) (hcl : s'.closed = s.closed)
    (hk : ∀ f ∈ ks, S.isHeaders f = false ∧ S.isClose f = false ∧ S.isSettings f = false ∧
      (s.fc = false → S.isWindowUpdate f = false))
    (hd : Inv s → s.sentHeaders = true ∨
      ((∀ f ∈ ks, S.isData f = false) ∧ (s'.psend.isSome = true → s.psend.isSome = true))) :
    SStep s s' ks := by
  refine ⟨hfc, ?_, ?_, fun hi hp => ?_, fun hi => ?_, fun f hf => (hk f hf).2.2.1, fun h f hf => (hk f hf).2.2.2 h⟩
  · rw [cnt_eq_zero _ _ (fun f hf => (hk f hf).1), hsh]; omega
  · rw [cnt_eq_zero _ _ (fun f hf => (hk f hf).2.1), hcl]; omega
  · rw [hsh]
    rcases hd hi with h | ⟨_, h⟩
    · exact h
    · exact hi (h hp)
  · rcases hd hi with h | ⟨h, _⟩
    · rw [h]; exact hdrFirst_true _
    · exact hdrFirst_nodata _ _ h

/-- a block that emits nothing and keeps (or clears) the pending send -/
theorem SStep.silent {s s' : SStream α}
    (hfc : s'.fc = s.fc) (hsh : s'.sentHeaders = s.sentHeaders) (hcl : s'.closed = s.closed)
    (hps : s'.psend.isSome = true → s.psend.isSome = true) : SStep s s' [] :=
  SStep.leaf hfc hsh hcl (fun f hf => by cases hf) (fun _ => Or.inr ⟨fun f hf => (by cases hf), hps⟩)

theorem SStep.refl (s : SStream α) : SStep s s [] := SStep.silent rfl rfl rfl (fun h => h)

/-- ... and keeps the pending send -/
theorem SStep.quiet {s s' : SStream α}
    (hfc : s'.fc = s.fc) (hsh : s'.sentHeaders = s.sentHeaders) (hcl : s'.closed = s.closed)
    (hps : s'.psend = s.psend) : SStep s s' [] :=
  SStep.silent hfc hsh hcl (by rw [hps]; exact fun h => h)

/-- ... and clears the pending send -/
theorem SStep.quiet_none {s s' : SStream α}
    (hfc : s'.fc = s.fc) (hsh : s'.sentHeaders = s.sentHeaders) (hcl : s'.closed = s.closed)
    (hps : s'.psend = none) : SStep s s' [] :=
  SStep.silent hfc hsh hcl (by rw [hps]; exact fun h => by cases h)

/-- the contract only looks at `fc`, `sentHeaders`, `closed`, `psend` of the pre-state -/
theorem SStep.pre {s s0 s' : SStream α} {ks : List (S2C α)} (h : SStep s0 s' ks)
    (hfc : s0.fc = s.fc) (hsh : s0.sentHeaders = s.sentHeaders) (hcl : s0.closed = s.closed)
    (hps : s0.psend = s.psend) : SStep s s' ks := by
  have := (SStep.quiet (s := s) (s' := s0) hfc hsh hcl hps).seq h
  rwa [List.nil_append] at this

theorem SStep.pre_none {s s0 s' : SStream α} {ks : List (S2C α)} (h : SStep s0 s' ks)
    (hfc : s0.fc = s.fc) (hsh : s0.sentHeaders = s.sentHeaders) (hcl : s0.closed = s.closed)
    (hps : s0.psend = none) : SStep s s' ks := by
  have := (SStep.quiet_none (s := s) (s' := s0) hfc hsh hcl hps).seq h
  rwa [List.nil_append] at this

/-- a trailing change of fields the contract does not look at -/
theorem SStep.post {s s1 s' : SStream α} {ks : List (S2C α)} (h : SStep s s1 ks)
    (hfc : s'.fc = s1.fc) (hsh : s'.sentHeaders = s1.sentHeaders) (hcl : s'.closed = s1.closed)
    (hps : s'.psend = s1.psend) : SStep s s' ks := by
  have := h.seq (SStep.quiet (s := s1) (s' := s') hfc hsh hcl hps)
  rwa [List.append_nil] at this

theorem fst_eq {A B : Type} {p : A × B} {a : A} {b : B} (h : p = (a, b)) : a = p.1 := by rw [h]
theorem snd_eq {A B : Type} {p : A × B} {a : A} {b : B} (h : p = (a, b)) : b = p.2 := by rw [h]

theorem SStep.of_pair {s0 : SStream α} {p : SStream α × Out α} {a : SStream α} {o : Out α} (h : p = (a, o))
    (hp : SStep s0 p.1 (kinds p.2)) : SStep s0 a (kinds o) := by
  rw [h] at hp; exact hp

theorem SStep.nil_right {s s' : SStream α} {ks : List (S2C α)} (h : SStep s s' (ks ++ [])) : SStep s s' ks := by
  rwa [List.append_nil] at h

/-- window updates of a read: only on flow-controlled streams -/
theorem credit_step {s s' : SStream α} (sid : Sid) (credits : List Nat)
    (hfc : s'.fc = s.fc) (hsh : s'.sentHeaders = s.sentHeaders) (hcl : s'.closed = s.closed)
    (hps : s'.psend.isSome = true → s.psend.isSome = true) :
    SStep s s' ((s.creditFrames sid credits).map (·.2)) := by
  refine SStep.leaf hfc hsh hcl (fun f hf => ?_) (fun _ => Or.inr ⟨fun f hf => ?_, hps⟩)
  · unfold SStream.creditFrames at hf
    split at hf
    · rename_i h
      simp only [List.map_map, List.mem_map, Function.comp] at hf
      obtain ⟨n, _, rfl⟩ := hf
      refine ⟨rfl, rfl, rfl, fun h0 => ?_⟩
      rw [h0] at h; simp at h
    · cases hf
  · unfold SStream.creditFrames at hf
    split at hf
    · simp only [List.map_map, List.mem_map, Function.comp] at hf
      obtain ⟨n, _, rfl⟩ := hf
      rfl
    · cases hf

/-! ### `finishCore`, `cancelCtx`, `finish` -/

theorem finishCore_frames_closed (sid : Sid) (s : SStream α) (err : Option SErr) (h : s.closed = true) :
    (s.finishCore sid err).2.frames = [] := by
  simp only [SStream.finishCore, SStream.halfClose]
  split <;> simp

theorem finishCore_keeps (sid : Sid) (s : SStream α) (err : Option SErr) :
    (s.finishCore sid err).1.psend = s.psend ∧ (s.finishCore sid err).1.pread = s.pread ∧
    (s.finishCore sid err).1.ctxDone = s.ctxDone ∧ (s.finishCore sid err).1.fc = s.fc ∧
    (s.finishCore sid err).1.finishAfterSend = s.finishAfterSend ∧
    (s.finishCore sid err).1.hstatus = s.hstatus := by
  simp only [SStream.finishCore, SStream.halfClose]
  split <;> split <;> simp

theorem finishCore_step (sid : Sid) (s : SStream α) (err : Option SErr) :
    SStep s (s.finishCore sid err).1 (kinds (s.finishCore sid err).2) := by
  have hk := finishCore_keeps sid s err
  have hps := hk.1
  have hfc := hk.2.2.2.1
  cases hc : s.closed with
  | true =>
    have h1 : (s.finishCore sid err).1.sentHeaders = s.sentHeaders ∧ (s.finishCore sid err).1.closed = true := by
      simp only [SStream.finishCore, SStream.halfClose]
      split <;> simp [hc]
    rw [kinds_of_frames_nil _ (finishCore_frames_closed sid s err hc)]
    exact SStep.silent hfc h1.1 (by rw [h1.2, hc]) (by rw [hps]; exact fun h => h)
  | false =>
    have h1 : (s.finishCore sid err).1.sentHeaders = true ∧ (s.finishCore sid err).1.closed = true ∧
        kinds (s.finishCore sid err).2 =
          (if s.sentHeaders then [] else [S2C.headers s.headers]) ++ [S2C.close (SErr.wireStatus err) s.trailers] := by
      simp only [SStream.finishCore, SStream.halfClose, kinds]
      split <;> cases hh : s.sentHeaders <;> simp [hc]
    obtain ⟨h2, h3, h4⟩ := h1
    rw [h4]
    refine ⟨hfc, ?_, ?_, fun hi _ => h2, fun _ => ?_, fun f hf => ?_, fun _ f hf => ?_⟩
    · rw [h2]; cases s.sentHeaders <;> rfl
    · rw [h3, hc]; cases s.sentHeaders <;> rfl
    · cases s.sentHeaders <;> rfl
    · cases hh : s.sentHeaders <;> simp [hh] at hf
      · rcases hf with rfl | rfl <;> rfl
      · rw [hf]; rfl
    · cases hh : s.sentHeaders <;> simp [hh] at hf
      · rcases hf with rfl | rfl <;> rfl
      · rw [hf]; rfl

theorem cancelCtx_step (sid : Sid) (s : SStream α) (e : CtxErr) :
    SStep s (s.cancelCtx sid e).1 (kinds (s.cancelCtx sid e).2) := by
  unfold SStream.cancelCtx
  split
  · exact SStep.refl s
  · extract_lets rcv s1 s2'
    split
    rename_i s2 o1 h1
    split
    rename_i s3 o2 h2
    have hs1 : SStep s s1 [] := SStep.quiet rfl rfl rfl rfl
    have hs2 : SStep s1 s2 (kinds o1) := by
      refine SStep.of_pair h1 ?_
      split
      · split
        · exact (finishCore_step ..).pre_none rfl rfl rfl rfl
        · exact SStep.quiet_none rfl rfl rfl rfl
      · exact SStep.refl _
    have hs3 : SStep s2 s3 (kinds o2) := by
      refine SStep.of_pair h2 ?_
      split
      · extract_lets s3'
        split
        · split
          rename_i s4 o4 h4
          have h5 : SStep s2 s4 (kinds o4) := by
            refine SStep.of_pair h4 ?_
            exact (finishCore_step ..).pre rfl rfl rfl rfl
          rw [kinds_add]
          exact h5
        · exact SStep.quiet rfl rfl rfl rfl
      · exact SStep.refl _
    show SStep s s3 (kinds ((Out.add _ o1).add o2))
    rw [kinds_add, kinds_add]
    exact (hs1.seq hs2).seq hs3

theorem cancelCtx_frames_closed (sid : Sid) (s : SStream α) (e : CtxErr) (hc : s.closed = true) :
    (s.cancelCtx sid e).2.frames = [] := by
  have h := (cancelCtx_step sid s e).cls
  have h2 := toNat_le_one (s.cancelCtx sid e).1.closed
  rw [hc] at h
  have h3 : cnt S.isClose (kinds (s.cancelCtx sid e).2) = 0 := by
    simp only [Bool.toNat_true] at h; omega
  -- every frame `cancelCtx` emits comes from a `finishCore`, which emits nothing on a closed stream
  unfold SStream.cancelCtx
  split
  · rfl
  · extract_lets rcv s1 s2'
    split
    rename_i s2 o1 h1
    split
    rename_i s3 o2 h2
    have hs1c : s1.closed = true := hc
    have ho1 : o1.frames = [] ∧ s2.closed = true := by
      rw [snd_eq h1, fst_eq h1]
      split
      · split
        · exact ⟨finishCore_frames_closed _ _ _ hs1c, (ServerShape.finishCore_closed ..).1⟩
        · exact ⟨rfl, hs1c⟩
      · exact ⟨rfl, hs1c⟩
    have ho2 : o2.frames = [] := by
      rw [snd_eq h2]
      split
      · extract_lets s3'
        split
        · split
          rename_i s4 o4 h4
          have : o4.frames = [] := by
            rw [snd_eq h4]
            exact finishCore_frames_closed _ _ _ ho1.2
          simp [Out.add, this]
        · rfl
      · rfl
    simp [Out.add, ho1.1, ho2]

theorem finish_step (sid : Sid) (s : SStream α) (err : Option SErr) (b : Bool) :
    SStep s (s.finish sid err b).1 (kinds (s.finish sid err b).2) := by
  unfold SStream.finish
  extract_lets racing err'
  split; rename_i s1 o1 h1
  split; rename_i s2 o2 h2
  have hA : SStep s s1 (kinds o1) := SStep.of_pair h1 (finishCore_step ..)
  have hB : SStep s1 s2 (kinds o2) := SStep.of_pair h2 (cancelCtx_step ..)
  have hcl : s1.closed = true := by rw [fst_eq h1]; exact (ServerShape.finishCore_closed ..).1
  have ho2 : kinds o2 = [] := by
    apply kinds_of_frames_nil
    rw [snd_eq h2]
    exact cancelCtx_frames_closed _ _ _ hcl
  show SStep s s2 (kinds (o2.add o1))
  rw [kinds_add, ho2, List.nil_append]
  have := hA.seq hB
  rwa [ho2, List.append_nil] at this

/-- on a closed stream `finishStream` emits nothing -/
theorem finish_frames_closed (sid : Sid) (s : SStream α) (err : Option SErr) (b : Bool) (hc : s.closed = true) :
    (s.finish sid err b).2.frames = [] := by
  unfold SStream.finish
  extract_lets racing err'
  split; rename_i s1 o1 h1
  split; rename_i s2 o2 h2
  have hcl : s1.closed = true := by rw [fst_eq h1]; exact (ServerShape.finishCore_closed ..).1
  have ho1 : o1.frames = [] := by rw [snd_eq h1]; exact finishCore_frames_closed _ _ _ hc
  have ho2 : o2.frames = [] := by rw [snd_eq h2]; exact cancelCtx_frames_closed _ _ _ hcl
  simp [Out.add, ho1, ho2]

/-! ### the send side -/

theorem dframe_kind (f : DFrame α) :
    S.isHeaders (dframeToS2C f) = false ∧ S.isClose (dframeToS2C f) = false ∧
    S.isSettings (dframeToS2C f) = false ∧ S.isWindowUpdate (dframeToS2C f) = false := by
  cases f <;> exact ⟨rfl, rfl, rfl, rfl⟩

theorem pumpSend_shape (cfg : SCfg) (sid : Sid) (s : SStream α) (snd : Snd α) :
    ∃ (w : Nat) (ps : Option (Snd α)) (fs : List (DFrame α)) (dn : List (Sid × String × Res α)), s.pumpSend cfg sid snd =
      ({ s with win := w, psend := ps }, { frames := fs.map (fun f => (sid, dframeToS2C f)), dones := dn }) := by
  unfold SStream.pumpSend
  split
  · split
    dsimp only
    split
    · exact ⟨_, _, _, _, rfl⟩
    · split
      · exact ⟨_, _, _, _, rfl⟩
      · exact ⟨_, _, _, _, rfl⟩
  · exact ⟨s.win, _, _, _, rfl⟩

/-- the sending loop: data frames only; it runs only after the headers went out -/
theorem pumpSend_step (cfg : SCfg) (sid : Sid) (s : SStream α) (snd : Snd α)
    (h : s.psend.isSome = true ∨ s.sentHeaders = true) :
    SStep s (s.pumpSend cfg sid snd).1 (kinds (s.pumpSend cfg sid snd).2) := by
  obtain ⟨w, ps, fs, dn, hs⟩ := pumpSend_shape cfg sid s snd
  rw [hs]
  refine SStep.leaf rfl rfl rfl (fun f hf => ?_) (fun hi => Or.inl ?_)
  · simp only [kinds, List.map_map, List.mem_map, Function.comp] at hf
    obtain ⟨d, _, rfl⟩ := hf
    have := dframe_kind d
    exact ⟨this.1, this.2.1, this.2.2.1, fun _ => this.2.2.2⟩
  · rcases h with h | h
    · exact hi h
    · exact h

theorem afterSend_step (sid : Sid) {s0 : SStream α} (s : SStream α) (o : Out α) (h : SStep s0 s (kinds o)) :
    SStep s0 (s.afterSend sid o).1 (kinds (s.afterSend sid o).2) := by
  unfold SStream.afterSend
  split
  · extract_lets err s1
    split; rename_i s2 o2 h2
    have h3 : SStep s s2 (kinds o2) := by
      refine SStep.of_pair h2 ?_
      exact (finish_step ..).pre rfl rfl rfl rfl
    rw [kinds_add]
    exact h.seq h3
  · exact h

/-! ### the read side -/

theorem afterDecode_step (sid : Sid) {s0 : SStream α} (s : SStream α) (o : Out α) (h : SStep s0 s (kinds o)) :
    SStep s0 (s.afterDecode sid o).1 (kinds (s.afterDecode sid o).2) := by
  unfold SStream.afterDecode
  split
  · split
    · exact h.post rfl rfl rfl rfl
    · extract_lets err
      split; rename_i s2 o2 h2
      have h3 : SStep s s2 (kinds o2) := by
        refine SStep.of_pair h2 ?_
        exact (finish_step ..).pre rfl rfl rfl rfl
      rw [kinds_add]
      exact h.seq h3
    · exact h
  · exact h

theorem resumeRead_step (sid : Sid) (mn : String) (fuel : Nat) (s : SStream α) :
    SStep s (s.resumeRead sid mn fuel).1 (kinds (s.resumeRead sid mn fuel).2) := by
  induction fuel generalizing s with
  | zero => exact SStep.refl s
  | succ fuel ih =>
    unfold SStream.resumeRead
    split
    · exact SStep.refl s
    · split
      rename_i rwin q credits out h
      extract_lets cf rcv0 s1 opName failWith e
      have hcf : ∀ (x : SStream α), x.fc = s.fc → x.sentHeaders = s.sentHeaders → x.closed = s.closed →
          x.psend = s.psend → SStep s x (cf.map (·.2)) :=
        fun x h1 h2 h3 h4 => credit_step sid credits h1 h2 h3 (by rw [h4]; exact fun h => h)
      have hfw : ∀ (x : SStream α) (e : SErr) (b : Bool), x.fc = s.fc → x.sentHeaders = s.sentHeaders →
          x.closed = s.closed → x.psend = s.psend →
          SStep s (failWith x e b).1 (kinds (failWith x e b).2) := by
        intro x e b h1 h2 h3 h4
        simp only [failWith]
        split
        · exact hcf _ h1 h2 h3 h4
        · dsimp only
          rw [kinds_add]
          exact (hcf ({ x with pread := none, readErr := some e }) h1 h2 h3 h4).seq (finish_step ..)
      split
      · split
        · split
          · exact hcf _ rfl rfl rfl rfl
          · exact hfw _ _ _ rfl rfl rfl rfl
        · exact hcf _ rfl rfl rfl rfl
      · split
        · exact hfw _ _ _ rfl rfl rfl rfl
        · split
          · exact hcf _ rfl rfl rfl rfl
          · extract_lets s2
            split; rename_i s3 o3 h3
            rw [kinds_add]
            exact (hcf s2 rfl rfl rfl rfl).seq (SStep.of_pair h3 (ih s2))
      · exact hfw _ _ _ rfl rfl rfl rfl
      · exact hcf _ rfl rfl rfl rfl

theorem readAndSettle_step (sid : Sid) (s : SStream α) :
    SStep s (s.readAndSettle sid).1 (kinds (s.readAndSettle sid).2) := by
  unfold SStream.readAndSettle
  split; rename_i s1 o1 h1
  exact afterDecode_step sid s1 o1 (SStep.of_pair h1 (resumeRead_step ..))

theorem startRecv_step (sid : Sid) (s : SStream α) :
    SStep s (s.startRecv sid).1 (kinds (s.startRecv sid).2) := by
  unfold SStream.startRecv
  extract_lets opName
  split
  · exact afterDecode_step sid _ _ (SStep.refl s)
  · split
    · exact afterDecode_step sid _ _ (SStep.quiet rfl rfl rfl rfl)
    · exact (readAndSettle_step sid _).pre rfl rfl rfl rfl

/-! ### frames, calls, events, runs -/

theorem onFrame_step (cfg : SCfg) (sid : Sid) (s : SStream α) (f : C2S α) :
    SStep s (s.onFrame cfg sid f).1 (kinds (s.onFrame cfg sid f).2) := by
  unfold SStream.onFrame
  split
  · split
    · exact SStep.refl s
    · rename_i hh
      have : s.halfClose .eof = { s with halfClosed := some .eof, rcv := s.rcv.close } := by
        simp [SStream.halfClose, hh]
      rw [this]
      exact (readAndSettle_step sid _).pre rfl rfl rfl rfl
  · exact finish_step ..
  · split
    · exact SStep.refl s
    · extract_lets s1
      split
      · exact SStep.quiet rfl rfl rfl rfl
      · rename_i snd hsnd
        split; rename_i s2 o2 h2
        have hp : SStep s1 s2 (kinds o2) :=
          SStep.of_pair h2 (pumpSend_step cfg sid s1 snd (Or.inl (by rw [hsnd]; rfl)))
        exact afterSend_step sid s2 o2 (hp.pre rfl rfl rfl rfl)
  · exact finish_step ..
  · exact SStep.refl s
  · extract_lets df
    split
    · split
      · exact SStep.refl s
      · exact finish_step ..
      · exact (readAndSettle_step sid _).pre rfl rfl rfl rfl
    · split
      · exact SStep.refl s
      · split
        · exact SStep.quiet rfl rfl rfl rfl
        · exact (readAndSettle_step sid _).pre rfl rfl rfl rfl

/-- the headers frame `SendMsg` / the unary reply puts before the message, if none went out yet -/
theorem hdr_step (sid : Sid) (s : SStream α) (p : SStream α × List (Sid × S2C α))
    (hp : p = if s.sentHeaders then (s, []) else ({ s with sentHeaders := true, headers := [] }, [(sid, .headers s.headers)])) :
    SStep s p.1 (p.2.map (·.2)) ∧ p.1.sentHeaders = true := by
  subst hp
  cases hh : s.sentHeaders with
  | true => exact ⟨SStep.refl s, hh⟩
  | false =>
    refine ⟨⟨rfl, ?_, ?_, fun _ _ => rfl, fun _ => rfl, fun f hf => ?_, fun _ f hf => ?_⟩, rfl⟩
    · simp [hh, cnt]; rfl
    · simp [cnt]; rfl
    · simp at hf; rw [hf]; rfl
    · simp at hf; rw [hf]; rfl

theorem onCall_step (cfg : SCfg) (sid : Sid) (s : SStream α) (c : HCall α) :
    SStep s (s.onCall cfg sid c).1 (kinds (s.onCall cfg sid c).2) := by
  unfold SStream.onCall
  split
  · exact startRecv_step ..
  · split; rename_i s1 hdr h1
    obtain ⟨hh, hsh⟩ := hdr_step sid s _ rfl
    rw [h1] at hh hsh
    dsimp only at hh hsh
    split
    · exact hh
    · split; rename_i s2 o2 h2
      have hp : SStep s1 s2 (kinds o2) :=
        (SStep.of_pair h2 (pumpSend_step cfg sid _ _ (Or.inr hsh))).pre rfl rfl rfl rfl
      rw [kinds_add]
      exact hh.seq hp
  · split
    · exact SStep.refl s
    · exact SStep.quiet rfl rfl rfl rfl
  · split
    · exact SStep.refl s
    · rename_i hh
      refine ⟨rfl, ?_, ?_, fun hi hp => rfl, fun _ => rfl, fun f hf => ?_, fun _ f hf => ?_⟩
      · have : s.sentHeaders = false := by simpa using hh
        simp [this, cnt, kinds]; rfl
      · simp [cnt, kinds]; rfl
      · simp [kinds] at hf; rw [hf]; rfl
      · simp [kinds] at hf; rw [hf]; rfl
  · split
    · exact SStep.refl s
    · exact SStep.quiet rfl rfl rfl rfl
  · extract_lets err
    split; rename_i s1 o1 h1
    have h3 : SStep s s1 (kinds o1) := by
      refine SStep.of_pair h1 ?_
      exact (finish_step ..).pre rfl rfl rfl rfl
    rw [kinds_add]
    exact h3.seq (SStep.refl s1)
  · split; rename_i s1 hdr h1
    obtain ⟨hh, hsh⟩ := hdr_step sid s _ rfl
    rw [h1] at hh hsh
    dsimp only at hh hsh
    split; rename_i s2 o2 h2
    split; rename_i s3 o3 h3
    show SStep s s3 (kinds o3)
    refine SStep.of_pair h3 ?_
    apply afterSend_step
    have hp : SStep s1 s2 (kinds o2) :=
      (SStep.of_pair h2 (pumpSend_step cfg sid _ _ (Or.inr hsh))).pre rfl rfl rfl rfl
    rw [kinds_add]
    exact hh.seq hp

theorem stepEv_step (cfg : SCfg) (sid : Sid) (s : SStream α) (ev : SEv α) :
    SStep s (s.stepEv cfg sid ev).1 (kinds (s.stepEv cfg sid ev).2) := by
  cases ev with
  | frame f => exact onFrame_step cfg sid s f
  | call c => exact onCall_step cfg sid s c
  | ctx e => exact cancelCtx_step sid s e

theorem sframes_cons (o : Out α) (os : List (Out α)) : sframes (o :: os) = kinds o ++ sframes os := by
  simp [sframes, kinds]

theorem sframes_append (a b : List (Out α)) : sframes (a ++ b) = sframes a ++ sframes b := by
  simp [sframes]

theorem runEv_cons (cfg : SCfg) (sid : Sid) (s : SStream α) (e : SEv α) (es : List (SEv α)) :
    SStream.runEv cfg sid s (e :: es) =
      ((SStream.runEv cfg sid (s.stepEv cfg sid e).1 es).1,
       (s.stepEv cfg sid e).2 :: (SStream.runEv cfg sid (s.stepEv cfg sid e).1 es).2) := rfl

theorem runEv_append (cfg : SCfg) (sid : Sid) (es1 es2 : List (SEv α)) : ∀ (s : SStream α),
    SStream.runEv cfg sid s (es1 ++ es2) =
      ((SStream.runEv cfg sid (SStream.runEv cfg sid s es1).1 es2).1,
       (SStream.runEv cfg sid s es1).2 ++ (SStream.runEv cfg sid (SStream.runEv cfg sid s es1).1 es2).2) := by
  induction es1 with
  | nil => intro s; rfl
  | cons e es ih =>
    intro s
    rw [List.cons_append, runEv_cons, ih, runEv_cons]
    rfl

/-- the contract holds for every run of events, with the flattened frame list -/
theorem runEv_step (cfg : SCfg) (sid : Sid) (evs : List (SEv α)) : ∀ (s : SStream α),
    SStep s (SStream.runEv cfg sid s evs).1 (sframes (SStream.runEv cfg sid s evs).2) := by
  induction evs with
  | nil => intro s; exact SStep.refl s
  | cons e es ih =>
    intro s
    rw [runEv_cons, sframes_cons]
    exact (stepEv_step cfg sid s e).seq (ih _)

/-! ### S1–S4, S7: the main statements for a server stream -/

/-- a freshly created server stream (the object `Srv.createStream` builds, see `createStream_fresh`) -/
def SFresh (s : SStream α) : Prop := s.sentHeaders = false ∧ s.closed = false ∧ s.psend = none

theorem SFresh.inv {s : SStream α} (h : SFresh s) : Inv s := fun hp => by
  rw [h.2.2] at hp; cases hp

/-- **S1**: at most one headers frame (any initial state, any events) -/
theorem S1_at_most_one_headers (cfg : SCfg) (sid : Sid) (s0 : SStream α) (evs : List (SEv α)) :
    ((sframes (SStream.runEv cfg sid s0 evs).2).filter S.isHeaders).length ≤ 1 := by
  have h := (runEv_step cfg sid evs s0).hdr
  have := toNat_le_one (SStream.runEv cfg sid s0 evs).1.sentHeaders
  rw [cnt_def] at h
  omega

/-- S1, exact form: from a fresh stream the number of headers frames is the final `sentHeaders` flag
    (ghost reading: `sentHeaders = true` iff a headers frame was emitted) -/
theorem S1_headers_iff_flag (cfg : SCfg) (sid : Sid) (s0 : SStream α) (h0 : s0.sentHeaders = false)
    (evs : List (SEv α)) :
    ((sframes (SStream.runEv cfg sid s0 evs).2).filter S.isHeaders).length =
      (SStream.runEv cfg sid s0 evs).1.sentHeaders.toNat := by
  have h := (runEv_step cfg sid evs s0).hdr
  rw [cnt_def, h0] at h
  simpa using h

/-- **S2**: at most one close frame (any initial state, any events) -/
theorem S2_at_most_one_close (cfg : SCfg) (sid : Sid) (s0 : SStream α) (evs : List (SEv α)) :
    ((sframes (SStream.runEv cfg sid s0 evs).2).filter S.isClose).length ≤ 1 := by
  have h := (runEv_step cfg sid evs s0).cls
  have := toNat_le_one (SStream.runEv cfg sid s0 evs).1.closed
  rw [cnt_def] at h
  omega

/-- **S2**, exact form: from a stream that is not closed, the number of close frames is the final
    `closed` flag: exactly one if the stream ends up closed, none otherwise -/
theorem S2_close_iff_flag (cfg : SCfg) (sid : Sid) (s0 : SStream α) (h0 : s0.closed = false)
    (evs : List (SEv α)) :
    ((sframes (SStream.runEv cfg sid s0 evs).2).filter S.isClose).length =
      (SStream.runEv cfg sid s0 evs).1.closed.toNat := by
  have h := (runEv_step cfg sid evs s0).cls
  rw [cnt_def, h0] at h
  simpa using h

theorem S2_exactly_one_close (cfg : SCfg) (sid : Sid) (s0 : SStream α) (h0 : s0.closed = false)
    (evs : List (SEv α)) (hc : (SStream.runEv cfg sid s0 evs).1.closed = true) :
    ((sframes (SStream.runEv cfg sid s0 evs).2).filter S.isClose).length = 1 := by
  rw [S2_close_iff_flag cfg sid s0 h0, hc]; rfl

/-- **S3**: headers precede all response data -/
theorem S3_headers_before_data (cfg : SCfg) (sid : Sid) (s0 : SStream α) (h0 : SFresh s0)
    (evs : List (SEv α)) :
    ∀ pre f post, sframes (SStream.runEv cfg sid s0 evs).2 = pre ++ f :: post → S.isData f = true →
      ∃ h ∈ pre, S.isHeaders h = true := by
  intro pre f post hfs hd
  have h := (runEv_step cfg sid evs s0).first h0.inv
  rcases hdrFirst_spec _ _ h pre f post hfs hd with h1 | h1
  · rw [h0.1] at h1; cases h1
  · exact h1

/-- **S4** (stream level): a stream never emits a settings frame -/
theorem S4_no_settings (cfg : SCfg) (sid : Sid) (s0 : SStream α) (evs : List (SEv α)) :
    (sframes (SStream.runEv cfg sid s0 evs).2).all (fun f => !S.isSettings f) = true := by
  rw [List.all_eq_true]
  intro f hf
  rw [(runEv_step cfg sid evs s0).noSet f hf]; rfl

/-- **S7**: a server stream without flow control (revision zero) never emits a window update -/
theorem S7_no_window_update (cfg : SCfg) (sid : Sid) (s0 : SStream α) (h0 : s0.fc = false)
    (evs : List (SEv α)) :
    (sframes (SStream.runEv cfg sid s0 evs).2).all (fun f => !S.isWindowUpdate f) = true := by
  rw [List.all_eq_true]
  intro f hf
  rw [(runEv_step cfg sid evs s0).noWU h0 f hf]; rfl

/-! ### S5: the close frame is the last frame of a stream whose handler ended -/

/-- what `finishStream` leaves when nothing is pending -/
def Settled (s : SStream α) : Prop :=
  s.closed = true ∧ s.psend = none ∧ s.ctxDone.isSome = true ∧ s.pread = none

theorem cancelCtx_done (sid : Sid) (s : SStream α) (e : CtxErr) (h : s.ctxDone.isSome = true) :
    s.cancelCtx sid e = (s, {}) := by
  unfold SStream.cancelCtx
  rw [if_pos h]

/-- the context ends while no handler call is blocked: only the flags change -/
theorem cancelCtx_idle (sid : Sid) (s : SStream α) (e : CtxErr) (hps : s.psend = none) (hpr : s.pread = none) :
    (s.cancelCtx sid e).1.closed = s.closed ∧ (s.cancelCtx sid e).1.psend = none ∧
    (s.cancelCtx sid e).1.pread = none ∧ (s.cancelCtx sid e).1.ctxDone.isSome = true ∧
    (s.cancelCtx sid e).2.frames = [] := by
  unfold SStream.cancelCtx
  split
  · rename_i h
    exact ⟨rfl, hps, hpr, h, rfl⟩
  · simp [hps, hpr, Out.add]

/-- `finishStream` when no handler call is blocked leaves a settled stream -/
theorem finish_settles (sid : Sid) (s : SStream α) (err : Option SErr) (b : Bool)
    (hps : s.psend = none) (hpr : s.pread = none) : Settled (s.finish sid err b).1 := by
  unfold SStream.finish
  extract_lets racing err'
  split; rename_i s1 o1 h1
  split; rename_i s2 o2 h2
  have hk := finishCore_keeps sid s err'
  have hc := (ServerShape.finishCore_closed sid s err').1
  rw [← fst_eq h1] at hk hc
  have hi := cancelCtx_idle sid s1 .canceled (hk.1.trans hps) (hk.2.1.trans hpr)
  rw [← fst_eq h2] at hi
  exact ⟨hi.1.trans hc, hi.2.1, hi.2.2.2.1, hi.2.2.1⟩

/-- on a settled stream `finishStream` emits nothing and the stream stays settled -/
theorem finish_settled (sid : Sid) (s : SStream α) (err : Option SErr) (b : Bool) (h : Settled s) :
    (s.finish sid err b).2.frames = [] ∧ Settled (s.finish sid err b).1 :=
  ⟨finish_frames_closed sid s err b h.1, finish_settles sid s err b h.2.1 h.2.2.2⟩

theorem readAndSettle_none (sid : Sid) (s : SStream α) (h : s.pread = none) :
    s.readAndSettle sid = (s, {}) := by
  unfold SStream.readAndSettle
  rw [ServerShape.resumeRead_none sid "" 3 s h]
  simp [SStream.afterDecode]

theorem Settled.of_fields {s s' : SStream α} (h : Settled s) (h1 : s'.closed = s.closed) (h2 : s'.psend = s.psend)
    (h3 : s'.ctxDone = s.ctxDone) (h4 : s'.pread = s.pread) : Settled s' :=
  ⟨h1.trans h.1, h2.trans h.2.1, by rw [h3]; exact h.2.2.1, h4.trans h.2.2.2⟩

theorem readAndSettle_settled (sid : Sid) (x : SStream α) (h : Settled x) :
    (x.readAndSettle sid).2.frames = [] ∧ Settled (x.readAndSettle sid).1 := by
  rw [readAndSettle_none _ _ h.2.2.2]
  exact ⟨rfl, h⟩

/-- a settled stream answers no frame of the peer, whatever it is -/
theorem onFrame_settled (cfg : SCfg) (sid : Sid) (s : SStream α) (f : C2S α) (h : Settled s) :
    (s.onFrame cfg sid f).2.frames = [] ∧ Settled (s.onFrame cfg sid f).1 := by
  unfold SStream.onFrame
  split
  · split
    · exact ⟨rfl, h⟩
    · rename_i hh
      have : s.halfClose .eof = { s with halfClosed := some .eof, rcv := s.rcv.close } := by
        simp [SStream.halfClose, hh]
      rw [this]
      exact readAndSettle_settled sid _ (h.of_fields rfl rfl rfl rfl)
  · exact finish_settled sid s _ _ h
  · split
    · exact ⟨rfl, h⟩
    · extract_lets s1
      have : s1.psend = none := h.2.1
      split
      · exact ⟨rfl, h.of_fields rfl rfl rfl rfl⟩
      · rename_i snd hsnd
        rw [this] at hsnd; cases hsnd
  · exact finish_settled sid s _ _ h
  · exact ⟨rfl, h⟩
  · extract_lets df
    split
    · split
      · exact ⟨rfl, h⟩
      · exact finish_settled sid s _ _ h
      · exact readAndSettle_settled sid _ (h.of_fields rfl rfl rfl rfl)
    · split
      · exact ⟨rfl, h⟩
      · split
        · exact ⟨rfl, h.of_fields rfl rfl rfl rfl⟩
        · exact readAndSettle_settled sid _ (h.of_fields rfl rfl rfl rfl)

/-- the Legal contract "the handler makes no call after it returned": the event is not a handler call -/
def SEv.isCall : SEv α → Bool
  | .call _ => true
  | _ => false

/-- **S5, step form**: on a settled stream every frame of the peer and every context end emits no
    frame and leaves the stream settled -/
theorem S5_settled_step (cfg : SCfg) (sid : Sid) (s : SStream α) (ev : SEv α) (h : Settled s)
    (hev : SEv.isCall ev = false) :
    (s.stepEv cfg sid ev).2.frames = [] ∧ Settled (s.stepEv cfg sid ev).1 := by
  cases ev with
  | frame f => exact onFrame_settled cfg sid s f h
  | call c => cases hev
  | ctx e =>
    show (s.cancelCtx sid e).2.frames = [] ∧ Settled (s.cancelCtx sid e).1
    rw [cancelCtx_done sid s e h.2.2.1]
    exact ⟨rfl, h⟩

theorem S5_settled_run (cfg : SCfg) (sid : Sid) (evs : List (SEv α)) : ∀ (s : SStream α), Settled s →
    (∀ ev ∈ evs, SEv.isCall ev = false) →
    sframes (SStream.runEv cfg sid s evs).2 = [] ∧ Settled (SStream.runEv cfg sid s evs).1 := by
  induction evs with
  | nil => intro s h _; exact ⟨rfl, h⟩
  | cons e es ih =>
    intro s h hev
    have h1 := S5_settled_step cfg sid s e h (hev e (List.mem_cons_self ..))
    have h2 := ih _ h1.2 (fun ev hm => hev ev (List.mem_cons_of_mem _ hm))
    rw [runEv_cons, sframes_cons, kinds_of_frames_nil _ h1.1, h2.1]
    exact ⟨rfl, h2.2⟩

/-- the handler returns (`finishStream(status)`) while none of its calls is blocked: the stream is settled -/
theorem ret_settles (cfg : SCfg) (sid : Sid) (s : SStream α) (st : Status)
    (hps : s.psend = none) (hpr : s.pread = none) : Settled (s.onCall cfg sid (.ret st)).1 := by
  simp only [SStream.onCall]
  exact finish_settles sid _ _ _ hps hpr

/-- what the return of the handler puts on the wire: on a stream that is not closed yet, the headers
    (if they did not go out before) and the close frame with the handler's status, in this order -/
theorem ret_frames (cfg : SCfg) (sid : Sid) (s : SStream α) (st : Status) (hc : s.closed = false) :
    kinds (s.onCall cfg sid (.ret st)).2 =
      (if s.sentHeaders then [] else [S2C.headers s.headers]) ++
        [S2C.close (SErr.wireStatus (if st.code = 0 then none else some (.status st))) s.trailers] := by
  simp only [SStream.onCall, SStream.finish, Bool.false_and, kinds_add]
  have h1 : kinds (({ s with hstatus := .returned } : SStream α).finishCore sid
      (if st.code = 0 then none else some (.status st))).2 =
      (if s.sentHeaders then [] else [S2C.headers s.headers]) ++
        [S2C.close (SErr.wireStatus (if st.code = 0 then none else some (.status st))) s.trailers] := by
    simp only [SStream.finishCore, SStream.halfClose, kinds]
    split <;> cases hh : s.sentHeaders <;> simp [hc]
  have h2 := cancelCtx_frames_closed sid
    (({ s with hstatus := .returned } : SStream α).finishCore sid
      (if st.code = 0 then none else some (.status st))).1 .canceled (ServerShape.finishCore_closed ..).1
  rw [kinds_of_frames_nil _ h2, h1]
  simp [kinds]

/-- **S5**: if the handler returns (`.call (.ret st)`) while none of its calls is blocked
    (`psend = none ∧ pread = none`: the handler is one goroutine) and makes no call afterwards, then
    whatever the peer sends and whenever the context ends afterwards, no frame at all is emitted
    after the frames of the return itself; the stream is settled; and if the stream was not closed
    before, the very last frame of the whole run is the close frame with the handler's status. -/
theorem S5_close_is_last (cfg : SCfg) (sid : Sid) (s0 : SStream α) (pre post : List (SEv α)) (st : Status)
    (hps : (SStream.runEv cfg sid s0 pre).1.psend = none) (hpr : (SStream.runEv cfg sid s0 pre).1.pread = none)
    (hpost : ∀ ev ∈ post, SEv.isCall ev = false) :
    let s := (SStream.runEv cfg sid s0 pre).1
    let r := SStream.runEv cfg sid s0 (pre ++ .call (.ret st) :: post)
    Settled r.1 ∧
    sframes r.2 = sframes (SStream.runEv cfg sid s0 pre).2 ++ kinds (s.onCall cfg sid (.ret st)).2 ∧
    (s.closed = false →
      sframes r.2 = (sframes (SStream.runEv cfg sid s0 pre).2 ++ (if s.sentHeaders then [] else [S2C.headers s.headers])) ++
        [S2C.close (SErr.wireStatus (if st.code = 0 then none else some (.status st))) s.trailers]) := by
  intro s r
  have hset := ret_settles cfg sid s st hps hpr
  have hrun := S5_settled_run cfg sid post _ hset hpost
  have hr : sframes r.2 = sframes (SStream.runEv cfg sid s0 pre).2 ++ kinds (s.onCall cfg sid (.ret st)).2 := by
    show sframes (SStream.runEv cfg sid s0 (pre ++ .call (.ret st) :: post)).2 = _
    rw [runEv_append, runEv_cons]
    dsimp only
    rw [sframes_append, sframes_cons]
    show _ ++ (_ ++ sframes (SStream.runEv cfg sid (s.onCall cfg sid (.ret st)).1 post).2) = _
    rw [hrun.1, List.append_nil]
    rfl
  refine ⟨?_, hr, fun hc => ?_⟩
  · show Settled (SStream.runEv cfg sid s0 (pre ++ .call (.ret st) :: post)).1
    rw [runEv_append, runEv_cons]
    exact hrun.2
  · rw [hr, ret_frames cfg sid s st hc, List.append_assoc]

/-! ### S6: `new_stream` at the endpoint -/

/-- a `RecvMsg` on a stream on which nothing has happened yet just blocks: no frame -/
theorem startRecv_fresh_frames (sid : Sid) (s : SStream α) (h1 : s.readErr = none) (h2 : s.ctxDone = none)
    (h3 : s.rcv.queue = []) (h4 : s.rcv.closed = false) (h5 : s.rcv.cancelled = false) :
    (s.startRecv sid).2.frames = [] := by
  simp only [SStream.startRecv, h1, h2, SStream.readAndSettle, SStream.resumeRead, h3, readLoop, h4, h5,
    SStream.creditFrames, SStream.afterDecode]
  simp

/-- **S6, rejection**: a `new_stream` with a fresh id that is refused (server shutting down,
    unsupported revision, malformed method name, unknown method) emits exactly one frame, a close
    frame for that id, and creates no stream object -/
theorem S6_rejected (cfg : SCfg) (s : Srv α) (sid : Sid) (method : List Nat) (md : MD) (rev : Int) (win : Nat)
    (h1 : s.table.contains sid = false) (h2 : ¬ sid ≤ s.lastSeen)
    (hrej : s.closing = true ∨ (rev ≠ 0 ∧ rev ≠ 1) ∨ Method.resolve cfg.services method = .malformed ∨
            Method.resolve cfg.services method = .unimplemented) :
    ∃ code msg, (s.createStream cfg sid method md rev win).2.frames = [(sid, .close (mkStatus code msg) [])] ∧
      (s.createStream cfg sid method md rev win).1.streams = s.streams := by
  unfold Srv.createStream
  rw [if_neg (by rw [h1]; exact Bool.false_ne_true), if_neg h2]
  dsimp only
  split
  · exact ⟨_, _, rfl, rfl⟩
  · rename_i hcl
    split
    · exact ⟨_, _, rfl, rfl⟩
    · rename_i hrev
      split
      · exact ⟨_, _, rfl, rfl⟩
      · exact ⟨_, _, rfl, rfl⟩
      · rename_i svc f hres
        exfalso
        rcases hrej with h | h | h | h
        · exact hcl h
        · apply hrev
          simp [h.1, h.2]
        · rw [hres] at h; cases h
        · rw [hres] at h; cases h

/-- **S6, acceptance**: an accepted `new_stream` emits no frame at all in that step (in particular
    no close frame) and appends exactly one stream object, built from a fresh one (for a unary
    method the decode callback's `RecvMsg` has been started on it) -/
theorem S6_accepted (cfg : SCfg) (s : Srv α) (sid : Sid) (method : List Nat) (md : MD) (rev : Int) (win : Nat)
    (svc : Method.Name) (f : Method.Found)
    (h1 : s.table.contains sid = false) (h2 : ¬ sid ≤ s.lastSeen)
    (hcl : s.closing = false) (hrev : rev = 0 ∨ rev = 1)
    (hres : Method.resolve cfg.services method = .found svc f) :
    (s.createStream cfg sid method md rev win).2.frames = [] ∧
    ∃ st0 : SStream α, SFresh st0 ∧ st0.fc = (rev == 1) ∧
      ((s.createStream cfg sid method md rev win).1.streams = s.streams ++ [(sid, st0)] ∨
       (s.createStream cfg sid method md rev win).1.streams = s.streams ++ [(sid, (st0.onCall cfg sid .recv).1)]) := by
  unfold Srv.createStream
  rw [if_neg (by rw [h1]; exact Bool.false_ne_true), if_neg h2]
  extract_lets s'
  split
  · rename_i h
    have : s.closing = true := h
    rw [hcl] at this; cases this
  · split
    · rename_i h
      exfalso
      rcases hrev with h' | h' <;> subst h' <;> exact absurd h (by decide)
    · split
      · rename_i h; rw [hres] at h; cases h
      · rename_i h; rw [hres] at h; cases h
      · rename_i svc' f' hres'
        split; rename_i unary cs ss hf
        extract_lets st ev
        split
        · split; rename_i st' o h
          refine ⟨?_, st, ⟨rfl, rfl, rfl⟩, rfl, Or.inr ?_⟩
          · show o.frames = []
            rw [snd_eq h]; exact startRecv_fresh_frames sid st rfl rfl rfl rfl rfl
          · show s.streams ++ [(sid, st')] = _
            rw [fst_eq h]; rfl
        · exact ⟨rfl, st, ⟨rfl, rfl, rfl⟩, rfl, Or.inl rfl⟩

/-- S6 as seen on the wire: the frame `new_stream` taken by the receive loop -/
theorem S6_newStream_frame (cfg : SCfg) (s : Srv α) (sid : Sid) (method : List Nat) (md : MD) (rev : Int) (win : Nat)
    (hret : s.returned = none) :
    s.step cfg (.frame sid (.newStream method md rev win)) = s.createStream cfg sid method md rev win := by
  simp [Srv.step, Srv.onFrame, hret]

/-! ### S4 at the endpoint: the settings frame is the first frame of the tunnel and the only one -/

/-- **S4** (start): `serve` begins with exactly the settings frame on stream id -1 when the client
    accepts settings, and with nothing otherwise -/
theorem S4_start (cfg : SCfg) :
    (Srv.start cfg : Srv α × Out α).2.frames =
      if cfg.sendSettings then [(-1, .settings cfg.W cfg.revs)] else [] := by
  unfold Srv.start
  split <;> rfl

def NoSettings (o : Out α) : Prop := ∀ f ∈ o.frames, S.isSettings f.2 = false

theorem NoSettings.empty : NoSettings ({} : Out α) := fun f hf => by cases hf

theorem NoSettings.of_frames_nil {o : Out α} (h : o.frames = []) : NoSettings o := fun f hf => by
  rw [h] at hf; cases hf

theorem NoSettings.add {a b : Out α} (ha : NoSettings a) (hb : NoSettings b) : NoSettings (a.add b) := by
  intro f hf
  rcases List.mem_append.mp hf with h | h
  · exact ha f h
  · exact hb f h

theorem NoSettings.of_step {s s' : SStream α} {o : Out α} (h : SStep s s' (kinds o)) : NoSettings o :=
  fun f hf => h.noSet f.2 (List.mem_map.mpr ⟨f, hf, rfl⟩)

theorem serveReturns_go_noSettings (l : List (Sid × SStream α)) : NoSettings (Srv.serveReturns.go l).2 := by
  induction l with
  | nil => exact NoSettings.empty
  | cons a l ih =>
    obtain ⟨sid, st⟩ := a
    simp only [Srv.serveReturns.go]
    exact NoSettings.add (NoSettings.of_step (cancelCtx_step sid st .canceled)) ih

theorem serveReturns_noSettings (s : Srv α) (err : Option String) : NoSettings (s.serveReturns err).2 := by
  simp only [Srv.serveReturns]
  exact NoSettings.add (serveReturns_go_noSettings s.streams) (NoSettings.of_frames_nil rfl)

theorem tick_go_noSettings (now : Nat) (l : List (Sid × SStream α)) : NoSettings (Srv.tick.go now l).2 := by
  induction l with
  | nil => exact NoSettings.empty
  | cons a l ih =>
    obtain ⟨sid, st⟩ := a
    simp only [Srv.tick.go]
    refine NoSettings.add ?_ ih
    split
    · split
      · exact NoSettings.of_step (cancelCtx_step sid st .deadline)
      · exact NoSettings.empty
    · exact NoSettings.empty

theorem createStream_noSettings (cfg : SCfg) (s : Srv α) (sid : Sid) (m : List Nat) (md : MD) (rev : Int) (win : Nat) :
    NoSettings (s.createStream cfg sid m md rev win).2 := by
  unfold Srv.createStream
  split
  · exact serveReturns_noSettings _ _
  · split
    · exact serveReturns_noSettings _ _
    · have hrej : ∀ code msg, NoSettings (rejectFrame sid code msg : Out α) := by
        intro code msg f hf
        simp only [rejectFrame, List.mem_singleton] at hf
        rw [hf]; rfl
      extract_lets s'
      split
      · exact hrej _ _
      · split
        · exact hrej _ _
        · split
          · exact hrej _ _
          · exact hrej _ _
          · split; rename_i unary cs ss hf
            extract_lets st ev
            split
            · split; rename_i st' o h
              show NoSettings o
              rw [snd_eq h]
              exact NoSettings.of_step (startRecv_step ..)
            · exact NoSettings.of_frames_nil rfl

/-- **S4** (steps): no step of the server endpoint emits a settings frame -/
theorem S4_step_no_settings (cfg : SCfg) (s : Srv α) (x : SStim α) : NoSettings (s.step cfg x).2 := by
  cases x with
  | frame sid f =>
    simp only [Srv.step, Srv.onFrame]
    split
    · exact NoSettings.empty
    · split
      · exact createStream_noSettings _ _ _ _ _ _ _
      · split
        · exact NoSettings.of_step (onFrame_step ..)
        · split
          · exact NoSettings.empty
          · exact serveReturns_noSettings _ _
  | call sid c =>
    simp only [Srv.step, Srv.onCall]
    split
    · exact NoSettings.of_frames_nil rfl
    · exact NoSettings.of_step (onCall_step ..)
  | tick d =>
    simp only [Srv.step, Srv.tick]
    exact tick_go_noSettings _ _
  | closing b => exact NoSettings.empty
  | carrierEnds err =>
    simp only [Srv.step]
    split
    · exact NoSettings.empty
    · exact serveReturns_noSettings _ _

theorem Srv_run_cons (cfg : SCfg) (s : Srv α) (x : SStim α) (xs : List (SStim α)) :
    Srv.run cfg s (x :: xs) =
      ((Srv.run cfg (s.step cfg x).1 xs).1, (s.step cfg x).2 :: (Srv.run cfg (s.step cfg x).1 xs).2) := rfl

/-- **S4** (runs): whatever happens, the endpoint never emits a settings frame after `Srv.start` -/
theorem S4_run_no_settings (cfg : SCfg) (xs : List (SStim α)) : ∀ (s : Srv α),
    (sframes (Srv.run cfg s xs).2).all (fun f => !S.isSettings f) = true := by
  induction xs with
  | nil => intro s; rfl
  | cons x xs ih =>
    intro s
    rw [Srv_run_cons, sframes_cons, List.all_append, ih, Bool.and_true, List.all_eq_true]
    intro f hf
    obtain ⟨g, hg, rfl⟩ := List.mem_map.mp hf
    rw [S4_step_no_settings cfg s x g hg]; rfl

/-! ## Client -/

/-- the frames of one client step's output, without the stream ids -/
def ckinds (o : COut α) : List (C2S α) := o.frames.map (·.2)

theorem ckinds_add (a b : COut α) : ckinds (a.add b) = ckinds a ++ ckinds b := by
  simp [ckinds, COut.add]

@[simp] theorem ckinds_empty : ckinds ({} : COut α) = [] := rfl

theorem ckinds_of_frames_nil (o : COut α) (h : o.frames = []) : ckinds o = [] := by
  simp [ckinds, h]

/-- The contract of every building block of the client half of a stream other than
    `SendMsg` and `CloseSend` themselves, taking the stream from `s` to `s'` and emitting `ks`:
    * `fc`, `halfClosed` are kept; no half-close, no `new_stream` frame; window updates only with
      flow control;
    * a cancel frame is emitted only when the terminal result goes from unset to set;
    * if no send is in progress, no data frame is emitted and none is in progress afterwards. -/
structure CBlock (s s' : CStream α) (ks : List (C2S α)) : Prop where
  fc : s'.fc = s.fc
  hc : s'.halfClosed = s.halfClosed
  cancel : cnt C.isCancel ks + s.done.isSome.toNat ≤ s'.done.isSome.toNat
  clean : ∀ f ∈ ks, C.isHalfClose f = false ∧ C.isNewStream f = false ∧
    (s.fc = false → C.isWindowUpdate f = false)
  nodata : s.psend = none → (∀ f ∈ ks, C.isData f = false) ∧ s'.psend = none

theorem CBlock.seq {s a b : CStream α} {k1 k2 : List (C2S α)} (h1 : CBlock s a k1) (h2 : CBlock a b k2) :
    CBlock s b (k1 ++ k2) := by
  refine ⟨h2.fc.trans h1.fc, h2.hc.trans h1.hc, ?_, fun f hf => ?_, fun hp => ?_⟩
  · rw [cnt_append]; have := h1.cancel; have := h2.cancel; omega
  · rcases List.mem_append.mp hf with h | h
    · exact h1.clean f h
    · have := h2.clean f h
      exact ⟨this.1, this.2.1, fun h0 => this.2.2 (h1.fc.trans h0)⟩
  · have ha := h1.nodata hp
    have hb := h2.nodata ha.2
    refine ⟨fun f hf => ?_, hb.2⟩
    rcases List.mem_append.mp hf with h | h
    · exact ha.1 f h
    · exact hb.1 f h

theorem toNat_mono {a b : Bool} (h : a = true → b = true) : a.toNat ≤ b.toNat := by
  cases a <;> cases b <;> simp at h ⊢

theorem CBlock.leaf {s s' : CStream α} {ks : List (C2S α)}
    (hfc : s'.fc = s.fc) (hhc : s'.halfClosed = s.halfClosed)
    (hd : s.done.isSome = true → s'.done.isSome = true)
    (hk : ∀ f ∈ ks, C.isHalfClose f = false ∧ C.isCancel f = false ∧ C.isNewStream f = false ∧
      C.isData f = false ∧ (s.fc = false → C.isWindowUpdate f = false))
    (hps : s.psend = none → s'.psend = none) : CBlock s s' ks := by
  refine ⟨hfc, hhc, ?_, fun f hf => ⟨(hk f hf).1, (hk f hf).2.2.1, (hk f hf).2.2.2.2⟩,
    fun hp => ⟨fun f hf => (hk f hf).2.2.2.1, hps hp⟩⟩
  rw [cnt_eq_zero _ _ (fun f hf => (hk f hf).2.1)]
  have := toNat_mono hd
  omega

/-- a block that emits nothing -/
theorem CBlock.silent {s s' : CStream α} (hfc : s'.fc = s.fc) (hhc : s'.halfClosed = s.halfClosed)
    (hd : s.done.isSome = true → s'.done.isSome = true) (hps : s.psend = none → s'.psend = none) :
    CBlock s s' [] :=
  CBlock.leaf hfc hhc hd (fun f hf => by cases hf) hps

/-- ... and leaves `done` and `psend` alone -/
theorem CBlock.quiet {s s' : CStream α} (hfc : s'.fc = s.fc) (hhc : s'.halfClosed = s.halfClosed)
    (hd : s'.done = s.done) (hps : s'.psend = s.psend) : CBlock s s' [] :=
  CBlock.silent hfc hhc (by rw [hd]; exact fun h => h) (by rw [hps]; exact fun h => h)

theorem CBlock.refl (s : CStream α) : CBlock s s [] := CBlock.quiet rfl rfl rfl rfl

theorem CBlock.pre {s s0 s' : CStream α} {ks : List (C2S α)} (h : CBlock s0 s' ks)
    (hfc : s0.fc = s.fc) (hhc : s0.halfClosed = s.halfClosed) (hd : s0.done = s.done)
    (hps : s0.psend = s.psend) : CBlock s s' ks := by
  have := (CBlock.quiet (s := s) (s' := s0) hfc hhc hd hps).seq h
  rwa [List.nil_append] at this

theorem wu_kind (sid : Sid) (b : Bool) (cr : List Nat) (hb : b = false → cr = []) :
    ∀ f ∈ (cr.map (fun n => (sid, C2S.windowUpdate n) : Nat → Sid × C2S α)).map (·.2),
      C.isHalfClose f = false ∧ C.isCancel f = false ∧ C.isNewStream f = false ∧
      C.isData f = false ∧ (b = false → C.isWindowUpdate f = false) := by
  intro f hf
  simp only [List.map_map, List.mem_map, Function.comp] at hf
  obtain ⟨n, hn, rfl⟩ := hf
  refine ⟨rfl, rfl, rfl, rfl, fun h => ?_⟩
  rw [hb h] at hn; cases hn

theorem ctxEnds_block (sid : Sid) (s : CStream α) (e : CtxErr) (b : Bool) :
    CBlock s (s.ctxEnds sid e b).1 (ckinds (s.ctxEnds sid e b).2) := by
  cases h : s.ctxDone with
  | some c => rw [ClientShape.ctxEnds_done sid s e b (by simp [h])]; exact CBlock.refl s
  | none =>
    rw [ClientShape.ctxEnds_eq sid s e b h]
    exact CBlock.silent rfl rfl (fun h => h) (fun _ => rfl)

theorem resumeRead_block (sid : Sid) (fuel : Nat) (s : CStream α) :
    CBlock s (s.resumeRead sid fuel).1 (ckinds (s.resumeRead sid fuel).2.1) := by
  obtain ⟨w, q, p', r', hs⟩ := ClientShape.resumeRead_shape sid fuel s
  obtain ⟨cr, hf⟩ := ClientShape.resumeRead_frames sid fuel s
  rw [hs]
  refine CBlock.leaf rfl rfl (fun h => h) ?_ (fun h => h)
  unfold ckinds
  rw [hf]
  split
  · rename_i hc
    cases hfc : s.fc with
    | true => exact wu_kind sid true cr (fun h => by cases h)
    | false => rw [hfc] at hc; simp at hc
  · intro f hf; cases hf

theorem finish_block (sid : Sid) (s : CStream α) (err : Option SErr) (tr : MD) :
    CBlock s (s.finish sid err tr).1 (ckinds (s.finish sid err tr).2.1) := by
  cases h : s.done with
  | some c => rw [ClientShape.finish_done sid s err tr (by simp [h])]; exact CBlock.refl s
  | none =>
    rw [ClientShape.finish_eq sid s err tr h]
    dsimp only
    rw [ckinds_add, ckinds_add]
    have h0 : CBlock s (ClientShape.finPre s err tr) [] :=
      CBlock.silent rfl rfl (fun _ => rfl) (fun h => h)
    exact (h0.seq (resumeRead_block sid 3 _)).seq (ctxEnds_block sid _ _ _)

theorem cancelStream_block (sid : Sid) (s : CStream α) (err : SErr) :
    CBlock s (s.cancelStream sid err).1 (ckinds (s.cancelStream sid err).2) := by
  cases h : s.done with
  | some c => rw [ClientShape.cancelStream_done sid s err (by simp [h])]; exact CBlock.refl s
  | none =>
    obtain ⟨w, q, r', c, ps, hs, h1, h2, -⟩ := ClientShape.cancelStream_shape sid s err h
    have hf := ClientShape.cancelStream_frames sid s err h
    have hk : ckinds (s.cancelStream sid err).2 = [C2S.cancel] := by simp [ckinds, hf]
    rw [hk, hs]
    refine ⟨rfl, rfl, ?_, fun f hf => ?_, fun hp => ⟨fun f hf => ?_, ?_⟩⟩
    · rw [show cnt C.isCancel [(C2S.cancel : C2S α)] = 1 from rfl, h]
      exact Nat.le_refl _
    · simp at hf; rw [hf]; exact ⟨rfl, rfl, fun _ => rfl⟩
    · simp at hf; rw [hf]; rfl
    · show ps = none
      cases hc : s.ctxDone with
      | none => exact (h1 hc).1
      | some x => rw [(h2 (by simp [hc])).1]; exact hp

theorem afterRead_block (sid : Sid) (fuel : Nat) (s : CStream α) :
    CBlock s (CStream.afterRead sid (s.resumeRead sid fuel)).1
      (ckinds (CStream.afterRead sid (s.resumeRead sid fuel)).2) := by
  rw [ClientShape.afterRead_eq]
  split
  · exact resumeRead_block sid fuel s
  · dsimp only
    rw [ckinds_add]
    exact (resumeRead_block sid fuel s).seq (cancelStream_block sid _ _)

theorem ctxCancelled_block (sid : Sid) (s : CStream α) (e : CtxErr) :
    CBlock s (s.ctxCancelled sid e).1 (ckinds (s.ctxCancelled sid e).2) := by
  cases h : s.ctxDone with
  | some c => rw [ClientShape.ctxCancelled_done sid s e (by simp [h])]; exact CBlock.refl s
  | none =>
    rw [ClientShape.ctxCancelled_eq sid s e h]
    dsimp only
    rw [ckinds_add]
    exact (ctxEnds_block sid s e _).seq (cancelStream_block sid _ _)

theorem cdframe_kind (f : DFrame α) :
    C.isHalfClose (dframeToC2S f) = false ∧ C.isCancel (dframeToC2S f) = false ∧
    C.isNewStream (dframeToC2S f) = false ∧ C.isWindowUpdate (dframeToC2S f) = false := by
  cases f <;> exact ⟨rfl, rfl, rfl, rfl⟩

theorem cpumpSend_shape (cfg : CCfg) (sid : Sid) (s : CStream α) (snd : Snd α) :
    ∃ (w : Nat) (ps : Option (Snd α)) (fs : List (DFrame α)) (dn : List (Sid × String × Res α)),
      s.pumpSend cfg sid snd =
        ({ s with win := w, psend := ps }, { frames := fs.map (fun f => (sid, dframeToC2S f)), dones := dn }) := by
  unfold CStream.pumpSend
  split
  · split
    dsimp only
    split
    · exact ⟨_, _, _, _, rfl⟩
    · split
      · exact ⟨_, _, _, _, rfl⟩
      · exact ⟨_, _, _, _, rfl⟩
  · exact ⟨s.win, _, _, _, rfl⟩

/-- the sending loop: only data frames; `fc`, `halfClosed`, `done` are kept -/
theorem cpumpSend_facts (cfg : CCfg) (sid : Sid) (s : CStream α) (snd : Snd α) :
    (s.pumpSend cfg sid snd).1.fc = s.fc ∧ (s.pumpSend cfg sid snd).1.halfClosed = s.halfClosed ∧
    (s.pumpSend cfg sid snd).1.done = s.done ∧
    ∀ f ∈ ckinds (s.pumpSend cfg sid snd).2, C.isHalfClose f = false ∧ C.isCancel f = false ∧
      C.isNewStream f = false ∧ C.isWindowUpdate f = false := by
  obtain ⟨w, ps, fs, dn, hs⟩ := cpumpSend_shape cfg sid s snd
  rw [hs]
  refine ⟨rfl, rfl, rfl, fun f hf => ?_⟩
  simp only [ckinds, List.map_map, List.mem_map, Function.comp] at hf
  obtain ⟨d, _, rfl⟩ := hf
  exact cdframe_kind d

/-- the sending loop resumed by a window update: a send is in progress -/
theorem pumpSend_block (cfg : CCfg) (sid : Sid) (s : CStream α) (snd : Snd α) (h : s.psend.isSome = true) :
    CBlock s (s.pumpSend cfg sid snd).1 (ckinds (s.pumpSend cfg sid snd).2) := by
  obtain ⟨h1, h2, h3, h4⟩ := cpumpSend_facts cfg sid s snd
  refine ⟨h1, h2, ?_, fun f hf => ⟨(h4 f hf).1, (h4 f hf).2.2.1, fun _ => (h4 f hf).2.2.2⟩, fun hp => ?_⟩
  · rw [cnt_eq_zero _ _ (fun f hf => (h4 f hf).2.1), h3]; omega
  · rw [hp] at h; cases h

theorem dataFrame_block (sid : Sid) (s : CStream α) (df : DFrame α) :
    CBlock s (ClientShape.dataFrame sid s df).1 (ckinds (ClientShape.dataFrame sid s df).2) := by
  unfold ClientShape.dataFrame
  split
  · split
    · exact CBlock.refl s
    · exact finish_block sid s _ _
    · exact (afterRead_block sid 3 _).pre rfl rfl rfl rfl
  · split
    · exact CBlock.refl s
    · split
      · exact CBlock.quiet rfl rfl rfl rfl
      · exact (afterRead_block sid 3 _).pre rfl rfl rfl rfl

theorem onFrame_block (cfg : CCfg) (sid : Sid) (s : CStream α) (f : S2C α) :
    CBlock s (s.onFrame cfg sid f).1 (ckinds (s.onFrame cfg sid f).2) := by
  cases f with
  | settings w rv => rw [ClientShape.onFrame_settings]; exact finish_block sid s _ _
  | headers md =>
    simp only [CStream.onFrame]
    split
    · exact CBlock.refl s
    · split
      · exact CBlock.quiet rfl rfl rfl rfl
      · exact CBlock.quiet rfl rfl rfl rfl
  | msg size d => rw [ClientShape.onFrame_msg]; exact dataFrame_block sid s _
  | more d => rw [ClientShape.onFrame_more]; exact dataFrame_block sid s _
  | close st tr => rw [ClientShape.onFrame_close]; exact finish_block sid s _ _
  | windowUpdate n =>
    simp only [CStream.onFrame]
    split
    · exact CBlock.refl s
    · split
      · exact CBlock.quiet rfl rfl rfl rfl
      · rename_i snd hsnd
        exact (pumpSend_block cfg sid _ snd (by rw [hsnd]; rfl)).pre rfl rfl rfl rfl
  | unset => rw [ClientShape.onFrame_unset]; exact finish_block sid s _ _

/-! ### the contract of a whole event -/

/-- exact accounting of half-close frames against the flag `halfClosed`; cancel frames only when
    the terminal result gets set; never a `new_stream` frame; window updates only with flow control -/
structure CStep (s s' : CStream α) (ks : List (C2S α)) : Prop where
  fc : s'.fc = s.fc
  hc : cnt C.isHalfClose ks + s.halfClosed.toNat = s'.halfClosed.toNat
  cancel : cnt C.isCancel ks + s.done.isSome.toNat ≤ s'.done.isSome.toNat
  noNew : ∀ f ∈ ks, C.isNewStream f = false
  noWU : s.fc = false → ∀ f ∈ ks, C.isWindowUpdate f = false

theorem CStep.refl (s : CStream α) : CStep s s [] :=
  ⟨rfl, by simp, by simp, fun f hf => (by cases hf), fun _ f hf => (by cases hf)⟩

theorem CStep.seq {s a b : CStream α} {k1 k2 : List (C2S α)} (h1 : CStep s a k1) (h2 : CStep a b k2) :
    CStep s b (k1 ++ k2) := by
  refine ⟨h2.fc.trans h1.fc, ?_, ?_, fun f hf => ?_, fun h0 f hf => ?_⟩
  · rw [cnt_append]; have := h1.hc; have := h2.hc; omega
  · rw [cnt_append]; have := h1.cancel; have := h2.cancel; omega
  · rcases List.mem_append.mp hf with h | h
    · exact h1.noNew f h
    · exact h2.noNew f h
  · rcases List.mem_append.mp hf with h | h
    · exact h1.noWU h0 f h
    · exact h2.noWU (h1.fc.trans h0) f h

theorem CBlock.toStep {s s' : CStream α} {ks : List (C2S α)} (h : CBlock s s' ks) : CStep s s' ks :=
  ⟨h.fc, by rw [cnt_eq_zero _ _ (fun f hf => (h.clean f hf).1), h.hc]; omega, h.cancel,
   fun f hf => (h.clean f hf).2.1, fun h0 f hf => (h.clean f hf).2.2 h0⟩

def CEv.isSend : CEv α → Bool
  | .call (.send _) => true
  | _ => false

def CEv.isCloseSend : CEv α → Bool
  | .call .closeSend => true
  | _ => false

/-- what an event guarantees: the accounting `CStep`; a half-close frame comes only from a
    `CloseSend` call; data frames come only from a `SendMsg` call or from a send in progress -/
structure CEvFacts (s s' : CStream α) (ks : List (C2S α)) (e : CEv α) : Prop where
  step : CStep s s' ks
  noHC : CEv.isCloseSend e = false → (∀ f ∈ ks, C.isHalfClose f = false) ∧ s'.halfClosed = s.halfClosed
  nodata : CEv.isSend e = false → s.psend = none → (∀ f ∈ ks, C.isData f = false) ∧ s'.psend = none

theorem CBlock.facts {s s' : CStream α} {ks : List (C2S α)} (h : CBlock s s' ks) (e : CEv α) :
    CEvFacts s s' ks e :=
  ⟨h.toStep, fun _ => ⟨fun f hf => (h.clean f hf).1, h.hc⟩, fun _ hp => h.nodata hp⟩

theorem onCall_facts (cfg : CCfg) (sid : Sid) (s : CStream α) (c : CCall α) :
    CEvFacts s (s.onCall cfg sid c).1 (ckinds (s.onCall cfg sid c).2) (.call c) := by
  cases c with
  | send m =>
    simp only [CStream.onCall]
    split
    · exact (CBlock.refl s).facts _
    · obtain ⟨h1, h2, h3, h4⟩ := cpumpSend_facts cfg sid ({ s with numSent := s.numSent + 1 }) (Snd.start m)
      refine ⟨⟨h1, ?_, ?_, fun f hf => (h4 f hf).2.2.1, fun _ f hf => (h4 f hf).2.2.2⟩,
        fun _ => ⟨fun f hf => (h4 f hf).1, h2⟩, fun h => (by cases h)⟩
      · rw [cnt_eq_zero _ _ (fun f hf => (h4 f hf).1), h2]; simp
      · rw [cnt_eq_zero _ _ (fun f hf => (h4 f hf).2.1), h3]; simp
  | closeSend =>
    simp only [CStream.onCall]
    split
    · exact (CBlock.refl s).facts _
    · split
      · exact (CBlock.refl s).facts _
      · rename_i _ hh
        have hh' : s.halfClosed = false := by simpa using hh
        show CEvFacts s _ [C2S.halfClose] _
        refine ⟨⟨rfl, ?_, ?_, fun f hf => ?_, fun _ f hf => ?_⟩, fun h => (by cases h),
          fun _ hp => ⟨fun f hf => ?_, hp⟩⟩
        · rw [hh']; rfl
        · rw [show cnt C.isCancel [(C2S.halfClose : C2S α)] = 0 from rfl]
          exact Nat.le_of_eq (Nat.zero_add _)
        · simp at hf; rw [hf]; rfl
        · simp at hf; rw [hf]; rfl
        · simp at hf; rw [hf]; rfl
  | recv =>
    simp only [CStream.onCall]
    split
    · exact (CBlock.refl s).facts _
    · refine CBlock.facts ?_ _
      exact (afterRead_block sid 3 _).pre rfl rfl rfl rfl
  | header =>
    simp only [CStream.onCall]
    split
    · exact (CBlock.refl s).facts _
    · split
      · exact (CBlock.refl s).facts _
      · refine CBlock.facts ?_ _
        exact CBlock.quiet rfl rfl rfl rfl
  | trailer => exact (CBlock.refl s).facts _
  | cancel => exact (ctxCancelled_block sid s _).facts _

theorem stepEv_facts (cfg : CCfg) (sid : Sid) (s : CStream α) (e : CEv α) :
    CEvFacts s (s.stepEv cfg sid e).1 (ckinds (s.stepEv cfg sid e).2) e := by
  cases e with
  | frame f => exact (onFrame_block cfg sid s f).facts _
  | call c => exact onCall_facts cfg sid s c
  | ctx c => exact (ctxCancelled_block sid s c).facts _

theorem cframes_cons (o : COut α) (os : List (COut α)) : cframes (o :: os) = ckinds o ++ cframes os := by
  simp [cframes, ckinds]

theorem crunEv_cons (cfg : CCfg) (sid : Sid) (s : CStream α) (e : CEv α) (es : List (CEv α)) :
    CStream.runEv cfg sid s (e :: es) =
      ((CStream.runEv cfg sid (s.stepEv cfg sid e).1 es).1,
       (s.stepEv cfg sid e).2 :: (CStream.runEv cfg sid (s.stepEv cfg sid e).1 es).2) := rfl

theorem crunEv_step (cfg : CCfg) (sid : Sid) (evs : List (CEv α)) : ∀ (s : CStream α),
    CStep s (CStream.runEv cfg sid s evs).1 (cframes (CStream.runEv cfg sid s evs).2) := by
  induction evs with
  | nil => intro s; exact CStep.refl s
  | cons e es ih =>
    intro s
    rw [crunEv_cons, cframes_cons]
    exact (stepEv_facts cfg sid s e).step.seq (ih _)

/-! ### C1, C2, C4 -/

/-- **C1a**: at most one half-close frame (any initial state, any events) -/
theorem C1_at_most_one_halfClose (cfg : CCfg) (sid : Sid) (s0 : CStream α) (evs : List (CEv α)) :
    ((cframes (CStream.runEv cfg sid s0 evs).2).filter C.isHalfClose).length ≤ 1 := by
  have h := (crunEv_step cfg sid evs s0).hc
  have := toNat_le_one (CStream.runEv cfg sid s0 evs).1.halfClosed
  rw [cnt_def] at h
  omega

/-- C1a, exact form: from a stream that is not half-closed the number of half-close frames is the
    final `halfClosed` flag -/
theorem C1_halfClose_iff_flag (cfg : CCfg) (sid : Sid) (s0 : CStream α) (h0 : s0.halfClosed = false)
    (evs : List (CEv α)) :
    ((cframes (CStream.runEv cfg sid s0 evs).2).filter C.isHalfClose).length =
      (CStream.runEv cfg sid s0 evs).1.halfClosed.toNat := by
  have h := (crunEv_step cfg sid evs s0).hc
  rw [cnt_def, h0] at h
  simpa using h

/-- **C1b**: at most one cancel frame (any initial state, any events); none at all unless the
    stream's terminal result gets set during the run -/
theorem C1_at_most_one_cancel (cfg : CCfg) (sid : Sid) (s0 : CStream α) (evs : List (CEv α)) :
    ((cframes (CStream.runEv cfg sid s0 evs).2).filter C.isCancel).length ≤ 1 ∧
    (s0.done.isSome = true → ((cframes (CStream.runEv cfg sid s0 evs).2).filter C.isCancel).length = 0) := by
  have h := (crunEv_step cfg sid evs s0).cancel
  have := toNat_le_one (CStream.runEv cfg sid s0 evs).1.done.isSome
  rw [cnt_def] at h
  refine ⟨by omega, fun hd => ?_⟩
  rw [hd] at h
  simp only [Bool.toNat_true] at h
  omega

/-- **C2**: stream-level operations never emit a `new_stream` frame -/
theorem C2_no_newStream (cfg : CCfg) (sid : Sid) (s0 : CStream α) (evs : List (CEv α)) :
    (cframes (CStream.runEv cfg sid s0 evs).2).all (fun f => !C.isNewStream f) = true := by
  rw [List.all_eq_true]
  intro f hf
  rw [(crunEv_step cfg sid evs s0).noNew f hf]; rfl

/-- **C4**: a client stream without flow control (revision zero) never emits a window update -/
theorem C4_no_window_update (cfg : CCfg) (sid : Sid) (s0 : CStream α) (h0 : s0.fc = false)
    (evs : List (CEv α)) :
    (cframes (CStream.runEv cfg sid s0 evs).2).all (fun f => !C.isWindowUpdate f) = true := by
  rw [List.all_eq_true]
  intro f hf
  rw [(crunEv_step cfg sid evs s0).noWU h0 f hf]; rfl

/-! ### C3: no request data after the half-close -/

/-- "no data frame after a half-close frame": `b` = a half-close frame came before this list -/
def noDataAfterHC : Bool → List (C2S α) → Bool
  | _, [] => true
  | b, f :: fs => !(b && C.isData f) && noDataAfterHC (b || C.isHalfClose f) fs

theorem noDataAfterHC_append : ∀ (b : Bool) (l1 l2 : List (C2S α)),
    noDataAfterHC b (l1 ++ l2) = (noDataAfterHC b l1 && noDataAfterHC (b || l1.any C.isHalfClose) l2)
  | b, [], l2 => by simp [noDataAfterHC]
  | b, f :: fs, l2 => by
    simp only [List.cons_append, noDataAfterHC, noDataAfterHC_append _ fs l2, List.any_cons, Bool.and_assoc,
      Bool.or_assoc]

theorem noDataAfterHC_nodata : ∀ (b : Bool) (l : List (C2S α)), (∀ f ∈ l, C.isData f = false) →
    noDataAfterHC b l = true
  | _, [], _ => rfl
  | b, f :: fs, h => by
    simp only [noDataAfterHC, h f (List.mem_cons_self ..), Bool.and_false, Bool.not_false, Bool.true_and]
    exact noDataAfterHC_nodata _ fs (fun g hg => h g (List.mem_cons_of_mem _ hg))

theorem noDataAfterHC_noHC : ∀ (l : List (C2S α)), (∀ f ∈ l, C.isHalfClose f = false) →
    noDataAfterHC false l = true
  | [], _ => rfl
  | f :: fs, h => by
    simp only [noDataAfterHC, h f (List.mem_cons_self ..), Bool.false_and, Bool.not_false, Bool.true_and,
      Bool.or_false]
    exact noDataAfterHC_noHC fs (fun g hg => h g (List.mem_cons_of_mem _ hg))

theorem noDataAfterHC_true : ∀ (l : List (C2S α)), noDataAfterHC true l = true →
    ∀ g ∈ l, C.isData g = false
  | [], _, g, hg => by cases hg
  | f :: fs, h, g, hg => by
    simp only [noDataAfterHC, Bool.true_and, Bool.true_or, Bool.and_eq_true, Bool.not_eq_true'] at h
    rcases List.mem_cons.mp hg with rfl | hg
    · exact h.1
    · exact noDataAfterHC_true fs h.2 g hg

/-- the meaning of `noDataAfterHC` -/
theorem noDataAfterHC_spec : ∀ (b : Bool) (fs : List (C2S α)), noDataAfterHC b fs = true →
    ∀ pre f post, fs = pre ++ f :: post → C.isHalfClose f = true → ∀ g ∈ post, C.isData g = false
  | b, [], _, pre, f, post, h, _ => by cases pre <;> cases h
  | b, x :: xs, hx, pre, f, post, h, hf => by
    simp only [noDataAfterHC, Bool.and_eq_true] at hx
    cases pre with
    | nil =>
      simp only [List.nil_append, List.cons.injEq] at h
      obtain ⟨rfl, rfl⟩ := h
      have h2 := hx.2
      rw [hf, Bool.or_true] at h2
      exact noDataAfterHC_true _ h2
    | cons p pre =>
      simp only [List.cons_append, List.cons.injEq] at h
      obtain ⟨rfl, rfl⟩ := h
      exact noDataAfterHC_spec _ _ hx.2 pre f post rfl hf

/-- the flag after an event is the flag before or'ed with "a half-close frame was emitted" -/
theorem hc_after {b b' : Bool} {ks : List (C2S α)} (h : cnt C.isHalfClose ks + b.toNat = b'.toNat) :
    b' = (b || ks.any C.isHalfClose) := by
  have hb' := toNat_le_one b'
  cases b with
  | true =>
    cases b' with
    | true => rfl
    | false => simp at h
  | false =>
    cases ha : ks.any C.isHalfClose with
    | true =>
      have := cnt_pos_of_any _ _ ha
      cases b' with
      | true => rfl
      | false => simp at h; omega
    | false =>
      cases b' with
      | false => rfl
      | true =>
        have : 0 < cnt C.isHalfClose ks := by simp at h; omega
        have := any_of_cnt_pos _ _ this
        rw [ha] at this; cases this

/-- **The Legal contract of the caller for the end of the request stream** (grpc-go `ClientStream`:
    "it is not safe to call `SendMsg` after `CloseSend`", and one sender goroutine: `CloseSend` is
    not called while a `SendMsg` is still blocked): threading the state like `legalSends`,
    * no `.call (.send _)` after a `.call .closeSend` (`closing` = a `CloseSend` call was made);
    * `.call .closeSend` only when no send is in progress (`psend = none`). -/
def legalCloseSend (cfg : CCfg) (sid : Sid) : CStream α → Bool → List (CEv α) → Bool
  | _, _, [] => true
  | s, closing, e :: es =>
    let ok := match e with
      | .call (.send _) => !closing
      | .call .closeSend => s.psend.isNone
      | _ => true
    ok && legalCloseSend cfg sid (s.stepEv cfg sid e).1 (closing || CEv.isCloseSend e) es

theorem legalCloseSend_cons (cfg : CCfg) (sid : Sid) (s : CStream α) (closing : Bool) (e : CEv α) (es : List (CEv α)) :
    legalCloseSend cfg sid s closing (e :: es) =
      ((match e with
        | .call (.send _) => !closing
        | .call .closeSend => s.psend.isNone
        | _ => true) &&
       legalCloseSend cfg sid (s.stepEv cfg sid e).1 (closing || CEv.isCloseSend e) es) := rfl

/-- the invariant behind C3: once `CloseSend` has been called no send is in progress (and none
    will start), and the half-close frame is only emitted by a `CloseSend` call -/
theorem C3_aux (cfg : CCfg) (sid : Sid) (evs : List (CEv α)) : ∀ (s : CStream α) (closing : Bool),
    (closing = true → s.psend = none) → (s.halfClosed = true → closing = true) →
    legalCloseSend cfg sid s closing evs = true →
    noDataAfterHC s.halfClosed (cframes (CStream.runEv cfg sid s evs).2) = true := by
  induction evs with
  | nil => intro s closing _ _ _; rfl
  | cons e es ih =>
    intro s closing h1 h2 hl
    rw [legalCloseSend_cons, Bool.and_eq_true] at hl
    obtain ⟨hok, hrest⟩ := hl
    have hf := stepEv_facts cfg sid s e
    rw [crunEv_cons, cframes_cons, noDataAfterHC_append, ← hc_after hf.step.hc]
    -- the three kinds of events
    cases hs : CEv.isSend e with
    | true =>
      -- a `SendMsg`: no `CloseSend` so far, so no half-close frame so far, and none now
      have hcl : closing = false := by
        cases e with
        | call c => cases c <;> simp_all [CEv.isSend]
        | frame f => cases hs
        | ctx c => cases hs
      have hnc : CEv.isCloseSend e = false := by
        cases e with
        | call c => cases c <;> simp_all [CEv.isSend, CEv.isCloseSend]
        | frame f => rfl
        | ctx c => rfl
      have hhc : s.halfClosed = false := by
        cases hh : s.halfClosed with
        | false => rfl
        | true => rw [h2 hh] at hcl; cases hcl
      have hn := hf.noHC hnc
      rw [hhc, noDataAfterHC_noHC _ hn.1, Bool.true_and]
      refine ih _ _ (fun h => ?_) (fun h => ?_) hrest
      · rw [hcl, hnc] at h; cases h
      · rw [hn.2, hhc] at h; cases h
    | false =>
      cases hc : CEv.isCloseSend e with
      | true =>
        -- a `CloseSend`: no send is in progress
        have hps : s.psend = none := by
          cases e with
          | call c =>
            cases c <;> simp_all [CEv.isCloseSend]
          | frame f => cases hc
          | ctx c => cases hc
        have hn := hf.nodata hs hps
        rw [noDataAfterHC_nodata _ _ hn.1, Bool.true_and]
        rw [hc, Bool.or_true] at hrest
        exact ih _ true (fun _ => hn.2) (fun _ => rfl) hrest
      | false =>
        -- anything else
        have hn := hf.noHC hc
        rw [hc, Bool.or_false] at hrest
        cases hcl : closing with
        | true =>
          have hd := hf.nodata hs (h1 hcl)
          rw [noDataAfterHC_nodata _ _ hd.1, Bool.true_and]
          rw [hcl] at hrest
          exact ih _ _ (fun _ => hd.2) (fun _ => rfl) hrest
        | false =>
          have hhc : s.halfClosed = false := by
            cases hh : s.halfClosed with
            | false => rfl
            | true => rw [h2 hh] at hcl; cases hcl
          rw [hhc, noDataAfterHC_noHC _ hn.1, Bool.true_and]
          rw [hcl] at hrest
          refine ih _ _ (fun h => by cases h) (fun h => ?_) hrest
          rw [hn.2, hhc] at h; cases h

/-- a fresh client stream, as `Cli.newStream` builds it (see `newStream_fresh`) -/
def CFresh (s : CStream α) : Prop :=
  s.halfClosed = false ∧ s.done = none ∧ s.psend = none ∧ s.numSent = 0

/-- **C3**: no request data after the half-close.  Under the caller's contract `legalCloseSend`
    (no `SendMsg` after `CloseSend`, `CloseSend` only when no send is in progress), if the emitted
    frames are `pre ++ f :: post` with `f` the half-close frame, no frame of `post` is a data frame.
    Only `halfClosed = false` is needed of the initial state, and `CStream.legalSends` is not
    needed at all for this clause. -/
theorem C3_no_data_after_halfClose (cfg : CCfg) (sid : Sid) (s0 : CStream α) (h0 : s0.halfClosed = false)
    (evs : List (CEv α)) (hl : legalCloseSend cfg sid s0 false evs = true) :
    ∀ pre f post, cframes (CStream.runEv cfg sid s0 evs).2 = pre ++ f :: post → C.isHalfClose f = true →
      ∀ g ∈ post, C.isData g = false := by
  have h := C3_aux cfg sid evs s0 false (fun h => by cases h) (fun h => by rw [h0] at h; cases h) hl
  exact noDataAfterHC_spec _ _ h

/-- C3 in the form asked for: fresh stream, with the (unused) hypothesis `CStream.legalSends` -/
theorem C3_no_data_after_halfClose_legal (cfg : CCfg) (sid : Sid) (s0 : CStream α) (h0 : CFresh s0)
    (evs : List (CEv α)) (_hs : CStream.legalSends cfg sid s0 false evs = true)
    (hl : legalCloseSend cfg sid s0 false evs = true) :
    ∀ pre f post, cframes (CStream.runEv cfg sid s0 evs).2 = pre ++ f :: post → C.isHalfClose f = true →
      ∀ g ∈ post, C.isData g = false :=
  C3_no_data_after_halfClose cfg sid s0 h0.1 evs hl

/-- the stream object `Cli.newStream` appends is fresh (before the immediate cancellation, if the
    caller's context is already done) -/
theorem newStream_fresh (cs ss fc : Bool) (W win : Nat) (dl : Option Nat) :
    CFresh ({ cs := cs, ss := ss, fc := fc, rcv := RcvQ.init W, win := win, deadline := dl } : CStream α) :=
  ⟨rfl, rfl, rfl, rfl⟩

/-! ## Server, continued

### S5, the unary reply path: `SendMsg(resp)` then `finishStream`, possibly blocked on the window -/

/-- the list ends with a close frame -/
def EndsWithClose (ks : List (S2C α)) : Prop := ∃ hd c, ks = hd ++ [c] ∧ S.isClose c = true

theorem EndsWithClose.prepend {l2 : List (S2C α)} (l1 : List (S2C α)) (h : EndsWithClose l2) :
    EndsWithClose (l1 ++ l2) := by
  obtain ⟨hd, c, rfl, hc⟩ := h
  exact ⟨l1 ++ hd, c, by rw [List.append_assoc], hc⟩

theorem cnt_cons_true {β : Type} (p : β → Bool) (a : β) (l : List β) (h : p a = true) :
    cnt p (a :: l) = 1 + cnt p l := by
  rw [cnt_cons, h]; rfl

/-- with at most one close frame, "ends with a close frame" means nothing follows the close frame -/
theorem EndsWithClose.nothing_after {fs : List (S2C α)} (h : EndsWithClose fs) (h1 : cnt S.isClose fs ≤ 1) :
    ∀ a f b, fs = a ++ f :: b → S.isClose f = true → b = [] := by
  intro a f b hfs hf
  obtain ⟨hd, c, rfl, hc⟩ := h
  rcases List.eq_nil_or_concat b with hb | ⟨b', z, hb⟩
  · exact hb
  · exfalso
    rw [List.concat_eq_append] at hb
    subst hb
    have h2 : hd ++ [c] = (a ++ f :: b') ++ [z] := by rw [hfs]; simp
    obtain ⟨h3, h4⟩ := List.append_inj' h2 rfl
    rw [h3, cnt_append, cnt_append, cnt_cons_true _ _ _ hf, cnt_cons_true _ _ _ hc] at h1
    omega

theorem finishCore_ends (sid : Sid) (s : SStream α) (err : Option SErr) (hc : s.closed = false) :
    EndsWithClose (kinds (s.finishCore sid err).2) := by
  have h1 : kinds (s.finishCore sid err).2 =
      (if s.sentHeaders then [] else [S2C.headers s.headers]) ++ [S2C.close (SErr.wireStatus err) s.trailers] := by
    simp only [SStream.finishCore, SStream.halfClose, kinds]
    split <;> cases hh : s.sentHeaders <;> simp [hc]
  exact ⟨_, _, h1, rfl⟩

/-- what `finishStream` emits is what its `finishCore` emits (the cancellation that follows emits nothing) -/
theorem finish_kinds (sid : Sid) (s : SStream α) (err : Option SErr) (b : Bool) :
    ∃ err', kinds (s.finish sid err b).2 = kinds (s.finishCore sid err').2 := by
  unfold SStream.finish
  extract_lets racing err'
  split; rename_i s1 o1 h1
  split; rename_i s2 o2 h2
  have hcl : s1.closed = true := by rw [fst_eq h1]; exact (ServerShape.finishCore_closed ..).1
  have ho2 : kinds o2 = [] := by
    apply kinds_of_frames_nil
    rw [snd_eq h2]
    exact cancelCtx_frames_closed _ _ _ hcl
  refine ⟨err', ?_⟩
  show kinds (o2.add o1) = _
  rw [kinds_add, ho2, List.nil_append, snd_eq h1]

theorem finish_ends (sid : Sid) (s : SStream α) (err : Option SErr) (b : Bool) (hc : s.closed = false) :
    EndsWithClose (kinds (s.finish sid err b).2) := by
  obtain ⟨err', h⟩ := finish_kinds sid s err b
  rw [h]
  exact finishCore_ends sid s err' hc

/-- a unary reply is blocked on the flow-control window: `finishStream` will follow the send -/
def ReplyPending (s : SStream α) : Prop :=
  s.psend.isSome = true ∧ s.finishAfterSend = true ∧ s.pread = none ∧ s.ctxDone = none ∧ s.closed = false

theorem ReplyPending.of_fields {s s' : SStream α} (h : ReplyPending s) (h1 : s'.psend = s.psend)
    (h2 : s'.finishAfterSend = s.finishAfterSend) (h3 : s'.pread = s.pread) (h4 : s'.ctxDone = s.ctxDone)
    (h5 : s'.closed = s.closed) : ReplyPending s' :=
  ⟨by rw [h1]; exact h.1, h2.trans h.2.1, h3.trans h.2.2.1, h4.trans h.2.2.2.1, h5.trans h.2.2.2.2⟩

/-- the context ends while the unary reply is blocked: the handler's `finishStream(ctx error)` -/
theorem cancelCtx_reply (sid : Sid) (s : SStream α) (e : CtxErr) (hps : s.psend.isSome = true)
    (hf : s.finishAfterSend = true) (hpr : s.pread = none) (hctx : s.ctxDone = none) :
    Settled (s.cancelCtx sid e).1 ∧ (s.closed = false → EndsWithClose (kinds (s.cancelCtx sid e).2)) := by
  obtain ⟨snd, hsnd⟩ := Option.isSome_iff_exists.mp hps
  unfold SStream.cancelCtx
  rw [if_neg (by rw [hctx]; simp)]
  extract_lets rcv s1 s2'
  split
  rename_i s2 o1 h1
  split
  rename_i s3 o2 h2
  have hs1 : s1.psend = some snd := hsnd
  have hf1 : s1.finishAfterSend = true := hf
  rw [hs1] at h1
  dsimp only at h1
  rw [if_pos hf1] at h1
  have hk := finishCore_keeps sid ({ s2' with finishAfterSend := false, hstatus := .returned } : SStream α)
    (some (.ctx e))
  have hcl := (ServerShape.finishCore_closed sid
    ({ s2' with finishAfterSend := false, hstatus := .returned } : SStream α) (some (.ctx e))).1
  rw [h1] at hk hcl
  dsimp only at hk hcl
  have hpr2 : s2.pread = none := hk.2.1.trans hpr
  rw [hpr2] at h2
  dsimp only at h2
  have h3 : s3 = s2 := (fst_eq h2)
  have ho2 : o2 = {} := (snd_eq h2)
  refine ⟨?_, fun hc => ?_⟩
  · show Settled s3
    rw [h3]
    exact ⟨hcl, hk.1, by rw [hk.2.2.1]; rfl, hpr2⟩
  · show EndsWithClose (kinds ((Out.add _ o1).add o2))
    rw [kinds_add, kinds_add, ho2, snd_eq h1]
    have := finishCore_ends sid ({ s2' with finishAfterSend := false, hstatus := .returned } : SStream α)
      (some (.ctx e)) hc
    simpa [kinds] using this

/-- `finishStream` from the receive loop (cancel frame, protocol error, window exceeded) while the
    unary reply is blocked -/
theorem finish_reply (sid : Sid) (s : SStream α) (err : Option SErr) (b : Bool) (h : ReplyPending s) :
    Settled (s.finish sid err b).1 ∧ EndsWithClose (kinds (s.finish sid err b).2) := by
  refine ⟨?_, finish_ends sid s err b h.2.2.2.2⟩
  unfold SStream.finish
  extract_lets racing err'
  split; rename_i s1 o1 h1
  split; rename_i s2 o2 h2
  have hk := finishCore_keeps sid s err'
  rw [← fst_eq h1] at hk
  have := (cancelCtx_reply sid s1 .canceled (by rw [hk.1]; exact h.1) (hk.2.2.2.2.1.trans h.2.1)
    (hk.2.1.trans h.2.2.1) (hk.2.2.1.trans h.2.2.2.1)).1
  rw [← fst_eq h2] at this
  exact this

theorem pumpSend_shape' (cfg : SCfg) (sid : Sid) (s : SStream α) (snd : Snd α) :
    ∃ (w : Nat) (ps : Option (Snd α)), (s.pumpSend cfg sid snd).1 = { s with win := w, psend := ps } ∧
      (ps.isSome = true → s.ctxDone = none) := by
  unfold SStream.pumpSend
  split
  · split
    dsimp only
    split
    · exact ⟨_, _, rfl, fun h => by cases h⟩
    · split
      · exact ⟨_, _, rfl, fun h => by cases h⟩
      · rename_i hc
        exact ⟨_, _, rfl, fun _ => hc⟩
  · exact ⟨s.win, _, rfl, fun h => by cases h⟩

/-- the send of the unary reply advances (first call, or a window update): either the reply is
    still blocked, or it completed and `finishStream` closed the stream — then the close frame is
    the last frame of the step -/
theorem reply_advance (cfg : SCfg) (sid : Sid) (s : SStream α) (snd : Snd α) (o : Out α)
    (hf : s.finishAfterSend = true) (hpr : s.pread = none) (hc : s.closed = false) :
    ReplyPending ((s.pumpSend cfg sid snd).1.afterSend sid o).1 ∨
    (Settled ((s.pumpSend cfg sid snd).1.afterSend sid o).1 ∧
      EndsWithClose (kinds ((s.pumpSend cfg sid snd).1.afterSend sid o).2)) := by
  obtain ⟨w, ps, hs, hctx⟩ := pumpSend_shape' cfg sid s snd
  rw [hs]
  unfold SStream.afterSend
  cases hps : ps with
  | some x =>
    left
    split
    · rename_i h
      simp at h
    · exact ⟨rfl, hf, hpr, hctx (by rw [hps]; rfl), hc⟩
  | none =>
    right
    split
    · extract_lets err s1
      split; rename_i s2 o2 h2
      show Settled s2 ∧ EndsWithClose (kinds (Out.add _ o2))
      rw [fst_eq h2, snd_eq h2, kinds_add]
      exact ⟨finish_settles sid s1 err false rfl hpr, (finish_ends sid s1 err false hc).prepend _⟩
    · rename_i h
      simp [hf] at h

/-- **S5, reply path, step form**: while the unary reply is blocked, every frame of the peer and
    every context end either leaves it blocked or finishes the stream — with the close frame as the
    last frame of that step, and a settled stream afterwards -/
theorem reply_pending_step (cfg : SCfg) (sid : Sid) (s : SStream α) (ev : SEv α) (h : ReplyPending s)
    (hev : SEv.isCall ev = false) :
    ReplyPending (s.stepEv cfg sid ev).1 ∨
    (Settled (s.stepEv cfg sid ev).1 ∧ EndsWithClose (kinds (s.stepEv cfg sid ev).2)) := by
  cases ev with
  | call c => cases hev
  | ctx e =>
    right
    have := cancelCtx_reply sid s e h.1 h.2.1 h.2.2.1 h.2.2.2.1
    exact ⟨this.1, this.2 h.2.2.2.2⟩
  | frame f =>
    show ReplyPending (s.onFrame cfg sid f).1 ∨ (Settled (s.onFrame cfg sid f).1 ∧ EndsWithClose (kinds (s.onFrame cfg sid f).2))
    unfold SStream.onFrame
    split
    · split
      · exact Or.inl h
      · rename_i hh
        have : s.halfClose .eof = { s with halfClosed := some .eof, rcv := s.rcv.close } := by
          simp [SStream.halfClose, hh]
        rw [this, readAndSettle_none _ _ (by exact h.2.2.1)]
        exact Or.inl (h.of_fields rfl rfl rfl rfl rfl)
    · exact Or.inr (finish_reply sid s _ _ h)
    · split
      · exact Or.inl h
      · extract_lets s1
        split
        · exact Or.inl (h.of_fields rfl rfl rfl rfl rfl)
        · rename_i snd hsnd
          split; rename_i s2 o2 h2
          rw [fst_eq h2]
          exact reply_advance cfg sid s1 snd o2 h.2.1 h.2.2.1 h.2.2.2.2
    · exact Or.inr (finish_reply sid s _ _ h)
    · exact Or.inl h
    · extract_lets df
      split
      · split
        · exact Or.inl h
        · exact Or.inr (finish_reply sid s _ _ h)
        · rw [readAndSettle_none _ _ (by exact h.2.2.1)]
          exact Or.inl (h.of_fields rfl rfl rfl rfl rfl)
      · split
        · exact Or.inl h
        · split
          · exact Or.inl (h.of_fields rfl rfl rfl rfl rfl)
          · rw [readAndSettle_none _ _ (by exact h.2.2.1)]
            exact Or.inl (h.of_fields rfl rfl rfl rfl rfl)

/-- the frames of a tail of the run: no close frame at all, or the close frame is the last frame -/
def TailOK (ks : List (S2C α)) : Prop := (∀ f ∈ ks, S.isClose f = false) ∨ EndsWithClose ks

theorem TailOK.prepend {l1 l2 : List (S2C α)} (h1 : ∀ f ∈ l1, S.isClose f = false) (h2 : TailOK l2) :
    TailOK (l1 ++ l2) := by
  rcases h2 with h | h
  · left
    intro f hf
    rcases List.mem_append.mp hf with h' | h'
    · exact h1 f h'
    · exact h f h'
  · exact Or.inr (h.prepend l1)

/-- a step that leaves the stream open emits no close frame -/
theorem no_close_of_open {s s' : SStream α} {ks : List (S2C α)} (h : SStep s s' ks) (hc : s'.closed = false) :
    ∀ f ∈ ks, S.isClose f = false := by
  have h1 := h.cls
  rw [hc] at h1
  have h0 : cnt S.isClose ks = 0 := by simp at h1; omega
  intro f hf
  cases hcl : S.isClose f with
  | false => rfl
  | true =>
    have := cnt_pos_of_any S.isClose ks (List.any_eq_true.mpr ⟨f, hf, hcl⟩)
    omega

theorem reply_pending_run (cfg : SCfg) (sid : Sid) (evs : List (SEv α)) : ∀ (s : SStream α), ReplyPending s →
    (∀ ev ∈ evs, SEv.isCall ev = false) → TailOK (sframes (SStream.runEv cfg sid s evs).2) := by
  induction evs with
  | nil => intro s _ _; exact Or.inl (fun f hf => by cases hf)
  | cons e es ih =>
    intro s h hev
    rw [runEv_cons, sframes_cons]
    have hes : ∀ ev ∈ es, SEv.isCall ev = false := fun ev hm => hev ev (List.mem_cons_of_mem _ hm)
    rcases reply_pending_step cfg sid s e h (hev e (List.mem_cons_self ..)) with h1 | ⟨h1, h2⟩
    · exact TailOK.prepend (no_close_of_open (stepEv_step cfg sid s e) h1.2.2.2.2) (ih _ h1 hes)
    · rw [(S5_settled_run cfg sid es _ h1 hes).1, List.append_nil]
      exact Or.inr h2

/-- the unary handler returns a response while none of its calls is blocked and the stream is not
    closed: either the reply completes at once and the stream is settled, with the close frame last,
    or the reply blocks on the window -/
theorem reply_step (cfg : SCfg) (sid : Sid) (s : SStream α) (m : List α)
    (hc : s.closed = false) (hpr : s.pread = none) :
    ReplyPending (s.onCall cfg sid (.reply m)).1 ∨
    (Settled (s.onCall cfg sid (.reply m)).1 ∧ EndsWithClose (kinds (s.onCall cfg sid (.reply m)).2)) := by
  generalize hcall : HCall.reply m = c
  unfold SStream.onCall
  split <;> cases hcall
  split; rename_i s1 hdr h1
  have hs1 : s1.closed = s.closed ∧ s1.pread = s.pread := by
    rw [fst_eq h1]
    split <;> exact ⟨rfl, rfl⟩
  split; rename_i s2 o2 h2
  split; rename_i s3 o3 h3
  show ReplyPending s3 ∨ (Settled s3 ∧ EndsWithClose (kinds o3))
  rw [fst_eq h3, snd_eq h3, fst_eq h2]
  exact reply_advance cfg sid _ _ _ rfl (hs1.2.trans hpr) (hs1.1.trans hc)

theorem reply_tail (cfg : SCfg) (sid : Sid) (s : SStream α) (m : List α) (post : List (SEv α))
    (hc : s.closed = false) (hpr : s.pread = none) (hpost : ∀ ev ∈ post, SEv.isCall ev = false) :
    TailOK (sframes (SStream.runEv cfg sid s (.call (.reply m) :: post)).2) := by
  rw [runEv_cons, sframes_cons]
  rcases reply_step cfg sid s m hc hpr with h1 | ⟨h1, h2⟩
  · exact TailOK.prepend (no_close_of_open (stepEv_step cfg sid s (.call (.reply m))) h1.2.2.2.2)
      (reply_pending_run cfg sid post _ h1 hpost)
  · show TailOK (kinds (s.onCall cfg sid (.reply m)).2 ++ sframes (SStream.runEv cfg sid (s.onCall cfg sid (.reply m)).1 post).2)
    rw [(S5_settled_run cfg sid post _ h1 hpost).1, List.append_nil]
    exact Or.inr h2

theorem nothing_after_close_of_tail (cfg : SCfg) (sid : Sid) (s0 : SStream α) (pre tail : List (SEv α))
    (hc : (SStream.runEv cfg sid s0 pre).1.closed = false)
    (ht : TailOK (sframes (SStream.runEv cfg sid (SStream.runEv cfg sid s0 pre).1 tail).2)) :
    ∀ a f b, sframes (SStream.runEv cfg sid s0 (pre ++ tail)).2 = a ++ f :: b → S.isClose f = true → b = [] := by
  have hfs : sframes (SStream.runEv cfg sid s0 (pre ++ tail)).2 =
      sframes (SStream.runEv cfg sid s0 pre).2 ++
        sframes (SStream.runEv cfg sid (SStream.runEv cfg sid s0 pre).1 tail).2 := by
    rw [runEv_append, sframes_append]
  have hpre := no_close_of_open (runEv_step cfg sid pre s0) hc
  have hall := TailOK.prepend hpre ht
  rw [← hfs] at hall
  have h1 : cnt S.isClose (sframes (SStream.runEv cfg sid s0 (pre ++ tail)).2) ≤ 1 :=
    S2_at_most_one_close cfg sid s0 (pre ++ tail)
  rcases hall with h | h
  · intro a f b hab hf
    have : f ∈ sframes (SStream.runEv cfg sid s0 (pre ++ tail)).2 := by rw [hab]; simp
    rw [h f this] at hf; cases hf
  · exact h.nothing_after h1

/-- **S5, in the "nothing after the close frame" form**: if the handler returns on a stream that
    is not closed yet while none of its calls is blocked, and makes no call afterwards, then no frame
    at all follows the close frame in the frames the stream ever emits. -/
theorem S5_ret_nothing_after_close (cfg : SCfg) (sid : Sid) (s0 : SStream α) (pre post : List (SEv α)) (st : Status)
    (hc : (SStream.runEv cfg sid s0 pre).1.closed = false)
    (hps : (SStream.runEv cfg sid s0 pre).1.psend = none) (hpr : (SStream.runEv cfg sid s0 pre).1.pread = none)
    (hpost : ∀ ev ∈ post, SEv.isCall ev = false) :
    ∀ a f b, sframes (SStream.runEv cfg sid s0 (pre ++ .call (.ret st) :: post)).2 = a ++ f :: b →
      S.isClose f = true → b = [] := by
  have h := (S5_close_is_last cfg sid s0 pre post st hps hpr hpost).2.2 hc
  have h1 := S2_at_most_one_close cfg sid s0 (pre ++ .call (.ret st) :: post)
  exact EndsWithClose.nothing_after ⟨_, _, h, rfl⟩ h1

/-- if the stream was already closed when the handler returns (the peer cancelled, a protocol
    error, ...), the return and everything after it emit nothing at all -/
theorem S5_ret_after_close_silent (cfg : SCfg) (sid : Sid) (s0 : SStream α) (pre post : List (SEv α)) (st : Status)
    (hc : (SStream.runEv cfg sid s0 pre).1.closed = true)
    (hps : (SStream.runEv cfg sid s0 pre).1.psend = none) (hpr : (SStream.runEv cfg sid s0 pre).1.pread = none)
    (hpost : ∀ ev ∈ post, SEv.isCall ev = false) :
    sframes (SStream.runEv cfg sid s0 (pre ++ .call (.ret st) :: post)).2 = sframes (SStream.runEv cfg sid s0 pre).2 := by
  rw [(S5_close_is_last cfg sid s0 pre post st hps hpr hpost).2.1]
  have : kinds ((SStream.runEv cfg sid s0 pre).1.onCall cfg sid (.ret st)).2 = [] := by
    apply kinds_of_frames_nil
    simp only [SStream.onCall, Out.add, List.append_nil]
    exact finish_frames_closed sid _ _ _ hc
  rw [this, List.append_nil]

/-- **S5, reply path**: if the unary handler returns a response (`.call (.reply m)`) on a stream
    that is not closed yet while no read of it is blocked, and makes no call afterwards, then —
    whether the reply goes out at once or blocks on the flow-control window and is completed by
    later window updates, or is aborted by a cancel / protocol error / context end — no frame at all
    follows the close frame. -/
theorem S5_reply_nothing_after_close (cfg : SCfg) (sid : Sid) (s0 : SStream α) (pre post : List (SEv α)) (m : List α)
    (hc : (SStream.runEv cfg sid s0 pre).1.closed = false) (hpr : (SStream.runEv cfg sid s0 pre).1.pread = none)
    (hpost : ∀ ev ∈ post, SEv.isCall ev = false) :
    ∀ a f b, sframes (SStream.runEv cfg sid s0 (pre ++ .call (.reply m) :: post)).2 = a ++ f :: b →
      S.isClose f = true → b = [] :=
  nothing_after_close_of_tail cfg sid s0 pre _ hc (reply_tail cfg sid _ m post hc hpr hpost)

/-! ### S5 without assumptions on what is blocked: once the context has ended nothing stays blocked -/

/-- once the stream context has ended, no handler call is blocked (`finishStream` cancels the
    context; the context watcher releases a blocked send and a blocked read) -/
def J (s : SStream α) : Prop := s.ctxDone.isSome = true → s.psend = none ∧ s.pread = none

theorem J.of_open {s : SStream α} (h : s.ctxDone = none) : J s := fun hc => by
  rw [h] at hc; cases hc

theorem J.of_fields {s s' : SStream α} (h : J s) (h1 : s'.ctxDone = s.ctxDone) (h2 : s'.psend = s.psend)
    (h3 : s'.pread = s.pread) : J s' := fun hc => by
  rw [h1] at hc
  exact ⟨h2.trans (h hc).1, h3.trans (h hc).2⟩

theorem J.of_clear {s : SStream α} (h1 : s.psend = none) (h2 : s.pread = none) : J s := fun _ => ⟨h1, h2⟩

/-- after the context ended (now or before) nothing is blocked -/
theorem cancelCtx_clears (sid : Sid) (s : SStream α) (e : CtxErr) (h : J s) :
    (s.cancelCtx sid e).1.psend = none ∧ (s.cancelCtx sid e).1.pread = none ∧
    (s.cancelCtx sid e).1.ctxDone.isSome = true := by
  unfold SStream.cancelCtx
  split
  · rename_i hc
    exact ⟨(h hc).1, (h hc).2, hc⟩
  · extract_lets rcv s1 s2'
    split
    rename_i s2 o1 h1
    split
    rename_i s3 o2 h2
    have hs2 : s2.psend = none ∧ s2.ctxDone.isSome = true := by
      rw [fst_eq h1]
      split
      · split
        · have hk := finishCore_keeps sid ({ s2' with finishAfterSend := false, hstatus := .returned } : SStream α)
            (some (.ctx e))
          exact ⟨hk.1, by rw [hk.2.2.1]; rfl⟩
        · exact ⟨rfl, rfl⟩
      · rename_i hn
        exact ⟨hn, rfl⟩
    rw [fst_eq h2]
    split
    · extract_lets s3'
      split
      · split
        rename_i s4 o4 h4
        have hk := finishCore_keeps sid ({ s3' with hstatus := .returned } : SStream α) (some (.ctx e))
        rw [h4] at hk
        exact ⟨hk.1.trans hs2.1, hk.2.1, by rw [hk.2.2.1]; exact hs2.2⟩
      · exact ⟨hs2.1, rfl, hs2.2⟩
    · rename_i hn
      exact ⟨hs2.1, hn, hs2.2⟩

theorem cancelCtx_J (sid : Sid) (s : SStream α) (e : CtxErr) (h : J s) : J (s.cancelCtx sid e).1 :=
  J.of_clear (cancelCtx_clears sid s e h).1 (cancelCtx_clears sid s e h).2.1

theorem finishCore_J (sid : Sid) (s : SStream α) (err : Option SErr) (h : J s) : J (s.finishCore sid err).1 :=
  have hk := finishCore_keeps sid s err
  h.of_fields hk.2.2.1 hk.1 hk.2.1

/-- `finishStream` always leaves a settled stream (on streams satisfying `J`, i.e. all reachable ones) -/
theorem finish_settles_J (sid : Sid) (s : SStream α) (err : Option SErr) (b : Bool) (h : J s) :
    Settled (s.finish sid err b).1 := by
  refine ⟨(ServerShape.finish_closed sid s err b).1, ?_⟩
  unfold SStream.finish
  extract_lets racing err'
  split; rename_i s1 o1 h1
  split; rename_i s2 o2 h2
  have hJ : J s1 := by rw [fst_eq h1]; exact finishCore_J sid s err' h
  have := cancelCtx_clears sid s1 .canceled hJ
  rw [← fst_eq h2] at this
  exact ⟨this.1, this.2.2, this.2.1⟩

theorem Settled.J {s : SStream α} (h : Settled s) : J s := J.of_clear h.2.1 h.2.2.2

theorem finish_J (sid : Sid) (s : SStream α) (err : Option SErr) (b : Bool) (h : J s) :
    J (s.finish sid err b).1 := (finish_settles_J sid s err b h).J

theorem pumpSend_J (cfg : SCfg) (sid : Sid) (s : SStream α) (snd : Snd α) (h : J s) :
    J (s.pumpSend cfg sid snd).1 := by
  obtain ⟨w, ps, hs, hctx⟩ := pumpSend_shape' cfg sid s snd
  rw [hs]
  intro hc
  have hc' : s.ctxDone.isSome = true := hc
  refine ⟨?_, (h hc').2⟩
  cases hps : ps with
  | none => rfl
  | some x =>
    have := hctx (by rw [hps]; rfl)
    rw [this] at hc'; cases hc'

theorem afterSend_J (sid : Sid) (s : SStream α) (o : Out α) (h : J s) : J (s.afterSend sid o).1 := by
  unfold SStream.afterSend
  split
  · extract_lets err s1
    split; rename_i s2 o2 h2
    show J s2
    rw [fst_eq h2]
    exact finish_J sid s1 err false (h.of_fields rfl rfl rfl)
  · exact h

theorem afterDecode_J (sid : Sid) (s : SStream α) (o : Out α) (h : J s) : J (s.afterDecode sid o).1 := by
  unfold SStream.afterDecode
  split
  · split
    · exact h.of_fields rfl rfl rfl
    · extract_lets err
      split; rename_i s2 o2 h2
      show J s2
      rw [fst_eq h2]
      exact finish_J sid _ _ _ (h.of_fields rfl rfl rfl)
    · exact h
  · exact h

theorem resumeRead_J_open (sid : Sid) (mn : String) (fuel : Nat) (s : SStream α) (hc : s.ctxDone = none) :
    J (s.resumeRead sid mn fuel).1 := by
  induction fuel generalizing s with
  | zero => exact J.of_open hc
  | succ fuel ih =>
    unfold SStream.resumeRead
    split
    · exact J.of_open hc
    · split
      rename_i rwin q credits out h
      extract_lets cf rcv0 s1 opName failWith e
      have hfw : ∀ (x : SStream α) (e : SErr) (b : Bool), x.ctxDone = none → J (failWith x e b).1 := by
        intro x e b hx
        simp only [failWith]
        split
        · exact J.of_open hx
        · dsimp only
          exact finish_J sid _ _ _ (J.of_open hx)
      split
      · split
        · split
          · exact J.of_open hc
          · exact hfw _ _ _ hc
        · exact J.of_open hc
      · split
        · exact hfw _ _ _ hc
        · split
          · exact J.of_open hc
          · extract_lets s2
            split; rename_i s3 o3 h3
            rw [fst_eq h3]
            exact ih s2 hc
      · exact hfw _ _ _ hc
      · exact J.of_open hc

theorem resumeRead_J (sid : Sid) (mn : String) (fuel : Nat) (s : SStream α) (h : J s) :
    J (s.resumeRead sid mn fuel).1 := by
  cases hc : s.ctxDone with
  | some c => rw [ServerShape.resumeRead_none sid mn fuel s (h (by simp [hc])).2]; exact h
  | none => exact resumeRead_J_open sid mn fuel s hc

theorem readAndSettle_J (sid : Sid) (s : SStream α) (h : J s) : J (s.readAndSettle sid).1 := by
  unfold SStream.readAndSettle
  split; rename_i s1 o1 h1
  apply afterDecode_J
  rw [fst_eq h1]
  exact resumeRead_J sid "" 3 s h

theorem startRecv_J (sid : Sid) (s : SStream α) (h : J s) : J (s.startRecv sid).1 := by
  unfold SStream.startRecv
  extract_lets opName
  split
  · exact afterDecode_J sid _ _ h
  · split
    · exact afterDecode_J sid _ _ (h.of_fields rfl rfl rfl)
    · rename_i hc
      exact readAndSettle_J sid _ (J.of_open hc)

theorem onFrame_J (cfg : SCfg) (sid : Sid) (s : SStream α) (f : C2S α) (h : J s) :
    J (s.onFrame cfg sid f).1 := by
  unfold SStream.onFrame
  split
  · split
    · exact h
    · rename_i hh
      have : s.halfClose .eof = { s with halfClosed := some .eof, rcv := s.rcv.close } := by
        simp [SStream.halfClose, hh]
      rw [this]
      exact readAndSettle_J sid _ (h.of_fields rfl rfl rfl)
  · exact finish_J sid s _ _ h
  · split
    · exact h
    · extract_lets s1
      split
      · exact h.of_fields rfl rfl rfl
      · rename_i snd hsnd
        split; rename_i s2 o2 h2
        apply afterSend_J
        rw [fst_eq h2]
        exact pumpSend_J cfg sid s1 snd (h.of_fields rfl rfl rfl)
  · exact finish_J sid s _ _ h
  · exact h
  · extract_lets df
    split
    · split
      · exact h
      · exact finish_J sid s _ _ h
      · exact readAndSettle_J sid _ (h.of_fields rfl rfl rfl)
    · split
      · exact h
      · split
        · exact h.of_fields rfl rfl rfl
        · exact readAndSettle_J sid _ (h.of_fields rfl rfl rfl)

theorem onCall_J (cfg : SCfg) (sid : Sid) (s : SStream α) (c : HCall α) (h : J s) :
    J (s.onCall cfg sid c).1 := by
  unfold SStream.onCall
  split
  · exact startRecv_J sid s h
  · split; rename_i s1 hdr h1
    have hJ1 : J s1 := by
      rw [fst_eq h1]
      split
      · exact h
      · exact h.of_fields rfl rfl rfl
    split
    · exact hJ1
    · split; rename_i s2 o2 h2
      show J s2
      rw [fst_eq h2]
      exact pumpSend_J cfg sid _ _ (hJ1.of_fields rfl rfl rfl)
  · split
    · exact h
    · exact h.of_fields rfl rfl rfl
  · split
    · exact h
    · exact h.of_fields rfl rfl rfl
  · split
    · exact h
    · exact h.of_fields rfl rfl rfl
  · extract_lets err
    split; rename_i s1 o1 h1
    show J s1
    rw [fst_eq h1]
    exact finish_J sid _ _ _ (h.of_fields rfl rfl rfl)
  · split; rename_i s1 hdr h1
    have hJ1 : J s1 := by
      rw [fst_eq h1]
      split
      · exact h
      · exact h.of_fields rfl rfl rfl
    split; rename_i s2 o2 h2
    split; rename_i s3 o3 h3
    show J s3
    rw [fst_eq h3]
    apply afterSend_J
    rw [fst_eq h2]
    exact pumpSend_J cfg sid _ _ (hJ1.of_fields rfl rfl rfl)

theorem stepEv_J (cfg : SCfg) (sid : Sid) (s : SStream α) (ev : SEv α) (h : J s) : J (s.stepEv cfg sid ev).1 := by
  cases ev with
  | frame f => exact onFrame_J cfg sid s f h
  | call c => exact onCall_J cfg sid s c h
  | ctx e => exact cancelCtx_J sid s e h

/-- `J` is an invariant of every run -/
theorem runEv_J (cfg : SCfg) (sid : Sid) (evs : List (SEv α)) : ∀ (s : SStream α), J s →
    J (SStream.runEv cfg sid s evs).1 := by
  induction evs with
  | nil => intro s h; exact h
  | cons e es ih =>
    intro s h
    rw [runEv_cons]
    exact ih _ (stepEv_J cfg sid s e h)

/-- the return of the handler always settles a reachable stream, whatever is blocked at that moment -/
theorem ret_settles_J (cfg : SCfg) (sid : Sid) (s : SStream α) (st : Status) (h : J s) :
    Settled (s.onCall cfg sid (.ret st)).1 := by
  simp only [SStream.onCall]
  exact finish_settles_J sid _ _ _ (h.of_fields rfl rfl rfl)

/-- **S5, strongest form**: on a stream created with a live context (`ctxDone = none`, as
    `Srv.createStream` does), after *any* events `pre`, if the handler returns (`.call (.ret st)`)
    and no handler call is made afterwards, then no frame at all is emitted after the frames of the
    return itself — whatever the peer sends and whenever the context ends — and if the stream was
    not closed before the return, the last frame of the whole run is the close frame with the
    handler's status: nothing follows the close frame.  The only Legal hypothesis left is "no call
    after the handler returned". -/
theorem S5_close_is_last_reachable (cfg : SCfg) (sid : Sid) (s0 : SStream α) (h0 : s0.ctxDone = none)
    (pre post : List (SEv α)) (st : Status) (hpost : ∀ ev ∈ post, SEv.isCall ev = false) :
    let s := (SStream.runEv cfg sid s0 pre).1
    let r := SStream.runEv cfg sid s0 (pre ++ .call (.ret st) :: post)
    Settled r.1 ∧
    sframes r.2 = sframes (SStream.runEv cfg sid s0 pre).2 ++ kinds (s.onCall cfg sid (.ret st)).2 ∧
    (s.closed = true → sframes r.2 = sframes (SStream.runEv cfg sid s0 pre).2) ∧
    (s.closed = false →
      sframes r.2 = (sframes (SStream.runEv cfg sid s0 pre).2 ++ (if s.sentHeaders then [] else [S2C.headers s.headers])) ++
        [S2C.close (SErr.wireStatus (if st.code = 0 then none else some (.status st))) s.trailers] ∧
      ∀ a f b, sframes r.2 = a ++ f :: b → S.isClose f = true → b = []) := by
  intro s r
  have hJ : J s := runEv_J cfg sid pre s0 (J.of_open h0)
  have hset := ret_settles_J cfg sid s st hJ
  have hrun := S5_settled_run cfg sid post _ hset hpost
  have hr : sframes r.2 = sframes (SStream.runEv cfg sid s0 pre).2 ++ kinds (s.onCall cfg sid (.ret st)).2 := by
    show sframes (SStream.runEv cfg sid s0 (pre ++ .call (.ret st) :: post)).2 = _
    rw [runEv_append, runEv_cons]
    dsimp only
    rw [sframes_append, sframes_cons]
    show _ ++ (_ ++ sframes (SStream.runEv cfg sid (s.onCall cfg sid (.ret st)).1 post).2) = _
    rw [hrun.1, List.append_nil]
    rfl
  refine ⟨?_, hr, fun hc => ?_, fun hc => ?_⟩
  · show Settled (SStream.runEv cfg sid s0 (pre ++ .call (.ret st) :: post)).1
    rw [runEv_append, runEv_cons]
    exact hrun.2
  · have : kinds (s.onCall cfg sid (.ret st)).2 = [] := by
      apply kinds_of_frames_nil
      simp only [SStream.onCall, Out.add, List.append_nil]
      exact finish_frames_closed sid _ _ _ hc
    rw [hr, this, List.append_nil]
  · have hshape : sframes r.2 = (sframes (SStream.runEv cfg sid s0 pre).2 ++
        (if s.sentHeaders then [] else [S2C.headers s.headers])) ++
        [S2C.close (SErr.wireStatus (if st.code = 0 then none else some (.status st))) s.trailers] := by
      rw [hr, ret_frames cfg sid s st hc, List.append_assoc]
    exact ⟨hshape, EndsWithClose.nothing_after ⟨_, _, hshape, rfl⟩
      (S2_at_most_one_close cfg sid s0 (pre ++ .call (.ret st) :: post))⟩

/-! ### non-vacuity, and the counterexamples behind the hypotheses -/

/-- frame kind as a string, to compare emitted frame lists by `decide` (`S2C`/`C2S` have no `DecidableEq`) -/
def S.tag : S2C α → String
  | .settings .. => "settings" | .headers _ => "headers" | .msg .. => "msg" | .more _ => "more"
  | .close .. => "close" | .windowUpdate _ => "wu" | .unset => "unset"

def C.tag : C2S α → String
  | .newStream .. => "new" | .msg .. => "msg" | .more _ => "more" | .halfClose => "halfclose"
  | .cancel => "cancel" | .windowUpdate _ => "wu" | .unset => "unset"

-- a server-streaming handler: headers, then data, then close; nothing after the close frame
-- although the peer goes on sending and the context ends
example :
    let s : SStream Nat := { cs := true, ss := true, unary := false, fc := true, rcv := RcvQ.init 10, win := 10,
                             hstatus := .running }
    (sframes (SStream.runEv {} 1 s [.call .recv, .frame (.msg 1 [7]), .call (.send [1, 2]), .call (.send [3]),
        .call (.ret (mkStatus 0 "")), .frame (.msg 1 [8]), .frame .cancel, .ctx .deadline]).2).map S.tag =
      ["wu", "headers", "msg", "msg", "close"] := by
  decide

-- a unary reply blocked on the window, completed by a window update: the close frame is last
example :
    let s : SStream Nat := { cs := false, ss := false, unary := true, fc := true, rcv := RcvQ.init 10, win := 2,
                             hstatus := .running }
    (sframes (SStream.runEv {} 1 s [.call (.reply [1, 2, 3]), .frame (.msg 1 [8]), .frame (.windowUpdate 5),
        .frame (.windowUpdate 5), .frame .cancel]).2).map S.tag = ["headers", "msg", "more", "close"] := by
  decide

-- THE QUIRK behind the hypotheses of S5: a handler that keeps sending after the client cancelled
-- puts message frames on the wire *after* the close frame ...
example :
    let s : SStream Nat := { cs := true, ss := true, unary := false, fc := true, rcv := RcvQ.init 10, win := 10,
                             hstatus := .running }
    (sframes (SStream.runEv {} 1 s [.call (.send [1]), .frame .cancel, .call (.send [2])]).2).map S.tag =
      ["headers", "msg", "close", "msg"] := by
  decide

-- ... and so does a unary handler that replies after the client cancelled: the hypothesis
-- "not closed when the handler returns its response" of `S5_reply_nothing_after_close` is necessary
example :
    let s : SStream Nat := { cs := false, ss := false, unary := true, fc := true, rcv := RcvQ.init 10, win := 10,
                             hstatus := .running }
    (sframes (SStream.runEv {} 1 s [.frame .cancel, .call (.reply [2])]).2).map S.tag =
      ["headers", "close", "msg"] := by
  decide

-- S3 needs a fresh stream (`psend = none`): from an (unreachable) state with a send in progress
-- but no headers sent, a window update emits data without headers
example :
    let s : SStream Nat := { cs := true, ss := true, unary := false, fc := true, rcv := RcvQ.init 10, win := 0,
                             hstatus := .running, psend := some (Snd.start [1]) }
    (sframes (SStream.runEv {} 1 s [.frame (.windowUpdate 5)]).2).map S.tag = ["msg"] := by
  decide

-- S6 on a concrete endpoint: unknown method → exactly one close frame, no stream object
example :
    let r := ({} : Srv Nat).step {} (.frame 0 (.newStream [47, 97, 47, 98] [] 1 65536))
    r.2.frames.map (fun f => (f.1, S.tag f.2)) = [(0, "close")] ∧ r.1.streams.length = 0 := by
  decide

-- C3: the contract is satisfiable on a non-trivial run (a send that blocks on the window and is
-- completed by a window update, then `CloseSend`, then more window updates, a read, the close
-- frame), and the frames are as expected
example :
    let s : CStream Nat := { cs := true, ss := true, fc := true, rcv := RcvQ.init 10, win := 2 }
    let evs : List (CEv Nat) := [.call (.send [1, 2, 3]), .frame (.windowUpdate 5), .call .closeSend,
      .frame (.windowUpdate 5), .call .recv, .frame (.msg 1 [9]), .frame (.close (mkStatus 0 "") [])]
    legalCloseSend {} 1 s false evs = true ∧ CStream.legalSends {} 1 s false evs = true ∧
    (cframes (CStream.runEv {} 1 s evs).2).map C.tag = ["msg", "more", "halfclose", "wu"] := by
  decide

-- C3 is false without "`CloseSend` only when no send is in progress": a send blocked on the
-- window when `CloseSend` is called continues after the half-close frame
example :
    let s : CStream Nat := { cs := true, ss := true, fc := true, rcv := RcvQ.init 10, win := 2 }
    let evs : List (CEv Nat) := [.call (.send [1, 2, 3]), .call .closeSend, .frame (.windowUpdate 5)]
    legalCloseSend {} 1 s false evs = false ∧ CStream.legalSends {} 1 s false evs = true ∧
    (cframes (CStream.runEv {} 1 s evs).2).map C.tag = ["msg", "halfclose", "more"] := by
  decide

-- C1: the bounds are attained
example :
    let s : CStream Nat := { cs := true, ss := true, fc := true, rcv := RcvQ.init 10, win := 2 }
    (cframes (CStream.runEv {} 1 s [.call .closeSend, .call .closeSend, .call .cancel, .call .cancel,
        .ctx .deadline]).2).map C.tag = ["halfclose", "cancel"] := by
  decide

end Proofs.Conformance

#print axioms Proofs.Conformance.S1_at_most_one_headers
#print axioms Proofs.Conformance.S1_headers_iff_flag
#print axioms Proofs.Conformance.S2_at_most_one_close
#print axioms Proofs.Conformance.S2_close_iff_flag
#print axioms Proofs.Conformance.S2_exactly_one_close
#print axioms Proofs.Conformance.S3_headers_before_data
#print axioms Proofs.Conformance.S4_no_settings
#print axioms Proofs.Conformance.S4_start
#print axioms Proofs.Conformance.S4_step_no_settings
#print axioms Proofs.Conformance.S4_run_no_settings
#print axioms Proofs.Conformance.S5_settled_step
#print axioms Proofs.Conformance.S5_settled_run
#print axioms Proofs.Conformance.ret_settles
#print axioms Proofs.Conformance.S5_close_is_last
#print axioms Proofs.Conformance.S5_ret_nothing_after_close
#print axioms Proofs.Conformance.S5_ret_after_close_silent
#print axioms Proofs.Conformance.S5_close_is_last_reachable
#print axioms Proofs.Conformance.S5_reply_nothing_after_close
#print axioms Proofs.Conformance.S6_rejected
#print axioms Proofs.Conformance.S6_accepted
#print axioms Proofs.Conformance.S6_newStream_frame
#print axioms Proofs.Conformance.S7_no_window_update
#print axioms Proofs.Conformance.C1_at_most_one_halfClose
#print axioms Proofs.Conformance.C1_halfClose_iff_flag
#print axioms Proofs.Conformance.C1_at_most_one_cancel
#print axioms Proofs.Conformance.C2_no_newStream
#print axioms Proofs.Conformance.C3_no_data_after_halfClose
#print axioms Proofs.Conformance.C3_no_data_after_halfClose_legal
#print axioms Proofs.Conformance.C4_no_window_update
